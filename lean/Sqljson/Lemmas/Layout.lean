import Sqljson.Lemmas.RoundTrip
/-!
# Layout, parentheses, spellings: other texts of a path parse to the same tree

Lemma layer of `Props/C03b`.  `Lemmas/RoundTrip` proves `Parse(p.String()) = p` for the printer's one
canonical text.  Here the same is proved for the OTHER spellings the syntax permits.  Contents, in order:

1. **Separators and the lexer on any layout.**  `Sep` (blanks, tabs, newlines, carriage returns,
   `/* … */` comments), `skip_sep`, `skip_sep_end`: the body of `Lex` skips them entirely.  `Item`,
   `tolOf`, `ItemOK`, `canon`, `render`, `LayoutOKp` / `LayoutOK` / `LayoutSimple`, `GapsR`, `lexes_render`:
   tokens, each preceded by an arbitrary separator and followed by a character it tolerates, lex to
   exactly these tokens.  `Gaps`, `Resp`, `RespL`, `gapsR_of_gaps`, `Seg`, `layout_lexes`: a piece of
   canonical text with its token boundaries; `Seg` is `RoundTrip.Seg` strengthened by the decomposition
   into items.  The combinators (`Seg.nil`, `Seg.mono`, `Seg.app`, `Seg.app_cons`, `Seg.lexes`,
   `seg_of_tokAt`, `seg_sp_of_tokAt`) have the signatures of `RoundTrip` (the last two with three more
   hypotheses: the token does not start with white space, it tolerates white space and `/` after it,
   and `tolOf` is sound for it), so that
2. **the fork**: the declarations of `Lemmas/RoundTrip` that depend on `Seg` / `Lexes` / `LStr` / `RunsV`
   are repeated here verbatim over the new definitions (`LStr []` now allows a last separator before
   the end of the source); everything else is used from `RoundTrip`.  Macros: `lstep` / `lexact`.
   `parse_layout`, `layout_pred`, `layout_expr`, `layout_stage5`: the class `RoundTrip.RT5`.
3. `tokSplit`, `renderT`, `LayoutOKT`, **`layout_independent`**: the explicit form.
4. **Spellings of one token** (`RoundTrip.TokAt` statements, "whatever follows"): string escapes
   (`SpellsEsc`, `SpellsChar`, `SpellsStr`, `tokAt_string_spelled`, `tokAt_variable_spelled`,
   `SpellsIdent`, `tokAt_ident_spelled`); integers (`BaseDigits`, `tokAt_based`, `tokAt_dec_sep`,
   `parseInt0_based`, `newInteger_based`, `parseInt0_neg_based`); non-integer numbers (`FloatForm`,
   `EndsNumeric`, `tokAt_float`, `tokAt_dot_float`); keyword case, `<>`, bare identifiers and variables
   (`OrUp`, `tokAt_kw_case`, `tokAt_lit_case`, `tokAt_ltgt`, `tokAt_ident`, `tokAt_var`), and the parser
   lemmas for keyword tokens with arbitrary text (`accOp_plainKey`, `accOp_kwKey`, `accOp_method_any`,
   `isUnknown_atom_any`, `existsE_atom_any`, `startsE_atom_any`, `regexE_atom_flag_any`, …).
5. `PieceResp`, **`spelling_independent`**; `ModeSp`, `layout_mode`; a checker `sepB` / `layoutOKTB`.
6. **The print-free relational layer** — "`txt` is a spelling of …": `ExprT`, `PredT`, `StepT`, `ChainT`,
   `SubT`, `SubsT`, `SpellInv`, with rule lemmas (`exprT_paren`, `predT_paren`, `exprT_mul`, …,
   `exprT_paren_chain`), `layout_exprT`, `layout_predT`, `redundant_parens_stage5`, `fewer_parens_stage5`.
7. **Precedence and associativity**: `mulTree`, `sumTree`, `andTree`, `orTree`, `mulLoop_chain`,
   `arithLoop_chain`, `predLoop_chain`, `ESpecC`, `ExprTC`, `PredTC`, `layout_expr_chain`,
   `layout_pred_chain`, `cmp_nonassoc`.
8. **The grammar** `Sp` with all token-spelling freedoms, `Sp.sound`, `spells_parse`, `spells_layout`,
   `rt5_generated_core`.
9. **The parser is a function of the token stream**: `IntEq`, `TokEqX`, `TokEqLX` (integer literals of equal
   value, keywords in any case except directly after a dot, bare / quoted / keyword key names after a dot),
   the relational calculus `Sim`, `allSim` (all 16 functions of the mutual block), `sim_parseBodyX`,
   `parse_tok_simX`; `LayoutStrict`, `gapsR_of_strict`, `toksOf`, `parse_tokens_equiv`,
   `tokens_equiv_stage5`; the token kinds as items (`itSolo`, `itKw`, `itStr`, `itInt`, `itIntB`, …).
-/

namespace Sqljson
namespace Layout
open Parse Lex ParseLemmas RoundTrip
set_option linter.unusedSimpArgs false
set_option linter.unusedSectionVars false

/-! ## Separators: what `Lex` skips between tokens -/

/-- the comment body does not contain `*/` -/
def noClose : List Char → Bool
  | a :: b :: t => !(a == '*' && b == '/') && noClose (b :: t)
  | _ => true

/-- a separator: blanks, tabs, newlines, carriage returns and `/* … */` comments, in any number and order -/
inductive Sep : List Char → Prop
  | nil : Sep []
  | ws {c : Char} {s : List Char} (hc : isWhitespace c = true) (hs : Sep s) : Sep (c :: s)
  | comment {body s : List Char} (hn : NoNul body) (hb : noClose body = true) (hs : Sep s) :
      Sep ('/' :: '*' :: (body ++ '*' :: '/' :: s))

/-- the first character of a non-empty separator: white space or `/` -/
def SepStart (y : Option Char) : Prop := ∃ c, y = some c ∧ (isWhitespace c = true ∨ c = '/')

theorem ws_ne_zero {c : Char} (h : isWhitespace c = true) : c.toNat ≠ 0 := by
  simp only [isWhitespace, Bool.or_eq_true, decide_eq_true_eq] at h
  rcases h with ((h | h) | h) | h <;> subst h <;> decide

theorem Sep.noNul {s : List Char} (h : Sep s) : NoNul s := by
  induction h with
  | nil => exact NoNul.nil
  | ws hc _ ih => exact NoNul.cons (ws_ne_zero hc) ih
  | comment hn _ _ ih =>
    exact NoNul.cons (by decide) (NoNul.cons (by decide)
      (hn.append (NoNul.cons (by decide) (NoNul.cons (by decide) ih))))

theorem Sep.append {s t : List Char} (h : Sep s) (ht : Sep t) : Sep (s ++ t) := by
  induction h with
  | nil => exact ht
  | ws hc _ ih => exact Sep.ws hc ih
  | comment hn hb _ ih =>
    have := Sep.comment hn hb ih
    simpa using this

theorem Sep.head {s : List Char} (h : Sep s) (hne : s ≠ []) : SepStart s.head? := by
  cases h with
  | nil => exact absurd rfl hne
  | ws hc _ => exact ⟨_, rfl, Or.inl hc⟩
  | comment _ _ _ => exact ⟨'/', rfl, Or.inr rfl⟩

theorem Sep.blank : Sep [' '] := Sep.ws (by decide) Sep.nil

theorem Sep.length_pos {s : List Char} (_ : Sep s) (hne : s ≠ []) : 1 ≤ s.length := by
  cases s with
  | nil => exact absurd rfl hne
  | cons _ _ => simp

/-- the loop of `scanComment` runs to the first `*/` -/
theorem commentLoop_body (st : LState) (r : List Char) (hr : NoNul r) :
    ∀ (body : List Char), NoNul body → noClose body = true → ∀ f, body.length + 1 ≤ f →
      commentLoop f (body ++ '*' :: '/' :: r).head? (fd st (body ++ '*' :: '/' :: r).tail)
        = (r.head?, fd st r.tail) := by
  intro body
  induction body with
  | nil =>
    intro _ _ f hf
    obtain ⟨f', rfl⟩ : ∃ f', f = f' + 1 := ⟨f - 1, by simp at hf; omega⟩
    simp only [List.nil_append, List.head?_cons, List.tail_cons]
    unfold commentLoop
    simp [next_fd_cons _ _ _ (show ('/' : Char).toNat ≠ 0 by decide), next_fd _ _ hr]
  | cons a body ih =>
    intro hn hb f hf
    obtain ⟨f', rfl⟩ : ∃ f', f = f' + 1 := ⟨f - 1, by simp at hf; omega⟩
    have hn' := (NoNul.of_cons hn).2
    have hrest : NoNul (body ++ '*' :: '/' :: r) :=
      hn'.append (NoNul.cons (by decide) (NoNul.cons (by decide) hr))
    have hb' : noClose body = true := by
      cases body with
      | nil => rfl
      | cons b t => simp only [noClose, Bool.and_eq_true] at hb; exact hb.2
    have hcond : (decide (a = '*') && decide ((body ++ '*' :: '/' :: r).head? = some '/')) = false := by
      cases body with
      | nil => simp
      | cons b t =>
        simp only [noClose, Bool.and_eq_true, Bool.not_eq_true', Bool.and_eq_false_iff, beq_eq_false_iff_ne] at hb
        simp only [List.cons_append, List.head?_cons, Option.some.injEq, Bool.and_eq_false_iff,
          decide_eq_false_iff_not]
        exact hb.1
    simp only [List.cons_append, List.head?_cons, List.tail_cons]
    unfold commentLoop
    simp only [next_fd _ _ hrest, hcond, Bool.false_eq_true, if_false]
    exact ih hn' hb' f' (by simp at hf ⊢; omega)

section
variable (o : Oracles)

/-- the body of `Lex` skips one white-space character -/
theorem lexFrom_ws (f : Nat) (st : LState) (w x : Char) (l : List Char) (hw : isWhitespace w = true)
    (hx : x.toNat ≠ 0) :
    lexFrom o (f + 1) (some w) (fd st (x :: l)) = lexFrom o (f + 1) (some x) (fd st l) := by
  have h1 : skipWs ((fd st (x :: l)).rest.length + 3) (some w) (fd st (x :: l))
      = skipWs ((fd st l).rest.length + 3) (some x) (fd st l) := by
    have : (fd st (x :: l)).rest.length + 3 = ((fd st l).rest.length + 3) + 1 := by simp
    rw [this, skipWs]
    simp only [hw, if_true, next_fd_cons _ _ _ hx]
  rw [lexFrom, lexFrom, h1]

/-- white space before the end of the input -/
theorem lexFrom_ws_end (f : Nat) (st : LState) (w : Char) (hw : isWhitespace w = true) :
    lexFrom o (f + 1) (some w) (fd st []) = lexFrom o (f + 1) none (fd st []) := by
  have h1 : skipWs ((fd st []).rest.length + 3) (some w) (fd st [])
      = skipWs ((fd st []).rest.length + 3) none (fd st []) := by
    have : (fd st []).rest.length + 3 = 2 + 1 := by simp
    rw [this]
    simp [skipWs, hw, next, fd]
  rw [lexFrom, lexFrom, h1]

theorem lexFrom_end (f : Nat) (st : LState) :
    lexFrom o (f + 1) none (fd st []) = ⟨.stop, [], none, fd st []⟩ := by
  rw [lexFrom]
  simp [skipWs]

variable (ok : RoundTrip.OrOK o)
include ok

/-- the body of `Lex` skips one comment (and uses one unit of its fuel) -/
theorem lexFrom_comment (f : Nat) (st : LState) (body R : List Char) (hn : NoNul body)
    (hb : noClose body = true) (hR : NoNul R) :
    lexFrom o (f + 2) (some '/') (fd st ('*' :: (body ++ '*' :: '/' :: R)))
      = lexFrom o (f + 1) R.head? (fd st R.tail) := by
  have hx := ok.punctS '/' (by decide)
  have hrest : NoNul (body ++ '*' :: '/' :: R) :=
    hn.append (NoNul.cons (by decide) (NoNul.cons (by decide) hR))
  have hc := commentLoop_body st R hR body hn hb ((fd st (body ++ '*' :: '/' :: R).tail).rest.length + 3)
    (by simp; omega)
  rw [lexFrom]
  rw [skipWs_nonws _ _ _ (by decide)]
  simp only [isIdentStart, hx, next_fd_cons _ _ _ (show ('*' : Char).toNat ≠ 0 by decide),
    next_fd _ _ hrest, hc]
  simp [isDecimal]

/-- **`skip_sep`**: the body of `Lex` started on a separator followed by the character `c` skips the
    separator entirely and goes on with `c` (each comment uses one unit of fuel) -/
theorem skip_sep {sep : List Char} (hs : Sep sep) (st : LState) (c : Char) (R : List Char) (hc : c.toNat ≠ 0)
    (hR : NoNul R) :
    ∀ f, sep.length ≤ f → ∃ f', lexFrom o (f + 1) (sep ++ c :: R).head? (fd st (sep ++ c :: R).tail)
      = lexFrom o (f' + 1) (some c) (fd st R) := by
  induction hs with
  | nil => intro f _; exact ⟨f, rfl⟩
  | @ws w s hw hs ih =>
    intro f hf
    obtain ⟨f', h'⟩ := ih f (by simp at hf; omega)
    refine ⟨f', ?_⟩
    rw [← h']
    simp only [List.cons_append, List.head?_cons, List.tail_cons]
    cases hsR : s ++ c :: R with
    | nil => simp at hsR
    | cons x l =>
      have hx : x.toNat ≠ 0 := by
        have : NoNul (s ++ c :: R) := hs.noNul.append (NoNul.cons hc hR)
        rw [hsR] at this
        exact (NoNul.of_cons this).1
      simp only [List.head?_cons, List.tail_cons]
      exact lexFrom_ws o f st w x l hw hx
  | @comment body s hn hb hs ih =>
    intro f hf
    obtain ⟨f0, rfl⟩ : ∃ f0, f = f0 + 1 := ⟨f - 1, by simp at hf; omega⟩
    obtain ⟨f', h'⟩ := ih f0 (by simp at hf; omega)
    refine ⟨f', ?_⟩
    rw [← h']
    have hR' : NoNul (s ++ c :: R) := hs.noNul.append (NoNul.cons hc hR)
    have := lexFrom_comment o ok f0 st body (s ++ c :: R) hn hb hR'
    simpa using this

/-- a separator before the end of the input: `Lex` answers `stopTok` -/
theorem skip_sep_end {sep : List Char} (hs : Sep sep) (st : LState) :
    ∀ f, sep.length ≤ f → lexFrom o (f + 1) sep.head? (fd st sep.tail) = ⟨.stop, [], none, fd st []⟩ := by
  induction hs with
  | nil => intro f _; exact lexFrom_end o f st
  | @ws w s hw hs ih =>
    intro f hf
    have h' := ih f (by simp at hf; omega)
    rw [← h']
    simp only [List.head?_cons, List.tail_cons]
    cases s with
    | nil => exact lexFrom_ws_end o f st w hw
    | cons x l =>
      have hx : x.toNat ≠ 0 := (NoNul.of_cons hs.noNul).1
      simp only [List.head?_cons, List.tail_cons]
      exact lexFrom_ws o f st w x l hw hx
  | @comment body s hn hb hs ih =>
    intro f hf
    obtain ⟨f0, rfl⟩ : ∃ f0, f = f0 + 1 := ⟨f - 1, by simp at hf; omega⟩
    have h' := ih f0 (by simp at hf; omega)
    rw [← h']
    have := lexFrom_comment o ok f0 st body s hn hb hs.noNul
    simpa using this

end

/-! ## Tokens of a text, and the text in another layout -/

/-- one token of a text: whether the canonical text has a blank before it (`sp`), its text `c :: w`,
    the token `tk` the lexer makes of it, and the condition `C` on the character after it under
    which it does so -/
structure Item where
  sp : Bool
  c : Char
  w : List Char
  tk : TT
  C : Option Char → Prop

/-- punctuation that is a token by itself whatever follows, and first characters of `==`, `&&`, `||` -/
def closedPunct : List Char := ['(', ')', '[', ']', '{', '}', ',', '?', '@', '+', '-', '%', '=', '&', '|']

/-- **`tolOf t d`**: a syntactic, sufficient criterion for "the token text `t` may be directly followed
    by the character `d`" (without changing the token), decided from the first character of `t`:
    a number tolerates the ASCII punctuation except `.` (and `@`); `$` all of it but `"`; a bare variable
    `$name` all of it; a string, `$"…"`, the two-character operators and `( ) [ ] { } , ? @ + - %` tolerate
    everything; `.` everything but a digit; `<` all but `=` `>`; `>` and `!` all but `=`; `*` and `/` all
    but `*`; anything else is a word (keyword, identifier) and tolerates the ASCII punctuation.
    (Soundness is part of `ItemOK`: it is proved token by token.) -/
def tolOf (t : List Char) (d : Char) : Bool :=
  match t with
  | [] => false
  | a :: w =>
    if isDecimal a then punct.contains d && d != '.' && d != '@'
    else if a = '$' then
      (match w with
        | [] => punct.contains d && d != '"'
        | b :: _ => if b = '"' then true else punct.contains d)
    else if a = '"' then true
    else if a = '.' then w.isEmpty && !isDecimal d
    else if a = '<' then !w.isEmpty || (d != '=' && d != '>')
    else if a = '>' || a = '!' then !w.isEmpty || d != '='
    else if a = '*' || a = '/' then !w.isEmpty || d != '*'
    else if closedPunct.contains a then true
    else punct.contains d

/-- the item is a token: the scanner started on `c` reads exactly `c :: w` and returns `tk` whenever the
    next character satisfies `C`; `C` holds of white space and of `/` (so any separator may follow), and
    of the characters `tolOf` says the text tolerates -/
def ItemOK (o : Oracles) (it : Item) : Prop :=
  TokAt o it.C it.c it.w it.tk ∧ it.c.toNat ≠ 0 ∧ NoNul it.w ∧ it.tk.1 ≠ .stop ∧ isWhitespace it.c = false ∧
    (∀ y, SepStart y → it.C y) ∧ ∀ d, tolOf (it.c :: it.w) d = true → it.C (some d)

/-- the canonical text: one blank where `sp` says so -/
def canon : List Item → List Char
  | [] => []
  | it :: r => (if it.sp then [' '] else []) ++ (it.c :: it.w ++ canon r)

/-- **`render`**: the token texts interleaved with the separators `seps` (one before each token) -/
def render : List Item → List (List Char) → List Char
  | it :: r, s :: ss => s ++ (it.c :: it.w ++ render r ss)
  | _, _ => []

/-- the separators of the canonical text -/
def canonSeps (items : List Item) : List (List Char) := items.map (fun it => if it.sp then [' '] else [])

theorem render_canon (items : List Item) : render items (canonSeps items) = canon items := by
  induction items with
  | nil => rfl
  | cons it r ih => simp only [canonSeps, List.map_cons, render, canon] at ih ⊢; rw [ih]

/-- one separator before every token; where the canonical text has a blank the separator must not be
    empty — unless the text `prev` of the token before it tolerates the first character of this one -/
def LayoutOKp : Option (List Char) → List Item → List (List Char) → Prop
  | _, [], [] => True
  | prev, it :: r, s :: ss =>
    Sep s ∧ (it.sp = true → s ≠ [] ∨ ∃ p, prev = some p ∧ tolOf p it.c = true) ∧
      LayoutOKp (some (it.c :: it.w)) r ss
  | _, _, _ => False

/-- **`Layout`**: `LayoutOKp` from the beginning of the text -/
def LayoutOK (items : List Item) (seps : List (List Char)) : Prop := LayoutOKp none items seps

/-- the simple sufficient condition: non-empty wherever the canonical text has a blank -/
def LayoutSimple : List Item → List (List Char) → Prop
  | [], [] => True
  | it :: r, s :: ss => Sep s ∧ (it.sp = true → s ≠ []) ∧ LayoutSimple r ss
  | _, _ => False

theorem layoutOKp_of_simple : ∀ {items : List Item} {seps : List (List Char)} (prev : Option (List Char)),
    LayoutSimple items seps → LayoutOKp prev items seps := by
  intro items
  induction items with
  | nil => intro seps prev h; cases seps with
    | nil => trivial
    | cons _ _ => exact h
  | cons it r ih =>
    intro seps prev h
    cases seps with
    | nil => exact h
    | cons s ss => exact ⟨h.1, fun hsp => Or.inl (h.2.1 hsp), ih _ h.2.2⟩

theorem layoutOK_of_simple {items : List Item} {seps : List (List Char)} (h : LayoutSimple items seps) :
    LayoutOK items seps := layoutOKp_of_simple none h

theorem layoutSimple_canon (items : List Item) : LayoutSimple items (canonSeps items) := by
  induction items with
  | nil => trivial
  | cons it r ih =>
    refine ⟨?_, ?_, ih⟩
    · show Sep (if it.sp = true then [' '] else [])
      cases it.sp
      · exact Sep.nil
      · exact Sep.blank
    · intro h
      show (if it.sp = true then [' '] else []) ≠ []
      simp [h]

theorem layoutOK_canon (items : List Item) : LayoutOK items (canonSeps items) :=
  layoutOK_of_simple (layoutSimple_canon items)

theorem LayoutOKp.length {items : List Item} : ∀ {prev : Option (List Char)} {seps : List (List Char)},
    LayoutOKp prev items seps → seps.length = items.length := by
  induction items with
  | nil => intro prev seps h; cases seps with
    | nil => rfl
    | cons _ _ => exact absurd h (by simp [LayoutOKp])
  | cons it r ih => intro prev seps h; cases seps with
    | nil => exact absurd h (by simp [LayoutOKp])
    | cons s ss => simp [ih h.2.2]

theorem LayoutOKp.sep {items : List Item} : ∀ {prev : Option (List Char)} {seps : List (List Char)},
    LayoutOKp prev items seps → ∀ s ∈ seps, Sep s := by
  induction items with
  | nil => intro prev seps h; cases seps with
    | nil => intro s hs; simp at hs
    | cons _ _ => exact absurd h (by simp [LayoutOKp])
  | cons it r ih => intro prev seps h; cases seps with
    | nil => exact absurd h (by simp [LayoutOKp])
    | cons s ss =>
      intro s' hs'
      simp at hs'
      rcases hs' with hs' | hs'
      · subst hs'; exact h.1
      · exact ih h.2.2 s' hs'

theorem LayoutOK.length {items : List Item} {seps : List (List Char)} (h : LayoutOK items seps) :
    seps.length = items.length := LayoutOKp.length h

theorem LayoutOK.sep {items : List Item} {seps : List (List Char)} (h : LayoutOK items seps) :
    ∀ s ∈ seps, Sep s := LayoutOKp.sep h

/-- every token is followed, in the rendered text continued by `x`, by a character it tolerates -/
def GapsR : List Item → List (List Char) → List Char → Prop
  | it :: r, _ :: ss, x => it.C (render r ss ++ x).head? ∧ GapsR r ss x
  | _, _, _ => True

section
variable (o : Oracles)

/-- successive calls of `Lex` from `s` return exactly the tokens `ts` and then `stopTok`, without
    error and with the source exhausted; before the end there may be a last separator -/
def LStr : List TT → LState → Prop
  | [], s => ∃ s', Lex.lex o s = (.stop, [], s') ∧ At [] s'
  | tk :: ts, s => tk.1 ≠ .stop ∧ ∃ s', Lex.lex o s = (tk.1, tk.2, s') ∧ s'.oof = false ∧ LStr ts s'

/-- the text `l` is the token sequence `ts` -/
def Lexes (l : List Char) (ts : List TT) : Prop := ∀ s, At l s → LStr o ts s

theorem lstr_nil_of_at (s : LState) (h : At [] s) : LStr o [] s := by
  obtain ⟨rest, ch, err, oof⟩ := s
  obtain ⟨h1, h2, h3⟩ := h
  simp only at h1 h2 h3
  rcases h3 with ⟨h3, h4⟩ | ⟨c, r, h3, _⟩
  · subst h1; subst h2; subst h3
    simp only [List.map_nil] at h4
    subst h4
    refine ⟨{ rest := [], ch := none, err := false, oof := false }, ?_, rfl, rfl, Or.inl ⟨rfl, rfl⟩⟩
    simp [Lex.lex, next, lexFrom, skipWs]
  · simp at h3

theorem lexes_nil : Lexes o [] [] := fun s h => lstr_nil_of_at o s h

/-- at the end of the token stream `Lex` answers `stopTok` and stands at the end of the source -/
theorem lex_at_nil (s : LState) (h : LStr o [] s) : ∃ s', Lex.lex o s = (.stop, [], s') ∧ At [] s' := h

/-- `Lex` on a state standing before `x :: l'`, given what its body does there -/
theorem lex_of_at (x : Char) (l' r : List Char) (hx : x.toNat ≠ 0) (a : Tok) (b : List Char)
    (h : ∀ st : LState, st.err = false →
      lexFrom o (l'.length + 3) (some x) (fd st l') = ⟨a, b, r.head?, fd st r.tail⟩)
    (s : LState) (hs : At (x :: l') s) : ∃ s', Lex.lex o s = (a, b, s') ∧ At r s' := by
  obtain ⟨rest, ch, err, oof⟩ := s
  obtain ⟨h1, h2, h3⟩ := hs
  simp only at h1 h2 h3
  subst h1; subst h2
  rcases h3 with ⟨h3, h4⟩ | ⟨c', r', h3, h4, h5⟩
  · subst h3; subst h4
    let st : LState := { rest := [], ch := none, err := false, oof := false }
    refine ⟨{ fd st r.tail with ch := r.head? }, ?_, at_of_tail st r rfl rfl⟩
    have hn : next { rest := List.map Src.ch (x :: l'), ch := none, err := false, oof := false }
        = (some x, fd st l') := by
      simp [next, hx, fd, st]
    unfold Lex.lex
    simp only [hn]
    have hl : (fd st l').rest.length + 3 = l'.length + 3 := by simp
    rw [hl, h st rfl]
  · injection h3 with h3a h3b
    subst h3a; subst h3b; subst h4; subst h5
    let st : LState := { rest := [], ch := some x, err := false, oof := false }
    refine ⟨{ fd st r.tail with ch := r.head? }, ?_, at_of_tail st r rfl rfl⟩
    unfold Lex.lex
    simp only
    have : ({ rest := List.map Src.ch l', ch := some x, err := false, oof := false } : LState)
        = fd st l' := rfl
    rw [this]
    have hl : (List.map Src.ch l').length + 3 = l'.length + 3 := by simp
    rw [hl, h st rfl]

/-- a last separator before the end of the source is no token -/
theorem lexes_sep (ok : RoundTrip.OrOK o) {sep : List Char} (hsep : Sep sep) : Lexes o sep [] := by
  intro s hat
  cases sep with
  | nil => exact lstr_nil_of_at o s hat
  | cons x l' =>
    have hx : x.toNat ≠ 0 := (NoNul.of_cons hsep.noNul).1
    have := lex_of_at o x l' [] hx .stop [] (fun st _ => by
      have := skip_sep_end o ok hsep st (l'.length + 2) (by simp)
      simpa using this) s hat
    exact this

/-- `Lex` standing before a separator followed by a token -/
theorem lex_sep_tok (ok : RoundTrip.OrOK o) {C : Option Char → Prop} {c : Char} {w : List Char} {tk : TT}
    (h : TokAt o C c w tk) (hc : c.toNat ≠ 0) (hw : NoNul w) {sep : List Char} (hsep : Sep sep)
    (r : List Char) (hr : NoNul r) (hy : C r.head?)
    (s : LState) (hs : At (sep ++ c :: (w ++ r)) s) :
    ∃ s', Lex.lex o s = (tk.1, tk.2, s') ∧ At r s' := by
  cases hl : sep ++ c :: (w ++ r) with
  | nil => simp at hl
  | cons x l' =>
    have hn : NoNul (sep ++ c :: (w ++ r)) := hsep.noNul.append (NoNul.cons hc (hw.append hr))
    rw [hl] at hn hs
    refine lex_of_at o x l' r (NoNul.of_cons hn).1 tk.1 tk.2 ?_ s hs
    intro st he
    have hlen : sep.length ≤ l'.length + 2 := by
      have := congrArg List.length hl
      simp at this
      omega
    obtain ⟨f', hf'⟩ := skip_sep o ok hsep st c (w ++ r) hc (hw.append hr) (l'.length + 2) hlen
    rw [hl] at hf'
    simp only [List.head?_cons, List.tail_cons] at hf'
    rw [hf']
    exact h f' st r he hr hy

theorem render_noNul {items : List Item} (hok : ∀ it ∈ items, ItemOK o it) :
    ∀ {seps : List (List Char)}, (∀ s ∈ seps, Sep s) → NoNul (render items seps) := by
  induction items with
  | nil => intro seps _; cases seps <;> exact NoNul.nil
  | cons it r ih =>
    intro seps hs
    cases seps with
    | nil => exact NoNul.nil
    | cons s ss =>
      have h1 := hok it (by simp)
      exact (hs s (by simp)).noNul.append (NoNul.cons h1.2.1 (h1.2.2.1.append
        (ih (fun it' h' => hok it' (by simp [h'])) (fun s' h' => hs s' (by simp [h'])))))

theorem render_length {items : List Item} :
    ∀ {seps : List (List Char)}, seps.length = items.length → items.length ≤ (render items seps).length := by
  induction items with
  | nil => intro seps _; simp
  | cons it r ih =>
    intro seps hl
    cases seps with
    | nil => simp at hl
    | cons s ss =>
      have := ih (seps := ss) (by simpa using hl)
      simp only [render, List.length_append, List.length_cons]
      omega

/-- **The lexer on a rendered text.**  Tokens, each preceded by an arbitrary separator and followed by
    a character it tolerates, lex to exactly these tokens; `x` is the rest of the text. -/
theorem lexes_render (ok : RoundTrip.OrOK o) (items : List Item) (hok : ∀ it ∈ items, ItemOK o it) :
    ∀ (seps : List (List Char)), seps.length = items.length → (∀ s ∈ seps, Sep s) →
    ∀ (x : List Char) (ts' : List TT), NoNul x → GapsR items seps x → Lexes o x ts' →
      Lexes o (render items seps ++ x) (items.map (·.tk) ++ ts') := by
  induction items with
  | nil =>
    intro seps hl _ x ts' _ _ hx
    cases seps with
    | nil => simpa [render] using hx
    | cons _ _ => simp at hl
  | cons it r ih =>
    intro seps hl hs x ts' hx hg hlx
    cases seps with
    | nil => simp at hl
    | cons s ss =>
      have hit := hok it (by simp)
      have hok' : ∀ it' ∈ r, ItemOK o it' := fun it' h' => hok it' (by simp [h'])
      have hs' : ∀ s' ∈ ss, Sep s' := fun s' h' => hs s' (by simp [h'])
      have hnr : NoNul (render r ss ++ x) := (render_noNul o hok' hs').append hx
      have ih' := ih hok' ss (by simpa using hl) hs' x ts' hx hg.2 hlx
      intro s0 hs0
      have hs0' : At (s ++ it.c :: (it.w ++ (render r ss ++ x))) s0 := by
        simpa [render, List.append_assoc] using hs0
      obtain ⟨s', h1, h2⟩ := lex_sep_tok o ok hit.1 hit.2.1 hit.2.2.1 (hs s (by simp)) _ hnr hg.1 s0 hs0'
      exact ⟨hit.2.2.2.1, s', h1, h2.2.1, ih' s' h2⟩

end

/-! ## The canonical text: what is known of the gaps -/

/-- every token of the canonical text is followed by a character it tolerates; `C` is what is known of
    the character after the last one -/
def Gaps : List Item → (Option Char → Prop) → Prop
  | [], _ => True
  | it :: r, C => (∀ x : List Char, C x.head? → it.C (canon r ++ x).head?) ∧ Gaps r C

theorem Gaps.mono {items : List Item} {C C' : Option Char → Prop} (h : Gaps items C) (hc : ∀ y, C' y → C y) :
    Gaps items C' := by
  induction items with
  | nil => trivial
  | cons it r ih => exact ⟨fun x hx => h.1 x (hc _ hx), ih h.2⟩

theorem canon_append (a b : List Item) : canon (a ++ b) = canon a ++ canon b := by
  induction a with
  | nil => rfl
  | cons it r ih => simp [canon, ih]

theorem Gaps.append {a b : List Item} {C1 C2 : Option Char → Prop} (h1 : Gaps a C1) (h2 : Gaps b C2)
    (hc : ∀ r : List Char, C2 r.head? → C1 (canon b ++ r).head?) : Gaps (a ++ b) C2 := by
  induction a with
  | nil => exact h2
  | cons it r ih =>
    refine ⟨?_, ih h1.2⟩
    intro x hx
    show it.C (canon (r ++ b) ++ x).head?
    rw [canon_append, List.append_assoc]
    exact h1.1 (canon b ++ x) (hc x hx)

/-- a respelling of a token: the same token from another text, tolerating at least what the original
    tolerates after it; its first character is the same unless the canonical text has a blank before it -/
def Resp (o : Oracles) (it it' : Item) : Prop :=
  it'.sp = it.sp ∧ it'.tk = it.tk ∧ ItemOK o it' ∧ (∀ y, it.C y → it'.C y) ∧ (it'.c = it.c ∨ it.sp = true)

theorem Resp.refl {o : Oracles} {it : Item} (h : ItemOK o it) : Resp o it it :=
  ⟨rfl, rfl, h, fun _ h => h, Or.inl rfl⟩

/-- pointwise respelling -/
inductive RespL (o : Oracles) : List Item → List Item → Prop
  | nil : RespL o [] []
  | cons {it it' : Item} {r r' : List Item} (h : Resp o it it') (hr : RespL o r r') : RespL o (it :: r) (it' :: r')

theorem RespL.refl {o : Oracles} : ∀ {items : List Item}, (∀ it ∈ items, ItemOK o it) → RespL o items items
  | [], _ => RespL.nil
  | it :: r, h => RespL.cons (Resp.refl (h it (by simp))) (RespL.refl (fun it' h' => h it' (by simp [h'])))

theorem RespL.ok {o : Oracles} {items items' : List Item} (h : RespL o items items') : ∀ it ∈ items', ItemOK o it := by
  induction h with
  | nil => intro it h; simp at h
  | cons h _ ih =>
    intro it hit
    simp at hit
    rcases hit with hit | hit
    · subst hit; exact h.2.2.1
    · exact ih it hit

theorem RespL.toks {o : Oracles} {items items' : List Item} (h : RespL o items items') :
    items'.map (·.tk) = items.map (·.tk) := by
  induction h with
  | nil => rfl
  | cons h _ ih => simp [h.2.1, ih]

/-- from the gaps of the canonical text to the gaps of a respelled text in another layout -/
theorem gapsR_of_gapsP {o : Oracles} {C : Option Char → Prop} {items items' : List Item} (hr : RespL o items items') :
    ∀ {prev : Option (List Char)} {seps : List (List Char)}, Gaps items C → LayoutOKp prev items' seps →
    ∀ x : List Char, (C x.head? ∨ (SepStart x.head? ∧ ∃ y, C y)) → GapsR items' seps x := by
  induction hr with
  | nil => intro prev seps _ _ x _; cases seps <;> trivial
  | @cons it it' r r' h hr ih =>
    intro prev seps hg hl x hx
    cases seps with
    | nil => trivial
    | cons s ss =>
      refine ⟨?_, ih hg.2 hl.2.2 x hx⟩
      have hwit : ∃ x0 : List Char, C x0.head? := by
        rcases hx with hx | ⟨_, y, hy⟩
        · exact ⟨x, hx⟩
        · cases y with
          | none => exact ⟨[], hy⟩
          | some c => exact ⟨[c], hy⟩
      cases hr with
      | nil =>
        cases ss with
        | nil =>
          simp only [render, List.nil_append]
          rcases hx with hx | ⟨hx, _⟩
          · have := hg.1 x hx
            simp only [canon, List.nil_append] at this
            exact h.2.2.2.1 _ this
          · exact h.2.2.1.2.2.2.2.2.1 _ hx
        | cons _ _ => exact absurd hl.2.2 (by simp [LayoutOKp])
      | @cons it2 it2' r2 r2' h2 hr2 =>
        cases ss with
        | nil => exact absurd hl.2.2 (by simp [LayoutOKp])
        | cons s2 ss2 =>
          have hl2 := hl.2.2
          cases s2 with
          | nil =>
            cases hsp' : it2'.sp with
            | false =>
              have hsp : it2.sp = false := by rw [← h2.1]; exact hsp'
              have hc : it2'.c = it2.c := by
                rcases h2.2.2.2.2 with hc | hc
                · exact hc
                · rw [hsp] at hc; exact absurd hc (by simp)
              obtain ⟨x0, hx0⟩ := hwit
              have := hg.1 x0 hx0
              simp only [canon, hsp, Bool.false_eq_true, if_false, List.nil_append, List.cons_append,
                List.head?_cons] at this
              simp only [render, List.nil_append, List.cons_append, List.head?_cons, hc]
              exact h.2.2.2.1 _ this
            | true =>
              rcases hl2.2.1 hsp' with hne | ⟨p, hp, htol⟩
              · exact absurd rfl hne
              · injection hp with hp
                subst hp
                simp only [render, List.nil_append, List.cons_append, List.head?_cons]
                exact h.2.2.1.2.2.2.2.2.2 _ htol
          | cons z zs =>
            have := hl2.1.head (by simp)
            simp only [render, List.cons_append, List.head?_cons] at this ⊢
            exact h.2.2.1.2.2.2.2.2.1 _ this

theorem gapsR_of_gaps {o : Oracles} {C : Option Char → Prop} {items items' : List Item} (hr : RespL o items items')
    {seps : List (List Char)} (hg : Gaps items C) (hl : LayoutOK items' seps)
    (x : List Char) (hx : C x.head? ∨ (SepStart x.head? ∧ ∃ y, C y)) : GapsR items' seps x :=
  gapsR_of_gapsP hr hg hl x hx

section
variable (o : Oracles)

/-- a piece of text `pre` that is the tokens `ts` whenever the character after it satisfies `C`, in every
    layout: it is the canonical text of tokens `items`, each followed by a character it tolerates -/
def Seg (C : Option Char → Prop) (pre : List Char) (ts : List TT) : Prop :=
  NoNul pre ∧ ts.length ≤ pre.length ∧
  ∃ items : List Item, pre = canon items ∧ ts = items.map (·.tk) ∧ (∀ it ∈ items, ItemOK o it) ∧ Gaps items C

theorem Seg.nil (C : Option Char → Prop) : Seg o C [] [] :=
  ⟨NoNul.nil, Nat.le_refl _, [], rfl, rfl, fun _ h => by simp at h, trivial⟩

theorem Seg.mono {C C' : Option Char → Prop} {pre : List Char} {ts : List TT}
    (h : Seg o C pre ts) (hc : ∀ y, C' y → C y) : Seg o C' pre ts := by
  obtain ⟨h1, h2, items, h3, h4, h5, h6⟩ := h
  exact ⟨h1, h2, items, h3, h4, h5, h6.mono hc⟩

theorem Seg.app {C1 C2 : Option Char → Prop} {p1 p2 : List Char} {t1 t2 : List TT}
    (h1 : Seg o C1 p1 t1) (h2 : Seg o C2 p2 t2)
    (hc : ∀ r, C2 r.head? → C1 (p2 ++ r).head?) : Seg o C2 (p1 ++ p2) (t1 ++ t2) := by
  obtain ⟨a1, a2, i1, a3, a4, a5, a6⟩ := h1
  obtain ⟨b1, b2, i2, b3, b4, b5, b6⟩ := h2
  refine ⟨a1.append b1, ?_, i1 ++ i2, ?_, ?_, ?_, ?_⟩
  · simp only [List.length_append]; omega
  · rw [canon_append, a3, b3]
  · rw [a4, b4]; simp
  · intro it hit
    simp at hit
    rcases hit with hit | hit
    · exact a5 it hit
    · exact b5 it hit
  · exact a6.append b6 (by rw [← b3]; exact hc)

/-- composition when the second piece is known to start with `c` -/
theorem Seg.app_cons {C1 C2 : Option Char → Prop} {p1 : List Char} {c : Char} {p2 : List Char} {t1 t2 : List TT}
    (h1 : Seg o C1 p1 t1) (h2 : Seg o C2 (c :: p2) t2) (hc : C1 (some c)) :
    Seg o C2 (p1 ++ c :: p2) (t1 ++ t2) :=
  Seg.app o h1 h2 (fun _ _ => hc)

/-- **Layout independence of a piece.**  In every layout, and with every token respelled, the piece is
    the same tokens, whatever follows it (provided the next character satisfies `C` or starts a separator). -/
theorem layout_lexes (ok : RoundTrip.OrOK o) {C : Option Char → Prop} {items items' : List Item}
    (hg : Gaps items C) (hr : RespL o items items') {seps : List (List Char)} (hl : LayoutOK items' seps)
    (x : List Char) (ts' : List TT) (hx : NoNul x) (hC : C x.head? ∨ (SepStart x.head? ∧ ∃ y, C y))
    (hlx : Lexes o x ts') : Lexes o (render items' seps ++ x) (items.map (·.tk) ++ ts') := by
  rw [← hr.toks]
  exact lexes_render o ok items' hr.ok seps hl.length hl.sep x ts' hx (gapsR_of_gaps hr hg hl x hC) hlx

theorem Seg.run (ok : RoundTrip.OrOK o) {C : Option Char → Prop} {pre : List Char} {ts : List TT} (h : Seg o C pre ts) :
    ∀ r ts', NoNul r → C r.head? → Lexes o r ts' → Lexes o (pre ++ r) (ts ++ ts') := by
  obtain ⟨_, _, items, h3, h4, h5, h6⟩ := h
  intro r ts' hr hy hl
  have := layout_lexes o ok h6 (RespL.refl h5) (layoutOK_canon items) r ts' hr (Or.inl hy) hl
  rw [render_canon] at this
  rw [h3, h4]
  exact this

theorem Seg.lexes (ok : RoundTrip.OrOK o) {C : Option Char → Prop} {pre : List Char} {ts : List TT} (h : Seg o C pre ts)
    (hc : C none) : Lexes o pre ts := by
  have := h.run o ok [] [] NoNul.nil hc (lexes_nil o)
  simpa using this

theorem seg_of_tokAt {C : Option Char → Prop} {c : Char} {w : List Char} {tk : TT}
    (h : TokAt o C c w tk) (hc : c.toNat ≠ 0) (hw : NoNul w) (hns : tk.1 ≠ .stop)
    (hws : isWhitespace c = false) (htol : ∀ y, SepStart y → C y)
    (htb : ∀ d, tolOf (c :: w) d = true → C (some d)) :
    Seg o C (c :: w) [tk] := by
  refine ⟨NoNul.cons hc hw, by simp, [⟨false, c, w, tk, C⟩], by simp [canon], rfl, ?_, ?_⟩
  · intro it hit
    simp at hit
    subst hit
    exact ⟨h, hc, hw, hns, hws, htol, htb⟩
  · exact ⟨fun x hx => by simpa [canon] using hx, trivial⟩

/-- the same piece preceded by one blank -/
theorem seg_sp_of_tokAt {C : Option Char → Prop} {c : Char} {w : List Char} {tk : TT}
    (h : TokAt o C c w tk) (hc : c.toNat ≠ 0) (hw : NoNul w) (hns : tk.1 ≠ .stop)
    (hws : isWhitespace c = false) (htol : ∀ y, SepStart y → C y)
    (htb : ∀ d, tolOf (c :: w) d = true → C (some d)) :
    Seg o C (' ' :: c :: w) [tk] := by
  refine ⟨NoNul.cons (by decide) (NoNul.cons hc hw), by simp, [⟨true, c, w, tk, C⟩], by simp [canon], rfl, ?_, ?_⟩
  · intro it hit
    simp at hit
    subst hit
    exact ⟨h, hc, hw, hns, hws, htol, htb⟩
  · exact ⟨fun x hx => by simpa [canon] using hx, trivial⟩

end

/-! ## Oracle hypotheses; every token tolerates the start of a separator after it -/

/-- the oracle facts of `RoundTrip.OrOK`, and: white space (tab, newline, carriage return, blank) is
    neither `XID_Start` nor `XID_Continue` -/
structure OrOK (o : Oracles) : Prop extends RoundTrip.OrOK o where
  wsS : ∀ c, isWhitespace c = true → o.xidStart c = false
  wsC : ∀ c, isWhitespace c = true → o.xidContinue c = false

instance {o : Oracles} : Coe (OrOK o) (RoundTrip.OrOK o) := ⟨OrOK.toOrOK⟩

theorem ws_cases {c : Char} (h : isWhitespace c = true) : c = '\t' ∨ c = '\n' ∨ c = '\r' ∨ c = ' ' := by
  simp only [isWhitespace, Bool.or_eq_true, decide_eq_true_eq] at h
  rcases h with ((h | h) | h) | h
  · exact Or.inl h
  · exact Or.inr (Or.inl h)
  · exact Or.inr (Or.inr (Or.inl h))
  · exact Or.inr (Or.inr (Or.inr h))

/-- the characters that start a separator -/
theorem sepStart_cases {y : Option Char} (h : SepStart y) :
    y = some '\t' ∨ y = some '\n' ∨ y = some '\r' ∨ y = some ' ' ∨ y = some '/' := by
  obtain ⟨c, rfl, h | h⟩ := h
  · rcases ws_cases h with h | h | h | h <;> subst h <;> simp
  · subst h; simp

theorem tol_true {y : Option Char} (_ : SepStart y) : (fun _ : Option Char => True) y := trivial

theorem tol_notDigit {y : Option Char} (h : SepStart y) : isDecimalR y = false := by
  rcases sepStart_cases h with h | h | h | h | h <;> subst h <;> decide

theorem tol_star {y : Option Char} (h : SepStart y) : y ≠ some '*' := by
  rcases sepStart_cases h with h | h | h | h | h <;> subst h <;> decide

theorem tol_eq {y : Option Char} (h : SepStart y) : y ≠ some '=' := by
  rcases sepStart_cases h with h | h | h | h | h <;> subst h <;> decide

theorem tol_lt {y : Option Char} (h : SepStart y) : y ≠ some '=' ∧ y ≠ some '>' := by
  rcases sepStart_cases h with h | h | h | h | h <;> subst h <;> decide

theorem tol_blank {y : Option Char} (h : y = some ' ') : SepStart y := ⟨' ', h, Or.inl (by decide)⟩

section
variable (o : Oracles) (ok : OrOK o)
include ok

theorem sepStart_xid {y : Option Char} (h : SepStart y) :
    ∃ c, y = some c ∧ o.xidStart c = false ∧ o.xidContinue c = false ∧ c ≠ '_' ∧ c ≠ '\\' ∧ c ≠ '"' := by
  obtain ⟨c, rfl, h | h⟩ := h
  · refine ⟨c, rfl, ok.wsS c h, ok.wsC c h, ?_, ?_, ?_⟩ <;>
      (rcases ws_cases h with h | h | h | h <;> subst h <;> decide)
  · subst h
    exact ⟨'/', rfl, ok.punctS '/' (by decide), ok.punctC '/' (by decide), by decide, by decide, by decide⟩

theorem tol_identCont {y : Option Char} (h : SepStart y) : isIdentCont o y = false := by
  obtain ⟨c, rfl, _, h2, h3, h4, _⟩ := sepStart_xid o ok h
  simp [isIdentCont, h2, h3, h4]

theorem tol_dollar {y : Option Char} (h : SepStart y) : y ≠ some '"' ∧ isVariableRune o y = false := by
  obtain ⟨c, rfl, _, h2, _, _, h5⟩ := sepStart_xid o ok h
  exact ⟨by simpa using h5, by simp [isVariableRune, h2]⟩

theorem tol_endsNumber {y : Option Char} (h : SepStart y) : EndsNumber o y := by
  have hs := ok.punctS
  have h1 : isIdentStart o y = false := by
    obtain ⟨c, rfl, h1, _, h3, h4, _⟩ := sepStart_xid o ok h
    simp [isIdentStart, h1, h3, h4]
  rcases sepStart_cases h with h | h | h | h | h <;> subst h
  all_goals
    refine ⟨by decide, by decide, by decide, by decide, by decide, by decide, by decide, ?_, h1⟩
    simp only [Option.map]
    first
      | exact (by simpa [isIdentStart, lowerBit] using hs ')' (by decide))
      | exact (by simpa [isIdentStart, lowerBit] using hs '*' (by decide))
      | exact (by simpa [isIdentStart, lowerBit] using hs '-' (by decide))
      | exact (by simpa [isIdentStart, lowerBit] using hs ' ' (by decide))
      | exact (by simpa [isIdentStart, lowerBit] using hs '/' (by decide))

end

/-! ### soundness of `tolOf` for the token kinds -/

theorem punct_facts : ∀ d ∈ punct, d ≠ '_' ∧ d ≠ '\\' ∧ isDecimal d = false ∧ d.toNat ≠ 0 := by decide

theorem punct_num_facts : ∀ d ∈ punct, d ≠ '.' → d ≠ '@' →
    lowerBit d ≠ 'e' ∧ lowerBit d ≠ 'x' ∧ lowerBit d ≠ 'o' ∧ lowerBit d ≠ 'b' ∧ lowerBit d ∈ punct := by decide

theorem mem_of_contains {d : Char} {l : List Char} (h : l.contains d = true) : d ∈ l := by simpa using h

section
variable (o : Oracles) (ok : RoundTrip.OrOK o)
include ok

theorem punct_identCont {d : Char} (h : punct.contains d = true) : isIdentCont o (some d) = false := by
  have hm := mem_of_contains h
  have hf := punct_facts d hm
  simp [isIdentCont, hf.1, hf.2.1, ok.punctC d hm]

theorem punct_identStart {d : Char} (hm : d ∈ punct) : isIdentStart o (some d) = false := by
  have hf := punct_facts d hm
  simp [isIdentStart, hf.1, hf.2.1, ok.punctS d hm]

theorem punct_variableRune {d : Char} (h : punct.contains d = true) : isVariableRune o (some d) = false := by
  simp [isVariableRune, ok.punctC d (mem_of_contains h)]

theorem punct_endsNumber {d : Char} (h : punct.contains d = true) (h1 : d ≠ '.') (h2 : d ≠ '@') :
    EndsNumber o (some d) := by
  have hm := mem_of_contains h
  have hf := punct_facts d hm
  have hn := punct_num_facts d hm h1 h2
  refine ⟨by simpa [isDecimalR] using hf.2.2.1, by simpa using hf.1, by simpa using h1, ?_, ?_, ?_, ?_, ?_, ?_⟩
  · simpa using hn.1
  · simpa using hn.2.1
  · simpa using hn.2.2.1
  · simpa using hn.2.2.2.1
  · simpa using punct_identStart o ok hn.2.2.2.2
  · exact punct_identStart o ok hm

/-- a number -/
theorem tolB_nat {d0 : Char} {ds : List Char} (hd : isDecimal d0 = true) :
    ∀ d, tolOf (d0 :: ds) d = true → EndsNumber o (some d) := by
  intro d h
  simp only [tolOf, hd, if_true, Bool.and_eq_true, bne_iff_ne, ne_eq] at h
  exact punct_endsNumber o ok h.1.1 h.1.2 h.2

/-- a word: its first character is neither a digit nor ASCII punctuation -/
theorem tolB_word {c : Char} {w : List Char} (hd : isDecimal c = false) (hp : c ∉ punct) :
    ∀ d, tolOf (c :: w) d = true → isIdentCont o (some d) = false := by
  intro d h
  have hne : ∀ x ∈ punct, c ≠ x := fun x hx hcx => hp (hcx ▸ hx)
  have h1 : c ≠ '$' := hne _ (by decide)
  have h2 : c ≠ '"' := hne _ (by decide)
  have h3 : c ≠ '.' := hne _ (by decide)
  have h4 : c ≠ '<' := hne _ (by decide)
  have h5 : c ≠ '>' := hne _ (by decide)
  have h6 : c ≠ '!' := hne _ (by decide)
  have h7 : c ≠ '*' := hne _ (by decide)
  have h8 : c ≠ '/' := hne _ (by decide)
  have h9 : closedPunct.contains c = false := by
    cases hc : closedPunct.contains c with
    | false => rfl
    | true =>
      have hm : c ∈ closedPunct := mem_of_contains hc
      have : ∀ x ∈ closedPunct, x ∈ punct := by decide
      exact absurd (this c hm) hp
  simp only [tolOf, hd, Bool.false_eq_true, if_false, h1, h2, h3, h4, h5, h6, h7, h8, h9,
    Bool.or_self, decide_false] at h
  exact punct_identCont o ok h

omit ok in
theorem low_not_punct {c : Char} (hc : isLow c = true) : c ∉ punct := by
  intro h
  have : ∀ x ∈ punct, isLow x = false := by decide
  rw [this c h] at hc
  exact absurd hc (by simp)

theorem tolB_low {c : Char} {w : List Char} (hc : isLow c = true) :
    ∀ d, tolOf (c :: w) d = true → isIdentCont o (some d) = false :=
  tolB_word o ok (isLow_facts c hc).2.2.2.2 (low_not_punct hc)

/-- `$` alone -/
theorem tolB_dollar : ∀ d, tolOf ['$'] d = true → (some d ≠ some '"' ∧ isVariableRune o (some d) = false) := by
  intro d h
  have h' : punct.contains d = true ∧ d ≠ '"' := by
    simpa [tolOf, isDecimal] using h
  exact ⟨by simpa using h'.2, punct_variableRune o ok h'.1⟩

/-- a bare variable `$name` -/
theorem tolB_var {n : Char} {ns : List Char} (hn : n ≠ '"') :
    ∀ d, tolOf ('$' :: n :: ns) d = true → isVariableRune o (some d) = false := by
  intro d h
  have h' : punct.contains d = true := by
    simpa [tolOf, isDecimal, hn] using h
  exact punct_variableRune o ok h'

end

theorem tolB_true {t : List Char} : ∀ d, tolOf t d = true → (fun _ : Option Char => True) (some d) :=
  fun _ _ => trivial

theorem tolB_dot : ∀ d, tolOf ['.'] d = true → isDecimalR (some d) = false := by
  intro d h
  have h' : (!isDecimal d) = true := by
    have : isDecimal '.' = false := by decide
    simpa [tolOf, this] using h
  simpa [isDecimalR] using h'

theorem tolB_star : ∀ d, tolOf ['*'] d = true → some d ≠ some '*' := by
  intro d h
  simpa [tolOf, isDecimal] using h

theorem tolB_slash : ∀ d, tolOf ['/'] d = true → some d ≠ some '*' := by
  intro d h
  simpa [tolOf, isDecimal] using h

theorem tolB_lt : ∀ d, tolOf ['<'] d = true → some d ≠ some '=' ∧ some d ≠ some '>' := by
  intro d h
  simpa [tolOf, isDecimal] using h

theorem tolB_gt : ∀ d, tolOf ['>'] d = true → some d ≠ some '=' := by
  intro d h
  simpa [tolOf, isDecimal] using h

theorem tolB_bang : ∀ d, tolOf ['!'] d = true → some d ≠ some '=' := by
  intro d h
  simpa [tolOf, isDecimal] using h

/-! ## oracle hypotheses -/

section
variable (o : Oracles) (ok : OrOK o)
include ok

/-! ### words -/

end

/-! ## The parser on a token stream: a small total-correctness calculus -/

section
variable (o : Oracles)

/-- nothing cached, the lexer will deliver `ts` -/
def StF (ts : List TT) (s : PS) : Prop := s.la = none ∧ LStr o ts s.lx

/-- the first token of `ts` is the cached look-ahead, the lexer will deliver the others -/
def StP : List TT → PS → Prop
  | [], _ => False
  | tk :: ts, s => s.la = some tk ∧ tk.1 ≠ .stop ∧ LStr o ts s.lx

/-- the parser stands before the tokens `ts` -/
def StE (ts : List TT) (s : PS) : Prop := StF o ts s ∨ StP o ts s

/-- from every state satisfying `pre`, `m` returns `v` in a state satisfying `post` -/
def RunsV {α : Type} (pre : PS → Prop) (m : P α) (v : α) (post : PS → Prop) : Prop :=
  ∀ s, pre s → ∃ s', m s = .ok v s' ∧ post s'

variable {o}

theorem RunsV.bind {α β : Type} {pre mid post : PS → Prop} {m : P α} {f : α → P β} {v : α} {w : β}
    (h1 : RunsV pre m v mid) (h2 : RunsV mid (f v) w post) : RunsV pre (m >>= f) w post := by
  intro s hs
  obtain ⟨s1, e1, p1⟩ := h1 s hs
  obtain ⟨s2, e2, p2⟩ := h2 s1 p1
  exact ⟨s2, by rw [bind_apply, e1]; exact e2, p2⟩

theorem RunsV.pre {α : Type} {pre pre' post : PS → Prop} {m : P α} {v : α}
    (h : RunsV pre m v post) (hp : ∀ s, pre' s → pre s) : RunsV pre' m v post :=
  fun s hs => h s (hp s hs)

theorem RunsV.post {α : Type} {pre post post' : PS → Prop} {m : P α} {v : α}
    (h : RunsV pre m v post) (hp : ∀ s, post s → post' s) : RunsV pre m v post' := by
  intro s hs
  obtain ⟨s1, e1, p1⟩ := h s hs
  exact ⟨s1, e1, hp s1 p1⟩

theorem RunsV.pure {α : Type} {pre : PS → Prop} (a : α) : RunsV pre (pure a : P α) a pre :=
  fun s hs => ⟨s, rfl, hs⟩

theorem RunsV.pure' {α : Type} {pre post : PS → Prop} {a b : α} (h : a = b) (hp : ∀ s, pre s → post s) :
    RunsV pre (Pure.pure a : P α) b post := by
  subst h
  exact fun s hs => ⟨s, rfl, hp s hs⟩

theorem StE.ofP {ts : List TT} {s : PS} (h : StP o ts s) : StE o ts s := Or.inr h
theorem StE.ofF {ts : List TT} {s : PS} (h : StF o ts s) : StE o ts s := Or.inl h

theorem RunsV.bindP {α β : Type} {ts : List TT} {mid post : PS → Prop} {m : P α} {f : α → P β} {v : α} {w : β}
    (h1 : RunsV (StE o ts) m v mid) (h2 : RunsV mid (f v) w post) : RunsV (StP o ts) (m >>= f) w post :=
  RunsV.bind (h1.pre (fun _ => StE.ofP)) h2

theorem RunsV.ofE {α : Type} {ts : List TT} {post : PS → Prop} {m : P α} {v : α}
    (h : RunsV (StE o ts) m v post) : RunsV (StP o ts) m v post := h.pre (fun _ => StE.ofP)

/-- the state after the next token has been examined -/
def StA (o : Oracles) : List TT → PS → Prop
  | [], s => StE o [] s
  | tk :: ts, s => StP o (tk :: ts) s

theorem StE.ofA {ts : List TT} {s : PS} (h : StA o ts s) : StE o ts s := by
  cases ts with
  | nil => exact h
  | cons tk ts => exact Or.inr h

theorem RunsV.bindA {α β : Type} {ts : List TT} {mid post : PS → Prop} {m : P α} {f : α → P β} {v : α} {w : β}
    (h1 : RunsV (StE o ts) m v mid) (h2 : RunsV mid (f v) w post) : RunsV (StA o ts) (m >>= f) w post :=
  RunsV.bind (h1.pre (fun _ => StE.ofA)) h2

theorem RunsV.ofA {α : Type} {ts : List TT} {post : PS → Prop} {m : P α} {v : α}
    (h : RunsV (StE o ts) m v post) : RunsV (StA o ts) m v post := h.pre (fun _ => StE.ofA)

theorem RunsV.toE {α : Type} {ts : List TT} {pre : PS → Prop} {m : P α} {v : α}
    (h : RunsV pre m v (StA o ts)) : RunsV pre m v (StE o ts) := h.post (fun _ => StE.ofA)

theorem RunsV.toEP {α : Type} {ts : List TT} {pre : PS → Prop} {m : P α} {v : α}
    (h : RunsV pre m v (StP o ts)) : RunsV pre m v (StE o ts) := h.post (fun _ => StE.ofP)

theorem peek_cons (tk : TT) (ts : List TT) : RunsV (StE o (tk :: ts)) (peek o) tk (StP o (tk :: ts)) := by
  intro s hs
  rcases hs with ⟨h1, h2⟩ | ⟨h1, h2, h3⟩
  · obtain ⟨hns, lx', hl, hoof, hrest⟩ := h2
    refine ⟨{ lx := lx', la := some tk }, ?_, rfl, hns, hrest⟩
    unfold peek
    simp only [h1, hl, hoof, hns]
    simp
  · exact ⟨s, by unfold peek; simp only [h1], h1, h2, h3⟩

theorem peek_nil : RunsV (StE o []) (peek o) (.stop, []) (StE o []) := by
  intro s hs
  rcases hs with ⟨h1, h2⟩ | h
  · obtain ⟨lx', hl, hat⟩ := lex_at_nil o s.lx h2
    refine ⟨{ s with lx := lx' }, ?_, Or.inl ⟨h1, lstr_nil_of_at o _ hat⟩⟩
    unfold peek
    simp only [h1, hl, hat.2.1]
    simp
  · exact absurd h (by simp [StP])

theorem peek_any (ts : List TT) : RunsV (StE o ts) (peek o) (hd ts) (StA o ts) := by
  cases ts with
  | nil => exact peek_nil
  | cons tk ts => exact peek_cons tk ts

theorem consume_spec (tk : TT) (ts : List TT) : RunsV (StP o (tk :: ts)) consume () (StE o ts) := by
  intro s hs
  exact ⟨{ s with la := none }, rfl, Or.inl ⟨rfl, hs.2.2⟩⟩

theorem expect_spec (t : Tok) (x : List Char) (ts : List TT) :
    RunsV (StE o ((t, x) :: ts)) (expect o t) () (StE o ts) := by
  unfold expect
  refine RunsV.bind (peek_cons _ _) ?_
  simp only [if_true]
  exact consume_spec _ _

end

/-- one step: `m >>= f` where the specification `h` of `m` is known -/
macro "lstep " h:term : tactic =>
  `(tactic| (first
    | refine RunsV.bind $h ?_
    | refine RunsV.bindP $h ?_
    | refine RunsV.bindA $h ?_
    | refine RunsV.bind (RunsV.toE $h) ?_
    | refine RunsV.bindP (RunsV.toE $h) ?_
    | refine RunsV.bindA (RunsV.toE $h) ?_
    | refine RunsV.bind (RunsV.toEP $h) ?_
    | refine RunsV.bindP (RunsV.toEP $h) ?_
    | refine RunsV.bindA (RunsV.toEP $h) ?_
    | fail "lstep: specification does not fit"))

/-- close the goal with the specification `h`, weakening the state predicates as needed -/
macro "lexact " h:term : tactic =>
  `(tactic| (first
    | exact $h
    | exact RunsV.ofE $h
    | exact RunsV.ofA $h
    | exact RunsV.toE $h
    | exact RunsV.toE (RunsV.ofE $h)
    | exact RunsV.toE (RunsV.ofA $h)
    | exact RunsV.toEP $h
    | exact RunsV.toEP (RunsV.ofE $h)
    | exact RunsV.toEP (RunsV.ofA $h)
    | fail "lexact: specification does not fit"))

/-! ## `strconv.ParseInt` reads back `strconv.FormatInt` (non-negative values) -/

/-! ## Tokens of the printed text -/

/-! ## Stage 1: accessor steps -/

section
variable {o : Oracles}

theorem accLoop_nil (f : Nat) (head : EV) (ops : List Node) (rest : List TT)
    (hf : isAccessorStart (hd rest).1 = false) :
    RunsV (StE o rest) (accessorLoop o (f + 1) head ops) (linkNodes head ops) (StA o rest) := by
  rw [accessorLoop]
  lstep (peek_any rest)
  simp only [hf]
  exact RunsV.pure _

theorem accOp_key (f : Nat) (s : List Char) (rest : List TT) :
    RunsV (StP o (tDot :: (.string, s) :: rest)) (accessorOp o (f + 1) .dot) (.key s none) (StE o rest) := by
  rw [accessorOp]
  lstep (consume_spec _ _)
  simp only [reduceCtorEq, ↓reduceIte]
  lstep (peek_cons _ _)
  simp [isPlainKeyName]
  lstep (consume_spec _ _)
  exact RunsV.pure _

theorem accOp_anyKey (f : Nat) (rest : List TT) :
    RunsV (StP o (tDot :: tStar :: rest)) (accessorOp o (f + 1) .dot) (.const .anyKey none) (StE o rest) := by
  rw [accessorOp]
  lstep (consume_spec _ _)
  simp only [reduceCtorEq, ↓reduceIte]
  lstep (peek_cons _ _)
  simp [tStar]
  lstep (consume_spec _ _)
  exact RunsV.pure _

theorem accOp_anyArray (f : Nat) (rest : List TT) :
    RunsV (StP o (tLb :: tStar :: tRb :: rest)) (accessorOp o (f + 1) .lbrack) (.const .anyArray none)
      (StE o rest) := by
  rw [accessorOp]
  lstep (consume_spec _ _)
  simp only [reduceCtorEq, ↓reduceIte]
  lstep (peek_cons _ _)
  simp [tStar]
  lstep (consume_spec _ _)
  lstep (expect_spec _ _ _)
  exact RunsV.pure _

theorem accOp_method (f : Nat) (m : Method) (rest : List TT) :
    RunsV (StP o (tDot :: tMethod m :: tLp :: tRp :: rest)) (accessorOp o (f + 1) .dot) (.method m none)
      (StE o rest) := by
  have hm := (methodStr_lexes_back m).2
  have h1 : methodTok m ≠ .star ∧ methodTok m ≠ .any ∧ isPlainKeyName (methodTok m) = false := by
    cases m <;> decide
  rw [accessorOp]
  lstep (consume_spec _ _)
  simp only [reduceCtorEq, ↓reduceIte]
  lstep (peek_cons _ _)
  simp only [tMethod, h1.1, h1.2.1, h1.2.2, hm, ↓reduceIte, Bool.false_eq_true]
  lstep (consume_spec _ _)
  lstep (peek_cons _ _)
  simp only [tLp, ↓reduceIte]
  lstep (consume_spec _ _)
  lstep (expect_spec _ _ _)
  exact RunsV.pure _

theorem accOp_date (f : Nat) (rest : List TT) :
    RunsV (StP o (tDot :: tDate :: tLp :: tRp :: rest)) (accessorOp o (f + 1) .dot) (.unary .date none none)
      (StE o rest) := by
  rw [accessorOp]
  lstep (consume_spec _ _)
  simp only [reduceCtorEq, ↓reduceIte]
  lstep (peek_cons _ _)
  simp [tDate, isPlainKeyName, methodOf]
  lstep (consume_spec _ _)
  lstep (peek_cons _ _)
  simp only [tLp, ↓reduceIte]
  lstep (consume_spec _ _)
  lstep (expect_spec _ _ _)
  exact RunsV.pure _

theorem accOp_datetime0 (f : Nat) (rest : List TT) :
    RunsV (StP o (tDot :: tDatetime :: tLp :: tRp :: rest)) (accessorOp o (f + 1) .dot)
      (.unary .datetime none none) (StE o rest) := by
  rw [accessorOp]
  lstep (consume_spec _ _)
  simp only [reduceCtorEq, ↓reduceIte]
  lstep (peek_cons _ _)
  simp [tDatetime, isPlainKeyName, methodOf]
  lstep (consume_spec _ _)
  lstep (peek_cons _ _)
  simp only [tLp, ↓reduceIte]
  lstep (consume_spec _ _)
  lstep (peek_cons _ _)
  simp [tRp]
  lstep (expect_spec _ _ _).ofE
  exact RunsV.pure _

theorem accOp_datetime1 (f : Nat) (t : List Char) (rest : List TT) :
    RunsV (StP o (tDot :: tDatetime :: tLp :: (.string, t) :: tRp :: rest)) (accessorOp o (f + 1) .dot)
      (.unary .datetime (some (.str t none)) none) (StE o rest) := by
  rw [accessorOp]
  lstep (consume_spec _ _)
  simp only [reduceCtorEq, ↓reduceIte]
  lstep (peek_cons _ _)
  simp [tDatetime, isPlainKeyName, methodOf]
  lstep (consume_spec _ _)
  lstep (peek_cons _ _)
  simp only [tLp, ↓reduceIte]
  lstep (consume_spec _ _)
  lstep (peek_cons _ _)
  simp
  lstep (consume_spec _ _)
  lstep (expect_spec _ _ _)
  exact RunsV.pure _

/-! ### `.**` -/

theorem anyLevel_lvl (a : Nat) (h : lvlOK a = true) (rest : List TT) :
    RunsV (StE o (lvlTok a :: rest)) (anyLevel o) (lvlVal a) (StE o rest) := by
  unfold anyLevel lvlTok lvlVal
  by_cases ha : a = maxU32
  · simp only [ha, if_true]
    lstep (peek_cons _ _)
    simp [tLast]
    lstep (consume_spec _ _)
    exact RunsV.pure _
  · simp only [ha, if_false]
    have hlt : a < 2 ^ (32 - 1) := by
      simp only [lvlOK, Bool.or_eq_true, decide_eq_true_eq, beq_iff_eq] at h
      rcases h with h | h
      · exact h
      · exact absurd h ha
    lstep (peek_cons _ _)
    simp only [tInt, ↓reduceIte]
    lstep (consume_spec _ _)
    simp only [anyLevelOf, parseIntBase0_toDigits 32 a hlt]
    lstep (RunsV.pure _)
    exact RunsV.pure' (by simp) (fun _ h => h)

theorem accOp_any (f : Nat) (a b : Nat) (ha : lvlOK a = true) (hb : lvlOK b = true) (rest : List TT)
    (hr : (hd rest).1 ≠ .lbrace) :
    RunsV (StP o (tDot :: (anyToks a b ++ rest))) (accessorOp o (f + 1) .dot) (.any a b none) (StE o rest) := by
  rw [accessorOp]
  lstep (consume_spec _ _)
  simp only [reduceCtorEq, ↓reduceIte]
  unfold anyToks
  split
  · rename_i h0
    lstep (peek_cons _ _)
    simp [tAny]
    lstep (consume_spec _ _)
    lstep (peek_any rest)
    simp only [hr, ↓reduceIte]
    refine RunsV.pure' ?_ (fun _ h => StE.ofA h)
    rw [h0.1, h0.2]
    simp [newAny, maxU32]
  · split
    · rename_i _ hab
      subst hab
      lstep (peek_cons _ _)
      simp [tAny]
      lstep (consume_spec _ _)
      lstep (peek_cons _ _)
      simp only [tLc, ↓reduceIte]
      lstep (consume_spec _ _)
      lstep (anyLevel_lvl a ha _)
      lstep (peek_cons _ _)
      simp only [tRc, ↓reduceIte]
      lstep (consume_spec _ _)
      exact RunsV.pure' (newAny_lvl a a ha ha) (fun _ h => h)
    · lstep (peek_cons _ _)
      simp [tAny]
      lstep (consume_spec _ _)
      lstep (peek_cons _ _)
      simp only [tLc, ↓reduceIte]
      lstep (consume_spec _ _)
      lstep (anyLevel_lvl a ha _)
      lstep (peek_cons _ _)
      simp [tTo]
      lstep (consume_spec _ _)
      lstep (anyLevel_lvl b hb _)
      lstep (expect_spec _ _ _)
      exact RunsV.pure' (newAny_lvl a b ha hb) (fun _ h => h)

/-! ### subscripts -/

/-- a subscript bound, where only an `expr` may start -/
theorem unaryT_idx (f : Nat) (l : Node) (hl : okIdx l = true) (rest : List TT)
    (hr : isAccessorStart (hd rest).1 = false) :
    RunsV (StP o (idxTok l :: rest)) (parseUnaryT o (f + 3) (idxTok l)) (evIdx l) (StA o rest) := by
  rcases okIdx_cases hl with ⟨i, rfl, hi⟩ | rfl
  · obtain ⟨h1, h2⟩ := intOK_toNat hi
    simp only [idxTok, tInt, evIdx]
    rw [parseUnaryT]
    simp only [reduceCtorEq, ↓reduceIte]
    rw [parseScalar]
    lstep (consume_spec _ _)
    rw [newInteger_toDigits _ h2]
    lstep (RunsV.pure _)
    rw [h1]
    exact accLoop_nil f _ [] rest hr
  · simp only [idxTok, tLast, evIdx]
    rw [parseUnaryT]
    simp only [reduceCtorEq, ↓reduceIte]
    rw [parseScalar]
    lstep (consume_spec _ _)
    lstep (RunsV.pure _)
    exact accLoop_nil f _ [] rest hr

theorem unary_idx (f : Nat) (l : Node) (hl : okIdx l = true) (rest : List TT)
    (hr : isAccessorStart (hd rest).1 = false) :
    RunsV (StE o (idxTok l :: rest)) (parseUnary o (f + 4)) (evIdx l) (StA o rest) := by
  rw [parseUnary]
  lstep (peek_cons _ _)
  exact unaryT_idx f l hl rest hr

theorem arith_nil (f : Nat) (lhs : EV) (rest : List TT)
    (h1 : addOp (hd rest).1 = none) (h2 : mulOp (hd rest).1 = none) :
    RunsV (StE o rest) (arithLoop o (f + 1) lhs) (lhs, (hd rest).1) (StA o rest) := by
  rw [arithLoop]
  lstep (peek_any rest)
  simp only [h1, h2]
  exact RunsV.pure _

/-- one element of an index list followed by `]` -/
theorem indexList_last (f : Nat) (s : Node) (hs : okSub s = true) (acc : List Node) (rest : List TT) :
    RunsV (StP o (subToks s ++ tRb :: rest)) (indexList o (f + 5) (hd (subToks s)) acc) (acc ++ [s])
      (StE o rest) := by
  obtain ⟨l, r, rfl, hl, hr⟩ := okSub_cases hs
  cases r with
  | none =>
    simp only [subToks, hd, List.cons_append, List.nil_append]
    rw [indexList]
    lstep (unaryT_idx (f + 1) l hl _ rfl)
    lstep (arith_nil _ _ _ rfl rfl)
    simp only [hd, tRb, reduceCtorEq, ↓reduceIte]
    lstep (RunsV.pure _)
    lstep (peek_cons _ _)
    simp only [reduceCtorEq, ↓reduceIte]
    lstep (consume_spec _ _)
    exact RunsV.pure' (by rw [evIdx_node hl]) (fun _ h => h)
  | some r =>
    have hr' := hr r rfl
    simp only [subToks, hd, List.cons_append, List.nil_append]
    rw [indexList]
    lstep (unaryT_idx (f + 1) l hl _ rfl)
    lstep (arith_nil _ _ _ rfl rfl)
    simp only [hd, tTo, ↓reduceIte]
    lstep (consume_spec _ _)
    lstep (unary_idx f r hr' _ rfl)
    lstep (arith_nil _ _ _ rfl rfl)
    lstep (RunsV.pure _)
    lstep (peek_cons _ _)
    simp only [hd, tRb, reduceCtorEq, ↓reduceIte]
    lstep (consume_spec _ _)
    exact RunsV.pure' (by rw [evIdx_node hl, evIdx_node hr']) (fun _ h => h)

/-- one element of an index list followed by `,` and more elements -/
theorem indexList_more (f : Nat) (s : Node) (hs : okSub s = true) (acc : List Node) (tk : TT) (more : List TT)
    (htk : tk.1 ≠ .stop) (w : List Node) (post : PS → Prop)
    (h : RunsV (StP o (tk :: more)) (indexList o (f + 4) tk (acc ++ [s])) w post) :
    RunsV (StP o (subToks s ++ tComma :: tk :: more)) (indexList o (f + 5) (hd (subToks s)) acc) w post := by
  obtain ⟨l, r, rfl, hl, hr⟩ := okSub_cases hs
  cases r with
  | none =>
    simp only [subToks, hd, List.cons_append, List.nil_append]
    rw [indexList]
    lstep (unaryT_idx (f + 1) l hl _ rfl)
    lstep (arith_nil _ _ _ rfl rfl)
    simp only [hd, tComma, reduceCtorEq, ↓reduceIte]
    lstep (RunsV.pure _)
    lstep (peek_cons _ _)
    simp only [reduceCtorEq, ↓reduceIte]
    lstep (consume_spec _ _)
    lstep (peek_cons _ _)
    simp only [htk, ↓reduceIte]
    rw [evIdx_node hl]
    exact h
  | some r =>
    have hr' := hr r rfl
    simp only [subToks, hd, List.cons_append, List.nil_append]
    rw [indexList]
    lstep (unaryT_idx (f + 1) l hl _ rfl)
    lstep (arith_nil _ _ _ rfl rfl)
    simp only [hd, tTo, ↓reduceIte]
    lstep (consume_spec _ _)
    lstep (unary_idx f r hr' _ rfl)
    lstep (arith_nil _ _ _ rfl rfl)
    lstep (RunsV.pure _)
    lstep (peek_cons _ _)
    simp only [hd, tComma, reduceCtorEq, ↓reduceIte]
    lstep (consume_spec _ _)
    lstep (peek_cons _ _)
    simp only [htk, ↓reduceIte]
    rw [evIdx_node hl, evIdx_node hr']
    exact h

/-- a whole index list -/
theorem indexList_spec (subs : List Node) (hne : subs ≠ []) (hs : ∀ s ∈ subs, okSub s = true) :
    ∀ (f : Nat) (acc : List Node) (rest : List TT), subs.length + 4 ≤ f →
    RunsV (StP o (subsToks subs ++ tRb :: rest)) (indexList o f (hd (subsToks subs)) acc) (acc ++ subs)
      (StE o rest) := by
  induction subs with
  | nil => exact absurd rfl hne
  | cons s ss ih =>
    intro f acc rest hf
    have hs1 := hs s (by simp)
    cases ss with
    | nil =>
      obtain ⟨f', rfl⟩ : ∃ f', f = f' + 5 := ⟨f - 5, by simp at hf; omega⟩
      simp only [subsToks]
      exact indexList_last f' s hs1 acc rest
    | cons s2 ss2 =>
      obtain ⟨f', rfl⟩ : ∃ f', f = f' + 5 := ⟨f - 5, by simp at hf; omega⟩
      have hs' : ∀ x ∈ s2 :: ss2, okSub x = true := fun x hx => hs x (by simp at hx ⊢; right; exact hx)
      have ih' := ih (by simp) hs' (f' + 4) (acc ++ [s]) rest (by simp at hf ⊢; omega)
      obtain ⟨tk, ts, htk, hns⟩ : ∃ tk ts, subsToks (s2 :: ss2) = tk :: ts ∧ tk.1 ≠ .stop := by
        obtain ⟨tk, ts, h1, h2⟩ := subToks_shape (hs s2 (by simp))
        cases ss2 with
        | nil => exact ⟨tk, ts, by simp [subsToks, h1], h2⟩
        | cons s3 ss3 => exact ⟨tk, ts ++ tComma :: subsToks (s3 :: ss3), by simp [subsToks, h1], h2⟩
      obtain ⟨tk1, ts1, htk1, _⟩ := subToks_shape hs1
      have e1 : subsToks (s :: s2 :: ss2) = subToks s ++ tComma :: subsToks (s2 :: ss2) := by simp [subsToks]
      rw [e1, htk]
      rw [htk] at ih'
      simp only [List.cons_append, List.append_assoc] at ih' ⊢
      have hh : hd (subToks s ++ tComma :: tk :: ts) = hd (subToks s) := by rw [htk1]; rfl
      rw [hh]
      have := indexList_more f' s hs1 acc tk (ts ++ tRb :: rest) hns (acc ++ s :: s2 :: ss2) (StE o rest)
        (by simpa [hd] using ih')
      simpa using this

theorem accOp_index (f : Nat) (subs : List Node) (hne : subs ≠ []) (hs : ∀ s ∈ subs, okSub s = true)
    (rest : List TT) (hf : subs.length + 4 ≤ f) :
    RunsV (StP o (tLb :: (subsToks subs ++ tRb :: rest))) (accessorOp o (f + 1) .lbrack)
      (.arrayIndex subs none) (StE o rest) := by
  have hsh : ∃ tk ts, subsToks subs = tk :: ts ∧ tk.1 ≠ .stop ∧ tk.1 ≠ .star := by
    cases subs with
    | nil => exact absurd rfl hne
    | cons s ss =>
      obtain ⟨l, r, rfl, _, _⟩ := okSub_cases (hs s (by simp))
      have h2 : (idxTok l).1 ≠ .star := by unfold idxTok; split <;> simp [tInt, tLast]
      cases ss with
      | nil => cases r <;> exact ⟨idxTok l, _, rfl, idxTok_ne_stop l, h2⟩
      | cons s2 ss2 => cases r <;> exact ⟨idxTok l, _, rfl, idxTok_ne_stop l, h2⟩
  obtain ⟨tk, ts, htk, h1, h2⟩ := hsh
  have hspec := indexList_spec (o := o) subs hne hs f [] rest hf
  rw [htk] at hspec ⊢
  rw [accessorOp]
  lstep (consume_spec _ _)
  simp only [reduceCtorEq, ↓reduceIte]
  lstep (peek_cons _ _)
  simp only [h1, h2, ↓reduceIte]
  lstep (by simpa [hd] using hspec)
  exact RunsV.pure _

end

/-! ## The characters that may follow a printed piece -/

section
variable (o : Oracles) (ok : OrOK o)
include ok

/-! ## Text and tokens of the stage-1 accessors -/

theorem seg_nat (n : Nat) : Seg o brk (Nat.toDigits 10 n) [tInt n] := by
  obtain ⟨d, ds, h, ht, h1, h2, h3⟩ := tokAt_nat o ok n
  have hdd : isDecimal d = true :=
    isDecimal_of_isDigit d (Nat.isDigit_of_mem_toDigits (b := 10) (n := n) (by decide) (by decide) (by rw [h]; simp))
  rw [h]
  exact (seg_of_tokAt o ht h1 h2 (by simp [tInt]) h3 (fun _ h => tol_endsNumber o ok h) (tolB_nat o ok hdd)).mono o (fun y hy => brk_endsNumber o ok hy)

theorem seg_sp_nat (n : Nat) : Seg o brk (' ' :: Nat.toDigits 10 n) [tInt n] := by
  obtain ⟨d, ds, h, ht, h1, h2, h3⟩ := tokAt_nat o ok n
  have hdd : isDecimal d = true :=
    isDecimal_of_isDigit d (Nat.isDigit_of_mem_toDigits (b := 10) (n := n) (by decide) (by decide) (by rw [h]; simp))
  rw [h]
  exact (seg_sp_of_tokAt o ht h1 h2 (by simp [tInt]) h3 (fun _ h => tol_endsNumber o ok h) (tolB_nat o ok hdd)).mono o (fun y hy => brk_endsNumber o ok hy)

/-- a keyword as a piece of text -/
theorem seg_kw (c : Char) (w : List Char) (t : Tok) (hp : (c :: w, t) ∈ kwList) (ht : t ≠ .stop) :
    Seg o (fun y => isIdentCont o y = false) (c :: w) [(t, c :: w)] := by
  have hw := kw_wordChars (c :: w, t) hp
  have hn := noNul_word o ok (c :: w) hw
  obtain ⟨c', w', h1, h2⟩ := kw_shape (c :: w, t) hp
  injection h1 with h1a h1b
  subst h1a
  exact seg_of_tokAt o (tokAt_kw o ok c w t hp) (NoNul.of_cons hn).1 (NoNul.of_cons hn).2 ht
    (isLow_facts c h2).2.2.2.1 (fun _ h => tol_identCont o ok h) (tolB_low o ok h2)

theorem seg_sp_kw (c : Char) (w : List Char) (t : Tok) (hp : (c :: w, t) ∈ kwList) (ht : t ≠ .stop) :
    Seg o (fun y => isIdentCont o y = false) (' ' :: c :: w) [(t, c :: w)] := by
  have hw := kw_wordChars (c :: w, t) hp
  have hn := noNul_word o ok (c :: w) hw
  obtain ⟨c', w', h1, h2⟩ := kw_shape (c :: w, t) hp
  injection h1 with h1a h1b
  subst h1a
  exact seg_sp_of_tokAt o (tokAt_kw o ok c w t hp) (NoNul.of_cons hn).1 (NoNul.of_cons hn).2 ht
    (isLow_facts c h2).2.2.2.1 (fun _ h => tol_identCont o ok h) (tolB_low o ok h2)

theorem seg_solo (c : Char) (hc : c ∈ solo) : Seg o (fun _ => True) [c] [T1 c] := by
  have h0 : c.toNat ≠ 0 := by
    simp [solo] at hc
    rcases hc with h | h | h | h | h | h | h | h | h | h | h | h <;> subst h <;> decide
  have hns : (T1 c).1 ≠ .stop := by
    simp [solo] at hc
    rcases hc with h | h | h | h | h | h | h | h | h | h | h | h <;> subst h <;> decide
  have hws : isWhitespace c = false := by
    simp [solo] at hc
    rcases hc with h | h | h | h | h | h | h | h | h | h | h | h <;> subst h <;> decide
  exact seg_of_tokAt o (tokAt_solo o ok c hc) h0 NoNul.nil hns hws (fun _ _ => trivial) tolB_true

theorem seg_string (s : List Char) (hs : NoNul s) :
    Seg o (fun _ => True) (Print.quote o.isPrint s) [(.string, s)] := by
  have hq := noNul_quote o.isPrint s hs
  have hb : NoNul (body o.isPrint s ++ ['"']) := by
    have : Print.quote o.isPrint s = '"' :: (body o.isPrint s ++ ['"']) := by simp [Print.quote, body]
    rw [this] at hq
    exact (NoNul.of_cons hq).2
  have := seg_of_tokAt o (tokAt_string o ok s hs) (by decide) hb (by simp) (by decide) (fun _ _ => trivial) tolB_true
  simpa [Print.quote, body] using this

end

/-! ## Stage-1 accessors: shapes, text, tokens -/

/-! ### the printer on these accessors -/

section
variable (o : Oracles) (ok : OrOK o)
include ok

/-! ### single pieces -/

theorem Seg.app_true {C : Option Char → Prop} {p1 p2 : List Char} {t1 t2 : List TT}
    (h1 : Seg o CT p1 t1) (h2 : Seg o C p2 t2) : Seg o C (p1 ++ p2) (t1 ++ t2) :=
  Seg.app o h1 h2 (fun _ _ => trivial)

theorem Seg.weak {C : Option Char → Prop} {p : List Char} {t : List TT} (h : Seg o CT p t) : Seg o C p t :=
  h.mono o (fun _ _ => trivial)

theorem seg_lb : Seg o CT ['['] [tLb] := by simpa [T1_lb] using seg_solo o ok '[' (by decide)
theorem seg_rb : Seg o CT [']'] [tRb] := by simpa [T1_rb] using seg_solo o ok ']' (by decide)
theorem seg_lp : Seg o CT ['('] [tLp] := by simpa [T1_lp] using seg_solo o ok '(' (by decide)
theorem seg_rp : Seg o CT [')'] [tRp] := by simpa [T1_rp] using seg_solo o ok ')' (by decide)
theorem seg_lc : Seg o CT ['{'] [tLc] := by simpa [T1_lc] using seg_solo o ok '{' (by decide)
theorem seg_rc : Seg o CT ['}'] [tRc] := by simpa [T1_rc] using seg_solo o ok '}' (by decide)
theorem seg_comma : Seg o CT [','] [tComma] := by simpa [T1_comma] using seg_solo o ok ',' (by decide)
theorem seg_q : Seg o CT ['?'] [tQ] := by simpa [T1_q] using seg_solo o ok '?' (by decide)

theorem seg_dot : Seg o (fun y => isDecimalR y = false) ['.'] [tDot] := by
  simpa [T1_dot] using seg_of_tokAt o (tokAt_dot o ok) (by decide) NoNul.nil (by decide) (by decide) (fun _ h => tol_notDigit h) tolB_dot

theorem seg_star : Seg o (fun y => y ≠ some '*') ['*'] [tStar] := by
  simpa [T1_star] using seg_of_tokAt o (tokAt_star o ok) (by decide) NoNul.nil (by decide) (by decide) (fun _ h => tol_star h) tolB_star

theorem seg_dollar : Seg o (fun y => y ≠ some '"' ∧ isVariableRune o y = false) ['$'] [tDollar] := by
  simpa [T1_dollar] using seg_of_tokAt o (tokAt_dollar o ok) (by decide) NoNul.nil (by decide) (by decide) (fun _ h => tol_dollar o ok h) (tolB_dollar o ok)

theorem seg_anyTok : Seg o CT ['*', '*'] [tAny] :=
  seg_of_tokAt o (tokAt_two o ok '*' '*' .any (by decide)) (by decide) (NoNul.cons (by decide) NoNul.nil) (by decide)
    (by decide) (fun _ _ => trivial) tolB_true

/-! ### composite pieces -/

theorem seg_last : Seg o brkS lastTxt [tLast] :=
  (seg_kw o ok 'l' ['a', 's', 't'] .last (by decide) (by decide)).mono o (fun _ h => brkS_identCont o ok h)

theorem seg_sp_last : Seg o brkS (' ' :: lastTxt) [tLast] :=
  (seg_sp_kw o ok 'l' ['a', 's', 't'] .last (by decide) (by decide)).mono o (fun _ h => brkS_identCont o ok h)

theorem seg_sp_to : Seg o (fun y => isIdentCont o y = false) [' ', 't', 'o'] [tTo] :=
  seg_sp_kw o ok 't' ['o'] .to (by decide) (by decide)

theorem seg_lvl (a : Nat) : Seg o brk (lvlTxt a) [lvlTok a] := by
  unfold lvlTxt lvlTok
  split
  · exact (seg_last o ok).mono o (fun _ h => brkS_of_brk h)
  · exact seg_nat o ok a

theorem seg_sp_lvl (a : Nat) : Seg o brk (' ' :: lvlTxt a) [lvlTok a] := by
  unfold lvlTxt lvlTok
  split
  · exact (seg_sp_last o ok).mono o (fun _ h => brkS_of_brk h)
  · exact seg_sp_nat o ok a

theorem seg_idx {l : Node} (h : okIdx l = true) : Seg o brk (idxTxt l) [idxTok l] := by
  rcases okIdx_cases h with ⟨i, rfl, _⟩ | rfl
  · exact seg_nat o ok _
  · exact (seg_last o ok).mono o (fun _ h => brkS_of_brk h)

theorem seg_sp_idx {l : Node} (h : okIdx l = true) : Seg o brk (' ' :: idxTxt l) [idxTok l] := by
  rcases okIdx_cases h with ⟨i, rfl, _⟩ | rfl
  · exact seg_sp_nat o ok _
  · exact (seg_sp_last o ok).mono o (fun _ h => brkS_of_brk h)

theorem seg_any (a b : Nat) : Seg o CT (anyTxt a b) (anyToks a b) := by
  unfold anyTxt anyToks
  split
  · exact seg_anyTok o ok
  · split
    · have h1 := Seg.app_cons o (seg_lvl o ok a) (seg_rc o ok) (Or.inr (Or.inr (Or.inr (Or.inr (Or.inr rfl)))))
      have h2 := Seg.app_true o ok (seg_lc o ok) h1
      have h3 := Seg.app_true o ok (seg_anyTok o ok) h2
      simpa using h3
    · have h1 := Seg.app_cons o (seg_sp_lvl o ok b) (seg_rc o ok) (Or.inr (Or.inr (Or.inr (Or.inr (Or.inr rfl)))))
      have h2 := Seg.app_cons o (seg_sp_to o ok) h1 (identCont_punct o ok ' ' (by decide))
      have h3 := Seg.app_cons o (seg_lvl o ok a) h2 (Or.inr (Or.inl rfl))
      have h4 := Seg.app_true o ok (seg_lc o ok) h3
      have h5 := Seg.app_true o ok (seg_anyTok o ok) h4
      simpa using h5

theorem seg_sub {s : Node} (h : okSub s = true) : Seg o brk (subTxt s) (subToks s) := by
  obtain ⟨l, r, rfl, hl, hr⟩ := okSub_cases h
  cases r with
  | none => exact seg_idx o ok hl
  | some r =>
    have h2 := Seg.app_cons o (seg_sp_to o ok) (seg_sp_idx o ok (hr r rfl)) (identCont_punct o ok ' ' (by decide))
    have h3 := Seg.app_cons o (seg_idx o ok hl) h2 (Or.inr (Or.inl rfl))
    simpa [subTxt, subToks] using h3

theorem seg_subs (subs : List Node) (hne : subs ≠ []) (hs : ∀ s ∈ subs, okSub s = true) :
    Seg o brk (subsTxt subs) (subsToks subs) := by
  induction subs with
  | nil => exact absurd rfl hne
  | cons s ss ih =>
    have h1 := seg_sub o ok (hs s (by simp))
    cases ss with
    | nil => simpa [subsTxt, subsToks] using h1
    | cons s2 ss2 =>
      have ih' := ih (by simp) (fun x hx => hs x (by simp at hx ⊢; right; exact hx))
      have h2 := Seg.app_true o ok (seg_comma o ok) ih'
      have h3 := Seg.app_cons o h1 h2 (Or.inr (Or.inr (Or.inr (Or.inr (Or.inl rfl)))))
      simpa [subsTxt, subsToks] using h3

/-- `.name()` -/
theorem seg_dot_kw_call (c : Char) (w : List Char) (t : Tok) (hp : (c :: w, t) ∈ kwList) (hns : t ≠ .stop) :
    Seg o CT ('.' :: ((c :: w) ++ ['(', ')'])) [tDot, (t, c :: w), tLp, tRp] := by
  obtain ⟨c', w', h1, h2⟩ := kw_shape (c :: w, t) hp
  injection h1 with h1a h1b
  subst h1a
  have hd : isDecimalR (some c) = false := (isLow_facts c h2).2.2.2.2
  have h3 := Seg.app_true o ok (seg_lp o ok) (seg_rp o ok)
  have h4 := Seg.app_cons o (seg_kw o ok c w t hp hns) h3 (identCont_punct o ok '(' (by decide))
  have h5 := Seg.app_cons o (seg_dot o ok) h4 hd
  simpa using h5

/-- one stage-1 accessor as a piece of text -/
theorem seg_step {n : Node} (h : StepShape n) : Seg o brkS (stepTxt o.isPrint n) (stepToks n) := by
  cases h with
  | key s nx h =>
    have h1 := Seg.app_cons o (seg_dot o ok) (seg_string o ok s h) (by decide)
    exact Seg.weak o ok (by simpa [stepTxt, stepToks, Print.quote] using h1)
  | anyKey nx =>
    have h1 := Seg.app_cons o (seg_dot o ok) (seg_star o ok) (by decide)
    exact h1.mono o (fun _ h => brkS_star h)
  | anyArray nx =>
    have h1 := Seg.app_cons o (seg_star o ok) (seg_rb o ok) (by decide)
    have h2 := Seg.app_true o ok (seg_lb o ok) h1
    exact Seg.weak o ok h2
  | any a b nx ha hb =>
    have hh : isDecimalR (anyTxt a b).head? = false := by
      unfold anyTxt; split
      · rfl
      · split <;> rfl
    have h1 := Seg.app o (seg_dot o ok) (seg_any o ok a b) (fun r _ => by
      have : (anyTxt a b ++ r).head? = (anyTxt a b).head? := by
        unfold anyTxt; split
        · rfl
        · split <;> rfl
      rw [this]; exact hh)
    exact Seg.weak o ok (by simpa [stepTxt, stepToks] using h1)
  | method m nx =>
    obtain ⟨c, w, h1, h2, h3⟩ := methodName_kw m
    have := seg_dot_kw_call o ok c w (methodTok m) h2 h3
    simp only [stepTxt, stepToks, tMethod, h1]
    exact Seg.weak o ok this
  | date nx =>
    exact Seg.weak o ok (seg_dot_kw_call o ok 'd' ['a', 't', 'e'] .date (by decide) (by decide))
  | datetime0 nx =>
    exact Seg.weak o ok
      (seg_dot_kw_call o ok 'd' ['a', 't', 'e', 't', 'i', 'm', 'e'] .datetime (by decide) (by decide))
  | datetime1 t nx h =>
    have h2 := Seg.app_true o ok (seg_string o ok t h) (seg_rp o ok)
    have h3 := Seg.app_true o ok (seg_lp o ok) h2
    have h4 := Seg.app_cons o (seg_kw o ok 'd' ['a', 't', 'e', 't', 'i', 'm', 'e'] .datetime (by decide) (by decide)) h3
      (identCont_punct o ok '(' (by decide))
    have h5 := Seg.app_cons o (seg_dot o ok) h4 (by decide)
    exact Seg.weak o ok (by simpa [stepTxt, stepToks, tDatetime] using h5)
  | index subs nx hne hs =>
    have h1 := Seg.app_cons o (seg_subs o ok subs hne hs) (seg_rb o ok) (Or.inr (Or.inr (Or.inr (Or.inl rfl))))
    have h2 := Seg.app_true o ok (seg_lb o ok) h1
    exact Seg.weak o ok (by simpa [stepTxt, stepToks] using h2)

end

/-! ## One accessor, uniformly -/

section
variable {o : Oracles}

theorem accOp_simple {n : Node} (h : StepShape n) (rest : List TT) (hr : (hd rest).1 ≠ .lbrace) (f : Nat)
    (hf : 16 * (stepToks n).length + 1 ≤ f) :
    ∃ t x ts, stepToks n = (t, x) :: ts ∧ isAccessorStart t = true ∧
      RunsV (StP o (stepToks n ++ rest)) (accessorOp o f t) (n.setNext none) (StE o rest) := by
  obtain ⟨f', rfl⟩ : ∃ f', f = f' + 1 := ⟨f - 1, by omega⟩
  cases h with
  | key s nx h => exact ⟨.dot, _, _, rfl, rfl, accOp_key f' s rest⟩
  | anyKey nx => exact ⟨.dot, _, _, rfl, rfl, accOp_anyKey f' rest⟩
  | anyArray nx => exact ⟨.lbrack, _, _, rfl, rfl, accOp_anyArray f' rest⟩
  | any a b nx ha hb => exact ⟨.dot, _, _, rfl, rfl, accOp_any f' a b ha hb rest hr⟩
  | method m nx => exact ⟨.dot, _, _, rfl, rfl, accOp_method f' m rest⟩
  | date nx => exact ⟨.dot, _, _, rfl, rfl, accOp_date f' rest⟩
  | datetime0 nx => exact ⟨.dot, _, _, rfl, rfl, accOp_datetime0 f' rest⟩
  | datetime1 t nx h => exact ⟨.dot, _, _, rfl, rfl, accOp_datetime1 f' t rest⟩
  | index subs nx hne hs =>
    refine ⟨.lbrack, _, _, rfl, rfl, ?_⟩
    have hl := subsToks_length subs hs
    have := accOp_index (o := o) f' subs hne hs rest (by
      simp only [stepToks, List.length_cons, List.length_append, List.length_nil] at hf
      omega)
    simpa [stepToks, Node.setNext] using this

end

/-! ## Chains -/

/-! ## What is proved of an accessor and of a chain of accessors -/

/-- the accessor `n` (whatever its `next`): printed text, tokens, and what `accessorOp` makes of them -/
def StepOK (o : Oracles) (n : Node) : Prop :=
  ∃ (stxt : List Char) (t : Tok) (x : List Char) (ts : List TT) (c : Char) (cs : List Char),
    (∀ wp, Print.writeTo o.isPrint n true wp
        = (Print.writeNext o.isPrint n.next).bind (fun tl => some (stxt ++ tl))) ∧
    Seg o brkS stxt ((t, x) :: ts) ∧ stxt = c :: cs ∧ brkS (some c) ∧ isAccessorStart t = true ∧
    ∀ rest f, (hd rest).1 ≠ .lbrace → 16 * (ts.length + 1) + 1 ≤ f →
      RunsV (StP o ((t, x) :: ts ++ rest)) (accessorOp o f t) (n.setNext none) (StE o rest)

/-- the chain `nx` of accessors: printed text, tokens, and what `accessorLoop` makes of them -/
def ChainOK (o : Oracles) (nx : Option Node) : Prop :=
  ∃ (txt : List Char) (toks : List TT) (L : List Node),
    Print.writeNext o.isPrint nx = some txt ∧ Seg o brk txt toks ∧
    (∀ r, brk r.head? → brkS (txt ++ r).head?) ∧ HeadT toks ∧ chainOf L = nx ∧
    ∀ f head ops rest, 16 * toks.length + 2 ≤ f → isAccessorStart (hd rest).1 = false →
      (hd rest).1 ≠ .lbrace →
      RunsV (StE o (toks ++ rest)) (accessorLoop o f head ops) (linkNodes head (ops ++ L)) (StA o rest)

section
variable {o : Oracles}

theorem chain_nil : ChainOK o none := by
  refine ⟨[], [], [], rfl, Seg.nil o _, fun r h => brkS_of_brk h, Or.inl rfl, rfl, ?_⟩
  intro f head ops rest hf h1 _
  obtain ⟨f', rfl⟩ : ∃ f', f = f' + 1 := ⟨f - 1, by omega⟩
  simpa using accLoop_nil f' head ops rest h1

theorem chain_cons {n : Node} (hs : StepOK o n) (hc : ChainOK o n.next) : ChainOK o (some n) := by
  obtain ⟨stxt, t, x, ts, c, cs, hw, hseg, hcs, hbc, hacc, hop⟩ := hs
  obtain ⟨txt, toks, L, hw', hseg', hhead, hheadT, hL, hloop⟩ := hc
  refine ⟨stxt ++ txt, ((t, x) :: ts) ++ toks, n.setNext none :: L, ?_, ?_, ?_, ?_, ?_, ?_⟩
  · simp only [Print.writeNext, hw true, hw']
    rfl
  · exact Seg.app o hseg hseg' hhead
  · intro r _
    rw [hcs]; exact hbc
  · exact Or.inr ⟨t, x, ts ++ toks, rfl, hacc⟩
  · simp only [chainOf, hL, setNext_setNext, setNext_next]
  · intro f head ops rest hf h1 h2
    obtain ⟨f', rfl⟩ : ∃ f', f = f' + 1 := ⟨f - 1, by omega⟩
    simp only [List.length_append, List.length_cons] at hf
    rw [accessorLoop]
    simp only [List.cons_append, List.append_assoc]
    lstep (peek_cons _ _)
    simp only [hacc, ↓reduceIte]
    have hop' := hop (toks ++ rest) f' (hheadT.lbrace h2) (by omega)
    simp only [List.cons_append, List.append_assoc] at hop'
    lstep hop'
    have := hloop f' head (ops ++ [n.setNext none]) rest (by omega) h1 h2
    simpa using this

theorem stepOK_simple (ok : OrOK o) {n : Node} (h : StepShape n) : StepOK o n := by
  have hseg := seg_step o ok h
  obtain ⟨t, x, ts, hts, hacc, _⟩ := accOp_simple (o := o) h [] (by decide) (16 * (stepToks n).length + 1)
    (Nat.le_refl _)
  have hhead : ∃ c cs, stepTxt o.isPrint n = c :: cs ∧ brkS (some c) := by
    cases h <;> first
      | exact ⟨'.', _, rfl, Or.inr (Or.inl rfl)⟩
      | exact ⟨'[', _, rfl, Or.inr (Or.inr (Or.inl rfl))⟩
  obtain ⟨c, cs, hcs, hbc⟩ := hhead
  refine ⟨stepTxt o.isPrint n, t, x, ts, c, cs, writeTo_step o.isPrint h, by rw [← hts]; exact hseg, hcs, hbc,
    hacc, ?_⟩
  intro rest f hr hf
  obtain ⟨t', x', ts', hts', _, hrun⟩ := accOp_simple (o := o) h rest hr f (by rw [hts]; simpa using hf)
  rw [hts] at hts' hrun
  injection hts' with h1 h2
  injection h1 with h1a h1b
  subst h1a
  exact hrun

end

/-! ## From `parseBody` to `Parse` -/

section
variable {o : Oracles}

theorem stE_nil_err {s : PS} (h : StE o [] s) : s.lx.err = false := by
  rcases h with h | h
  · obtain ⟨s', hl, hat⟩ := h.2
    cases he : s.lx.err with
    | false => rfl
    | true =>
      have := lex_err_mono o s.lx he
      rw [hl] at this
      simp only at this
      rw [hat.1] at this
      exact absurd this (by simp)
  · exact absurd h (by simp [StP])

/-- if `parseBody` consumes the tokens of the text and the tree is valid, `Parse` returns it -/
theorem parse_of_body (bytes : List UInt8) (txt : List Char) (toks : List TT) (lax isPred : Bool) (root : EV)
    (hdec : decodeAll bytes = txt.map Src.ch) (hlex : Lexes o txt toks)
    (hbody : RunsV (StE o toks) (parseBody o (fuelFor bytes)) (lax, isPred, root) (StE o []))
    (hv : validate root.node = true) :
    parse o bytes = .ok ⟨root.node, lax, isPred⟩ := by
  have h0 : StE o toks { lx := LState.init bytes, la := none } := by
    refine Or.inl ⟨rfl, hlex _ ⟨rfl, rfl, Or.inl ⟨rfl, ?_⟩⟩⟩
    simp only [LState.init, hdec]
  obtain ⟨s1, e1, p1⟩ := hbody _ h0
  have herr := stE_nil_err p1
  obtain ⟨s2, e2, p2⟩ := peek_nil (o := o) s1 p1
  have hfin : finish o lax isPred root s1 = .ok (some ⟨root.node, lax, isPred⟩) s2 := by
    unfold finish
    simp only [bind_apply, hasError, herr, Bool.false_eq_true, if_false, hv, if_true, pure_apply, e2]
    simp
    rfl
  unfold parse Parse.run parseTop
  simp only [bind_apply, e1, hfin, stE_nil_err p2]
  simp

/-! ## A scalar head followed by its accessors -/

/-- head token, then a chain: exactly the value of the operand `hn` with the chain attached -/
theorem unaryT_chain' (tk : TT) (hn : Node) (h : headOf tk = some hn) {nx : Option Node} (hc : ChainOK o nx) :
    ∃ txt toks, Print.writeNext o.isPrint nx = some txt ∧ Seg o brk txt toks ∧
      (∀ r, brk r.head? → brkS (txt ++ r).head?) ∧
      ∀ f rest, 16 * toks.length + 4 ≤ f → isAccessorStart (hd rest).1 = false → (hd rest).1 ≠ .lbrace →
        RunsV (StP o (tk :: toks ++ rest)) (parseUnaryT o f tk) (evOf (hn.setNext nx)) (StA o rest) := by
  obtain ⟨txt, toks, L, hw, hseg, hhead, _, hL, hloop⟩ := hc
  refine ⟨txt, toks, hw, hseg, hhead, ?_⟩
  intro f rest hf h1 h2
  obtain ⟨f', rfl⟩ : ∃ f', f = f' + 2 := ⟨f - 2, by omega⟩
  have hev : linkNodes { node := hn } L = evOf (hn.setNext nx) := by
    have h1 := linkNodes_node { node := hn } L (headOf_next h)
    have h2 := linkNodes_lit { node := hn } L
    rw [hL] at h1
    cases hh : linkNodes { node := hn } L with
    | mk nd lt =>
      rw [hh] at h1 h2
      simp only at h1 h2
      simp only [evOf, h1, headOf_lit h nx]
      rw [h2]
  rw [parseUnaryT_head f' tk hn h]
  simp only [List.cons_append]
  lstep (consume_spec _ _)
  have := hloop f' { node := hn } [] rest (by omega) h1 h2
  rw [← hev]
  simpa using this

end

/-! ## A path `$ …` at the top -/

section
variable {o : Oracles}

theorem seg_sp_dollar (ok : OrOK o) : Seg o brkS [' ', '$'] [tDollar] := by
  have := seg_sp_of_tokAt o (tokAt_dollar o ok) (by decide) NoNul.nil (by decide) (by decide)
    (fun _ h => tol_dollar o ok h) (tolB_dollar o ok)
  rw [T1_dollar] at this
  exact this.mono o (fun _ h => brkS_dollar o ok h)

theorem seg_dollar' (ok : OrOK o) : Seg o brkS ['$'] [tDollar] :=
  (seg_dollar o ok).mono o (fun _ h => brkS_dollar o ok h)

end

/-! ## Stage 1: the class of accessor paths -/

section
variable {o : Oracles}

end

/-! ## UTF-8: Go's `string` → bytes, read back by `decodeAll` -/

/-! ## Stage 2: pieces that may be preceded by a blank -/

/-- a piece of text that lexes to `toks` with or without a blank before it -/
def Seg2 (o : Oracles) (C : Option Char → Prop) (txt : List Char) (toks : List TT) : Prop :=
  Seg o C txt toks ∧ Seg o C (' ' :: txt) toks

section
variable (o : Oracles)

theorem Seg2.app {C1 C2 : Option Char → Prop} {p1 p2 : List Char} {t1 t2 : List TT}
    (h1 : Seg2 o C1 p1 t1) (h2 : Seg o C2 p2 t2)
    (hc : ∀ r, C2 r.head? → C1 (p2 ++ r).head?) : Seg2 o C2 (p1 ++ p2) (t1 ++ t2) :=
  ⟨Seg.app o h1.1 h2 hc, by simpa using Seg.app o h1.2 h2 hc⟩

theorem Seg2.app_cons {C1 C2 : Option Char → Prop} {p1 : List Char} {c : Char} {p2 : List Char} {t1 t2 : List TT}
    (h1 : Seg2 o C1 p1 t1) (h2 : Seg o C2 (c :: p2) t2) (hc : C1 (some c)) :
    Seg2 o C2 (p1 ++ c :: p2) (t1 ++ t2) :=
  Seg2.app o h1 h2 (fun _ _ => hc)

theorem Seg2.mono {C C' : Option Char → Prop} {p : List Char} {t : List TT}
    (h : Seg2 o C p t) (hc : ∀ y, C' y → C y) : Seg2 o C' p t :=
  ⟨h.1.mono o hc, h.2.mono o hc⟩

variable (ok : OrOK o)
include ok

theorem seg2_tokAt {C : Option Char → Prop} {c : Char} {w : List Char} {tk : TT}
    (h : TokAt o C c w tk) (hc : c.toNat ≠ 0) (hw : NoNul w) (hns : tk.1 ≠ .stop)
    (hws : isWhitespace c = false) (htol : ∀ y, SepStart y → C y)
    (htb : ∀ d, tolOf (c :: w) d = true → C (some d)) : Seg2 o C (c :: w) [tk] :=
  ⟨seg_of_tokAt o h hc hw hns hws htol htb, seg_sp_of_tokAt o h hc hw hns hws htol htb⟩

theorem seg2_solo (c : Char) (hc : c ∈ solo) : Seg2 o CT [c] [T1 c] := by
  have h0 : c.toNat ≠ 0 ∧ (T1 c).1 ≠ .stop ∧ isWhitespace c = false := by
    simp [solo] at hc
    rcases hc with h | h | h | h | h | h | h | h | h | h | h | h <;> subst h <;> decide
  exact seg2_tokAt o ok (tokAt_solo o ok c hc) h0.1 NoNul.nil h0.2.1 h0.2.2 (fun _ _ => trivial) tolB_true

theorem seg2_lp : Seg2 o CT ['('] [tLp] := by simpa [T1_lp] using seg2_solo o ok '(' (by decide)
theorem seg2_at : Seg2 o CT ['@'] [tAt] := by simpa [T1_at] using seg2_solo o ok '@' (by decide)

theorem seg2_dollar : Seg2 o brkS ['$'] [tDollar] := ⟨seg_dollar' ok, seg_sp_dollar ok⟩

theorem seg2_kw (c : Char) (w : List Char) (t : Tok) (hp : (c :: w, t) ∈ kwList) (ht : t ≠ .stop) :
    Seg2 o (fun y => isIdentCont o y = false) (c :: w) [(t, c :: w)] :=
  ⟨seg_kw o ok c w t hp ht, seg_sp_kw o ok c w t hp ht⟩

theorem seg2_string (s : List Char) (hs : NoNul s) :
    Seg2 o CT (Print.quote o.isPrint s) [(.string, s)] := by
  have hq := noNul_quote o.isPrint s hs
  have hb : NoNul (body o.isPrint s ++ ['"']) := by
    have : Print.quote o.isPrint s = '"' :: (body o.isPrint s ++ ['"']) := by simp [Print.quote, body]
    rw [this] at hq
    exact (NoNul.of_cons hq).2
  have := seg2_tokAt o ok (tokAt_string o ok s hs) (by decide) hb (by simp) (by decide) (fun _ _ => trivial) tolB_true
  have e : Print.quote o.isPrint s = '"' :: (body o.isPrint s ++ ['"']) := by simp [Print.quote, body]
  rw [e]; exact this

theorem seg2_nat (n : Nat) : Seg2 o brk (Nat.toDigits 10 n) [tInt n] := ⟨seg_nat o ok n, seg_sp_nat o ok n⟩

theorem seg2_bang : Seg2 o (fun y => y ≠ some '=') ['!'] [(.not, ['!'])] :=
  seg2_tokAt o ok (tokAt_bang o ok) (by decide) NoNul.nil (by decide) (by decide) (fun _ h => tol_eq h) tolB_bang

/-! ### infix operators -/

/-- ` op` as written between two operands; it is always followed by a blank -/
theorem seg_sp_op (op : BinOp) (h : isCmp op = true ∨ isLogic op = true) :
    Seg o (fun y => y = some ' ') (' ' :: Print.binStr op) [opTok op] := by
  have two : ∀ c d t, (c, d, t) ∈ twoOps → isWhitespace c = false → Seg o (fun y => y = some ' ') [' ', c, d] [(t, [])] := by
    intro c d t hm hws
    have hd0 : d.toNat ≠ 0 ∧ c.toNat ≠ 0 ∧ t ≠ .stop := by
      simp [twoOps] at hm
      rcases hm with h | h | h | h | h | h | h <;> obtain ⟨h1, h2, h3⟩ := h <;> subst h1 <;> subst h2 <;> subst h3 <;>
        decide
    exact (seg_sp_of_tokAt o (tokAt_two o ok c d t hm) hd0.2.1 (NoNul.cons hd0.1 NoNul.nil) hd0.2.2 hws
      (fun _ _ => trivial) tolB_true).mono o
      (fun _ _ => trivial)
  cases op <;> simp [isCmp, isLogic] at h
  · exact two '&' '&' .and (by decide) (by decide)
  · exact two '|' '|' .or (by decide) (by decide)
  · exact two '=' '=' .equal (by decide) (by decide)
  · exact two '!' '=' .notEq (by decide) (by decide)
  · exact (seg_sp_of_tokAt o (tokAt_lt o ok) (by decide) NoNul.nil (by decide) (by decide) (fun _ h => tol_lt h) tolB_lt).mono o
      (fun y hy => by subst hy; exact ⟨by decide, by decide⟩)
  · exact (seg_sp_of_tokAt o (tokAt_gt o ok) (by decide) NoNul.nil (by decide) (by decide) (fun _ h => tol_eq h) tolB_gt).mono o
      (fun y hy => by subst hy; decide)
  · exact two '<' '=' .lessEq (by decide) (by decide)
  · exact two '>' '=' .greaterEq (by decide) (by decide)

end

/-! ## Stage 2: operands and predicates — what is proved of them -/

/-- an operand (an `expr` of the grammar): text, tokens, and what `parseUnaryT` makes of them -/
def OpdOK (o : Oracles) (n : Node) : Prop :=
  ∃ (txt : List Char) (tk : TT) (ts : List TT),
    (∀ wp, Print.writeTo o.isPrint n false wp = some txt) ∧ Seg2 o brk txt (tk :: ts) ∧
    isOpdStart tk.1 = true ∧
    ∀ f rest, 16 * (ts.length + 1) + 4 ≤ f → isAccessorStart (hd rest).1 = false → (hd rest).1 ≠ .lbrace →
      RunsV (StP o (tk :: ts ++ rest)) (parseUnaryT o f tk) (evOf n) (StA o rest)

/-- `parseAtom` reads the tokens as the complete predicate `p` -/
def AtomSpec (o : Oracles) (p : Node) (toks : List TT) : Prop :=
  ∀ f ctx rest, 16 * toks.length + 8 ≤ f → PFollow (hd rest).1 →
    RunsV (StE o (toks ++ rest)) (parseAtom o f ctx) (.pred { node := p }) (StE o rest)

/-- `parseAtom` followed by `predLoop` (the left operand position of `||`, or a whole predicate):
    after the tokens, the loop stands at `rest` with `p` as its left operand, having used at most
    `k` units of fuel -/
def LeftSpec (o : Oracles) (p : Node) (toks : List TT) (k : Nat) : Prop :=
  ∀ f ctx rest, 16 * toks.length + 8 ≤ f → LFollow (hd rest).1 →
    ∃ (v0 : EV) (mid : List TT),
      RunsV (StE o (toks ++ rest)) (parseAtom o f ctx) (.pred v0) (StE o mid) ∧
      ∀ (w : EV × Tok) (post : PS → Prop),
        (∀ g, g ≤ f → f ≤ g + k → RunsV (StE o rest) (predLoop o g { node := p }) w post) →
        RunsV (StE o mid) (predLoop o f v0) w post

/-- the right operand position of `||`: `parseAtom` followed by `orLoop` -/
def RightSpec (o : Oracles) (p : Node) (toks : List TT) : Prop :=
  ∀ f rest, 16 * toks.length + 8 ≤ f → LFollow (hd rest).1 →
    ∃ (v0 : EV) (mid : List TT),
      RunsV (StE o (toks ++ rest)) (parseAtom o f .pred) (.pred v0) (StE o mid) ∧
      RunsV (StE o mid) (orLoop o f v0) { node := p } (StA o rest)

/-- a whole predicate up to `)` or the end: `parseAtom` followed by `predLoop` -/
def FullSpec (o : Oracles) (p : Node) (toks : List TT) : Prop :=
  ∀ f ctx rest, 16 * toks.length + 8 ≤ f → ((hd rest).1 = .rparen ∨ (hd rest).1 = .stop) →
    ∃ (v0 : EV) (mid : List TT),
      RunsV (StE o (toks ++ rest)) (parseAtom o f ctx) (.pred v0) (StE o mid) ∧
      RunsV (StE o mid) (predLoop o f v0) ({ node := p }, (hd rest).1) (StA o rest)

/-- a predicate: text and tokens for either value of the printer's `withParens`, and what the parser
    makes of the tokens in the positions where they can stand -/
def PredOK (o : Oracles) (p : Node) : Prop :=
  ∀ wp : Bool, ∃ (txt : List Char) (toks : List TT),
    Print.writeTo o.isPrint p false wp = some txt ∧ Seg2 o brk txt toks ∧ PHead toks ∧
    ((wp = true ∨ isAndOr p = false) → AtomSpec o p toks) ∧
    ((wp = true ∨ isOr p = false) → LeftSpec o p toks 1 ∧ RightSpec o p toks) ∧
    LeftSpec o p toks 2

section
variable {o : Oracles}

theorem predLoop_nil (f : Nat) (l : EV) (rest : List TT) (h1 : (hd rest).1 ≠ .and) (h2 : (hd rest).1 ≠ .or) :
    RunsV (StE o rest) (predLoop o (f + 1) l) (l, (hd rest).1) (StA o rest) := by
  rw [predLoop]
  lstep (peek_any rest)
  simp only [h1, h2, ↓reduceIte]
  exact RunsV.pure _

theorem orLoop_nil (f : Nat) (r : EV) (rest : List TT) (h1 : (hd rest).1 ≠ .and) :
    RunsV (StE o rest) (orLoop o (f + 1) r) r (StA o rest) := by
  rw [orLoop]
  lstep (peek_any rest)
  simp only [h1, ↓reduceIte]
  exact RunsV.pure _

/-- an atom is fine in the left position … -/
theorem left_of_atom {p : Node} {toks : List TT} (h : AtomSpec o p toks) (k : Nat) : LeftSpec o p toks k := by
  intro f ctx rest hf hfol
  refine ⟨{ node := p }, rest, h f ctx rest hf hfol.p, ?_⟩
  intro w post hk
  exact hk f (Nat.le_refl _) (by omega)

/-- … and in the right position of `||` -/
theorem right_of_atom {p : Node} {toks : List TT} (h : AtomSpec o p toks) : RightSpec o p toks := by
  intro f rest hf hfol
  obtain ⟨f', rfl⟩ : ∃ f', f = f' + 1 := ⟨f - 1, by omega⟩
  exact ⟨{ node := p }, rest, h (f' + 1) .pred rest hf hfol.p, orLoop_nil f' _ rest hfol.notAnd⟩

theorem LeftSpec.mono {p : Node} {toks : List TT} {k k' : Nat} (h : LeftSpec o p toks k) (hk : k ≤ k') :
    LeftSpec o p toks k' := by
  intro f ctx rest hf hfol
  obtain ⟨v0, mid, h1, h2⟩ := h f ctx rest hf hfol
  exact ⟨v0, mid, h1, fun w post hc => h2 w post (fun g hg1 hg2 => hc g hg1 (by omega))⟩

theorem full_of_left {p : Node} {toks : List TT} {k : Nat} (hk : k ≤ 4) (h : LeftSpec o p toks k) :
    FullSpec o p toks := by
  intro f ctx rest hf hfol
  have hpf : LFollow (hd rest).1 := by
    rcases hfol with h | h
    · exact Or.inl h
    · exact Or.inr (Or.inr h)
  obtain ⟨v0, mid, h1, h2⟩ := h f ctx rest hf hpf
  refine ⟨v0, mid, h1, h2 _ _ ?_⟩
  intro g hg1 hg2
  obtain ⟨g', rfl⟩ : ∃ g', g = g' + 1 := ⟨g - 1, by omega⟩
  refine predLoop_nil g' _ rest ?_ ?_
  · rcases hfol with h | h <;> rw [h] <;> decide
  · rcases hfol with h | h <;> rw [h] <;> decide

/-- `a && b` (both atoms) in the left position -/
theorem and_left {a b : Node} {A B : List TT} (ha : AtomSpec o a A) (hb : AtomSpec o b B) :
    LeftSpec o (.binary .and (some a) (some b) none) (A ++ tAnd :: B) 1 := by
  intro f ctx rest hf hfol
  simp only [List.length_cons, List.length_append] at hf
  refine ⟨{ node := a }, tAnd :: B ++ rest, ?_, ?_⟩
  · have := ha f ctx (tAnd :: B ++ rest) (by omega) (Or.inr (Or.inl rfl))
    simpa using this
  · intro w post hk
    obtain ⟨f', rfl⟩ : ∃ f', f = f' + 1 := ⟨f - 1, by omega⟩
    rw [predLoop]
    simp only [List.cons_append]
    lstep (peek_cons _ _)
    simp only [tAnd, ↓reduceIte]
    lstep (consume_spec _ _)
    lstep (hb f' .pred rest (by omega) hfol.p)
    exact hk f' (by omega) (by omega)

/-- `a && b` (both atoms) in the right position of `||` -/
theorem and_right {a b : Node} {A B : List TT} (ha : AtomSpec o a A) (hb : AtomSpec o b B) :
    RightSpec o (.binary .and (some a) (some b) none) (A ++ tAnd :: B) := by
  intro f rest hf hfol
  simp only [List.length_cons, List.length_append] at hf
  refine ⟨{ node := a }, tAnd :: B ++ rest, ?_, ?_⟩
  · have := ha f .pred (tAnd :: B ++ rest) (by omega) (Or.inr (Or.inl rfl))
    simpa using this
  · obtain ⟨f', rfl⟩ : ∃ f', f = f' + 2 := ⟨f - 2, by omega⟩
    rw [orLoop]
    simp only [List.cons_append]
    lstep (peek_cons _ _)
    simp only [tAnd, ↓reduceIte]
    lstep (consume_spec _ _)
    lstep (hb (f' + 1) .pred rest (by omega) hfol.p)
    exact orLoop_nil f' _ rest hfol.notAnd

/-- `x || y` in the left position -/
theorem or_left {x y : Node} {X Y : List TT} (hx : LeftSpec o x X 1) (hy : RightSpec o y Y) :
    LeftSpec o (.binary .or (some x) (some y) none) (X ++ tOr :: Y) 2 := by
  intro f ctx rest hf hfol
  simp only [List.length_cons, List.length_append] at hf
  obtain ⟨v0, mid, h1, h2⟩ := hx f ctx (tOr :: Y ++ rest) (by omega) (Or.inr (Or.inl rfl))
  refine ⟨v0, mid, by simpa using h1, ?_⟩
  intro w post hk
  refine h2 w post ?_
  intro g hg1 hg2
  obtain ⟨g', rfl⟩ : ∃ g', g = g' + 1 := ⟨g - 1, by omega⟩
  obtain ⟨r0, midY, h3, h4⟩ := hy g' rest (by omega) hfol
  rw [predLoop]
  simp only [List.cons_append]
  lstep (peek_cons _ _)
  simp only [tOr, reduceCtorEq, ↓reduceIte]
  lstep (consume_spec _ _)
  lstep h3
  lstep h4
  exact RunsV.ofA (hk g' (by omega) (by omega))

/-- after `(`: a predicate, `)`, and something that is neither an accessor nor `is` -/
theorem parenTail_pred {p : Node} {toks : List TT} (h : FullSpec o p toks) (f : Nat) (rest : List TT)
    (hf : 16 * toks.length + 8 ≤ f) (hfol : PFollow (hd rest).1) :
    RunsV (StE o (toks ++ tRp :: rest)) (parenTail o (f + 1) .paren) (.pred { node := p }) (StE o rest) := by
  obtain ⟨v0, mid, h1, h2⟩ := h f .paren (tRp :: rest) hf (Or.inl rfl)
  have hfacts := hfol.facts
  rw [parenTail]
  lstep h1
  lstep h2
  simp only [hd, tRp, ne_eq, not_true_eq_false, ↓reduceIte]
  lstep (consume_spec _ _)
  lstep (peek_any rest)
  simp only [hfacts.1, hfacts.2.2.2.2.1, reduceCtorEq, ↓reduceIte, Bool.false_eq_true]
  exact RunsV.pure' rfl (fun _ h => StE.ofA h)

/-- after `(`: a predicate, `) is unknown` -/
theorem parenTail_isUnknown {p : Node} {toks : List TT} (h : FullSpec o p toks) (f : Nat) (rest : List TT)
    (hf : 16 * toks.length + 8 ≤ f) :
    RunsV (StE o (toks ++ tRp :: tIs :: tUnknown :: rest)) (parenTail o (f + 1) .paren)
      (.pred (unary .isUnknown { node := p })) (StE o rest) := by
  obtain ⟨v0, mid, h1, h2⟩ := h f .paren (tRp :: tIs :: tUnknown :: rest) hf (Or.inl rfl)
  rw [parenTail]
  lstep h1
  lstep h2
  simp only [hd, tRp, ne_eq, not_true_eq_false, ↓reduceIte]
  lstep (consume_spec _ _)
  lstep (peek_cons _ _)
  simp only [tIs, isAccessorStart, reduceCtorEq, ↓reduceIte, decide_false, Bool.or_self, Bool.false_eq_true]
  lstep (consume_spec _ _)
  lstep (expect_spec _ _ _)
  exact RunsV.pure _

/-- a parenthesised predicate is an atom -/
theorem paren_atom {p : Node} {toks : List TT} (h : FullSpec o p toks) :
    AtomSpec o p (tLp :: toks ++ [tRp]) := by
  intro f ctx rest hf hfol
  simp only [List.length_cons, List.length_append, List.length_nil] at hf
  obtain ⟨f', rfl⟩ : ∃ f', f = f' + 2 := ⟨f - 2, by omega⟩
  rw [parseAtom]
  simp only [List.cons_append, List.append_assoc, List.nil_append]
  lstep (peek_cons _ _)
  simp only [tLp, reduceCtorEq, ↓reduceIte]
  lstep (consume_spec _ _)
  lstep (parenTail_pred h f' rest (by omega) hfol)
  exact RunsV.pure _

/-- `(p) is unknown` is an atom -/
theorem isUnknown_atom {p : Node} {toks : List TT} (h : FullSpec o p toks) :
    AtomSpec o (.unary .isUnknown (some p) none) (tLp :: toks ++ [tRp, tIs, tUnknown]) := by
  intro f ctx rest hf hfol
  simp only [List.length_cons, List.length_append, List.length_nil] at hf
  obtain ⟨f', rfl⟩ : ∃ f', f = f' + 2 := ⟨f - 2, by omega⟩
  rw [parseAtom]
  simp only [List.cons_append, List.append_assoc, List.nil_append]
  lstep (peek_cons _ _)
  simp only [tLp, reduceCtorEq, ↓reduceIte]
  lstep (consume_spec _ _)
  lstep (parenTail_isUnknown h f' rest (by omega))
  exact RunsV.pure _

/-- `!(p)` is an atom -/
theorem not_atom {p : Node} {toks : List TT} (h : FullSpec o p toks) :
    AtomSpec o (.unary .not (some p) none) (tNot :: tLp :: toks ++ [tRp]) := by
  intro f ctx rest hf hfol
  simp only [List.length_cons, List.length_append, List.length_nil] at hf
  obtain ⟨f', rfl⟩ : ∃ f', f = f' + 1 := ⟨f - 1, by omega⟩
  obtain ⟨v0, mid, h1, h2⟩ := h f' .pred (tRp :: rest) (by omega) (Or.inl rfl)
  rw [parseAtom]
  simp only [List.cons_append, List.append_assoc, List.nil_append]
  lstep (peek_cons _ _)
  simp only [tNot, ↓reduceIte]
  lstep (consume_spec _ _)
  lstep (peek_cons _ _)
  simp only [tLp, reduceCtorEq, ↓reduceIte]
  lstep (consume_spec _ _)
  lstep h1
  lstep h2
  simp only [hd, tRp, ne_eq, not_true_eq_false, ↓reduceIte]
  lstep (consume_spec _ _)
  exact RunsV.pure _

theorem unary_of_unaryT {tk : TT} {ts : List TT} {f : Nat} {ev : EV} {post : PS → Prop}
    (h : RunsV (StP o (tk :: ts)) (parseUnaryT o f tk) ev post) :
    RunsV (StE o (tk :: ts)) (parseUnary o (f + 1)) ev post := by
  rw [parseUnary]
  lstep (peek_cons _ _)
  exact h

/-- what `parseUnaryT` makes of the tokens `tk :: ts` of the operand `n` -/
def OpdSpec (o : Oracles) (n : Node) (tk : TT) (ts : List TT) : Prop :=
  ∀ f rest, 16 * (ts.length + 1) + 4 ≤ f → isAccessorStart (hd rest).1 = false → (hd rest).1 ≠ .lbrace →
    RunsV (StP o (tk :: ts ++ rest)) (parseUnaryT o f tk) (evOf n) (StA o rest)

end

/-! ## Stage 2: the class -/

section
variable {o : Oracles} (ok : OrOK o)
include ok

/-! ## Building `PredOK` -/

theorem seg2_paren {txt : List Char} {toks : List TT} (h : Seg2 o brk txt toks) :
    Seg2 o brk ('(' :: (txt ++ [')'])) (tLp :: toks ++ [tRp]) := by
  have h1 := Seg.app_cons o h.1 (seg_rp o ok) (Or.inr (Or.inr (Or.inl rfl)))
  have h2 := Seg2.app o (seg2_lp o ok) h1 (fun _ _ => trivial)
  have h3 : Seg2 o brk ('(' :: (txt ++ [')'])) (tLp :: toks ++ [tRp]) := by
    have := Seg2.mono o h2 (C' := brk) (fun _ _ => trivial)
    simpa using this
  exact h3

/-- a node whose text is wrapped in parentheses when `withParens` is set -/
theorem predOK_binary {p : Node} {txt : List Char} {toks : List TT}
    (hpr : ∀ wp, Print.writeTo o.isPrint p false wp = some (Print.parenIf wp txt))
    (hseg : Seg2 o brk txt toks) (hhead : PHead toks)
    (hatom : isAndOr p = false → AtomSpec o p toks)
    (hlr : isOr p = false → LeftSpec o p toks 1 ∧ RightSpec o p toks)
    (hl2 : LeftSpec o p toks 2) : PredOK o p := by
  intro wp
  cases wp with
  | false =>
    refine ⟨txt, toks, by simpa [Print.parenIf] using hpr false, hseg, hhead, ?_, ?_, hl2⟩
    · intro h; exact hatom (h.resolve_left (by simp))
    · intro h; exact hlr (h.resolve_left (by simp))
  | true =>
    have hat := paren_atom (full_of_left (by decide) hl2)
    refine ⟨'(' :: (txt ++ [')']), tLp :: toks ++ [tRp], by simpa [Print.parenIf] using hpr true,
      seg2_paren ok hseg, ⟨tLp, _, rfl, rfl⟩, fun _ => hat, fun _ => ⟨left_of_atom hat 1, right_of_atom hat⟩, left_of_atom hat 2⟩

/-- a node that is an atom however it is printed -/
theorem predOK_unary {p : Node} {txt : List Char} {toks : List TT}
    (hpr : ∀ wp, Print.writeTo o.isPrint p false wp = some txt)
    (hseg : Seg2 o brk txt toks) (hhead : PHead toks) (hatom : AtomSpec o p toks) : PredOK o p := by
  intro wp
  exact ⟨txt, toks, hpr wp, hseg, hhead, fun _ => hatom, fun _ => ⟨left_of_atom hatom 1, right_of_atom hatom⟩,
    left_of_atom hatom 2⟩

/-! ## Building `OpdOK` -/

theorem opdOK_int (i : Int) (h : intOK i = true) : OpdOK o (.integer i none) := by
  have hl : okIdx (.integer i none) = true := h
  refine ⟨Nat.toDigits 10 i.toNat, tInt i.toNat, [], ?_, seg2_nat o ok _, rfl, ?_⟩
  · intro wp
    simp only [intOK, Bool.and_eq_true, decide_eq_true_eq] at h
    have hneg : ¬ i < 0 := by omega
    have : i.natAbs = i.toNat := by omega
    simp [Print.writeTo, Print.writeNext, Print.parenIf, Decimal.formatInt, Decimal.formatNat, hneg, this]
  · intro f rest hf h1 _
    obtain ⟨f', rfl⟩ : ∃ f', f = f' + 3 := ⟨f - 3, by omega⟩
    have hev : evIdx (.integer i none) = evOf (.integer i none) := by
      simp only [intOK, Bool.and_eq_true, decide_eq_true_eq] at h
      have hneg : ¬ i < 0 := by omega
      have : i.natAbs = i.toNat := by omega
      simp [evIdx, evOf, litOf, Decimal.formatInt, Decimal.formatNat, hneg, this]
    rw [← hev]
    simpa [idxTok] using unaryT_idx f' _ hl rest h1

/-- a head token (`$`, `@`, a string, `null`, `true`, `false`) with a chain -/
theorem opdOK_head (tk : TT) (hn : Node) (hh : headOf tk = some hn) (hst : isOpdStart tk.1 = true)
    {htxt : List Char} (hseg : Seg2 o brkS htxt [tk]) {nx : Option Node} (hc : ChainOK o nx)
    (hpr : ∀ wp tl, Print.writeNext o.isPrint nx = some tl →
      Print.writeTo o.isPrint (hn.setNext nx) false wp = some (htxt ++ tl)) :
    OpdOK o (hn.setNext nx) := by
  obtain ⟨ctxt, ctoks, hw, hcseg, hhead, hrun⟩ := unaryT_chain' (o := o) tk hn hh hc
  refine ⟨htxt ++ ctxt, tk, ctoks, fun wp => hpr wp ctxt hw, ?_, hst, ?_⟩
  · have := Seg2.app o hseg hcseg hhead
    simpa using this
  · intro f rest hf h1 h2
    exact hrun f rest (by omega) h1 h2

theorem opdOK_const (k : Const) (hk : isOpdConst k = true) {nx : Option Node} (hc : ChainOK o nx) :
    OpdOK o (.const k nx) := by
  have hpr : ∀ wp tl, Print.writeNext o.isPrint nx = some tl →
      Print.writeTo o.isPrint (.const k nx) false wp = some (Print.constStr k ++ tl) := by
    intro wp tl htl
    rw [Print.writeTo]; simp [htl]
  have kwc : ∀ (c : Char) (w : List Char) (t : Tok), (c :: w, t) ∈ kwList → t ≠ .stop →
      Seg2 o brkS (c :: w) [(t, c :: w)] := fun c w t hp ht =>
    (seg2_kw o ok c w t hp ht).mono o (fun _ h => brkS_identCont o ok h)
  cases k <;> simp [isOpdConst] at hk
  · exact opdOK_head ok tDollar (.const .root none) rfl rfl (seg2_dollar o ok) hc
      (by intro wp tl h; simpa [Print.constStr, Node.setNext] using hpr wp tl h)
  · exact opdOK_head ok tAt (.const .current none) rfl rfl ((seg2_at o ok).mono o (fun _ _ => trivial)) hc
      (by intro wp tl h; simpa [Print.constStr, Node.setNext] using hpr wp tl h)
  · exact opdOK_head ok (.true_, ['t', 'r', 'u', 'e']) (.const .true_ none) rfl rfl
      (kwc 't' ['r', 'u', 'e'] .true_ (by decide) (by decide)) hc
      (by intro wp tl h; simpa [Print.constStr, Node.setNext] using hpr wp tl h)
  · exact opdOK_head ok (.false_, ['f', 'a', 'l', 's', 'e']) (.const .false_ none) rfl rfl
      (kwc 'f' ['a', 'l', 's', 'e'] .false_ (by decide) (by decide)) hc
      (by intro wp tl h; simpa [Print.constStr, Node.setNext] using hpr wp tl h)
  · exact opdOK_head ok (.null, ['n', 'u', 'l', 'l']) (.const .null none) rfl rfl
      (kwc 'n' ['u', 'l', 'l'] .null (by decide) (by decide)) hc
      (by intro wp tl h; simpa [Print.constStr, Node.setNext] using hpr wp tl h)

theorem opdOK_str (s : List Char) (hs : NoNul s) {nx : Option Node} (hc : ChainOK o nx) :
    OpdOK o (.str s nx) := by
  refine opdOK_head ok (.string, s) (.str s none) rfl rfl ((seg2_string o ok s hs).mono o (fun _ _ => trivial)) hc ?_
  intro wp tl htl
  simp only [Node.setNext]
  rw [Print.writeTo]; simp [htl]

end

section
variable {o : Oracles} (ok : OrOK o)
include ok

/-- `l && r`, `l || r` -/
theorem predOK_logic (op : BinOp) (l r : Node) (hop : isLogic op = true)
    (hsl : decide (Print.priority l ≤ Print.binPriority .and) = isAndOr l ∧
      decide (Print.priority l ≤ Print.binPriority .or) = isOr l)
    (hsr : decide (Print.priority r ≤ Print.binPriority .and) = isAndOr r ∧
      decide (Print.priority r ≤ Print.binPriority .or) = isOr r)
    (hl : PredOK o l) (hr : PredOK o r) : PredOK o (.binary op (some l) (some r) none) := by
  have hop' : op = .and ∨ op = .or := by
    cases op <;> simp [isLogic] at hop <;> simp
  rcases hop' with rfl | rfl
  · obtain ⟨ltxt, ltoks, hprl, hsegl, ⟨tkh, tsh, hh1, hh2⟩, hatl, _, _⟩ := hl (isAndOr l)
    obtain ⟨rtxt, rtoks, hprr, hsegr, _, hatr, _, _⟩ := hr (isAndOr r)
    have hal : AtomSpec o l ltoks := hatl (by cases isAndOr l <;> simp)
    have har : AtomSpec o r rtoks := hatr (by cases isAndOr r <;> simp)
    refine predOK_binary ok (txt := ltxt ++ ' ' :: (Print.binStr .and ++ ' ' :: rtxt))
      (toks := ltoks ++ tAnd :: rtoks) ?_ ?_ ⟨tkh, tsh ++ tAnd :: rtoks, by simp [hh1], hh2⟩
      (fun h => by simp [isAndOr] at h)
      (fun _ => ⟨and_left hal har, and_right hal har⟩) ((and_left hal har).mono (by decide))
    · intro wp
      simp only [Print.writeTo, Print.writeOpd, Print.writeNext]
      rw [hsl.1, hsr.1, hprl, hprr]
      simp
    · have h1 := Seg.app_cons o (seg_sp_op o ok .and (Or.inr rfl)) hsegr.2 rfl
      have h2 := Seg2.app_cons o hsegl h1 brk_sp
      simpa [opTok, tAnd] using h2
  · obtain ⟨ltxt, ltoks, hprl, hsegl, ⟨tkh, tsh, hh1, hh2⟩, _, hlrl, _⟩ := hl (isOr l)
    obtain ⟨rtxt, rtoks, hprr, hsegr, _, _, hlrr, _⟩ := hr (isOr r)
    have hll := (hlrl (by cases isOr l <;> simp)).1
    have hrr := (hlrr (by cases isOr r <;> simp)).2
    refine predOK_binary ok (txt := ltxt ++ ' ' :: (Print.binStr .or ++ ' ' :: rtxt))
      (toks := ltoks ++ tOr :: rtoks) ?_ ?_ ⟨tkh, tsh ++ tOr :: rtoks, by simp [hh1], hh2⟩
      (fun h => by simp [isAndOr] at h)
      (fun h => by simp [isOr] at h) (or_left hll hrr)
    · intro wp
      simp only [Print.writeTo, Print.writeOpd, Print.writeNext]
      rw [hsl.2, hsr.2, hprl, hprr]
      simp
    · have h1 := Seg.app_cons o (seg_sp_op o ok .or (Or.inr rfl)) hsegr.2 rfl
      have h2 := Seg2.app_cons o hsegl h1 brk_sp
      simpa [opTok, tOr] using h2

/-- `!(p)` -/
theorem predOK_not (p : Node) (hp : PredOK o p) : PredOK o (.unary .not (some p) none) := by
  obtain ⟨ptxt, ptoks, hpr, hseg, _, _, _, hl2⟩ := hp false
  have hat := not_atom (full_of_left (by decide) hl2)
  refine predOK_unary ok (txt := '!' :: '(' :: (ptxt ++ [')'])) (toks := tNot :: tLp :: ptoks ++ [tRp]) ?_ ?_ ⟨tNot, _, rfl, rfl⟩ hat
  · intro wp
    simp [Print.writeTo, Print.writeOpd, Print.writeNext, hpr, unStr_not]
  · have h1 := Seg.app_cons o hseg.1 (seg_rp o ok) brk_rp
    have h2 := Seg.app o (seg_lp o ok) h1 (fun _ _ => trivial)
    have h3 := Seg2.app_cons o (seg2_bang o ok) h2 (by decide)
    have := Seg2.mono o h3 (C' := brk) (fun _ _ => trivial)
    simpa [tNot] using this

/-- `(p) is unknown` -/
theorem predOK_isUnknown (p : Node) (hp : PredOK o p) : PredOK o (.unary .isUnknown (some p) none) := by
  obtain ⟨ptxt, ptoks, hpr, hseg, _, _, _, hl2⟩ := hp false
  have hat := isUnknown_atom (full_of_left (by decide) hl2)
  refine predOK_unary ok
    (txt := '(' :: (ptxt ++ ')' :: ' ' :: 'i' :: 's' :: ' ' :: 'u' :: 'n' :: 'k' :: 'n' :: 'o' :: 'w' :: 'n' :: []))
    (toks := tLp :: ptoks ++ [tRp, tIs, tUnknown]) ?_ ?_ ⟨tLp, _, rfl, rfl⟩ hat
  · intro wp
    have : ") is unknown".toList = [')', ' ', 'i', 's', ' ', 'u', 'n', 'k', 'n', 'o', 'w', 'n'] := by decide
    simp [Print.writeTo, Print.writeOpd, Print.writeNext, hpr, this]
  · have h0 := (seg_sp_kw o ok 'u' ['n', 'k', 'n', 'o', 'w', 'n'] .unknown (by decide) (by decide)).mono o
      (C' := brk) (fun _ h => brk_identCont ok h)
    have h1 := Seg.app_cons o (seg_sp_kw o ok 'i' ['s'] .is (by decide) (by decide)) h0
      (identCont_punct o ok ' ' (by decide))
    have h2 := Seg.app o (seg_rp o ok) h1 (fun _ _ => trivial)
    have h3 := Seg.app_cons o hseg.1 h2 brk_rp
    have h4 := Seg2.app o (seg2_lp o ok) h3 (fun _ _ => trivial)
    simpa [tIs, tUnknown] using h4

/-- the filter accessor `?(p)` -/
theorem stepOK_filter (p : Node) (nx : Option Node) (hp : PredOK o p) :
    StepOK o (.unary .filter (some p) nx) := by
  obtain ⟨ptxt, ptoks, hpr, hseg, _, _, _, hl2⟩ := hp false
  have hfull := full_of_left (by decide) hl2
  refine ⟨'?' :: '(' :: (ptxt ++ [')']), .question, ['?'], tLp :: ptoks ++ [tRp], '?', _, ?_, ?_, rfl,
    Or.inr (Or.inr (Or.inr rfl)), rfl, ?_⟩
  · intro wp
    rw [Print.writeTo]
    simp only [Node.next, Print.writeOpd, hpr, unStr_filter]
    generalize Print.writeNext o.isPrint nx = w
    cases w <;> simp
  · have h1 := Seg.app_cons o hseg.1 (seg_rp o ok) brk_rp
    have h2 := Seg.app o (seg_lp o ok) h1 (fun _ _ => trivial)
    have h3 := Seg.app o (seg_q o ok) h2 (fun _ _ => trivial)
    have := h3.mono o (C' := brkS) (fun _ _ => trivial)
    simpa [tQ] using this
  · intro rest f hr hf
    simp only [List.length_cons, List.length_append, List.length_nil] at hf
    obtain ⟨f', rfl⟩ : ∃ f', f = f' + 1 := ⟨f - 1, by omega⟩
    obtain ⟨v0, mid, h1, h2⟩ := hfull f' .pred (tRp :: rest) (by omega) (Or.inl rfl)
    rw [accessorOp]
    simp only [List.cons_append, List.append_assoc, List.nil_append]
    lstep (consume_spec _ _)
    simp only [↓reduceIte]
    lstep (expect_spec _ _ _)
    lstep h1
    lstep h2
    simp only [hd, tRp, ne_eq, not_true_eq_false, ↓reduceIte]
    lstep (consume_spec _ _)
    exact RunsV.pure _

end

/-! ## Stage 2: the induction over the tree -/

section
variable {o : Oracles} (ok : OrOK o)
include ok

end

section
variable {o : Oracles}

end

/-! ## Stage 3a: any operand, or a predicate, at the top level -/

section
variable {o : Oracles}

theorem seg_strict (ok : OrOK o) : Seg o (fun y => isIdentCont o y = false) ['s', 't', 'r', 'i', 'c', 't'] [tStrict] :=
  seg_kw o ok 's' ['t', 'r', 'i', 'c', 't'] .strict (by decide) (by decide)

end

/-! ## Stage 3b: variables `$"name"` -/

section
variable (o : Oracles) (ok : OrOK o)
include ok

theorem seg2_variable (s : List Char) (hs : NoNul s) :
    Seg2 o CT ('$' :: Print.quote o.isPrint s) [tVar s] :=
  seg2_tokAt o ok (tokAt_variable o ok s hs) (by decide) (noNul_quote o.isPrint s hs) (by simp [tVar]) (by decide)
    (fun _ _ => trivial) tolB_true

end

section
variable {o : Oracles} (ok : OrOK o)
include ok

theorem opdOK_var (s : List Char) (hs : NoNul s) {nx : Option Node} (hc : ChainOK o nx) :
    OpdOK o (.var s nx) := by
  refine opdOK_head ok (tVar s) (.var s none) rfl rfl ((seg2_variable o ok s hs).mono o (fun _ _ => trivial)) hc ?_
  intro wp tl htl
  simp only [Node.setNext]
  rw [Print.writeTo]; simp [htl]

end

section
variable {o : Oracles}

end

/-! ## Stage 3c: `like_regex` -/

section
variable {o : Oracles}

end

section
variable {o : Oracles} (ok : OrOK o)
include ok

end

/-! ## Stage 3: the class (variables, `like_regex`, any operand or a predicate at the top) -/

/-! ## Stage 3: the induction -/

section
variable {o : Oracles} (ok : OrOK o)
include ok

end

section
variable {o : Oracles}

end

/-! ## Stage 4: arithmetic — lexing and literals -/

section
variable (o : Oracles) (ok : OrOK o)
include ok

/-- ` op` for an arithmetic operator; it is always followed by a blank -/
theorem seg_sp_arith (op : BinOp) (h : isArith op = true) :
    Seg o (fun y => y = some ' ') (' ' :: Print.binStr op) [arithTok op] := by
  have solo1 : ∀ c, c ∈ solo → isWhitespace c = false → c.toNat ≠ 0 → (T1 c).1 ≠ .stop →
      Seg o (fun y => y = some ' ') [' ', c] [T1 c] := fun c hc hws h0 hns =>
    (seg_sp_of_tokAt o (tokAt_solo o ok c hc) h0 NoNul.nil hns hws (fun _ _ => trivial) tolB_true).mono o (fun _ _ => trivial)
  cases op <;> simp [isArith] at h
  · exact solo1 '+' (by decide) (by decide) (by decide) (by decide)
  · exact solo1 '-' (by decide) (by decide) (by decide) (by decide)
  · have := (seg_sp_of_tokAt o (tokAt_star o ok) (by decide) NoNul.nil (by decide) (by decide)
      (fun _ h => tol_star h) tolB_star).mono o
      (C' := fun y => y = some ' ') (fun y hy => by subst hy; decide)
    exact this
  · exact (seg_sp_of_tokAt o (tokAt_slash o ok) (by decide) NoNul.nil (by decide) (by decide)
      (fun _ h => tol_star h) tolB_slash).mono o
      (fun y hy => by subst hy; decide)
  · exact solo1 '%' (by decide) (by decide) (by decide) (by decide)

theorem seg2_minus : Seg2 o CT ['-'] [tMinus] := seg2_solo o ok '-' (by decide)
theorem seg2_plus : Seg2 o CT ['+'] [tPlus] := seg2_solo o ok '+' (by decide)

end

/-! ### negative integer literals -/

/-! ## Stage 4: arithmetic — the parser on expressions -/

/-- `parseAtom`, where an expression may start, on the tokens of the unit `x`: it goes on with
    `exprTail` applied to `x` -/
def HeadA (o : Oracles) (x : Node) (tk : TT) (ts : List TT) : Prop :=
  ∀ f ctx rest (w : AtomR) (post : PS → Prop), 16 * (ts.length + 1) + 8 ≤ f + 1 →
    isAccessorStart (hd rest).1 = false → (hd rest).1 ≠ .lbrace →
    RunsV (StA o rest) (exprTail o f ctx (evOf x)) w post →
    RunsV (StE o (tk :: ts ++ rest)) (parseAtom o (f + 1) ctx) w post

/-- `arithLoop` with the head unit `x` as left operand, standing before the tokens `M`: it comes to
    stand before `rest` with the whole expression `e` as left operand, having used at most `k`
    units of fuel -/
def ELoop (o : Oracles) (x e : Node) (M : List TT) (k : Nat) : Prop :=
  ∀ g rest (w : EV × Tok) (post : PS → Prop), 16 * M.length + 4 ≤ g →
    isAccessorStart (hd rest).1 = false → (hd rest).1 ≠ .lbrace → mulOp (hd rest).1 = none →
    (∀ g', g' ≤ g → g ≤ g' + k → RunsV (StE o rest) (arithLoop o g' (evOf e)) w post) →
    RunsV (StA o (M ++ rest)) (arithLoop o g (evOf x)) w post

/-- the right operand of `+` / `-`: `parseUnary` followed by `mulLoop` -/
def MulR (o : Oracles) (e : Node) (tk : TT) (ts : List TT) : Prop :=
  ∀ g rest, 16 * (ts.length + 1) + 8 ≤ g → isAccessorStart (hd rest).1 = false → (hd rest).1 ≠ .lbrace →
    mulOp (hd rest).1 = none →
    ∃ (u0 : EV) (mid : List TT),
      RunsV (StE o (tk :: ts ++ rest)) (parseUnary o g) u0 (StA o mid) ∧
      RunsV (StA o mid) (mulLoop o g u0) (evOf e) (StA o rest)

/-- the parser on the tokens `tk :: ts` of the expression `e` -/
def ESpec (o : Oracles) (e : Node) (tk : TT) (ts : List TT) (unitOK mulOK : Prop) : Prop :=
  (∃ (x : Node) (tsH M : List TT), ts = tsH ++ M ∧ MHead M ∧ OpdSpec o x tk tsH ∧ HeadA o x tk tsH ∧
      ELoop o x e M 2 ∧ (mulOK → ELoop o x e M 1)) ∧
  (mulOK → MulR o e tk ts) ∧ (unitOK → OpdSpec o e tk ts ∧ HeadA o e tk ts)

section
variable {o : Oracles}

theorem headA_of_opdSpec {x : Node} {tk : TT} {ts : List TT} (h : OpdSpec o x tk ts)
    (h1 : tk.1 ≠ .not) (h2 : tk.1 ≠ .exists) (h3 : tk.1 ≠ .lparen) (h4 : tk.1 ≠ .stop) : HeadA o x tk ts := by
  intro f ctx rest w post hf ha hb hk
  have hrun := h f rest (by omega) ha hb
  obtain ⟨t, xt⟩ := tk
  simp only at h1 h2 h3 h4
  rw [parseAtom]
  lstep (peek_cons _ _)
  simp only [h1, h2, h3, h4, ↓reduceIte]
  lstep hrun
  exact hk

theorem mulLoop_nil (f : Nat) (l : EV) (rest : List TT) (h : mulOp (hd rest).1 = none) :
    RunsV (StE o rest) (mulLoop o (f + 1) l) l (StA o rest) := by
  rw [mulLoop]
  lstep (peek_any rest)
  simp only [h]
  exact RunsV.pure _

theorem eloop_unit (x : Node) : ELoop o x x [] 0 := by
  intro g rest w post hg _ _ _ hk
  simp only [List.nil_append]
  exact RunsV.ofA (hk g (Nat.le_refl _) (by omega))

theorem ELoop.mono {x e : Node} {M : List TT} {k k' : Nat} (h : ELoop o x e M k) (hk : k ≤ k') :
    ELoop o x e M k' := by
  intro g rest w post hg ha hb hm hc
  exact h g rest w post hg ha hb hm (fun g' h1 h2 => hc g' h1 (by omega))

theorem mulR_unit {x : Node} {tk : TT} {ts : List TT} (h : OpdSpec o x tk ts) : MulR o x tk ts := by
  intro g rest hg ha hb hm
  obtain ⟨g', rfl⟩ : ∃ g', g = g' + 1 := ⟨g - 1, by omega⟩
  have hrun := h g' rest (by omega) ha hb
  exact ⟨evOf x, rest, unary_of_unaryT hrun, RunsV.ofA (mulLoop_nil g' _ rest hm)⟩

/-- a unit is an expression -/
theorem espec_unit {x : Node} {tk : TT} {ts : List TT} (h : OpdSpec o x tk ts) (ha : HeadA o x tk ts)
    (p q : Prop) : ESpec o x tk ts p q :=
  ⟨⟨x, ts, [], by simp, mhead_nil, h, ha, (eloop_unit x).mono (by decide),
      fun _ => (eloop_unit x).mono (by decide)⟩,
    fun _ => mulR_unit h, fun _ => ⟨h, ha⟩⟩

/-- `l op r` for `* / %` with units `l`, `r` -/
theorem espec_mul {l r : Node} {tkl tkr : TT} {tsl tsr : List TT} {op : BinOp} (hop : isMulOp op = true)
    (hl : OpdSpec o l tkl tsl) (hal : HeadA o l tkl tsl) (hr : OpdSpec o r tkr tsr) (p : Prop) :
    ESpec o (.binary op (some l) (some r) none) tkl (tsl ++ arithTok op :: tkr :: tsr) False p := by
  have hf := mul_facts hop
  have har : isArith op = true := by cases op <;> simp [isMulOp] at hop <;> rfl
  have hloop : ELoop o l (.binary op (some l) (some r) none) (arithTok op :: tkr :: tsr) 1 := by
    intro g rest w post hg ha hb _ hk
    simp only [List.length_cons] at hg
    obtain ⟨g', rfl⟩ : ∃ g', g = g' + 2 := ⟨g - 2, by omega⟩
    have hrun := hr g' rest (by omega) ha hb
    rw [arithLoop]
    simp only [List.cons_append]
    lstep (peek_cons _ _)
    simp only [hf.1, hf.2.1]
    lstep (consume_spec _ _)
    lstep (unary_of_unaryT hrun)
    rw [evOf_binary]
    exact RunsV.ofA (hk (g' + 1) (by omega) (by omega))
  refine ⟨⟨l, tsl, arithTok op :: tkr :: tsr, rfl, mhead_op op har _, hl, hal, hloop.mono (by decide),
    fun _ => hloop⟩, ?_, fun h => absurd h id⟩
  intro _ g rest hg ha hb hm
  simp only [List.length_cons, List.length_append] at hg
  obtain ⟨g', rfl⟩ : ∃ g', g = g' + 3 := ⟨g - 3, by omega⟩
  have hrunl := hl (g' + 2) (arithTok op :: tkr :: tsr ++ rest) (by omega) hf.2.2.1 hf.2.2.2
  have hrunr := hr (g' + 1) rest (by omega) ha hb
  refine ⟨evOf l, arithTok op :: tkr :: tsr ++ rest, ?_, ?_⟩
  · have := unary_of_unaryT hrunl
    simpa using this
  · rw [mulLoop]
    simp only [List.cons_append]
    lstep (peek_cons _ _)
    simp only [hf.2.1]
    lstep (consume_spec _ _)
    lstep (unary_of_unaryT hrunr)
    rw [evOf_binary]
    exact RunsV.ofA (mulLoop_nil (g' + 1) _ rest hm)

/-- `X op Y` for `+ -`: `X` with its loop, `Y` a right operand -/
theorem espec_add {X Y : Node} {tkx tky : TT} {tsx tsy : List TT} {op : BinOp} {p q : Prop} (hop : isAddOp op = true)
    (hx : ESpec o X tkx tsx p q) (hq : q) (hy : MulR o Y tky tsy) :
    ESpec o (.binary op (some X) (some Y) none) tkx (tsx ++ arithTok op :: tky :: tsy) False False := by
  have hf := add_facts hop
  have har : isArith op = true := by cases op <;> simp [isAddOp] at hop <;> rfl
  obtain ⟨⟨x, tsH, M, hts, hmh, hopd, hha, _, hl1⟩, _, _⟩ := hx
  have hl1 := hl1 hq
  refine ⟨⟨x, tsH, M ++ arithTok op :: tky :: tsy, by simp [hts], ?_, hopd, hha, ?_, fun h => absurd h id⟩,
    fun h => absurd h id, fun h => absurd h id⟩
  · intro rest h1 h2
    have := hmh (arithTok op :: tky :: tsy ++ rest) hf.2.2.1 (by simpa [hd] using hf.2.2.2)
    simpa using this
  · intro g rest w post hg ha hb hm hk
    simp only [List.length_cons, List.length_append] at hg
    have := hl1 g (arithTok op :: tky :: tsy ++ rest) w post (by omega) hf.2.2.1 (by simpa [hd] using hf.2.2.2)
      (by simpa [hd] using hf.2.1) ?_
    · simpa using this
    · intro g1 h1 h2
      obtain ⟨g2, rfl⟩ : ∃ g2, g1 = g2 + 1 := ⟨g1 - 1, by omega⟩
      obtain ⟨u0, mid, hr1, hr2⟩ := hy g2 rest (by omega) ha hb hm
      rw [arithLoop]
      simp only [List.cons_append]
      lstep (peek_cons _ _)
      simp only [hf.1]
      lstep (consume_spec _ _)
      lstep hr1
      lstep hr2
      rw [evOf_binary]
      exact RunsV.ofA (hk g2 (by omega) (by omega))

end

/-! ## Stage 4: what follows an expression in `exprTail` -/

section
variable {o : Oracles}

/-- where an expression may start, `parseAtom` on the tokens of `e` goes on with the part of
    `exprTail` after the arithmetic -/
theorem atom_of_expr {e : Node} {tk : TT} {ts : List TT} {p q : Prop} (h : ESpec o e tk ts p q)
    (F : Nat) (ctx : Ctx) (rest : List TT) (w : AtomR) (post : PS → Prop)
    (hF : 16 * (ts.length + 1) + 8 ≤ F + 2) (hfol : EFollow (hd rest).1)
    (hk : RunsV (StA o rest) (exprTailK o F ctx (evOf e) (hd rest).1) w post) :
    RunsV (StE o (tk :: ts ++ rest)) (parseAtom o (F + 2) ctx) w post := by
  obtain ⟨⟨x, tsH, M, hts, hmh, _, hha, hl2, _⟩, _, _⟩ := h
  subst hts
  simp only [List.length_append] at hF
  have hm := hmh rest hfol.1 hfol.2.1
  have := hha (F + 1) ctx (M ++ rest) w post (by omega) hm.1 hm.2 ?_
  · simpa using this
  · rw [exprTail_eq]
    refine RunsV.bind (hl2 F rest (evOf e, (hd rest).1) (StA o rest) (by omega) hfol.1 hfol.2.1 hfol.2.2.2 ?_) hk
    intro g' h1 h2
    obtain ⟨g'', rfl⟩ : ∃ g'', g' = g'' + 1 := ⟨g' - 1, by omega⟩
    exact arith_nil g'' _ rest hfol.2.2.1 hfol.2.2.2

/-- an expression in a position where only an expression may stand: `parseUnary` then `arithLoop` -/
theorem expr_full {e : Node} {tk : TT} {ts : List TT} {p q : Prop} (h : ESpec o e tk ts p q)
    (g : Nat) (rest : List TT) (hg : 16 * (ts.length + 1) + 8 ≤ g) (hfol : EFollow (hd rest).1) :
    ∃ (u : EV) (mid : List TT),
      RunsV (StE o (tk :: ts ++ rest)) (parseUnary o g) u (StA o mid) ∧
      RunsV (StA o mid) (arithLoop o g u) (evOf e, (hd rest).1) (StA o rest) := by
  obtain ⟨⟨x, tsH, M, hts, hmh, hopd, _, hl2, _⟩, _, _⟩ := h
  subst hts
  simp only [List.length_append] at hg
  have hm := hmh rest hfol.1 hfol.2.1
  obtain ⟨g', rfl⟩ : ∃ g', g = g' + 1 := ⟨g - 1, by omega⟩
  have hrun := hopd g' (M ++ rest) (by omega) hm.1 hm.2
  refine ⟨evOf x, M ++ rest, by simpa using unary_of_unaryT hrun, ?_⟩
  refine hl2 (g' + 1) rest _ _ (by omega) hfol.1 hfol.2.1 hfol.2.2.2 ?_
  intro g1 h1 h2
  obtain ⟨g2, rfl⟩ : ∃ g2, g1 = g2 + 1 := ⟨g1 - 1, by omega⟩
  exact arith_nil g2 _ rest hfol.2.2.1 hfol.2.2.2

/-- `l op r`, comparison of two expressions, is an atom -/
theorem cmpE_atom {l r : Node} {tkl tkr : TT} {tsl tsr : List TT} {op : BinOp} {p q p' q' : Prop}
    (hl : ESpec o l tkl tsl p q) (hr : ESpec o r tkr tsr p' q') (hop : isCmp op = true) :
    AtomSpec o (.binary op (some l) (some r) none) (tkl :: tsl ++ opTok op :: tkr :: tsr) := by
  intro f ctx rest hf hfol
  simp only [List.length_cons, List.length_append] at hf
  obtain ⟨f', rfl⟩ : ∃ f', f = f' + 2 := ⟨f - 2, by omega⟩
  have hc := cmp_facts hop
  obtain ⟨u, mid, hr1, hr2⟩ := expr_full hr f' rest (by omega) hfol.efollow
  have := atom_of_expr hl f' ctx (opTok op :: tkr :: (tsr ++ rest)) (.pred { node := .binary op (some l) (some r) none })
    (StE o rest) (by omega) ⟨hc.2.2.2.1, hc.2.2.2.2, hc.1, hc.2.1⟩ ?_
  · simpa using this
  · simp only [hd, exprTailK, hc.2.2.1]
    lstep (consume_spec _ _)
    simp only [List.cons_append] at hr1
    lstep hr1
    lstep hr2
    exact RunsV.pure' rfl (fun _ h => StE.ofA h)

/-- `l starts with "s"` / `l starts with $"s"` with an expression `l` -/
theorem startsE_atom {l : Node} {tkl : TT} {tsl : List TT} {p q : Prop} (s : List Char) (isVar : Bool)
    (hl : ESpec o l tkl tsl p q) :
    AtomSpec o (.binary .startsWith (some l) (some (if isVar then .var s none else .str s none)) none)
      (tkl :: tsl ++ [tStarts, tWith, if isVar then tVar s else (.string, s)]) := by
  intro f ctx rest hf hfol
  simp only [List.length_cons, List.length_append, List.length_nil] at hf
  obtain ⟨f', rfl⟩ : ∃ f', f = f' + 2 := ⟨f - 2, by omega⟩
  have := atom_of_expr hl f' ctx (tStarts :: tWith :: (if isVar then tVar s else (.string, s)) :: rest)
    (.pred { node := .binary .startsWith (some l) (some (if isVar then .var s none else .str s none)) none })
    (StE o rest) (by omega) ⟨rfl, by simp [hd, tStarts], rfl, rfl⟩ ?_
  · simpa using this
  · simp only [hd, List.cons_append, List.nil_append, tStarts, exprTailK, compOp, ↓reduceIte]
    lstep (consume_spec _ _)
    lstep (expect_spec _ _ _)
    cases isVar with
    | false =>
      simp only [Bool.false_eq_true, ↓reduceIte]
      lstep (peek_cons _ _)
      simp only [↓reduceIte]
      lstep (consume_spec _ _)
      exact RunsV.pure' rfl (fun _ h => h)
    | true =>
      simp only [↓reduceIte]
      lstep (peek_cons _ _)
      simp only [tVar, reduceCtorEq, ↓reduceIte]
      lstep (consume_spec _ _)
      exact RunsV.pure' rfl (fun _ h => h)

/-- `x like_regex "pat" [flag "…"]` with an expression `x` -/
theorem regexE_atom {x : Node} {tk : TT} {ts : List TT} {p q : Prop} (pat : List Char) (fl : Nat)
    (hx : ESpec o x tk ts p q) (hfl : fl < 32) (hok : okFlags fl = true)
    (hacc : o.regexAccepts pat fl = true) :
    AtomSpec o (.regex x pat fl none) (tk :: ts ++ tLike :: (.string, pat) :: flagToks fl) := by
  intro f ctx rest hf hfol
  have hlen : (flagToks fl).length ≤ 2 := by unfold flagToks; split <;> simp
  simp only [List.length_cons, List.length_append] at hf
  obtain ⟨f', rfl⟩ : ∃ f', f = f' + 2 := ⟨f - 2, by omega⟩
  have := atom_of_expr hx f' ctx (tLike :: (.string, pat) :: (flagToks fl ++ rest))
    (.pred { node := .regex x pat fl none }) (StE o rest) (by omega) ⟨rfl, by simp [hd, tLike], rfl, rfl⟩ ?_
  · simpa using this
  · simp only [hd, List.cons_append, tLike, exprTailK, compOp, reduceCtorEq, ↓reduceIte]
    lstep (consume_spec _ _)
    lstep (peek_cons _ _)
    simp only [ne_eq, not_true_eq_false, ↓reduceIte]
    lstep (consume_spec _ _)
    unfold flagToks
    by_cases h0 : fl = 0
    · subst h0
      simp only [↓reduceIte, List.nil_append]
      lstep (peek_any rest)
      simp only [hfol.notFlag, ↓reduceIte]
      have : regexFlags [] = some 0 := by decide
      simp only [mkRegex, this, hacc, ↓reduceIte]
      exact RunsV.pure' rfl (fun _ h => StE.ofA h)
    · simp only [h0, ↓reduceIte, List.cons_append, List.nil_append]
      lstep (peek_cons _ _)
      simp only [tFlag, ↓reduceIte]
      lstep (consume_spec _ _)
      lstep (peek_cons _ _)
      simp only [ne_eq, not_true_eq_false, ↓reduceIte]
      lstep (consume_spec _ _)
      simp only [mkRegex, regexFlags_flagChars fl hfl hok, hacc, ↓reduceIte]
      exact RunsV.pure' rfl (fun _ h => h)

/-- `exists (e)` with an expression `e` -/
theorem existsE_atom {x : Node} {tk : TT} {ts : List TT} {p q : Prop} (hx : ESpec o x tk ts p q) :
    AtomSpec o (.unary .exists (some x) none) (tExists :: tLp :: tk :: ts ++ [tRp]) := by
  intro f ctx rest hf hfol
  simp only [List.length_cons, List.length_append, List.length_nil] at hf
  obtain ⟨f', rfl⟩ : ∃ f', f = f' + 3 := ⟨f - 3, by omega⟩
  obtain ⟨u, mid, hr1, hr2⟩ := expr_full hx (f' + 1) (tRp :: rest) (by omega) ⟨rfl, by simp [hd, tRp], rfl, rfl⟩
  have hex : RunsV (StE o (tLp :: tk :: ts ++ tRp :: rest)) (existsTail o (f' + 2)) (unary .exists (evOf x))
      (StE o rest) := by
    rw [existsTail]
    lstep (expect_spec _ _ _)
    simp only [List.cons_append] at hr1
    lstep hr1
    lstep hr2
    simp only [hd, tRp, ne_eq, not_true_eq_false, ↓reduceIte]
    lstep (consume_spec _ _)
    exact RunsV.pure _
  rw [parseAtom]
  simp only [List.cons_append, List.append_assoc, List.nil_append]
  lstep (peek_cons _ _)
  simp only [tExists, reduceCtorEq, ↓reduceIte]
  lstep (consume_spec _ _)
  simp only [List.cons_append, List.append_assoc, List.nil_append] at hex
  lstep hex
  exact RunsV.pure' rfl (fun _ h => h)

/-- an expression up to `)` or the end, where a predicate could have started as well -/
theorem exprK_end (F : Nat) (ctx : Ctx) (hctx : ctx ≠ .pred) (lhs : EV) (rest : List TT)
    (ht : (hd rest).1 = .rparen ∨ (hd rest).1 = .stop) :
    RunsV (StA o rest) (exprTailK o F ctx lhs (hd rest).1) (.expr lhs (hd rest).1) (StA o rest) := by
  have h1 : compOp (hd rest).1 = none := by rcases ht with h | h <;> rw [h] <;> rfl
  have h2 : (hd rest).1 ≠ .starts := by rcases ht with h | h <;> rw [h] <;> decide
  have h3 : (hd rest).1 ≠ .likeRegex := by rcases ht with h | h <;> rw [h] <;> decide
  simp only [exprTailK, h1, h2, h3, hctx, ↓reduceIte]
  exact RunsV.pure _

end

/-! ## Stage 4: the units of arithmetic -/

section
variable {o : Oracles}

/-- after `(`: an expression and `)`, followed by something that is not an accessor -/
theorem parenTail_expr {e : Node} {tk : TT} {ts : List TT} {p q : Prop} (h : ESpec o e tk ts p q)
    (F : Nat) (ctx : Ctx) (hctx : ctx ≠ .pred) (rest : List TT) (hF : 16 * (ts.length + 1) + 8 ≤ F + 2)
    (ha : isAccessorStart (hd rest).1 = false) :
    RunsV (StE o (tk :: ts ++ tRp :: rest)) (parenTail o (F + 3) ctx) (.expr (evOf e)) (StA o rest) := by
  rw [parenTail]
  have h1 := atom_of_expr h F ctx (tRp :: rest) (.expr (evOf e) .rparen) (StA o (tRp :: rest)) hF
    ⟨rfl, by simp [hd, tRp], rfl, rfl⟩ (exprK_end F ctx hctx (evOf e) (tRp :: rest) (Or.inl rfl))
  lstep h1
  simp only [ne_eq, not_true_eq_false, ↓reduceIte]
  lstep (consume_spec _ _)
  lstep (peek_any rest)
  simp only [ha, Bool.false_eq_true, ↓reduceIte]
  exact RunsV.pure _

/-- `(e)` is a unit for `parseUnaryT` … -/
theorem paren_opdSpec {e : Node} {tk : TT} {ts : List TT} {p q : Prop} (h : ESpec o e tk ts p q) :
    OpdSpec o e tLp (tk :: ts ++ [tRp]) := by
  intro f rest hf ha _
  simp only [List.length_cons, List.length_append, List.length_nil] at hf
  obtain ⟨F, rfl⟩ : ∃ F, f = F + 4 := ⟨f - 4, by omega⟩
  rw [parseUnaryT]
  simp only [tLp, reduceCtorEq, ↓reduceIte]
  simp only [List.cons_append, List.append_assoc, List.nil_append]
  lstep (consume_spec _ _)
  lstep (parenTail_expr h F .parenE (by decide) rest (by omega) ha)
  exact RunsV.pure _

/-- … and for `parseAtom` -/
theorem paren_headA {e : Node} {tk : TT} {ts : List TT} {p q : Prop} (h : ESpec o e tk ts p q) :
    HeadA o e tLp (tk :: ts ++ [tRp]) := by
  intro f ctx rest w post hf ha _ hk
  simp only [List.length_cons, List.length_append, List.length_nil] at hf
  obtain ⟨F, rfl⟩ : ∃ F, f = F + 3 := ⟨f - 3, by omega⟩
  rw [parseAtom]
  simp only [List.cons_append, List.append_assoc, List.nil_append]
  lstep (peek_cons _ _)
  simp only [tLp, reduceCtorEq, ↓reduceIte]
  lstep (consume_spec _ _)
  lstep (parenTail_expr h F .paren (by decide) rest (by omega) ha)
  exact hk

/-- `-x` / `+x` for a unit `x` that is not a number literal -/
theorem sign_opdSpec {x : Node} {tk : TT} {ts : List TT} (op : UnOp) (hop : isSign op = true)
    (hx : OpdSpec o x tk ts) (hn : notNumLit x = true) :
    OpdSpec o (.unary op (some x) none) (signTok op) (tk :: ts) := by
  intro f rest hf ha hb
  simp only [List.length_cons] at hf
  obtain ⟨f', rfl⟩ : ∃ f', f = f' + 2 := ⟨f - 2, by omega⟩
  have hrun := hx f' rest (by omega) ha hb
  rw [parseUnaryT]
  cases op <;> simp [isSign] at hop
  · simp only [signTok, tPlus, ↓reduceIte]
    lstep (consume_spec _ _)
    simp only [List.cons_append] at hrun ⊢
    lstep (unary_of_unaryT hrun)
    rw [newUnaryOrNumber_other _ _ hn]
    exact RunsV.pure' rfl (fun _ h => h)
  · simp only [signTok, tMinus, reduceCtorEq, ↓reduceIte]
    lstep (consume_spec _ _)
    simp only [List.cons_append] at hrun ⊢
    lstep (unary_of_unaryT hrun)
    rw [newUnaryOrNumber_other _ _ hn]
    exact RunsV.pure' rfl (fun _ h => h)

theorem neg_opdSpec (i : Int) (h : negOK i = true) :
    OpdSpec o (.integer i none) tMinus [tInt i.natAbs] := by
  intro f rest hf ha hb
  simp only [negOK, Bool.and_eq_true, decide_eq_true_eq] at h
  obtain ⟨f', rfl⟩ : ∃ f', f = f' + 5 := ⟨f - 5, by simp at hf; omega⟩
  have hl : okIdx (.integer (i.natAbs : Int) none) = true := by
    simp only [okIdx, intOK, Bool.and_eq_true, decide_eq_true_eq]; omega
  have hrun := unaryT_idx (o := o) f' (.integer (i.natAbs : Int) none) hl rest ha
  have e1 : idxTok (.integer (i.natAbs : Int) none) = tInt i.natAbs := by simp [idxTok]
  rw [e1] at hrun
  rw [parseUnaryT]
  simp only [tMinus, reduceCtorEq, ↓reduceIte]
  lstep (consume_spec _ _)
  lstep (unary_of_unaryT hrun)
  have e2 : evIdx (.integer (i.natAbs : Int) none)
      = { node := .integer (i.natAbs : Int) none, lit := Nat.toDigits 10 i.natAbs } := by simp [evIdx]
  rw [e2]
  unfold newUnaryOrNumber
  simp only [Node.next, Option.isNone_none, ↓reduceIte, reduceCtorEq]
  unfold astNewInteger
  rw [negLit_toDigits, parseInt0_neg_toDigits _ (by omega)]
  have e3 : -(i.natAbs : Int) = i := by omega
  have hneg : i < 0 := h.1
  refine RunsV.pure' ?_ (fun _ h => h)
  simp [evOf, litOf, Decimal.formatInt, Decimal.formatNat, hneg, e3]

end

/-! ## Stage 4: expressions — what is proved of them -/

/-- an arithmetic expression: text and tokens for either value of `withParens`, and the parser -/
def ExprOK (o : Oracles) (e : Node) : Prop :=
  ∀ wp : Bool, ∃ (txt : List Char) (tk : TT) (ts : List TT),
    Print.writeTo o.isPrint e false wp = some txt ∧ Seg2 o brk txt (tk :: ts) ∧ isPredStart tk.1 = true ∧
    ESpec o e tk ts (wp = true ∨ isBin e = false) (wp = true ∨ isAddLevel e = false)

section
variable {o : Oracles} (ok : OrOK o)
include ok

/-- an operand of stage 2/3 is an expression -/
theorem exprOK_opd {n : Node} (h : OpdOK o n) : ExprOK o n := by
  intro wp
  obtain ⟨txt, tk, ts, hpr, hseg, hst, hrun⟩ := h
  have hf := opdStart_facts hst
  exact ⟨txt, tk, ts, hpr wp, hseg, opdStart_pred (ok : RoundTrip.OrOK o) hst,
    espec_unit hrun (headA_of_opdSpec hrun hf.1 hf.2.1 hf.2.2.1 hf.2.2.2) _ _⟩

/-- the parenthesised form of an expression -/
theorem espec_paren {e : Node} {tk : TT} {ts : List TT} {p q : Prop} (h : ESpec o e tk ts p q) (p' q' : Prop) :
    ESpec o e tLp (tk :: ts ++ [tRp]) p' q' :=
  espec_unit (paren_opdSpec h) (paren_headA h) _ _

/-- from the unparenthesised form of a node that `parenIf` wraps -/
theorem exprOK_wrap {e : Node} {txt : List Char} {tk : TT} {ts : List TT}
    (hpr : ∀ wp, Print.writeTo o.isPrint e false wp = some (Print.parenIf wp txt))
    (hseg : Seg2 o brk txt (tk :: ts)) (hst : isPredStart tk.1 = true)
    (hsp : ESpec o e tk ts (isBin e = false) (isAddLevel e = false)) : ExprOK o e := by
  intro wp
  cases wp with
  | false =>
    refine ⟨txt, tk, ts, by simpa [Print.parenIf] using hpr false, hseg, hst, ?_⟩
    obtain ⟨h1, h2, h3⟩ := hsp
    exact ⟨h1 |> fun ⟨x, tsH, M, a, b, c, d, e1, e2⟩ =>
        ⟨x, tsH, M, a, b, c, d, e1, fun hh => e2 (hh.resolve_left (by simp))⟩,
      fun hh => h2 (hh.resolve_left (by simp)), fun hh => h3 (hh.resolve_left (by simp))⟩
  | true =>
    have := seg2_paren ok hseg
    exact ⟨'(' :: (txt ++ [')']), tLp, tk :: ts ++ [tRp], by simpa [Print.parenIf] using hpr true,
      by simpa using this, rfl, espec_paren ok hsp _ _⟩

/-- a negative integer literal -/
theorem exprOK_neg (i : Int) (h : negOK i = true) : ExprOK o (.integer i none) := by
  intro wp
  have hneg : i < 0 := by
    simp only [negOK, Bool.and_eq_true, decide_eq_true_eq] at h; exact h.1
  have hs := neg_opdSpec (o := o) i h
  refine ⟨'-' :: Nat.toDigits 10 i.natAbs, tMinus, [tInt i.natAbs], ?_, ?_, rfl,
    espec_unit hs (headA_of_opdSpec hs (by decide) (by decide) (by decide) (by decide)) _ _⟩
  · simp [Print.writeTo, Print.writeNext, Print.parenIf, Decimal.formatInt, Decimal.formatNat, hneg]
  · have := Seg2.app o (seg2_minus o ok) (seg_nat o ok i.natAbs) (fun _ _ => trivial)
    simpa using this

omit ok in
theorem ESpec.imp {e : Node} {tk : TT} {ts : List TT} {p q p' q' : Prop} (h : ESpec o e tk ts p q)
    (hp : p' → p) (hq : q' → q) : ESpec o e tk ts p' q' := by
  obtain ⟨⟨x, tsH, M, a, b, c, d, e1, e2⟩, h2, h3⟩ := h
  exact ⟨⟨x, tsH, M, a, b, c, d, e1, fun hh => e2 (hq hh)⟩, fun hh => h2 (hq hh), fun hh => h3 (hp hh)⟩

/-- `+x`, `-x` -/
theorem exprOK_sign (op : UnOp) (x : Node) (hop : isSign op = true) (hx : ExprOK o x) (hn : notNumLit x = true)
    (hu : decide (Print.priority x ≤ Print.unPriority op) = true ∨ isBin x = false) :
    ExprOK o (.unary op (some x) none) := by
  obtain ⟨xtxt, tk, ts, hpr, hseg, hst, _, _, hunit⟩ := hx (decide (Print.priority x ≤ Print.unPriority op))
  obtain ⟨hopd, _⟩ := hunit hu
  have hs := sign_opdSpec (o := o) op hop hopd hn
  have hf := signTok_facts op
  refine exprOK_wrap ok (txt := (signTok op).2 ++ xtxt) (tk := signTok op) (ts := tk :: ts) ?_ ?_ hf.2.2.2.2
    (espec_unit hs (headA_of_opdSpec hs hf.1 hf.2.1 hf.2.2.1 hf.2.2.2.1) _ _)
  · intro wp
    cases op <;> simp [isSign] at hop
    · simp [Print.writeTo, Print.writeOpd, Print.writeNext, hpr, unStr_plus, signTok, tPlus]
    · simp [Print.writeTo, Print.writeOpd, Print.writeNext, hpr, unStr_minus, signTok, tMinus]
  · cases op <;> simp [isSign] at hop
    · have := Seg2.app o (seg2_plus o ok) hseg.1 (fun _ _ => trivial)
      simpa [signTok, tPlus] using this
    · have := Seg2.app o (seg2_minus o ok) hseg.1 (fun _ _ => trivial)
      simpa [signTok, tMinus] using this

/-- `l * r`, `l / r`, `l % r` -/
theorem exprOK_mul (op : BinOp) (l r : Node) (hop : isMulOp op = true) (hl : ExprOK o l) (hr : ExprOK o r)
    (hul : decide (Print.priority l ≤ Print.binPriority op) = true ∨ isBin l = false)
    (hur : decide (Print.priority r ≤ Print.binPriority op) = true ∨ isBin r = false) :
    ExprOK o (.binary op (some l) (some r) none) := by
  obtain ⟨ltxt, tkl, tsl, hprl, hsegl, hstl, _, _, hunitl⟩ := hl (decide (Print.priority l ≤ Print.binPriority op))
  obtain ⟨rtxt, tkr, tsr, hprr, hsegr, _, _, _, hunitr⟩ := hr (decide (Print.priority r ≤ Print.binPriority op))
  obtain ⟨hol, hal⟩ := hunitl hul
  obtain ⟨hor, _⟩ := hunitr hur
  have har : isArith op = true := by cases op <;> simp [isMulOp] at hop <;> rfl
  refine exprOK_wrap ok (txt := ltxt ++ ' ' :: (Print.binStr op ++ ' ' :: rtxt)) (tk := tkl)
    (ts := tsl ++ arithTok op :: tkr :: tsr) ?_ ?_ hstl
    ((espec_mul hop hol hal hor (isAddLevel (.binary op (some l) (some r) none) = false)).imp
      (fun h => by simp [isBin] at h) id)
  · intro wp
    cases op <;> simp [isMulOp] at hop <;>
      simp [Print.writeTo, Print.writeOpd, Print.writeNext, hprl, hprr]
  · have h1 := Seg.app_cons o (seg_sp_arith o ok op har) hsegr.2 rfl
    have h2 := Seg2.app_cons o hsegl h1 brk_sp
    simpa using h2

/-- `l + r`, `l - r` -/
theorem exprOK_add (op : BinOp) (l r : Node) (hop : isAddOp op = true) (hl : ExprOK o l) (hr : ExprOK o r)
    (hml : decide (Print.priority l ≤ Print.binPriority op) = true ∨ isAddLevel l = false)
    (hmr : decide (Print.priority r ≤ Print.binPriority op) = true ∨ isAddLevel r = false) :
    ExprOK o (.binary op (some l) (some r) none) := by
  obtain ⟨ltxt, tkl, tsl, hprl, hsegl, hstl, hspl⟩ := hl (decide (Print.priority l ≤ Print.binPriority op))
  obtain ⟨rtxt, tkr, tsr, hprr, hsegr, _, _, hmulr, _⟩ := hr (decide (Print.priority r ≤ Print.binPriority op))
  have har : isArith op = true := by cases op <;> simp [isAddOp] at hop <;> rfl
  refine exprOK_wrap ok (txt := ltxt ++ ' ' :: (Print.binStr op ++ ' ' :: rtxt)) (tk := tkl)
    (ts := tsl ++ arithTok op :: tkr :: tsr) ?_ ?_ hstl
    ((espec_add hop hspl hml (hmulr hmr)).imp (fun h => by simp [isBin] at h)
      (fun h => by cases op <;> simp [isAddOp] at hop <;> simp [isAddLevel] at h))
  · intro wp
    cases op <;> simp [isAddOp] at hop <;>
      simp [Print.writeTo, Print.writeOpd, Print.writeNext, hprl, hprr]
  · have h1 := Seg.app_cons o (seg_sp_arith o ok op har) hsegr.2 rfl
    have h2 := Seg2.app_cons o hsegl h1 brk_sp
    simpa using h2

/-! ## Predicates over expressions -/

/-- `l op r` with a comparison operator -/
theorem predOK_cmpE (op : BinOp) (l r : Node) (hop : isCmp op = true) (hl : ExprOK o l) (hr : ExprOK o r)
    (hpl : decide (Print.priority l ≤ Print.binPriority op) = false)
    (hpr' : decide (Print.priority r ≤ Print.binPriority op) = false) :
    PredOK o (.binary op (some l) (some r) none) := by
  obtain ⟨ltxt, tkl, tsl, hprl, hsegl, hstl, hspl⟩ := hl false
  obtain ⟨rtxt, tkr, tsr, hprr, hsegr, _, hspr⟩ := hr false
  have hat := cmpE_atom (o := o) hspl hspr hop
  refine predOK_binary ok (txt := ltxt ++ ' ' :: (Print.binStr op ++ ' ' :: rtxt))
    (toks := tkl :: tsl ++ opTok op :: tkr :: tsr) ?_ ?_ ⟨tkl, _, rfl, hstl⟩ (fun _ => hat)
    (fun _ => ⟨left_of_atom hat 1, right_of_atom hat⟩) (left_of_atom hat 2)
  · intro wp
    have e1 : Print.writeOpd o.isPrint (some l) (some (Print.binPriority op)) = some ltxt := by
      simp only [Print.writeOpd, hpl, hprl]
    have e2 : Print.writeOpd o.isPrint (some r) (some (Print.binPriority op)) = some rtxt := by
      simp only [Print.writeOpd, hpr', hprr]
    cases op <;> simp [isCmp] at hop <;> (simp only [Print.writeTo, e1, e2]; simp [Print.writeNext])
  · have h1 := Seg.app_cons o (seg_sp_op o ok op (Or.inl hop)) hsegr.2 rfl
    have h2 := Seg2.app_cons o hsegl h1 brk_sp
    simpa using h2

/-- `l starts with "s"` / `l starts with $"s"` -/
theorem predOK_startsE (l : Node) (s : List Char) (isVar : Bool) (hl : ExprOK o l) (hs : NoNul s)
    (hpl : decide (Print.priority l ≤ Print.binPriority .startsWith) = false) :
    PredOK o (.binary .startsWith (some l) (some (if isVar then .var s none else .str s none)) none) := by
  obtain ⟨ltxt, tkl, tsl, hprl, hsegl, hstl, hspl⟩ := hl false
  have hat := startsE_atom (o := o) s isVar hspl
  refine predOK_binary ok
    (txt := ltxt ++ ' ' :: 's' :: 't' :: 'a' :: 'r' :: 't' :: 's' :: ' ' :: 'w' :: 'i' :: 't' :: 'h' :: ' ' ::
      (if isVar then '$' :: Print.quote o.isPrint s else Print.quote o.isPrint s))
    (toks := tkl :: tsl ++ [tStarts, tWith, if isVar then tVar s else (.string, s)]) ?_ ?_ ⟨tkl, _, rfl, hstl⟩
    (fun _ => hat) (fun _ => ⟨left_of_atom hat 1, right_of_atom hat⟩) (left_of_atom hat 2)
  · intro wp
    have e1 : Print.writeOpd o.isPrint (some l) (some (Print.binPriority .startsWith)) = some ltxt := by
      simp only [Print.writeOpd, hpl, hprl]
    simp only [Print.writeTo, e1]
    cases isVar <;> simp [Print.writeTo, Print.writeOpd, Print.writeNext, binStr_startsWith]
  · have h0 : Seg o brk (' ' :: (if isVar then '$' :: Print.quote o.isPrint s else Print.quote o.isPrint s))
        [if isVar then tVar s else (.string, s)] := by
      cases isVar
      · exact (seg2_string o ok s hs).2.mono o (fun _ _ => trivial)
      · exact (seg2_variable o ok s hs).2.mono o (fun _ _ => trivial)
    have h1 := Seg.app_cons o (seg_sp_kw o ok 'w' ['i', 't', 'h'] .with_ (by decide) (by decide)) h0
      (identCont_punct o ok ' ' (by decide))
    have h2 := Seg.app_cons o (seg_sp_kw o ok 's' ['t', 'a', 'r', 't', 's'] .starts (by decide) (by decide)) h1
      (identCont_punct o ok ' ' (by decide))
    have h3 := Seg2.app_cons o hsegl h2 brk_sp
    simpa [tStarts, tWith] using h3

/-- `exists (e)` -/
theorem predOK_existsE (x : Node) (hx : ExprOK o x) : PredOK o (.unary .exists (some x) none) := by
  obtain ⟨xtxt, tk, ts, hpr, hseg, hst, hsp⟩ := hx false
  have hat := existsE_atom (o := o) hsp
  refine predOK_unary ok (txt := 'e' :: 'x' :: 'i' :: 's' :: 't' :: 's' :: ' ' :: '(' :: (xtxt ++ [')']))
    (toks := tExists :: tLp :: tk :: ts ++ [tRp]) ?_ ?_ ⟨tExists, _, rfl, rfl⟩ hat
  · intro wp
    have : "exists (".toList = ['e', 'x', 'i', 's', 't', 's', ' ', '('] := by decide
    simp [Print.writeTo, Print.writeOpd, Print.writeNext, hpr, this]
  · have h1 := Seg.app_cons o hseg.1 (seg_rp o ok) brk_rp
    have h2 := Seg.app o (seg2_lp o ok).2 h1 (fun _ _ => trivial)
    have h3 := Seg2.app_cons o (seg2_kw o ok 'e' ['x', 'i', 's', 't', 's'] .exists (by decide) (by decide)) h2
      (identCont_punct o ok ' ' (by decide))
    have := Seg2.mono o h3 (C' := brk) (fun _ _ => trivial)
    simpa [tExists] using this

/-- `x like_regex "pat" [flag "…"]` -/
theorem predOK_regexE (x : Node) (pat : List Char) (fl : Nat) (hx : ExprOK o x) (hp : NoNul pat) (hfl : fl < 32)
    (hok : okFlags fl = true) (hacc : o.regexAccepts pat fl = true)
    (hpx : decide (Print.priority x ≤ 6) = true) :
    PredOK o (.regex x pat fl none) := by
  obtain ⟨xtxt, tk, ts, hpr, hseg, hst, hsp⟩ := hx true
  have hat := regexE_atom (o := o) pat fl hsp hfl hok hacc
  have hfs : Seg o brk (Print.flagsStr fl) (flagToks fl) := by
    rw [flagsStr_eq fl hfl]
    unfold flagToks
    split
    · exact Seg.nil o _
    · have hn : NoNul (flagChars fl) := fun c hc => (isLow_facts c (flagChars_low fl hfl c hc)).1
      have h0 := (seg2_string o ok (flagChars fl) hn).2
      rw [quote_flagChars ok fl hfl] at h0
      have h1 := Seg.app_cons o (seg_sp_kw o ok 'f' ['l', 'a', 'g'] .flag (by decide) (by decide)) h0
        (identCont_punct o ok ' ' (by decide))
      exact (by simpa [tFlag] using h1.mono o (C' := brk) (fun _ _ => trivial))
  refine predOK_binary ok
    (txt := xtxt ++ ' ' :: 'l' :: 'i' :: 'k' :: 'e' :: '_' :: 'r' :: 'e' :: 'g' :: 'e' :: 'x' :: ' ' ::
      (Print.quote o.isPrint pat ++ Print.flagsStr fl))
    (toks := tk :: ts ++ tLike :: (.string, pat) :: flagToks fl) ?_ ?_ ⟨tk, _, rfl, hst⟩
    (fun _ => hat) (fun _ => ⟨left_of_atom hat 1, right_of_atom hat⟩) (left_of_atom hat 2)
  · intro wp
    rw [Print.writeTo]
    simp only [hpx] 
    simp [hpr, Print.writeNext, likeRegex_txt]
  · have h0 := Seg.app o ((seg2_string o ok pat hp).2) hfs (fun _ _ => trivial)
    have h1 := Seg.app_cons o
      (seg_sp_kw o ok 'l' ['i', 'k', 'e', '_', 'r', 'e', 'g', 'e', 'x'] .likeRegex (by decide) (by decide)) h0
      (identCont_punct o ok ' ' (by decide))
    have h2 := Seg2.app_cons o hseg h1 brk_sp
    simpa [tLike] using h2

end

/-! ## Stage 4: the class with arithmetic -/

/-! ## Stage 4: the induction -/

section
variable {o : Oracles} (ok : OrOK o)
include ok

end

section
variable {o : Oracles}

end

/-! ## The classes are nested: stage 2 ⊆ stage 3 ⊆ stage 4 -/

/-! ## Stage 5: `.time()` family and `.decimal()` -/

section
variable {o : Oracles}

/-- `.time()` and friends, without precision -/
theorem accOp_time0 (f : Nat) (op : UnOp) (hop : isTimeOp op = true) (rest : List TT) :
    RunsV (StP o (tDot :: tTime op :: tLp :: tRp :: rest)) (accessorOp o (f + 1) .dot) (.unary op none none)
      (StE o rest) := by
  have hf := time_facts hop
  rw [accessorOp]
  lstep (consume_spec _ _)
  simp only [reduceCtorEq, ↓reduceIte]
  lstep (peek_cons _ _)
  simp only [tTime, hf.2.1, hf.2.2.1, hf.2.2.2.1, hf.2.2.2.2.1, hf.2.2.2.2.2.1, hf.2.2.2.2.2.2.1, hf.2.2.2.2.2.2.2.1,
    hf.1, ↓reduceIte, Bool.false_eq_true]
  lstep (consume_spec _ _)
  lstep (peek_cons _ _)
  simp only [tLp, ↓reduceIte]
  lstep (consume_spec _ _)
  lstep (peek_cons _ _)
  simp only [tRp, reduceCtorEq, ↓reduceIte]
  lstep (expect_spec _ _ _).ofE
  exact RunsV.pure _

/-- `.time(p)` and friends -/
theorem accOp_time1 (f : Nat) (op : UnOp) (hop : isTimeOp op = true) (p : Int) (hp : intOK p = true)
    (rest : List TT) :
    RunsV (StP o (tDot :: tTime op :: tLp :: tInt p.toNat :: tRp :: rest)) (accessorOp o (f + 1) .dot)
      (.unary op (some (.integer p none)) none) (StE o rest) := by
  have hf := time_facts hop
  obtain ⟨h1, h2⟩ := intOK_toNat hp
  rw [accessorOp]
  lstep (consume_spec _ _)
  simp only [reduceCtorEq, ↓reduceIte]
  lstep (peek_cons _ _)
  simp only [tTime, hf.2.1, hf.2.2.1, hf.2.2.2.1, hf.2.2.2.2.1, hf.2.2.2.2.2.1, hf.2.2.2.2.2.2.1, hf.2.2.2.2.2.2.2.1,
    hf.1, ↓reduceIte, Bool.false_eq_true]
  lstep (consume_spec _ _)
  lstep (peek_cons _ _)
  simp only [tLp, ↓reduceIte]
  lstep (consume_spec _ _)
  lstep (peek_cons _ _)
  simp only [tInt, ↓reduceIte]
  lstep (consume_spec _ _)
  rw [newInteger_toDigits _ h2]
  lstep (RunsV.pure _)
  lstep (expect_spec _ _ _)
  exact RunsV.pure' (by simp [h1]) (fun _ h => h)

/-! ### `.decimal(…)` -/

/-- one argument of `.decimal(…)` -/
theorem csvElem_spec (i : Int) (hi : litOK i = true) (rest : List TT) :
    RunsV (StP o (csvToks i ++ rest)) (csvElem o (hd (csvToks i))) (.integer i none) (StE o rest) := by
  simp only [litOK, Bool.and_eq_true, decide_eq_true_eq] at hi
  unfold csvToks
  split
  · rename_i hneg
    simp only [hd, List.cons_append, List.nil_append, tMinus]
    rw [csvElem]
    simp only [reduceCtorEq, ↓reduceIte]
    lstep (consume_spec _ _)
    lstep (peek_cons _ _)
    simp only [tInt, ne_eq, not_true_eq_false, ↓reduceIte]
    lstep (consume_spec _ _)
    rw [newInteger_toDigits _ (by omega)]
    lstep (RunsV.pure _)
    try simp only [reduceCtorEq, ↓reduceIte]
    unfold newUnaryOrNumber
    simp only [Node.next, Option.isNone_none, ↓reduceIte, reduceCtorEq]
    unfold astNewInteger
    rw [negLit_toDigits, parseInt0_neg_toDigits _ (by omega)]
    have e3 : -(i.natAbs : Int) = i := by omega
    lstep (RunsV.pure _)
    exact RunsV.pure' (by simp [e3]) (fun _ h => h)
  · rename_i hneg
    simp only [hd, List.cons_append, List.nil_append, tInt]
    rw [csvElem]
    simp only [↓reduceIte]
    lstep (consume_spec _ _)
    rw [newInteger_toDigits _ (by omega)]
    lstep (RunsV.pure _)
    have e3 : (i.natAbs : Int) = i := by omega
    exact RunsV.pure' (by simp [e3]) (fun _ h => h)

theorem csvMore_nil (f : Nat) (acc : List Node) (rest : List TT) (h : (hd rest).1 ≠ .comma) :
    RunsV (StE o rest) (csvMore o (f + 1) acc) acc (StA o rest) := by
  rw [csvMore]
  lstep (peek_any rest)
  simp only [h, ↓reduceIte]
  exact RunsV.pure _

theorem accOp_decimal (f : Nat) (l r : Option Node) (h : okDecArgs l r = true) (rest : List TT) :
    RunsV (StP o (tDot :: tDecimal :: tLp :: (decArgsToks l r ++ tRp :: rest))) (accessorOp o (f + 5) .dot)
      (.binary .decimal l r none) (StE o rest) := by
  have pre : ∀ (w : Node) (post : PS → Prop) (ts : List TT),
      RunsV (StE o ts) (do
        let args ← csvList o (f + 4)
        expect o .rparen
        match args with
        | [] => pure (Node.binary .decimal none none none)
        | [a] => pure (.binary .decimal (some a) none none)
        | [a, b] => pure (.binary .decimal (some a) (some b) none)
        | _ => do
          recordError
          pure (.binary .decimal none none none)) w post →
      RunsV (StP o (tDot :: tDecimal :: tLp :: ts)) (accessorOp o (f + 5) .dot) w post := by
    intro w post ts hk
    rw [accessorOp]
    lstep (consume_spec _ _)
    simp only [reduceCtorEq, ↓reduceIte]
    lstep (peek_cons _ _)
    simp only [tDecimal, reduceCtorEq, ↓reduceIte, isPlainKeyName, methodOf, decide_false, Bool.or_self,
      Bool.false_eq_true]
    lstep (consume_spec _ _)
    lstep (peek_cons _ _)
    simp only [tLp, ↓reduceIte]
    lstep (consume_spec _ _)
    exact hk
  apply pre
  unfold okDecArgs at h
  split at h
  · -- no argument
    simp only [decArgsToks, List.nil_append]
    have hc : RunsV (StE o (tRp :: rest)) (csvList o (f + 4)) [] (StA o (tRp :: rest)) := by
      rw [csvList]
      lstep (peek_cons _ _)
      simp only [tRp, reduceCtorEq, decide_false, Bool.or_self, Bool.false_eq_true, ↓reduceIte]
      exact RunsV.pure _
    lstep hc
    lstep (expect_spec _ _ _).ofE
    exact RunsV.pure _
  · -- one argument
    rename_i a
    obtain ⟨tk, ts, htk, hk1, _⟩ := csvToks_head a
    have he := csvElem_spec (o := o) a h (tRp :: rest)
    simp only [decArgsToks]
    rw [htk] at he ⊢
    have hc : RunsV (StE o (tk :: ts ++ tRp :: rest)) (csvList o (f + 4)) [.integer a none] (StA o (tRp :: rest)) := by
      rw [csvList]
      lstep (peek_cons _ _)
      obtain ⟨t, x⟩ := tk
      simp only at hk1
      have : (decide (t = Tok.int) || decide (t = Tok.plus) || decide (t = Tok.minus)) = true := by
        rcases hk1 with h | h <;> subst h <;> rfl
      simp only [this, ↓reduceIte]
      simp only [hd] at he
      lstep he
      exact (csvMore_nil (f + 2) _ _ (by simp [hd, tRp]))
    lstep hc
    lstep (expect_spec _ _ _).ofE
    exact RunsV.pure _
  · -- two arguments
    rename_i a b
    simp only [Bool.and_eq_true] at h
    obtain ⟨tk, ts, htk, hk1, _⟩ := csvToks_head a
    obtain ⟨tk2, ts2, htk2, hk2, _⟩ := csvToks_head b
    have he := csvElem_spec (o := o) a h.1 (tComma :: csvToks b ++ tRp :: rest)
    have he2 := csvElem_spec (o := o) b h.2 (tRp :: rest)
    simp only [decArgsToks]
    rw [htk] at he ⊢
    rw [htk2] at he he2 ⊢
    have hc : RunsV (StE o (tk :: ts ++ tComma :: tk2 :: ts2 ++ tRp :: rest)) (csvList o (f + 4))
        [.integer a none, .integer b none] (StA o (tRp :: rest)) := by
      rw [csvList]
      simp only [List.cons_append, List.append_assoc]
      lstep (peek_cons _ _)
      obtain ⟨t, x⟩ := tk
      simp only at hk1
      have : (decide (t = Tok.int) || decide (t = Tok.plus) || decide (t = Tok.minus)) = true := by
        rcases hk1 with h | h <;> subst h <;> rfl
      simp only [this, ↓reduceIte]
      simp only [hd, List.cons_append, List.append_assoc] at he
      lstep he
      rw [csvMore]
      lstep (peek_cons _ _)
      simp only [tComma, ↓reduceIte]
      lstep (consume_spec _ _)
      lstep (peek_cons _ _)
      obtain ⟨t2, x2⟩ := tk2
      simp only at hk2
      have : (decide (t2 = Tok.int) || decide (t2 = Tok.plus) || decide (t2 = Tok.minus)) = true := by
        rcases hk2 with h | h <;> subst h <;> rfl
      simp only [this, ↓reduceIte]
      simp only [hd, List.cons_append] at he2
      lstep he2
      exact (csvMore_nil (f + 1) _ _ (by simp [hd, tRp]))
    simp only [List.cons_append, List.append_assoc] at hc ⊢
    lstep hc
    lstep (expect_spec _ _ _).ofE
    exact RunsV.pure _
  · simp at h

end

/-! ## Stage 5: the new accessors as `StepOK` -/

section
variable {o : Oracles} (ok : OrOK o)
include ok

theorem seg_csv (i : Int) : Seg o brk (csvTxt i) (csvToks i) := by
  unfold csvTxt csvToks
  split
  · have := Seg.app o (seg2_minus o ok).1 (seg_nat o ok i.natAbs) (fun _ _ => trivial)
    simpa using this
  · exact seg_nat o ok i.natAbs

theorem stepOK_time0 (op : UnOp) (hop : isTimeOp op = true) (nx : Option Node) :
    StepOK o (.unary op none nx) := by
  have hf := time_facts hop
  obtain ⟨c, w, hcw, hkw⟩ := hf.2.2.2.2.2.2.2.2.2.2
  have hseg := seg_dot_kw_call o ok c w (timeKind op) hkw hf.2.2.2.2.2.2.2.2.1
  refine ⟨'.' :: ((c :: w) ++ ['(', ')']), .dot, ['.'], [(timeKind op, c :: w), tLp, tRp], '.', _, ?_, ?_, rfl,
    Or.inr (Or.inl rfl), rfl, ?_⟩
  · intro wp
    have hu := hf.2.2.2.2.2.2.2.2.2.1
    rw [hcw] at hu
    cases op <;> simp [isTimeOp] at hop <;>
      (rw [Print.writeTo]; simp only [Node.next, Print.stringOpt, hu]
       generalize Print.writeNext o.isPrint nx = wn
       cases wn <;> simp)
  · exact (Seg.weak o ok hseg)
  · intro rest f _ hf'
    obtain ⟨f', rfl⟩ : ∃ f', f = f' + 1 := ⟨f - 1, by omega⟩
    have := accOp_time0 (o := o) f' op hop rest
    simp only [tTime, hcw] at this
    exact this

theorem stepOK_time1 (op : UnOp) (hop : isTimeOp op = true) (p : Int) (hp : intOK p = true) (nx : Option Node) :
    StepOK o (.unary op (some (.integer p none)) nx) := by
  have hf := time_facts hop
  obtain ⟨c, w, hcw, hkw⟩ := hf.2.2.2.2.2.2.2.2.2.2
  obtain ⟨c', w', h1, h2⟩ := kw_shape (c :: w, timeKind op) hkw
  injection h1 with h1a h1b
  subst h1a
  have hd' : isDecimalR (some c) = false := (isLow_facts c h2).2.2.2.2
  have hseg : Seg o CT ('.' :: ((c :: w) ++ '(' :: (Nat.toDigits 10 p.toNat ++ [')'])))
      [tDot, (timeKind op, c :: w), tLp, tInt p.toNat, tRp] := by
    have h3 := Seg.app_cons o (seg_nat o ok p.toNat) (seg_rp o ok) brk_rp
    have h4 := Seg.app o (seg_lp o ok) h3 (fun _ _ => trivial)
    have h5 := Seg.app_cons o (seg_kw o ok c w (timeKind op) hkw hf.2.2.2.2.2.2.2.2.1) h4
      (identCont_punct o ok '(' (by decide))
    have h6 := Seg.app_cons o (seg_dot o ok) h5 hd'
    simpa using h6
  refine ⟨'.' :: ((c :: w) ++ '(' :: (Nat.toDigits 10 p.toNat ++ [')'])), .dot, ['.'],
    [(timeKind op, c :: w), tLp, tInt p.toNat, tRp], '.', _, ?_, ?_, rfl, Or.inr (Or.inl rfl), rfl, ?_⟩
  · intro wp
    have hu := hf.2.2.2.2.2.2.2.2.2.1
    rw [hcw] at hu
    have hfi := formatInt_nonneg hp
    cases op <;> simp [isTimeOp] at hop <;>
      (rw [Print.writeTo]; simp only [Node.next, Print.stringOpt, Print.simpleString?, hu, hfi]
       generalize Print.writeNext o.isPrint nx = wn
       cases wn <;> simp)
  · exact (Seg.weak o ok hseg)
  · intro rest f _ hf'
    obtain ⟨f', rfl⟩ : ∃ f', f = f' + 1 := ⟨f - 1, by omega⟩
    have := accOp_time1 (o := o) f' op hop p hp rest
    simp only [tTime, hcw] at this
    exact this

theorem seg_decArgs (l r : Option Node) (h : okDecArgs l r = true) :
    Seg o brk (decArgsTxt l r) (decArgsToks l r) := by
  unfold okDecArgs at h
  split at h
  · exact Seg.nil o _
  · exact seg_csv ok _
  · rename_i a b
    have h1 := Seg.app o (seg_comma o ok) (seg_csv ok b) (fun _ _ => trivial)
    have h2 := Seg.app_cons o (seg_csv ok a) h1 (Or.inr (Or.inr (Or.inr (Or.inr (Or.inl rfl)))))
    simpa [decArgsTxt, decArgsToks] using h2
  · simp at h

theorem stepOK_decimal (l r nx : Option Node) (h : okDecArgs l r = true) :
    StepOK o (.binary .decimal l r nx) := by
  have hs := seg_decArgs ok l r h
  have hseg : Seg o CT ('.' :: 'd' :: 'e' :: 'c' :: 'i' :: 'm' :: 'a' :: 'l' :: '(' :: (decArgsTxt l r ++ [')']))
      (tDot :: tDecimal :: tLp :: (decArgsToks l r ++ [tRp])) := by
    have h3 := Seg.app_cons o hs (seg_rp o ok) brk_rp
    have h4 := Seg.app o (seg_lp o ok) h3 (fun _ _ => trivial)
    have h5 := Seg.app_cons o (seg_kw o ok 'd' ['e', 'c', 'i', 'm', 'a', 'l'] .decimal (by decide) (by decide)) h4
      (identCont_punct o ok '(' (by decide))
    have h6 := Seg.app_cons o (seg_dot o ok) h5 (by decide)
    simpa [tDecimal] using h6
  refine ⟨_, .dot, ['.'], tDecimal :: tLp :: (decArgsToks l r ++ [tRp]), '.', _, ?_, Seg.weak o ok hseg, rfl,
    Or.inr (Or.inl rfl), rfl, ?_⟩
  · intro wp
    have e : ".decimal(".toList = ['.', 'd', 'e', 'c', 'i', 'm', 'a', 'l', '('] := by decide
    unfold okDecArgs at h
    split at h
    · rw [Print.writeTo]; simp only [Node.next, Print.stringOpt, e, decArgsTxt]
      generalize Print.writeNext o.isPrint nx = wn
      cases wn <;> simp
    · rw [Print.writeTo]; simp only [Node.next, Print.stringOpt, Print.simpleString?, e, decArgsTxt, formatInt_csv]
      generalize Print.writeNext o.isPrint nx = wn
      cases wn <;> simp
    · rw [Print.writeTo]; simp only [Node.next, Print.stringOpt, Print.simpleString?, e, decArgsTxt, formatInt_csv]
      generalize Print.writeNext o.isPrint nx = wn
      cases wn <;> simp
    · simp at h
  · intro rest f _ hf'
    simp only [List.length_cons, List.length_append, List.length_nil] at hf'
    obtain ⟨f', rfl⟩ : ∃ f', f = f' + 5 := ⟨f - 5, by omega⟩
    have := accOp_decimal (o := o) f' l r h rest
    simpa [Node.setNext, tDot] using this

end

/-! ## Stage 5: subscripts with arbitrary expressions -/

section
variable {o : Oracles}

theorem indexK_last (f : Nat) (acc : List Node) (elem : Node) (rest : List TT) :
    RunsV (StA o (tRb :: rest)) (indexK o f acc elem) (acc ++ [elem]) (StE o rest) := by
  unfold indexK
  lstep (peek_cons _ _)
  simp only [tRb, reduceCtorEq, ↓reduceIte]
  lstep (consume_spec _ _)
  exact RunsV.pure _

theorem indexK_more (f : Nat) (acc : List Node) (elem : Node) (tk : TT) (more : List TT) (htk : tk.1 ≠ .stop)
    (w : List Node) (post : PS → Prop)
    (h : RunsV (StP o (tk :: more)) (indexList o f tk (acc ++ [elem])) w post) :
    RunsV (StA o (tComma :: tk :: more)) (indexK o f acc elem) w post := by
  unfold indexK
  lstep (peek_cons _ _)
  simp only [tComma, ↓reduceIte]
  lstep (consume_spec _ _)
  lstep (peek_cons _ _)
  simp only [htk, ↓reduceIte]
  exact h

/-- `indexList` on the tokens of one subscript goes on with `indexK` -/
def SubRun (o : Oracles) (s : Node) (tk : TT) (ts : List TT) : Prop :=
  ∀ f acc more (w : List Node) (post : PS → Prop), 16 * (ts.length + 1) + 8 ≤ f →
    ((hd more).1 = .comma ∨ (hd more).1 = .rbrack) →
    RunsV (StA o more) (indexK o f acc s) w post →
    RunsV (StP o (tk :: ts ++ more)) (indexList o (f + 1) tk acc) w post

/-- the head unit with `parseUnaryT`, then the loop -/
theorem expr_fullT {e : Node} {tk : TT} {ts : List TT} {p q : Prop} (h : ESpec o e tk ts p q)
    (g : Nat) (rest : List TT) (hg : 16 * (ts.length + 1) + 8 ≤ g) (hfol : EFollow (hd rest).1) :
    ∃ (u : EV) (mid : List TT),
      RunsV (StP o (tk :: ts ++ rest)) (parseUnaryT o g tk) u (StA o mid) ∧
      RunsV (StA o mid) (arithLoop o g u) (evOf e, (hd rest).1) (StA o rest) := by
  obtain ⟨⟨x, tsH, M, hts, hmh, hopd, _, hl2, _⟩, _, _⟩ := h
  subst hts
  simp only [List.length_append] at hg
  have hm := hmh rest hfol.1 hfol.2.1
  have hrun := hopd g (M ++ rest) (by omega) hm.1 hm.2
  refine ⟨evOf x, M ++ rest, by simpa using hrun, ?_⟩
  refine hl2 g rest _ _ (by omega) hfol.1 hfol.2.1 hfol.2.2.2 ?_
  intro g1 h1 h2
  obtain ⟨g2, rfl⟩ : ∃ g2, g1 = g2 + 1 := ⟨g1 - 1, by omega⟩
  exact arith_nil g2 _ rest hfol.2.2.1 hfol.2.2.2

/-- a single bound -/
theorem subRun_one {l : Node} {tk : TT} {ts : List TT} {p q : Prop} (hl : ESpec o l tk ts p q) :
    SubRun o (.binary .subscript (some l) none none) tk ts := by
  intro f acc more w post hf hsep hk
  have hs := sepFollow hsep
  obtain ⟨u, mid, h1, h2⟩ := expr_fullT hl f more hf hs.1
  rw [indexList_eq]
  lstep h1
  lstep h2
  simp only [indexElemK, hs.2, ↓reduceIte, evOf_node]
  exact hk

/-- a range `l to r` -/
theorem subRun_two {l r : Node} {tkl tkr : TT} {tsl tsr : List TT} {p q p' q' : Prop}
    (hl : ESpec o l tkl tsl p q) (hr : ESpec o r tkr tsr p' q') :
    SubRun o (.binary .subscript (some l) (some r) none) tkl (tsl ++ tTo :: tkr :: tsr) := by
  intro f acc more w post hf hsep hk
  simp only [List.length_cons, List.length_append] at hf
  have hs := sepFollow hsep
  obtain ⟨u, mid, h1, h2⟩ := expr_fullT hl f (tTo :: tkr :: (tsr ++ more)) (by omega) ⟨rfl, by simp [hd, tTo], rfl, rfl⟩
  obtain ⟨u2, mid2, h3, h4⟩ := expr_full hr f more (by omega) hs.1
  rw [indexList_eq]
  simp only [List.cons_append, List.append_assoc] at h1 ⊢
  lstep h1
  lstep h2
  simp only [hd, tTo, indexElemK, ↓reduceIte, evOf_node]
  lstep (consume_spec _ _)
  simp only [List.cons_append] at h3
  lstep h3
  lstep h4
  exact hk

end

/-- a subscript: text, tokens, and `indexList` on them -/
def SubOK (o : Oracles) (s : Node) : Prop :=
  ∃ (txt : List Char) (tk : TT) (ts : List TT),
    Print.writeTo o.isPrint s false false = some txt ∧ Seg o brk txt (tk :: ts) ∧ isPredStart tk.1 = true ∧
    SubRun o s tk ts

section
variable {o : Oracles} (ok : OrOK o)
include ok

theorem subOK_one (l : Node) (hl : ExprOK o l) : SubOK o (.binary .subscript (some l) none none) := by
  obtain ⟨txt, tk, ts, hpr, hseg, hst, hsp⟩ := hl false
  refine ⟨txt, tk, ts, ?_, hseg.1, hst, subRun_one hsp⟩
  simp [Print.writeTo, Print.writeOpd, Print.writeNext, hpr]

theorem subOK_two (l r : Node) (hl : ExprOK o l) (hr : ExprOK o r) :
    SubOK o (.binary .subscript (some l) (some r) none) := by
  obtain ⟨ltxt, tkl, tsl, hprl, hsegl, hstl, hspl⟩ := hl false
  obtain ⟨rtxt, tkr, tsr, hprr, hsegr, _, hspr⟩ := hr false
  refine ⟨ltxt ++ ' ' :: 't' :: 'o' :: ' ' :: rtxt, tkl, tsl ++ tTo :: tkr :: tsr, ?_, ?_, hstl, subRun_two hspl hspr⟩
  · have e : " to ".toList = [' ', 't', 'o', ' '] := by decide
    simp [Print.writeTo, Print.writeOpd, Print.writeNext, hprl, hprr, e]
  · have h2 := Seg.app_cons o (seg_sp_to o ok) hsegr.2 (identCont_punct o ok ' ' (by decide))
    have h3 := Seg.app_cons o hsegl.1 h2 brk_sp
    simpa using h3

end

/-! ### the whole index list -/

section
variable {o : Oracles}

/-- all subscripts of a list: text, tokens, and `indexList` -/
def SubsOK (o : Oracles) (subs : List Node) : Prop :=
  ∃ (txt : List Char) (tk : TT) (ts : List TT),
    Print.writeSubs o.isPrint subs true = some txt ∧
    Print.writeSubs o.isPrint subs false = some (',' :: txt) ∧
    Seg o brk txt (tk :: ts) ∧ isPredStart tk.1 = true ∧
    ∀ f acc rest, 16 * (ts.length + 1) + 8 ≤ f →
      RunsV (StP o (tk :: ts ++ tRb :: rest)) (indexList o (f + 1) tk acc) (acc ++ subs) (StE o rest)

theorem subsOK_of (ok : OrOK o) : ∀ (subs : List Node), subs ≠ [] → (∀ s ∈ subs, SubOK o s) → SubsOK o subs := by
  intro subs
  induction subs with
  | nil => intro h; exact absurd rfl h
  | cons s ss ih =>
    intro _ hs
    obtain ⟨txt, tk, ts, hpr, hseg, hst, hrun⟩ := hs s (by simp)
    cases ss with
    | nil =>
      refine ⟨txt, tk, ts, by simp [Print.writeSubs, hpr], by simp [Print.writeSubs, hpr], hseg, hst, ?_⟩
      intro f acc rest hf
      exact hrun f acc (tRb :: rest) _ _ hf (Or.inr rfl) (indexK_last f acc s rest)
    | cons s2 ss2 =>
      obtain ⟨txt2, tk2, ts2, hpr2a, hpr2b, hseg2, hst2, hrun2⟩ :=
        ih (by simp) (fun x hx => hs x (by simp at hx ⊢; right; exact hx))
      refine ⟨txt ++ ',' :: txt2, tk, ts ++ tComma :: tk2 :: ts2, ?_, ?_, ?_, hst, ?_⟩
      · rw [Print.writeSubs]; simp [hpr, hpr2b]
      · rw [Print.writeSubs]; simp [hpr, hpr2b]
      · have h2 := Seg.app o (seg_comma o ok) hseg2 (fun _ _ => trivial)
        have h3 := Seg.app_cons o hseg h2 (Or.inr (Or.inr (Or.inr (Or.inr (Or.inl rfl)))))
        simpa using h3
      · intro f acc rest hf
        simp only [List.length_cons, List.length_append] at hf
        obtain ⟨f', rfl⟩ : ∃ f', f = f' + 1 := ⟨f - 1, by omega⟩
        have h2 := hrun2 f' (acc ++ [s]) rest (by omega)
        have h3 := indexK_more (o := o) (f' + 1) acc s tk2 (ts2 ++ tRb :: rest) (predStart_sub hst2).2 _ _
          (by simpa using h2)
        have := hrun (f' + 1) acc (tComma :: tk2 :: (ts2 ++ tRb :: rest)) _ _ (by omega) (Or.inl rfl) h3
        simpa using this

/-- `[s₁,…,sₙ]` as an accessor -/
theorem stepOK_index5 (ok : OrOK o) (subs : List Node) (nx : Option Node) (hne : subs ≠ [])
    (hs : ∀ s ∈ subs, SubOK o s) : StepOK o (.arrayIndex subs nx) := by
  obtain ⟨txt, tk, ts, hpr, _, hseg, hst, hrun⟩ := subsOK_of ok subs hne hs
  have hss := predStart_sub hst
  refine ⟨'[' :: (txt ++ [']']), .lbrack, ['['], tk :: ts ++ [tRb], '[', _, ?_, ?_, rfl,
    Or.inr (Or.inr (Or.inl rfl)), rfl, ?_⟩
  · intro wp
    rw [Print.writeTo]; simp only [Node.next, hpr]
    generalize Print.writeNext o.isPrint nx = w
    cases w <;> simp
  · have h1 := Seg.app_cons o hseg (seg_rb o ok) (Or.inr (Or.inr (Or.inr (Or.inl rfl))))
    have h2 := Seg.app o (seg_lb o ok) h1 (fun _ _ => trivial)
    have := h2.mono o (C' := brkS) (fun _ _ => trivial)
    simpa [tLb] using this
  · intro rest f _ hf
    simp only [List.length_cons, List.length_append, List.length_nil] at hf
    obtain ⟨f', rfl⟩ : ∃ f', f = f' + 2 := ⟨f - 2, by omega⟩
    have h1 := hrun f' [] rest (by omega)
    obtain ⟨t, x⟩ := tk
    simp only at hss
    rw [accessorOp]
    simp only [List.cons_append, List.append_assoc, List.nil_append]
    lstep (consume_spec _ _)
    simp only [reduceCtorEq, ↓reduceIte]
    lstep (peek_cons _ _)
    simp only [hss.1, hss.2, ↓reduceIte]
    simp only [List.cons_append, List.nil_append] at h1
    lstep h1
    exact RunsV.pure _

end

/-! ## Stage 5: an integer literal with accessors — `(1).abs()`, `(-2)."k"` -/

section
variable {o : Oracles}

/-- after `(`: the literal, `)`, and its accessors -/
theorem parenTail_lit_chain (i : Int) (n : Node) {tk0 : TT} {ts0 : List TT} {p q : Prop}
    (hsp : ESpec o (.integer i none) tk0 ts0 p q)
    {t : Tok} {x : List Char} {ts ctoks : List TT} {L : List Node}
    (hacc : isAccessorStart t = true)
    (hop : ∀ rest f, (hd rest).1 ≠ .lbrace → 16 * (ts.length + 1) + 1 ≤ f →
      RunsV (StP o ((t, x) :: ts ++ rest)) (accessorOp o f t) (n.setNext none) (StE o rest))
    (hheadT : HeadT ctoks) (hL : chainOf L = n.next)
    (hloop : ∀ f head ops rest, 16 * ctoks.length + 2 ≤ f → isAccessorStart (hd rest).1 = false →
      (hd rest).1 ≠ .lbrace →
      RunsV (StE o (ctoks ++ rest)) (accessorLoop o f head ops) (linkNodes head (ops ++ L)) (StA o rest))
    (F : Nat) (ctx : Ctx) (hctx : ctx ≠ .pred) (rest : List TT)
    (hF : 16 * (ts0.length + ts.length + ctoks.length + 3) + 8 ≤ F + 2)
    (ha : isAccessorStart (hd rest).1 = false) (hb : (hd rest).1 ≠ .lbrace) :
    RunsV (StE o (tk0 :: ts0 ++ tRp :: (t, x) :: (ts ++ (ctoks ++ rest)))) (parenTail o (F + 3) ctx)
      (.expr (evOf (.integer i (some n)))) (StA o rest) := by
  rw [parenTail]
  have h1 := atom_of_expr hsp F ctx (tRp :: (t, x) :: (ts ++ (ctoks ++ rest))) (.expr (evOf (.integer i none)) .rparen)
    (StA o (tRp :: (t, x) :: (ts ++ (ctoks ++ rest)))) (by omega) ⟨rfl, by simp [hd, tRp], rfl, rfl⟩
    (exprK_end F ctx hctx _ (tRp :: (t, x) :: (ts ++ (ctoks ++ rest))) (Or.inl rfl))
  lstep h1
  simp only [ne_eq, not_true_eq_false, ↓reduceIte]
  lstep (consume_spec _ _)
  lstep (peek_cons _ _)
  simp only [hacc, ↓reduceIte]
  have h2 := hop (ctoks ++ rest) (F + 2) (hheadT.lbrace hb) (by omega)
  simp only [List.cons_append] at h2
  lstep h2
  have h3 := hloop (F + 2) (evOf (.integer i none)) [n.setNext none] rest (by omega) ha hb
  lstep h3
  exact RunsV.pure' (by rw [linkNodes_int i n L hL]) (fun _ h => h)

end

section
variable {o : Oracles} (ok : OrOK o)
include ok

/-- an integer literal (of either sign) with accessors: printed `(i)` followed by the accessors -/
theorem exprOK_intChain (i : Int) (n : Node) (hlit : ExprOK o (.integer i none)) (hs : StepOK o n)
    (hc : ChainOK o n.next) : ExprOK o (.integer i (some n)) := by
  obtain ⟨txt0, tk0, ts0, hpr0, hseg0, _, hsp⟩ := hlit false
  obtain ⟨stxt, t, x, ts, c, cs, hw, hseg, hcs, hbc, hacc, hop⟩ := hs
  obtain ⟨ctxt, ctoks, L, hw', hseg', hhead, hheadT, hL, hloop⟩ := hc
  have htxt0 : txt0 = Decimal.formatInt i := by
    have : Print.writeTo o.isPrint (.integer i none) false false = some (Decimal.formatInt i) := by
      simp [Print.writeTo, Print.writeNext, Print.parenIf]
    rw [this] at hpr0
    injection hpr0 with h
    exact h.symm
  have hopd : OpdSpec o (.integer i (some n)) tLp (tk0 :: ts0 ++ tRp :: (t, x) :: (ts ++ ctoks)) := by
    intro f rest hf ha hb
    simp only [List.length_cons, List.length_append] at hf
    obtain ⟨F, rfl⟩ : ∃ F, f = F + 4 := ⟨f - 4, by omega⟩
    rw [parseUnaryT]
    simp only [tLp, reduceCtorEq, ↓reduceIte]
    simp only [List.cons_append, List.append_assoc]
    lstep (consume_spec _ _)
    lstep (parenTail_lit_chain i n hsp hacc hop hheadT hL hloop F .parenE (by decide) rest (by omega) ha hb)
    exact RunsV.pure _
  have hha : HeadA o (.integer i (some n)) tLp (tk0 :: ts0 ++ tRp :: (t, x) :: (ts ++ ctoks)) := by
    intro f ctx rest w post hf ha hb hk
    simp only [List.length_cons, List.length_append] at hf
    obtain ⟨F, rfl⟩ : ∃ F, f = F + 3 := ⟨f - 3, by omega⟩
    rw [parseAtom]
    simp only [List.cons_append, List.append_assoc]
    lstep (peek_cons _ _)
    simp only [tLp, reduceCtorEq, ↓reduceIte]
    lstep (consume_spec _ _)
    lstep (parenTail_lit_chain i n hsp hacc hop hheadT hL hloop F .paren (by decide) rest (by omega) ha hb)
    exact hk
  intro wp
  refine ⟨'(' :: (txt0 ++ ')' :: (stxt ++ ctxt)), tLp, tk0 :: ts0 ++ tRp :: (t, x) :: (ts ++ ctoks), ?_, ?_, rfl,
    espec_unit hopd hha _ _⟩
  · rw [Print.writeTo]
    simp [Print.writeNext, hw true, hw', Print.parenIf, htxt0]
  · have h1 := Seg.app o hseg hseg' hhead
    have h2 := Seg.app_cons o (seg_rp o ok) (by rw [hcs] at h1; exact h1) trivial
    have h3 := Seg.app_cons o hseg0.1 h2 brk_rp
    have h4 := Seg2.app o (seg2_lp o ok) h3 (fun _ _ => trivial)
    rw [hcs]
    simpa using h4

end

/-! ## Stage 5: the class with general subscripts, `.time()` family, `.decimal()` -/

/-! ## Stage 5: the induction -/

structure AllOK5 (o : Oracles) (k : Nat) : Prop where
  expr : ∀ n : Node, sizeOf n ≤ k → okExpr5 o n = true → ExprOK o n
  pred : ∀ p : Node, sizeOf p ≤ k → okPred5 o p = true → PredOK o p
  step : ∀ n : Node, sizeOf n ≤ k → okStep5 o n = true → StepOK o n
  chain : ∀ nx : Option Node, sizeOf nx ≤ k → okNext5 o nx = true → ChainOK o nx

section
variable {o : Oracles} (ok : OrOK o)
include ok

/-- `last` (valid inside subscripts only) with its accessors -/
theorem exprOK_last {nx : Option Node} (hc : ChainOK o nx) : ExprOK o (.const .last nx) := by
  intro wp
  obtain ⟨ctxt, ctoks, hw, hcseg, hhead, hrun⟩ := unaryT_chain' (o := o) tLast (.const .last none) rfl hc
  have hopd : OpdSpec o (.const .last nx) tLast ctoks := by
    intro f rest hf h1 h2
    exact hrun f rest (by omega) h1 h2
  refine ⟨lastTxt ++ ctxt, tLast, ctoks, ?_, ?_, rfl,
    espec_unit hopd (headA_of_opdSpec hopd (by decide) (by decide) (by decide) (by decide)) _ _⟩
  · rw [Print.writeTo]; simp [hw, Print.constStr, lastTxt]
  · have h1 := (seg2_kw o ok 'l' ['a', 's', 't'] .last (by decide) (by decide)).mono o
      (C' := brkS) (fun _ h => brkS_identCont o ok h)
    have := Seg2.app o h1 hcseg hhead
    simpa [lastTxt, tLast] using this

theorem allOK5 : ∀ k, AllOK5 o k := by
  intro k
  induction k with
  | zero =>
    refine ⟨?_, ?_, ?_, ?_⟩
    · intro n hk _; have := sizeOf_node_pos n; omega
    · intro n hk _; have := sizeOf_node_pos n; omega
    · intro n hk _; have := sizeOf_node_pos n; omega
    · intro nx hk _
      cases nx with
      | none => exact chain_nil
      | some n => simp at hk
  | succ k ih =>
    refine ⟨?_, ?_, ?_, ?_⟩
    · intro n hk h
      cases okExpr5_cases h with
      | const c nx hc hnx =>
        simp only [Node.const.sizeOf_spec] at hk
        exact exprOK_opd ok (opdOK_const ok c hc (ih.chain nx (by omega) hnx))
      | last nx hnx =>
        simp only [Node.const.sizeOf_spec] at hk
        exact exprOK_last ok (ih.chain nx (by omega) hnx)
      | str s nx hs hnx =>
        simp only [Node.str.sizeOf_spec] at hk
        exact exprOK_opd ok (opdOK_str ok s hs (ih.chain nx (by omega) hnx))
      | var s nx hs hnx =>
        simp only [Node.var.sizeOf_spec] at hk
        exact exprOK_opd ok (opdOK_var ok s hs (ih.chain nx (by omega) hnx))
      | nat i hi => exact exprOK_opd ok (opdOK_int ok i hi)
      | neg i hi => exact exprOK_neg ok i hi
      | intChain i n hi hn =>
        simp only [Node.integer.sizeOf_spec, Option.some.sizeOf_spec] at hk
        have hlt := sizeOf_next_lt n
        have hlit : ExprOK o (.integer i none) := by
          simp only [litOK, Bool.and_eq_true, decide_eq_true_eq] at hi
          by_cases h0 : 0 ≤ i
          · exact exprOK_opd ok (opdOK_int ok i (by simp only [intOK, Bool.and_eq_true, decide_eq_true_eq]; omega))
          · exact exprOK_neg ok i (by simp only [negOK, Bool.and_eq_true, decide_eq_true_eq]; omega)
        exact exprOK_intChain ok i n hlit (ih.step n (by omega) hn) (ih.chain n.next (by omega) (okStep5_next hn))
      | sign op x hop hx hn =>
        simp only [Node.unary.sizeOf_spec, Option.some.sizeOf_spec] at hk
        have hp := exprPrio5 (okExpr5_cases hx)
        refine exprOK_sign ok op x hop (ih.expr x (by omega) hx) hn ?_
        rw [sign_prio hop]
        cases hb : isBin x with
        | false => exact Or.inr rfl
        | true => left; have := hp.2.2.1 hb; simp only [decide_eq_true_eq]; omega
      | arith op l r hop hl hr =>
        simp only [Node.binary.sizeOf_spec, Option.some.sizeOf_spec] at hk
        have hpl := exprPrio5 (okExpr5_cases hl)
        have hpr := exprPrio5 (okExpr5_cases hr)
        rcases arith_split hop with hm | ha
        · refine exprOK_mul ok op l r hm (ih.expr l (by omega) hl) (ih.expr r (by omega) hr) ?_ ?_
          · rw [mul_prio hm]
            cases hb : isBin l with
            | false => exact Or.inr rfl
            | true => left; have := hpl.2.2.1 hb; simp only [decide_eq_true_eq]; omega
          · rw [mul_prio hm]
            cases hb : isBin r with
            | false => exact Or.inr rfl
            | true => left; have := hpr.2.2.1 hb; simp only [decide_eq_true_eq]; omega
        · refine exprOK_add ok op l r ha (ih.expr l (by omega) hl) (ih.expr r (by omega) hr) ?_ ?_
          · rw [add_prio ha]
            cases hb : isAddLevel l with
            | false => exact Or.inr rfl
            | true => left; have := hpl.2.2.2 hb; simp only [decide_eq_true_eq]; omega
          · rw [add_prio ha]
            cases hb : isAddLevel r with
            | false => exact Or.inr rfl
            | true => left; have := hpr.2.2.2 hb; simp only [decide_eq_true_eq]; omega
    · intro p hk h
      cases okPred5_cases h with
      | cmp op l r hop hl hr =>
        simp only [Node.binary.sizeOf_spec, Option.some.sizeOf_spec] at hk
        have hpl := exprPrio5 (okExpr5_cases hl)
        have hpr := exprPrio5 (okExpr5_cases hr)
        refine predOK_cmpE ok op l r hop (ih.expr l (by omega) hl) (ih.expr r (by omega) hr) ?_ ?_
        · rw [cmp_prio hop]; simp only [decide_eq_false_iff_not]; omega
        · rw [cmp_prio hop]; simp only [decide_eq_false_iff_not]; omega
      | logic op l r hop hl hr =>
        simp only [Node.binary.sizeOf_spec, Option.some.sizeOf_spec] at hk
        exact predOK_logic ok op l r hop (prio_facts5 (okPred5_cases hl)) (prio_facts5 (okPred5_cases hr))
          (ih.pred l (by omega) hl) (ih.pred r (by omega) hr)
      | starts l s isVar hl hs =>
        simp only [Node.binary.sizeOf_spec, Option.some.sizeOf_spec] at hk
        have hpl := exprPrio5 (okExpr5_cases hl)
        refine predOK_startsE ok l s isVar (ih.expr l (by omega) hl) hs ?_
        have : Print.binPriority .startsWith = 2 := rfl
        rw [this]; simp only [decide_eq_false_iff_not]; omega
      | not q hq =>
        simp only [Node.unary.sizeOf_spec, Option.some.sizeOf_spec] at hk
        exact predOK_not ok q (ih.pred q (by omega) hq)
      | exists_ x hx =>
        simp only [Node.unary.sizeOf_spec, Option.some.sizeOf_spec] at hk
        exact predOK_existsE ok x (ih.expr x (by omega) hx)
      | isUnknown q hq =>
        simp only [Node.unary.sizeOf_spec, Option.some.sizeOf_spec] at hk
        exact predOK_isUnknown ok q (ih.pred q (by omega) hq)
      | regex x pat fl hx hp hfl hok hacc =>
        simp only [Node.regex.sizeOf_spec] at hk
        have hpx := exprPrio5 (okExpr5_cases hx)
        exact predOK_regexE ok x pat fl (ih.expr x (by omega) hx) hp hfl hok hacc
          (by simp only [decide_eq_true_eq]; omega)
    · intro n hk h
      cases okStep5_cases h with
      | simple _ hs hnx => exact stepOK_simple ok hs
      | filter p nx' hp hnx =>
        simp only [Node.unary.sizeOf_spec, Option.some.sizeOf_spec] at hk
        exact stepOK_filter ok p nx' (ih.pred p (by omega) hp)
      | index subs nx' hne hs hnx =>
        simp only [Node.arrayIndex.sizeOf_spec] at hk
        refine stepOK_index5 ok subs nx' hne ?_
        intro s hsm
        have hlt := List.sizeOf_lt_of_mem hsm
        rcases okSub5_cases (okSubs5_mem subs hs s hsm) with ⟨l, rfl, hl⟩ | ⟨l, r, rfl, hl, hr⟩
        · simp only [Node.binary.sizeOf_spec, Option.some.sizeOf_spec] at hlt
          exact subOK_one ok l (ih.expr l (by omega) hl)
        · simp only [Node.binary.sizeOf_spec, Option.some.sizeOf_spec] at hlt
          exact subOK_two ok l r (ih.expr l (by omega) hl) (ih.expr r (by omega) hr)
      | time0 op nx' hop hnx => exact stepOK_time0 ok op hop nx'
      | time1 op p nx' hop hp hnx => exact stepOK_time1 ok op hop p hp nx'
      | decimal l r nx' hd' hnx => exact stepOK_decimal ok l r nx' hd'
    · intro nx hk h
      cases nx with
      | none => exact chain_nil
      | some n =>
        simp only [Option.some.sizeOf_spec] at hk
        have hs : okStep5 o n = true := by simpa [okNext5] using h
        have hlt := sizeOf_next_lt n
        have hstep : StepOK o n := ih.step n (by omega) hs
        exact chain_cons hstep (ih.chain n.next (by omega) (okStep5_next hs))

end

section
variable {o : Oracles}

end

/-! ## Stage 4 ⊆ stage 5 -/


/-! ## The whole path: mode prefix, `Parse` on every layout -/

section
variable {o : Oracles}

/-- the token of the mode prefix the printer writes -/
def modeToks (lax : Bool) : List TT := if lax then [] else [tStrict]

/-- the mode prefix and the printed root as one piece -/
theorem mode_seg (ok : OrOK o) (lax : Bool) {txt : List Char} {toks : List TT} (hseg : Seg2 o brk txt toks) :
    Seg o brk (modeTxt lax ++ txt) (modeToks lax ++ toks) := by
  cases lax with
  | true => simpa [modeTxt, modeToks] using hseg.1
  | false =>
    have hs := Seg.app o (seg_strict ok) hseg.2
      (fun _ _ => identCont_punct o (ok : RoundTrip.OrOK o) ' ' (by decide))
    simpa [modeTxt, modeToks] using hs

/-- `parseBody` on the mode prefix followed by the tokens of the root -/
theorem mode_run (lax : Bool) {tk : TT} {ts : List TT} (h1 : tk.1 ≠ .strict) (h2 : tk.1 ≠ .lax)
    {isPred : Bool} {ev : EV} {f : Nat}
    (hatom : ∃ a mid, RunsV (StE o (tk :: ts)) (parseAtom o f .top) a (StE o mid) ∧
      RunsV (StE o mid) (match a with
        | .expr v _ => (pure (lax, false, v) : P (Bool × Bool × EV))
        | .pred v0 => do
          let (v, _) ← predLoop o f v0
          pure (lax, true, v)) (lax, isPred, ev) (StE o [])) :
    RunsV (StE o (modeToks lax ++ tk :: ts)) (parseBody o f) (lax, isPred, ev) (StE o []) := by
  obtain ⟨a, mid, ha1, ha2⟩ := hatom
  obtain ⟨t, x⟩ := tk
  simp only at h1 h2
  cases lax with
  | true =>
    simp only [modeToks, if_true, List.nil_append]
    unfold parseBody
    lstep (peek_cons _ _)
    simp only [h1, h2, ↓reduceIte]
    lstep (RunsV.pure _)
    lstep ha1
    exact ha2
  | false =>
    simp only [modeToks, Bool.false_eq_true, if_false, List.cons_append, List.nil_append]
    unfold parseBody
    lstep (peek_cons _ _)
    simp only [tStrict, reduceCtorEq, ↓reduceIte]
    lstep (consume_spec _ _)
    lstep (RunsV.pure _)
    lstep ha1
    exact ha2

theorem RespL.length {items items' : List Item} (h : RespL o items items') : items'.length = items.length := by
  induction h with
  | nil => rfl
  | cons _ _ ih => simp [ih]

/-- **From a piece of text to `Parse` in every layout.**  If the text `txt` is the tokens `toks` (as a
    `Seg`, i.e. with its token boundaries) and `parseBody` makes the tree `root` of these tokens, then
    `txt` is the canonical text of items, and `Parse` returns the tree for every respelling of the items,
    in every layout, with any separator at the end. -/
theorem parse_layout (ok : OrOK o) {txt : List Char} {toks : List TT} (hseg : Seg o brk txt toks)
    (lax isPred : Bool) (root : Node)
    (hrun : ∀ f, 16 * toks.length + 8 ≤ f → ∃ ev : EV, ev.node = root ∧
      RunsV (StE o toks) (parseBody o f) (lax, isPred, ev) (StE o []))
    (hv : validate root = true) :
    ∃ items : List Item, txt = canon items ∧ toks = items.map (·.tk) ∧ (∀ it ∈ items, ItemOK o it) ∧
      Gaps items brk ∧
      ∀ (items' : List Item) (seps : List (List Char)) (fin : List Char),
        RespL o items items' → LayoutOK items' seps → Sep fin →
        ∀ bytes, decodeAll bytes = (render items' seps ++ fin).map Src.ch →
          parse o bytes = .ok ⟨root, lax, isPred⟩ := by
  obtain ⟨_, _, items, h3, h4, h5, h6⟩ := hseg
  refine ⟨items, h3, h4, h5, h6, ?_⟩
  intro items' seps fin hr hl hfin bytes hb
  have hC : brk fin.head? ∨ (SepStart fin.head? ∧ ∃ y, brk y) := by
    cases fin with
    | nil => exact Or.inl brk_none
    | cons c r => exact Or.inr ⟨hfin.head (by simp), none, brk_none⟩
  have hlex := layout_lexes o (ok : RoundTrip.OrOK o) h6 hr hl fin [] hfin.noNul hC (lexes_sep o ok hfin)
  rw [List.append_nil, ← h4] at hlex
  have hlen : toks.length ≤ bytes.length := by
    have h1 := decodeAll_length bytes
    rw [hb] at h1
    have h2 := render_length (items := items') (seps := seps) hl.length
    rw [hr.length] at h2
    rw [h4]
    simp only [List.length_map, List.length_append] at h1 ⊢
    omega
  obtain ⟨ev, hev, hr'⟩ := hrun (fuelFor bytes) (by unfold fuelFor; omega)
  have := parse_of_body bytes _ toks lax isPred ev hb hlex hr' (by rw [hev]; exact hv)
  rw [hev] at this
  exact this

/-- the conclusion of the layout theorems for the tree `a`: its printed text is the canonical text of
    `items`, and every respelling of the items in every layout parses to `a` -/
def LayoutInv (o : Oracles) (a : AST) (items : List Item) : Prop :=
  Print.toString o.isPrint a = some (canon items) ∧ (∀ it ∈ items, ItemOK o it) ∧ Gaps items brk ∧
    ∀ (items' : List Item) (seps : List (List Char)) (fin : List Char),
      RespL o items items' → LayoutOK items' seps → Sep fin →
      ∀ bytes, decodeAll bytes = (render items' seps ++ fin).map Src.ch → parse o bytes = .ok a

/-- a predicate at the top level, in every layout -/
theorem layout_pred (ok : OrOK o) {p : Node} (hp : PredOK o p) (hv : validate p = true) (lax : Bool) :
    ∃ items, LayoutInv o ⟨p, lax, true⟩ items := by
  obtain ⟨txt, toks, hpr, hseg, ⟨tk, ts, htoks, hst⟩, _, _, hl2⟩ := hp true
  subst htoks
  have hm := predStart_mode hst
  have hfull := full_of_left (by decide) hl2
  have hrun : ∀ f, 16 * (modeToks lax ++ tk :: ts).length + 8 ≤ f → ∃ ev : EV, ev.node = p ∧
      RunsV (StE o (modeToks lax ++ tk :: ts)) (parseBody o f) (lax, true, ev) (StE o []) := by
    intro f hf'
    have hf2 : 16 * (ts.length + 1) + 8 ≤ f := by
      simp only [List.length_append, List.length_cons] at hf'; omega
    obtain ⟨v0, mid, h1, h2⟩ := hfull f .top [] (by simpa using hf2) (Or.inr rfl)
    refine ⟨{ node := p }, rfl, mode_run lax hm.1 hm.2 ⟨.pred v0, mid, by simpa using h1, ?_⟩⟩
    simp only []
    lstep h2
    exact RunsV.pure' rfl (fun _ h => StE.ofA h)
  obtain ⟨items, h1, _, h3, h4, h5⟩ := parse_layout ok (mode_seg ok lax hseg) lax true p hrun hv
  exact ⟨items, by rw [← h1]; exact toString_eq _ _ _ _ _ hpr, h3, h4, h5⟩

/-- an expression at the top level, in every layout -/
theorem layout_expr (ok : OrOK o) {n : Node} (hn : ExprOK o n) (hv : validate n = true) (lax : Bool) :
    ∃ items, LayoutInv o ⟨n, lax, false⟩ items := by
  obtain ⟨txt, tk, ts, hpr, hseg, hst, _, _, hunit⟩ := hn true
  obtain ⟨_, hha⟩ := hunit (Or.inl rfl)
  have hm := predStart_mode hst
  have hrun : ∀ f, 16 * (modeToks lax ++ tk :: ts).length + 8 ≤ f → ∃ ev : EV, ev.node = n ∧
      RunsV (StE o (modeToks lax ++ tk :: ts)) (parseBody o f) (lax, false, ev) (StE o []) := by
    intro f hf'
    have hf2 : 16 * (ts.length + 1) + 8 ≤ f := by
      simp only [List.length_append, List.length_cons] at hf'; omega
    obtain ⟨f', rfl⟩ : ∃ f', f = f' + 3 := ⟨f - 3, by omega⟩
    refine ⟨evOf n, rfl, mode_run lax hm.1 hm.2 ⟨.expr (evOf n) .stop, [], ?_, RunsV.pure _⟩⟩
    have := hha (f' + 2) .top [] (.expr (evOf n) .stop) (StE o []) (by omega) rfl (by decide) ?_
    · simpa using this
    · rw [exprTail_eq]
      lstep (arith_nil f' (evOf n) [] rfl rfl)
      exact (exprK_end (f' + 1) .top (by decide) (evOf n) [] (Or.inr rfl)).toE
  obtain ⟨items, h1, _, h3, h4, h5⟩ := parse_layout ok (mode_seg ok lax hseg) lax false n hrun hv
  exact ⟨items, by rw [← h1]; exact toString_eq _ _ _ _ _ hpr, h3, h4, h5⟩

/-- **Stage 1, `layout_independent`** (class `RT5`): the printed text of `a` is the canonical text of a
    list of token items, and `Parse` returns `a` for every respelling of the items in every layout. -/
theorem layout_stage5 (ok : OrOK o) (a : AST) (h : RT5 o a = true) : ∃ items, LayoutInv o a items := by
  obtain ⟨root, lax, pred⟩ := a
  simp only [RT5, Bool.and_eq_true] at h
  obtain ⟨hv, hr⟩ := h
  cases pred with
  | true =>
    simp only [if_true] at hr
    exact layout_pred ok ((allOK5 ok _).pred root (Nat.le_refl _) hr) hv lax
  | false =>
    simp only [Bool.false_eq_true, if_false] at hr
    exact layout_expr ok ((allOK5 ok _).expr root (Nat.le_refl _) hr) hv lax

end

/-! ## The token texts of a text, as the lexer delimits them -/

/-- number of characters the lexer still has to deliver (the look-ahead character included) -/
def remLen (s : LState) : Nat := s.rest.length + (if s.ch.isSome then 1 else 0)

/-- a piece of canonical text: was there a blank before the token, and the token text -/
def stripBlank : List Char → Bool × List Char
  | c :: p => if c = ' ' then (true, p) else (false, c :: p)
  | [] => (false, [])

/-- the pieces of `txt`: the text each successive call of `Lex` consumes (up to `stopTok`), with a
    leading blank split off -/
def tokSplitAux (o : Oracles) : Nat → LState → List Char → List (Bool × List Char)
  | 0, _, _ => []
  | f + 1, s, txt =>
    if (Lex.lex o s).1 = .stop then []
    else
      let k := txt.length - remLen (Lex.lex o s).2.2
      stripBlank (txt.take k) :: tokSplitAux o f (Lex.lex o s).2.2 (txt.drop k)

/-- **`tokSplit`**: the token texts of `txt` (with the flag "a blank precedes it"), obtained by running the
    lexer on `txt` and cutting where it cuts -/
def tokSplit (o : Oracles) (txt : List Char) : List (Bool × List Char) :=
  tokSplitAux o (txt.length + 1) { rest := txt.map Src.ch, ch := none, err := false } txt

theorem remLen_at {l : List Char} {s : LState} (h : At l s) : remLen s = l.length := by
  obtain ⟨_, _, h3⟩ := h
  rcases h3 with ⟨h3, h4⟩ | ⟨c, r, h3, h4, h5⟩
  · simp [remLen, h3, h4]
  · simp [remLen, h3, h4, h5]

/-- the item as a piece of text -/
def Item.piece (it : Item) : Bool × List Char := (it.sp, it.c :: it.w)

theorem canon_noNul {o : Oracles} {items : List Item} (hok : ∀ it ∈ items, ItemOK o it) : NoNul (canon items) := by
  rw [← render_canon]
  exact render_noNul o hok (layoutOK_canon items).sep

section
variable {o : Oracles}

/-- the lexer cuts the canonical text of items at the items -/
theorem tokSplitAux_canon (ok : RoundTrip.OrOK o) {C : Option Char → Prop} (hC : C none) :
    ∀ (items : List Item), (∀ it ∈ items, ItemOK o it) → Gaps items C →
    ∀ (s : LState), At (canon items) s → ∀ f, items.length + 1 ≤ f →
      tokSplitAux o f s (canon items) = items.map Item.piece := by
  intro items
  induction items with
  | nil =>
    intro _ _ s hs f hf
    obtain ⟨f', rfl⟩ : ∃ f', f = f' + 1 := ⟨f - 1, by omega⟩
    obtain ⟨s', h1, _⟩ := lstr_nil_of_at o s hs
    simp [tokSplitAux, h1]
  | cons it r ih =>
    intro hok hg s hs f hf
    obtain ⟨f', rfl⟩ : ∃ f', f = f' + 1 := ⟨f - 1, by omega⟩
    have hit := hok it (by simp)
    have hok' : ∀ it' ∈ r, ItemOK o it' := fun it' h' => hok it' (by simp [h'])
    have hnr : NoNul (canon r) := canon_noNul hok'
    have hsep : Sep (if it.sp = true then [' '] else []) := by
      cases it.sp
      · exact Sep.nil
      · exact Sep.blank
    have hy : it.C (canon r).head? := by
      have := hg.1 [] hC
      simpa using this
    have hs' : At ((if it.sp = true then [' '] else []) ++ it.c :: (it.w ++ canon r)) s := by
      simpa [canon] using hs
    obtain ⟨s', h1, h2⟩ := lex_sep_tok o ok hit.1 hit.2.1 hit.2.2.1 hsep (canon r) hnr hy s hs'
    have hlen := remLen_at h2
    have hne : (Lex.lex o s).1 ≠ .stop := by rw [h1]; exact hit.2.2.2.1
    have hcs : it.c ≠ ' ' := by
      intro h
      have := hit.2.2.2.2.1
      rw [h] at this
      exact absurd this (by decide)
    rw [tokSplitAux]
    simp only [h1, hlen]
    rw [if_neg hit.2.2.2.1]
    have ih' := ih hok' hg.2 s' h2 f' (by simp at hf; omega)
    cases hsp : it.sp with
    | false =>
      have hk : (canon (it :: r)).length - (canon r).length = (it.c :: it.w).length := by
        simp [canon, hsp]; omega
      have hcan : canon (it :: r) = (it.c :: it.w) ++ canon r := by simp [canon, hsp]
      rw [hk, hcan, List.take_left', List.drop_left', ih']
      · simp [stripBlank, hcs, Item.piece, hsp]
      · rfl
      · rfl
    | true =>
      have hk : (canon (it :: r)).length - (canon r).length = (' ' :: it.c :: it.w).length := by
        simp [canon, hsp]; omega
      have hcan : canon (it :: r) = (' ' :: it.c :: it.w) ++ canon r := by simp [canon, hsp]
      rw [hk, hcan, List.take_left', List.drop_left', ih']
      · simp [stripBlank, Item.piece, hsp]
      · rfl
      · rfl

theorem tokSplit_canon (ok : RoundTrip.OrOK o) {C : Option Char → Prop} (hC : C none)
    (items : List Item) (hok : ∀ it ∈ items, ItemOK o it) (hg : Gaps items C) :
    tokSplit o (canon items) = items.map Item.piece := by
  unfold tokSplit
  refine tokSplitAux_canon ok hC items hok hg _ ⟨rfl, rfl, Or.inl ⟨rfl, rfl⟩⟩ _ ?_
  have h1 := render_length (items := items) (seps := canonSeps items) (layoutOK_canon items).length
  rw [render_canon] at h1
  omega

end

/-! ## The layout theorem with explicit pieces -/

/-- the token texts `ts` interleaved with the separators `seps` (one before each token) -/
def renderT : List (List Char) → List (List Char) → List Char
  | t :: r, s :: ss => s ++ (t ++ renderT r ss)
  | _, _ => []

/-- one separator per piece; where the canonical text has a blank the separator must not be empty —
    unless the text `prev` of the piece before tolerates the first character of this one (`tolOf`) -/
def LayoutOKTp : Option (List Char) → List (Bool × List Char) → List (List Char) → Prop
  | _, [], [] => True
  | prev, p :: r, s :: ss =>
    Sep s ∧ (p.1 = true → s ≠ [] ∨ ∃ q c, prev = some q ∧ p.2.head? = some c ∧ tolOf q c = true) ∧
      LayoutOKTp (some p.2) r ss
  | _, _, _ => False

/-- **`LayoutOKT`**: a layout for the pieces, from the beginning of the text -/
def LayoutOKT (ps : List (Bool × List Char)) (seps : List (List Char)) : Prop := LayoutOKTp none ps seps

/-- the simple sufficient condition: non-empty wherever the canonical text has a blank -/
def LayoutSimpleT : List (Bool × List Char) → List (List Char) → Prop
  | [], [] => True
  | p :: r, s :: ss => Sep s ∧ (p.1 = true → s ≠ []) ∧ LayoutSimpleT r ss
  | _, _ => False

theorem layoutOKTp_of_simple : ∀ {ps : List (Bool × List Char)} {seps : List (List Char)} (prev : Option (List Char)),
    LayoutSimpleT ps seps → LayoutOKTp prev ps seps := by
  intro ps
  induction ps with
  | nil => intro seps prev h; cases seps with
    | nil => trivial
    | cons _ _ => exact h
  | cons p r ih =>
    intro seps prev h
    cases seps with
    | nil => exact h
    | cons s ss => exact ⟨h.1, fun hsp => Or.inl (h.2.1 hsp), ih _ h.2.2⟩

theorem layoutOKT_of_simple {ps : List (Bool × List Char)} {seps : List (List Char)} (h : LayoutSimpleT ps seps) :
    LayoutOKT ps seps := layoutOKTp_of_simple none h

theorem renderT_items (items : List Item) : ∀ seps, renderT ((items.map Item.piece).map (·.2)) seps = render items seps := by
  induction items with
  | nil => intro seps; cases seps <;> rfl
  | cons it r ih =>
    intro seps
    cases seps with
    | nil => rfl
    | cons s ss => simp only [List.map_cons, renderT, render, Item.piece, ih ss]

theorem layoutOKTp_items (items : List Item) : ∀ prev seps, LayoutOKTp prev (items.map Item.piece) seps →
    LayoutOKp prev items seps := by
  induction items with
  | nil => intro prev seps h; cases seps <;> exact h
  | cons it r ih =>
    intro prev seps h
    cases seps with
    | nil => exact h
    | cons s ss =>
      refine ⟨h.1, ?_, ih _ ss h.2.2⟩
      intro hsp
      rcases h.2.1 hsp with h' | ⟨q, c, hq, hc, ht⟩
      · exact Or.inl h'
      · simp only [Item.piece, List.head?_cons, Option.some.injEq] at hc
        subst hc
        exact Or.inr ⟨q, hq, ht⟩

theorem layoutOKT_items (items : List Item) (seps : List (List Char)) (h : LayoutOKT (items.map Item.piece) seps) :
    LayoutOK items seps := layoutOKTp_items items none seps h

/-- **`layout_independent`** (class `RT5`), explicit form: cut the printed text `txt` of `a` into its
    token texts (`tokSplit`); put any separator before each of them — a non-empty one where the printer
    writes a blank, unless the token before tolerates the first character of this one (`tolOf`) — and
    any separator at the end: `Parse` returns `a`. -/
theorem layout_independent {o : Oracles} (ok : OrOK o) (a : AST) (h : RT5 o a = true) :
    ∃ txt, Print.toString o.isPrint a = some txt ∧
      ∀ (seps : List (List Char)) (fin : List Char), LayoutOKT (tokSplit o txt) seps → Sep fin →
        parse o (utf8 (renderT ((tokSplit o txt).map (·.2)) seps ++ fin)) = .ok a := by
  obtain ⟨items, h1, h2, h3, h4⟩ := layout_stage5 ok a h
  refine ⟨canon items, h1, ?_⟩
  intro seps fin hl hfin
  rw [tokSplit_canon (ok : RoundTrip.OrOK o) brk_none items h2 h3] at hl ⊢
  rw [renderT_items]
  exact h4 items seps fin (RespL.refl h2) (layoutOKT_items items seps hl) hfin _ (decodeAll_utf8 _)

/-! # Spelling variants: string escapes -/


/-! # C03: every permitted spelling of a character inside a string denotes its Unicode value -/

/-! ## hexadecimal digits of either case -/

/-- `"0123456789ABCDEF"[d]` -/
def upperHex (d : Nat) : Char := if d < 10 then Char.ofNat (48 + d) else Char.ofNat (55 + d)

/-- `c` is a hexadecimal digit, lower or upper case, of value `d` -/
def HexDig (c : Char) (d : Nat) : Prop := d < 16 ∧ (c = Print.lowerHex d ∨ c = upperHex d)

theorem HexDig.facts {c : Char} {d : Nat} (h : HexDig c d) :
    hexChar (some c) = some d ∧ c.toNat ≠ 0 ∧ c ≠ '{' ∧ c ≠ '}' := by
  obtain ⟨hd, hc⟩ := h
  rcases lt16_cases d hd with h | h | h | h | h | h | h | h | h | h | h | h | h | h | h | h <;> subst h <;>
    rcases hc with hc | hc <;> subst hc <;> decide

theorem HexDig.lower {d : Nat} (h : d < 16) : HexDig (Print.lowerHex d) d := ⟨h, Or.inl rfl⟩
theorem HexDig.upper {d : Nat} (h : d < 16) : HexDig (upperHex d) d := ⟨h, Or.inr rfl⟩

/-- the digits `cs` have the values `ds` -/
inductive HexDigs : List Char → List Nat → Prop
  | nil : HexDigs [] []
  | cons {c : Char} {d : Nat} {cs : List Char} {ds : List Nat} :
      HexDig c d → HexDigs cs ds → HexDigs (c :: cs) (d :: ds)

/-- big-endian value of a digit sequence -/
def hexVal (ds : List Nat) : Nat := ds.foldl (fun a x => a * 16 + x) 0

theorem HexDigs.length {cs : List Char} {ds : List Nat} (h : HexDigs cs ds) : ds.length = cs.length := by
  induction h with
  | nil => rfl
  | cons _ _ ih => simp [ih]

theorem HexDigs.noNul {cs : List Char} {ds : List Nat} (h : HexDigs cs ds) : NoNul cs := by
  induction h with
  | nil => exact NoNul.nil
  | cons h1 _ ih => exact NoNul.cons h1.facts.2.1 ih

theorem HexDigs.map_lower : ∀ (ds : List Nat), (∀ x ∈ ds, x < 16) → HexDigs (ds.map Print.lowerHex) ds
  | [], _ => HexDigs.nil
  | d :: ds, h => HexDigs.cons (HexDig.lower (h d (by simp))) (HexDigs.map_lower ds (fun x hx => h x (by simp [hx])))

/-! ## code units after `\u` -/

/-- the characters after `\u` that spell one code unit: `HHHH` or `{H…}` with one to six digits -/
inductive SpellsUnit : List Char → Nat → Prop
  | fixed {a b c d : Char} {d1 d2 d3 d4 : Nat} : HexDig a d1 → HexDig b d2 → HexDig c d3 → HexDig d d4 →
      SpellsUnit [a, b, c, d] (((d1 * 16 + d2) * 16 + d3) * 16 + d4)
  | brace {cs : List Char} {ds : List Nat} : HexDigs cs ds → 1 ≤ cs.length → cs.length ≤ 6 →
      SpellsUnit ('{' :: (cs ++ ['}'])) (hexVal ds)

theorem SpellsUnit.noNul {us : List Char} {v : Nat} (h : SpellsUnit us v) : NoNul us := by
  cases h with
  | fixed h1 h2 h3 h4 =>
    exact NoNul.cons h1.facts.2.1 (NoNul.cons h2.facts.2.1 (NoNul.cons h3.facts.2.1 (NoNul.cons h4.facts.2.1 NoNul.nil)))
  | brace h _ _ =>
    exact NoNul.cons (by decide) (NoNul.append h.noNul (NoNul.cons (by decide) NoNul.nil))

/-- the `\u{…}` loop on digits of either case -/
theorem braceDigits_fd (st : LState) (r : List Char) :
    ∀ (cs : List Char) (ds : List Nat), HexDigs cs ds → ∀ (f i rr : Nat) (c : Char) (d : Nat), HexDig c d →
      cs.length + 2 ≤ f → i + cs.length + 1 ≤ 6 →
      braceDigits f i (some c) rr (fd st (cs ++ '}' :: r))
        = (some (ds.foldl (fun a x => a * 16 + x) (rr * 16 + d)), fd st r) := by
  intro cs ds h
  induction h with
  | nil =>
    intro f i rr c d hd hf hi
    obtain ⟨f1, rfl⟩ : ∃ f1, f = f1 + 2 := ⟨f - 2, by simp at hf; omega⟩
    have hi' : i < 6 := by simp at hi; omega
    simp only [List.nil_append, List.foldl_nil]
    unfold braceDigits
    have hc : (decide (i < 6) && decide (some c ≠ some '}')) = true := by
      simp [hi', hd.facts.2.2.2]
    rw [if_pos hc]
    simp only [hd.facts.1]
    rw [next_fd_cons _ _ _ (by decide)]
    unfold braceDigits
    simp
  | cons hx _ ih =>
    intro f i rr c d hd hf hi
    obtain ⟨f1, rfl⟩ : ∃ f1, f = f1 + 1 := ⟨f - 1, by simp at hf; omega⟩
    have hi' : i < 6 := by simp at hi; omega
    simp only [List.cons_append, List.foldl_cons]
    unfold braceDigits
    have hc : (decide (i < 6) && decide (some c ≠ some '}')) = true := by
      simp [hi', hd.facts.2.2.2]
    rw [if_pos hc]
    simp only [hd.facts.1]
    rw [next_fd_cons _ _ _ hx.facts.2.1]
    exact ih f1 (i + 1) (rr * 16 + d) _ _ hx (by simp at hf ⊢; omega) (by simp at hi ⊢; omega)

/-- `decodeUnicode` reads one spelled code unit, whatever follows -/
theorem decodeUnicode_fd (st : LState) {us : List Char} {v : Nat} (h : SpellsUnit us v)
    (h0 : v ≠ 0) (hmax : v ≤ 0x10FFFF) (r : List Char) :
    decodeUnicode (fd st (us ++ r)) = (some v, fd st r) := by
  have hm : ¬ (v > 0x10FFFF) := by omega
  cases h with
  | @fixed a b c d d1 d2 d3 d4 h1 h2 h3 h4 =>
    simp only [List.cons_append, List.nil_append]
    unfold decodeUnicode
    rw [next_fd_cons _ _ _ h1.facts.2.1]
    have hb : (some a = some '{') = False := by simp [h1.facts.2.2.1]
    simp only [hb, if_false, h1.facts.1]
    unfold fixedDigits
    rw [next_fd_cons _ _ _ h2.facts.2.1]
    simp only [h2.facts.1]
    unfold fixedDigits
    rw [next_fd_cons _ _ _ h3.facts.2.1]
    simp only [h3.facts.1]
    unfold fixedDigits
    rw [next_fd_cons _ _ _ h4.facts.2.1]
    simp only [h4.facts.1]
    unfold fixedDigits
    simp only [hm, h0, if_false]
  | @brace cs ds hds h1 h6 =>
    cases hds with
    | nil => simp at h1
    | @cons c d cs' ds' hd hds' =>
      simp only [List.cons_append, List.append_assoc, List.nil_append]
      unfold decodeUnicode
      rw [next_fd_cons _ _ _ (by decide)]
      simp only [if_true]
      rw [next_fd_cons _ _ _ hd.facts.2.1]
      have hb := braceDigits_fd st r cs' ds' hds' 8 0 0 c d hd (by simp at h6; omega) (by simp at h6; omega)
      rw [hb]
      have hv : List.foldl (fun a x => a * 16 + x) (0 * 16 + d) ds' = hexVal (d :: ds') := by
        simp [hexVal]
      rw [hv]
      simp only [hm, h0, if_false]

/-! ## escapes: the characters after the backslash -/

theorem runeOfNat_valid {v : Nat} (hs : isSurrogate v = false) (hmax : v ≤ 0x10FFFF) :
    runeOfNat v = Char.ofNat v := by
  unfold runeOfNat
  have : (decide (v < 0xD800) || (decide (0xE000 ≤ v) && decide (v < 0x110000))) = true := by
    simp only [isSurrogate, Bool.and_eq_false_imp, decide_eq_true_eq, decide_eq_false_iff_not] at hs
    simp only [Bool.or_eq_true, Bool.and_eq_true, decide_eq_true_eq]
    omega
  rw [if_pos this]

/-- value of a surrogate pair (`utf16.DecodeRune`) -/
def pairVal (hi lo : Nat) : Nat := (hi - 0xD800) * 1024 + (lo - 0xDC00) + 0x10000

/-- a single code unit that is a character by itself -/
theorem scanUnicode_single (st : LState) {us : List Char} {v : Nat} (h : SpellsUnit us v)
    (h0 : v ≠ 0) (hmax : v ≤ 0x10FFFF) (hs : isSurrogate v = false) (r : List Char) (hr : NoNul r) :
    scanUnicode (fd st (us ++ r)) = ⟨r.head?, some (Char.ofNat v), fd st r.tail⟩ := by
  unfold scanUnicode
  rw [decodeUnicode_fd st h h0 hmax r]
  simp only [hs, Bool.false_eq_true, if_false]
  rw [next_fd _ _ hr, runeOfNat_valid hs hmax]

/-- a high surrogate followed by a low surrogate -/
theorem scanUnicode_pair (st : LState) {us1 us2 : List Char} {hi lo : Nat}
    (h1 : SpellsUnit us1 hi) (h2 : SpellsUnit us2 lo)
    (hhi : 0xD800 ≤ hi ∧ hi < 0xDC00) (hlo : 0xDC00 ≤ lo ∧ lo < 0xE000) (r : List Char) (hr : NoNul r) :
    scanUnicode (fd st (us1 ++ '\\' :: 'u' :: (us2 ++ r)))
      = ⟨r.head?, some (Char.ofNat (pairVal hi lo)), fd st r.tail⟩ := by
  unfold scanUnicode
  rw [decodeUnicode_fd st h1 (by omega) (by omega)]
  have hs : isSurrogate hi = true := by
    simp only [isSurrogate, Bool.and_eq_true, decide_eq_true_eq]; omega
  simp only [hs, if_true]
  rw [next_fd_cons _ _ _ (by decide)]
  simp only [ne_eq, not_true_eq_false, if_false]
  rw [next_fd_cons _ _ _ (by decide)]
  simp only [ne_eq, not_true_eq_false, if_false]
  rw [decodeUnicode_fd st h2 (by omega) (by omega)]
  have hp : decodePair hi lo = some (pairVal hi lo) := by
    unfold decodePair pairVal
    have : (decide (0xD800 ≤ hi) && decide (hi < 0xDC00) && decide (0xDC00 ≤ lo) && decide (lo < 0xE000)) = true := by
      simp only [Bool.and_eq_true, decide_eq_true_eq]; omega
    rw [if_pos this]
  simp only [hp]
  have hge : 0x10000 ≤ pairVal hi lo ∧ pairVal hi lo ≤ 0x10FFFF := by unfold pairVal; omega
  have hv : isSurrogate (pairVal hi lo) = false := by
    generalize pairVal hi lo = p at hge
    simp only [isSurrogate, Bool.and_eq_false_imp, decide_eq_true_eq, decide_eq_false_iff_not]
    omega
  rw [next_fd _ _ hr, runeOfNat_valid hv hge.2]

/-- `\xHH` with digits of either case -/
theorem scanHex_fd (st : LState) {a b : Char} {d1 d2 : Nat} (h1 : HexDig a d1) (h2 : HexDig b d2)
    (hpos : 0 < d1 * 16 + d2) (r : List Char) (hr : NoNul r) :
    scanHex (fd st (a :: b :: r)) = ⟨r.head?, some (Char.ofNat (d1 * 16 + d2)), fd st r.tail⟩ := by
  unfold scanHex
  rw [next_fd_cons _ _ _ h1.facts.2.1]
  simp only [h1.facts.1]
  rw [next_fd_cons _ _ _ h2.facts.2.1]
  simp only [h2.facts.1]
  rw [next_fd _ _ hr]
  simp [hpos]

/-- **the characters after a backslash and the character they denote** (the same inside strings,
    `$"…"` variables and bare identifiers: all three call `scanEscape`) -/
inductive SpellsEsc : List Char → Char → Prop
  | b : SpellsEsc ['b'] (Char.ofNat 8)
  | f : SpellsEsc ['f'] (Char.ofNat 12)
  | n : SpellsEsc ['n'] (Char.ofNat 10)
  | r : SpellsEsc ['r'] (Char.ofNat 13)
  | t : SpellsEsc ['t'] (Char.ofNat 9)
  | v : SpellsEsc ['v'] (Char.ofNat 11)
  /-- any other character stands for itself: `\"`, `\\`, `\/`, … -/
  | self (c : Char) : c.toNat ≠ 0 → c ≠ 'b' → c ≠ 'f' → c ≠ 'n' → c ≠ 'r' → c ≠ 't' → c ≠ 'v' →
      c ≠ 'x' → c ≠ 'u' → SpellsEsc [c] c
  | hex {a b : Char} {d1 d2 : Nat} : HexDig a d1 → HexDig b d2 → 0 < d1 * 16 + d2 →
      SpellsEsc ['x', a, b] (Char.ofNat (d1 * 16 + d2))
  /-- `\uHHHH` or `\u{H…}`: not 0, not beyond U+10FFFF, not a surrogate -/
  | uni {us : List Char} {v : Nat} : SpellsUnit us v → v ≠ 0 → v ≤ 0x10FFFF → isSurrogate v = false →
      SpellsEsc ('u' :: us) (Char.ofNat v)
  /-- a surrogate pair; each half may be written `\uHHHH` or `\u{H…}` -/
  | pair {us1 us2 : List Char} {hi lo : Nat} : SpellsUnit us1 hi → SpellsUnit us2 lo →
      0xD800 ≤ hi → hi < 0xDC00 → 0xDC00 ≤ lo → lo < 0xE000 →
      SpellsEsc ('u' :: (us1 ++ '\\' :: 'u' :: us2)) (Char.ofNat (pairVal hi lo))

theorem SpellsEsc.noNul {es : List Char} {c : Char} (h : SpellsEsc es c) : NoNul es := by
  cases h with
  | b | f | n | r | t | v => exact NoNul.cons (by decide) NoNul.nil
  | self c h0 => exact NoNul.cons h0 NoNul.nil
  | hex h1 h2 _ => exact NoNul.cons (by decide) (NoNul.cons h1.facts.2.1 (NoNul.cons h2.facts.2.1 NoNul.nil))
  | uni h _ _ _ => exact NoNul.cons (by decide) h.noNul
  | pair h1 h2 _ _ _ _ =>
    exact NoNul.cons (by decide) (NoNul.append h1.noNul (NoNul.cons (by decide) (NoNul.cons (by decide) h2.noNul)))

theorem SpellsEsc.ne_nil {es : List Char} {c : Char} (h : SpellsEsc es c) : es ≠ [] := by
  cases h <;> simp

/-- the tail of `scanEscape` when the escape was read without error -/
theorem escape_finish (buf : List Char) (st : LState) (he : st.err = false) (r : List Char) (c : Char) :
    (match (⟨r.head?, some c, fd st r.tail⟩ : EscR).ch with
      | none => if (⟨r.head?, some c, fd st r.tail⟩ : EscR).st.err then (none, [], fd st r.tail)
                else (none, c :: buf, fd st r.tail)
      | some c' => (some c', c :: buf, fd st r.tail))
      = ((r.head?, c :: buf, fd st r.tail) : Option Char × List Char × LState) := by
  cases r with
  | nil => simp [he]
  | cons y r => simp

/-- **`scanEscape` reads any spelled escape**, appends the character it denotes and stops on the
    character after it — whatever that is (also the end of the input) -/
theorem scanEscape_fd (buf : List Char) (st : LState) (he : st.err = false) {es : List Char} {c : Char}
    (h : SpellsEsc es c) (r : List Char) (hr : NoNul r) :
    scanEscape buf (fd st (es ++ r)) = (r.head?, c :: buf, fd st r.tail) := by
  have fin := escape_finish buf st he r
  cases h with
  | b => unfold scanEscape; rw [List.cons_append, next_fd_cons _ _ _ (by decide)]; simp [next_fd _ _ hr]; exact fin _
  | f => unfold scanEscape; rw [List.cons_append, next_fd_cons _ _ _ (by decide)]; simp [next_fd _ _ hr]; exact fin _
  | n => unfold scanEscape; rw [List.cons_append, next_fd_cons _ _ _ (by decide)]; simp [next_fd _ _ hr]; exact fin _
  | r => unfold scanEscape; rw [List.cons_append, next_fd_cons _ _ _ (by decide)]; simp [next_fd _ _ hr]; exact fin _
  | t => unfold scanEscape; rw [List.cons_append, next_fd_cons _ _ _ (by decide)]; simp [next_fd _ _ hr]; exact fin _
  | v => unfold scanEscape; rw [List.cons_append, next_fd_cons _ _ _ (by decide)]; simp [next_fd _ _ hr]; exact fin _
  | self c h0 a1 a2 a3 a4 a5 a6 a7 a8 =>
    unfold scanEscape; rw [List.cons_append, next_fd_cons _ _ _ h0]
    simp [next_fd _ _ hr, a1, a2, a3, a4, a5, a6, a7, a8]; exact fin _
  | hex h1 h2 hpos =>
    unfold scanEscape; rw [List.cons_append, next_fd_cons _ _ _ (by decide)]
    simp [scanHex_fd st h1 h2 hpos r hr]; exact fin _
  | uni h h0 hmax hs =>
    unfold scanEscape; rw [List.cons_append, next_fd_cons _ _ _ (by decide)]
    simp [scanUnicode_single st h h0 hmax hs r hr]; exact fin _
  | pair h1 h2 a1 a2 a3 a4 =>
    unfold scanEscape; rw [List.cons_append, next_fd_cons _ _ _ (by decide)]
    simp [scanUnicode_pair st h1 h2 ⟨a1, a2⟩ ⟨a3, a4⟩ r hr]; exact fin _

/-! ## characters and strings between double quotes -/

/-- **the character sequence `cs` inside a double-quoted string denotes the character `c`**:
    a raw character (anything but `"`, `\`, a line feed and NUL), or a backslash and an escape -/
inductive SpellsChar : List Char → Char → Prop
  | plain (c : Char) : c ≠ '"' → c ≠ '\\' → c ≠ '\n' → c.toNat ≠ 0 → SpellsChar [c] c
  | esc {es : List Char} {c : Char} : SpellsEsc es c → SpellsChar ('\\' :: es) c

/-- the text `body` between the quotes denotes the string `s` -/
inductive SpellsStr : List Char → List Char → Prop
  | nil : SpellsStr [] []
  | cons {cs body : List Char} {c : Char} {s : List Char} :
      SpellsChar cs c → SpellsStr body s → SpellsStr (cs ++ body) (c :: s)

theorem SpellsChar.noNul {cs : List Char} {c : Char} (h : SpellsChar cs c) : NoNul cs := by
  cases h with
  | plain c _ _ _ h0 => exact NoNul.cons h0 NoNul.nil
  | esc h => exact NoNul.cons (by decide) h.noNul

theorem SpellsChar.length_pos {cs : List Char} {c : Char} (h : SpellsChar cs c) : 1 ≤ cs.length := by
  cases h <;> simp

theorem SpellsStr.noNul {body s : List Char} (h : SpellsStr body s) : NoNul body := by
  induction h with
  | nil => exact NoNul.nil
  | cons h1 _ ih => exact NoNul.append h1.noNul ih

theorem SpellsStr.length_le {body s : List Char} (h : SpellsStr body s) : s.length ≤ body.length := by
  induction h with
  | nil => simp
  | cons h1 _ ih => have := h1.length_pos; simp only [List.length_append, List.length_cons]; omega

theorem SpellsStr.append {b1 s1 b2 s2 : List Char} (h1 : SpellsStr b1 s1) (h2 : SpellsStr b2 s2) :
    SpellsStr (b1 ++ b2) (s1 ++ s2) := by
  induction h1 with
  | nil => simpa using h2
  | cons hc _ ih => rw [List.append_assoc]; exact SpellsStr.cons hc ih

/-- one iteration of the string loop reads one spelled character, whatever follows it -/
theorem stringLoop_spell (ret : Tok) {x : Char} {xs : List Char} {c : Char} (h : SpellsChar (x :: xs) c)
    (f : Nat) (buf : List Char) (st : LState) (he : st.err = false)
    (y : Char) (hy : y.toNat ≠ 0) (l : List Char) (hl : NoNul l) :
    stringLoop (f + 1) ret (some x) buf (fd st (xs ++ y :: l))
      = stringLoop f ret (some y) (c :: buf) (fd st l) := by
  rw [stringLoop_succ]
  cases h with
  | plain c a1 a2 a3 h0 =>
    simp [a1, a2, a3, next_fd_cons _ _ _ hy]
  | esc h =>
    have := scanEscape_fd buf st he h (y :: l) (NoNul.cons hy hl)
    simp [this]

/-- the string loop, started on the first character after the opening quote, reads the spelled
    string and stops after the closing quote, whatever follows -/
theorem stringLoop_spelled (ret : Tok) {body s : List Char} (h : SpellsStr body s) :
    ∀ (buf : List Char) (fuel : Nat) (st : LState) (x : Char) (xs r : List Char),
      body ++ ['"'] = x :: xs → s.length + 1 ≤ fuel → st.err = false → NoNul r →
      stringLoop fuel ret (some x) buf (fd st (xs ++ r)) = ⟨ret, buf.reverse ++ s, r.head?, fd st r.tail⟩ := by
  induction h with
  | nil =>
    intro buf fuel st x xs r hx hf he hr
    simp only [List.nil_append] at hx
    injection hx with hx1 hx2
    subst hx1; subst hx2
    obtain ⟨f, rfl⟩ : ∃ f, fuel = f + 1 := ⟨fuel - 1, by simp at hf; omega⟩
    rw [stringLoop_succ]
    simp [next_fd _ _ hr]
  | @cons cs body c s hc hs ih =>
    intro buf fuel st x xs r hx hf he hr
    obtain ⟨f, rfl⟩ : ∃ f, fuel = f + 1 := ⟨fuel - 1, by simp at hf; omega⟩
    -- the rest of the quoted text starts with a non-NUL character
    obtain ⟨y, ys, hy, hy0⟩ : ∃ y ys, body ++ ['"'] = y :: ys ∧ y.toNat ≠ 0 := by
      have hn := hs.noNul
      cases body with
      | nil => exact ⟨'"', [], rfl, by decide⟩
      | cons d b' => exact ⟨d, b' ++ ['"'], rfl, hn d (by simp)⟩
    have hys : NoNul ys := by
      have : NoNul (y :: ys) := by rw [← hy]; exact NoNul.append hs.noNul (NoNul.cons (by decide) NoNul.nil)
      exact this.of_cons.2
    obtain ⟨e, es, rfl⟩ : ∃ e es, cs = e :: es := by
      have := hc.length_pos
      cases cs with
      | nil => simp at this
      | cons e es => exact ⟨e, es, rfl⟩
    have hx' : x :: xs = e :: (es ++ y :: ys) := by
      rw [← hx, List.append_assoc, hy]; simp
    injection hx' with hx1 hx2
    subst hx1; subst hx2
    rw [List.append_assoc, List.cons_append]
    rw [stringLoop_spell ret hc f buf st he y hy0 (ys ++ r) (NoNul.append hys hr)]
    rw [ih (c :: buf) f st y ys r hy (by simp at hf; omega) he hr]
    simp

/-- `scanString`, positioned after the opening quote -/
theorem scanString_spelled (ret : Tok) {body s : List Char} (h : SpellsStr body s)
    (st : LState) (he : st.err = false) (r : List Char) (hr : NoNul r) :
    scanString ret (fd st (body ++ '"' :: r)) = ⟨ret, s, r.head?, fd st r.tail⟩ := by
  obtain ⟨x, xs, hx, hx0⟩ : ∃ x xs, body ++ ['"'] = x :: xs ∧ x.toNat ≠ 0 := by
    have hn := h.noNul
    cases body with
    | nil => exact ⟨'"', [], rfl, by decide⟩
    | cons d b' => exact ⟨d, b' ++ ['"'], rfl, hn d (by simp)⟩
  have e : body ++ '"' :: r = x :: (xs ++ r) := by
    rw [← List.cons_append, ← hx]; simp
  unfold scanString
  rw [e, next_fd_cons _ _ _ hx0]
  have hlen : s.length + 1 ≤ (fd st (xs ++ r)).rest.length + 3 := by
    have h1 := h.length_le
    have h2 : body.length + 1 = xs.length + 1 := by
      have := congrArg List.length hx
      simpa using this
    simp only [fd_rest, List.length_map, List.length_append]
    omega
  have := stringLoop_spelled ret h [] _ st x xs r hx hlen he hr
  simp only [this]
  simp

section
variable (o : Oracles) (ok : RoundTrip.OrOK o)
include ok

/-- **C03 for string literals**: a double-quoted literal whose body is *any* permitted spelling of
    `s` is the token `STRING_P` with value `s`; the lexer reads exactly the literal and the value
    does not depend on what follows -/
theorem tokAt_string_spelled {body s : List Char} (h : SpellsStr body s) :
    TokAt o (fun _ => True) '"' (body ++ ['"']) (.string, s) := by
  intro f st r he hr _
  have hx := ok.punctS '"' (by decide)
  have hscan := scanString_spelled .string h st he r hr
  simp only [lexFrom]
  rw [skipWs_nonws _ _ _ (by decide)]
  simp only [List.append_assoc, List.cons_append, List.nil_append]
  simp [isIdentStart, hx, isDecimal, hscan]

/-- **C03 for `$"…"` variables** -/
theorem tokAt_variable_spelled {body s : List Char} (h : SpellsStr body s) :
    TokAt o (fun _ => True) '$' ('"' :: (body ++ ['"'])) (.variable, s) := by
  intro f st r he hr _
  have hx := ok.punctS '$' (by decide)
  have hscan := scanString_spelled .variable h st he r hr
  simp only [lexFrom]
  rw [skipWs_nonws _ _ _ (by decide)]
  have e1 : isIdentStart o (some '$') = false := by simp [isIdentStart, hx]
  have e2 : isDecimal '$' = false := by decide
  have e3 : ('$' = '"') = False := by decide
  simp only [e1, e2, e3, Bool.false_eq_true, if_false, if_true]
  simp only [List.cons_append, List.append_assoc, List.nil_append]
  unfold scanVariable
  rw [next_fd_cons _ _ _ (by decide)]
  simp only [if_true]
  rw [hscan]

end

/-! ## the printer's spelling is one of the permitted spellings -/

theorem SpellsEsc.hex_lower (n : Nat) (h0 : 0 < n) (hn : n < 256) :
    SpellsEsc ('x' :: Print.hexDigits 2 n) (Char.ofNat n) := by
  have h1 : n / 16 % 16 < 16 := Nat.mod_lt _ (by decide)
  have h2 : n % 16 < 16 := Nat.mod_lt _ (by decide)
  have hd : n / 16 % 16 * 16 + n % 16 = n := by omega
  have e : Print.hexDigits 2 n = [Print.lowerHex (n / 16 % 16), Print.lowerHex (n % 16)] := by
    simp [Print.hexDigits]
  have := SpellsEsc.hex (HexDig.lower h1) (HexDig.lower h2) (by omega)
  rw [hd] at this
  rw [e]; exact this

theorem SpellsUnit.fixed_lower (n : Nat) (hn : n < 65536) : SpellsUnit (Print.hexDigits 4 n) n := by
  have h3 : n / 4096 % 16 < 16 := Nat.mod_lt _ (by decide)
  have h2 : n / 256 % 16 < 16 := Nat.mod_lt _ (by decide)
  have h1 : n / 16 % 16 < 16 := Nat.mod_lt _ (by decide)
  have h0 : n % 16 < 16 := Nat.mod_lt _ (by decide)
  have hd : ((n / 4096 % 16 * 16 + n / 256 % 16) * 16 + n / 16 % 16) * 16 + n % 16 = n := by omega
  have e : Print.hexDigits 4 n = [Print.lowerHex (n / 4096 % 16), Print.lowerHex (n / 256 % 16),
      Print.lowerHex (n / 16 % 16), Print.lowerHex (n % 16)] := by
    simp [Print.hexDigits]
  have := SpellsUnit.fixed (HexDig.lower h3) (HexDig.lower h2) (HexDig.lower h1) (HexDig.lower h0)
  rw [hd] at this
  rw [e]; exact this

theorem SpellsUnit.brace_trim (n : Nat) (h1 : 0x10000 ≤ n) (h2 : n < 0x110000) :
    SpellsUnit ('{' :: (Print.hexTrim n ++ ['}'])) n := by
  obtain ⟨d, ds, hd, hds, hlen, hdig, hval⟩ := hexTrim_digits n h1 h2
  have hD : HexDigs (Print.lowerHex d :: ds.map Print.lowerHex) (d :: ds) :=
    HexDigs.cons (HexDig.lower hd) (HexDigs.map_lower ds hds)
  have := SpellsUnit.brace hD (by simp) (by simp; omega)
  have hv : hexVal (d :: ds) = n := by rw [← hval]; simp [hexVal]
  rw [hv] at this
  rw [hdig]; exact this

theorem char_not_surrogate (c : Char) : isSurrogate c.toNat = false ∧ c.toNat ≤ 0x10FFFF := by
  have hv : c.toNat < 0xd800 ∨ (0xdfff < c.toNat ∧ c.toNat < 0x110000) := c.valid
  refine ⟨?_, by omega⟩
  simp only [isSurrogate, Bool.and_eq_false_imp, decide_eq_true_eq, decide_eq_false_iff_not]
  omega

/-- `\uHHHH` (lower-case digits) of a character of the basic plane -/
theorem SpellsEsc.uni_lower (c : Char) (h0 : c.toNat ≠ 0) (hc : c.toNat < 65536) :
    SpellsEsc ('u' :: Print.hexDigits 4 c.toNat) c := by
  have := SpellsEsc.uni (SpellsUnit.fixed_lower c.toNat hc) h0 (char_not_surrogate c).2 (char_not_surrogate c).1
  rwa [Char.ofNat_toNat] at this

section
variable (isPrint : Char → Bool) (hnl : isPrint '\n' = false)
include hnl

/-- `appendEscapedRune` writes a permitted spelling -/
theorem spellsChar_escapeRune (c : Char) (h0 : c.toNat ≠ 0) : SpellsChar (Print.escapeRune isPrint c) c := by
  unfold Print.escapeRune
  by_cases hq : (c = '"' || c = '\\') = true
  · rw [if_pos hq]
    simp only [Bool.or_eq_true, decide_eq_true_eq] at hq
    refine SpellsChar.esc (SpellsEsc.self c h0 ?_ ?_ ?_ ?_ ?_ ?_ ?_ ?_) <;>
      (rcases hq with hq | hq <;> subst hq <;> decide)
  · rw [if_neg hq]
    simp only [Bool.or_eq_true, decide_eq_true_eq, not_or] at hq
    obtain ⟨hq1, hq2⟩ := hq
    by_cases hpr : isPrint c = true
    · rw [if_pos hpr]
      have hn : c ≠ '\n' := by
        intro h; subst h; rw [hnl] at hpr; exact absurd hpr (by decide)
      exact SpellsChar.plain c hq1 hq2 hn h0
    · rw [if_neg hpr]
      simp only
      by_cases c7 : c.toNat = 7
      · rw [if_pos c7]; exact SpellsChar.esc (SpellsEsc.uni_lower c h0 (by omega))
      rw [if_neg c7]
      by_cases c8 : c.toNat = 8
      · rw [if_pos c8]
        have hc : c = Char.ofNat 8 := by rw [← Char.ofNat_toNat c, c8]
        subst hc; exact SpellsChar.esc SpellsEsc.b
      rw [if_neg c8]
      by_cases c12 : c.toNat = 12
      · rw [if_pos c12]
        have hc : c = Char.ofNat 12 := by rw [← Char.ofNat_toNat c, c12]
        subst hc; exact SpellsChar.esc SpellsEsc.f
      rw [if_neg c12]
      by_cases c10 : c.toNat = 10
      · rw [if_pos c10]
        have hc : c = Char.ofNat 10 := by rw [← Char.ofNat_toNat c, c10]
        subst hc; exact SpellsChar.esc SpellsEsc.n
      rw [if_neg c10]
      by_cases c13 : c.toNat = 13
      · rw [if_pos c13]
        have hc : c = Char.ofNat 13 := by rw [← Char.ofNat_toNat c, c13]
        subst hc; exact SpellsChar.esc SpellsEsc.r
      rw [if_neg c13]
      by_cases c9 : c.toNat = 9
      · rw [if_pos c9]
        have hc : c = Char.ofNat 9 := by rw [← Char.ofNat_toNat c, c9]
        subst hc; exact SpellsChar.esc SpellsEsc.t
      rw [if_neg c9]
      by_cases c11 : c.toNat = 11
      · rw [if_pos c11]
        have hc : c = Char.ofNat 11 := by rw [← Char.ofNat_toNat c, c11]
        subst hc; exact SpellsChar.esc SpellsEsc.v
      rw [if_neg c11]
      by_cases cx : (decide (c.toNat < 32) || decide (c.toNat = 127)) = true
      · rw [if_pos cx]
        have hlt' : c.toNat < 256 := by
          simp only [Bool.or_eq_true, decide_eq_true_eq] at cx; omega
        have := SpellsEsc.hex_lower c.toNat (by omega) hlt'
        rw [Char.ofNat_toNat] at this
        exact SpellsChar.esc this
      · rw [if_neg cx]
        by_cases hlt : c.toNat < 65536
        · rw [if_pos (by simpa using hlt)]
          exact SpellsChar.esc (SpellsEsc.uni_lower c h0 hlt)
        · rw [if_neg (by simpa using hlt)]
          have hb := SpellsUnit.brace_trim c.toNat (by omega) (by have := (char_not_surrogate c).2; omega)
          have := SpellsEsc.uni hb h0 (char_not_surrogate c).2 (char_not_surrogate c).1
          rw [Char.ofNat_toNat] at this
          exact SpellsChar.esc this

/-- **the printer's canonical body is one of the spellings** (so `tokAt_string_spelled` subsumes
    `RoundTrip.tokAt_string`) -/
theorem spellsStr_body (s : List Char) (hs : NoNul s) : SpellsStr (body isPrint s) s := by
  induction s with
  | nil => exact SpellsStr.nil
  | cons c s ih =>
    have := SpellsStr.cons (spellsChar_escapeRune isPrint hnl c (hs c (by simp))) (ih (fun d hd => hs d (by simp [hd])))
    simpa [body] using this

end

/-- `RoundTrip.tokAt_string` again, now as an instance -/
theorem tokAt_string' (o : Oracles) (ok : RoundTrip.OrOK o) (s : List Char) (hs : NoNul s) :
    TokAt o (fun _ => True) '"' (body o.isPrint s ++ ['"']) (.string, s) :=
  tokAt_string_spelled o ok (spellsStr_body o.isPrint ok.nl s hs)

/-! ## the denoted characters are never NUL -/

theorem toNat_ofNat_valid (n : Nat) (h : n.isValidChar) : (Char.ofNat n).toNat = n := by
  unfold Char.ofNat
  rw [dif_pos h]
  simp [Char.ofNatAux, Char.toNat]

theorem toNat_ofNat_of (v : Nat) (hs : isSurrogate v = false) (hmax : v ≤ 0x10FFFF) :
    (Char.ofNat v).toNat = v := by
  apply toNat_ofNat_valid
  simp only [isSurrogate, Bool.and_eq_false_imp, decide_eq_true_eq, decide_eq_false_iff_not] at hs
  unfold Nat.isValidChar
  omega

/-- an escape denotes the code point it names -/
theorem SpellsEsc.value {es : List Char} {c : Char} (h : SpellsEsc es c) : c.toNat ≠ 0 := by
  cases h with
  | b | f | n | r | t | v => decide
  | self c h0 => exact h0
  | @hex a b d1 d2 h1 h2 hpos =>
    have : d1 * 16 + d2 < 256 := by have := h1.1; have := h2.1; omega
    rw [toNat_ofNat_valid _ (by unfold Nat.isValidChar; omega)]; omega
  | uni _ h0 hmax hs => rw [toNat_ofNat_of _ hs hmax]; exact h0
  | @pair _ _ hi lo _ _ a1 a2 a3 a4 =>
    have hge : 0x10000 ≤ pairVal hi lo ∧ pairVal hi lo ≤ 0x10FFFF := by unfold pairVal; omega
    rw [toNat_ofNat_valid _ (by unfold Nat.isValidChar; omega)]; omega

/-- `\uHHHH` / `\u{H…}` denote exactly the code point `v`; a pair denotes `pairVal hi lo` -/
theorem SpellsEsc.uni_toNat {us : List Char} {v : Nat} (_h : SpellsUnit us v) (hmax : v ≤ 0x10FFFF)
    (hs : isSurrogate v = false) : (Char.ofNat v).toNat = v := toNat_ofNat_of v hs hmax

theorem SpellsStr.value_noNul {body s : List Char} (h : SpellsStr body s) : NoNul s := by
  induction h with
  | nil => exact NoNul.nil
  | cons h1 _ ih =>
    refine NoNul.cons ?_ ih
    cases h1 with
    | plain c _ _ _ h0 => exact h0
    | esc h => exact h.value

/-! ## the constructors the property text lists, and concrete instances -/

theorem SpellsChar.b : SpellsChar ['\\', 'b'] (Char.ofNat 8) := .esc .b
theorem SpellsChar.f : SpellsChar ['\\', 'f'] (Char.ofNat 12) := .esc .f
theorem SpellsChar.n : SpellsChar ['\\', 'n'] (Char.ofNat 10) := .esc .n
theorem SpellsChar.r : SpellsChar ['\\', 'r'] (Char.ofNat 13) := .esc .r
theorem SpellsChar.t : SpellsChar ['\\', 't'] (Char.ofNat 9) := .esc .t
theorem SpellsChar.v : SpellsChar ['\\', 'v'] (Char.ofNat 11) := .esc .v
theorem SpellsChar.quote : SpellsChar ['\\', '"'] '"' :=
  .esc (.self _ (by decide) (by decide) (by decide) (by decide) (by decide) (by decide) (by decide) (by decide) (by decide))
theorem SpellsChar.backslash : SpellsChar ['\\', '\\'] '\\' :=
  .esc (.self _ (by decide) (by decide) (by decide) (by decide) (by decide) (by decide) (by decide) (by decide) (by decide))
theorem SpellsChar.slash : SpellsChar ['\\', '/'] '/' :=
  .esc (.self _ (by decide) (by decide) (by decide) (by decide) (by decide) (by decide) (by decide) (by decide) (by decide))
theorem SpellsChar.hex {a b : Char} {d1 d2 : Nat} (h1 : HexDig a d1) (h2 : HexDig b d2) (h : 0 < d1 * 16 + d2) :
    SpellsChar ['\\', 'x', a, b] (Char.ofNat (d1 * 16 + d2)) := .esc (.hex h1 h2 h)
theorem SpellsChar.u4 {a b c d : Char} {d1 d2 d3 d4 : Nat} (h1 : HexDig a d1) (h2 : HexDig b d2)
    (h3 : HexDig c d3) (h4 : HexDig d d4) (h0 : ((d1 * 16 + d2) * 16 + d3) * 16 + d4 ≠ 0)
    (hs : isSurrogate (((d1 * 16 + d2) * 16 + d3) * 16 + d4) = false) :
    SpellsChar ['\\', 'u', a, b, c, d] (Char.ofNat (((d1 * 16 + d2) * 16 + d3) * 16 + d4)) :=
  .esc (.uni (.fixed h1 h2 h3 h4) h0 (by have := h1.1; have := h2.1; have := h3.1; have := h4.1; omega) hs)
theorem SpellsChar.ubrace {cs : List Char} {ds : List Nat} (h : HexDigs cs ds) (h1 : 1 ≤ cs.length)
    (h6 : cs.length ≤ 6) (h0 : hexVal ds ≠ 0) (hmax : hexVal ds ≤ 0x10FFFF) (hs : isSurrogate (hexVal ds) = false) :
    SpellsChar ('\\' :: 'u' :: '{' :: (cs ++ ['}'])) (Char.ofNat (hexVal ds)) :=
  .esc (.uni (.brace h h1 h6) h0 hmax hs)

/-- a string spelled by one character spelling after another, given as an explicit split -/
theorem SpellsStr.cons' {cs body full : List Char} {c : Char} {s : List Char}
    (h1 : SpellsChar cs c) (h2 : SpellsStr body s) (e : full = cs ++ body) : SpellsStr full (c :: s) := by
  subst e; exact SpellsStr.cons h1 h2

theorem SpellsStr.single {cs : List Char} {c : Char} (h : SpellsChar cs c) : SpellsStr cs [c] :=
  SpellsStr.cons' h SpellsStr.nil (by simp)

theorem SpellsStr.single' {cs : List Char} {c c' : Char} (h : SpellsChar cs c) (e : c = c') : SpellsStr cs [c'] :=
  e ▸ SpellsStr.single h

theorem hexDig_lower (c : Char) (d : Nat) (hd : d < 16) (h : c = Print.lowerHex d) : HexDig c d := ⟨hd, Or.inl h⟩
theorem hexDig_upper (c : Char) (d : Nat) (hd : d < 16) (h : c = upperHex d) : HexDig c d := ⟨hd, Or.inr h⟩

/-- U+1F600 written as the surrogate pair `\uD83D\uDE00` -/
theorem spell_pair : SpellsStr ['\\', 'u', 'D', '8', '3', 'D', '\\', 'u', 'D', 'E', '0', '0'] [Char.ofNat 0x1F600] :=
  SpellsStr.single' (.esc (SpellsEsc.pair
    (.fixed (hexDig_upper 'D' 13 (by decide) (by decide)) (hexDig_lower '8' 8 (by decide) (by decide))
      (hexDig_lower '3' 3 (by decide) (by decide)) (hexDig_upper 'D' 13 (by decide) (by decide)))
    (.fixed (hexDig_upper 'D' 13 (by decide) (by decide)) (hexDig_upper 'E' 14 (by decide) (by decide))
      (hexDig_lower '0' 0 (by decide) (by decide)) (hexDig_lower '0' 0 (by decide) (by decide)))
    (by decide) (by decide) (by decide) (by decide))) (by decide +kernel)

/-- … as `\u{1F600}` -/
theorem spell_brace : SpellsStr "\\u{1F600}".toList [Char.ofNat 0x1F600] :=
  SpellsStr.single (SpellsChar.ubrace (cs := "1F600".toList) (ds := [1, 15, 6, 0, 0])
    (.cons (hexDig_lower '1' 1 (by decide) (by decide)) (.cons (hexDig_upper 'F' 15 (by decide) (by decide))
      (.cons (hexDig_lower '6' 6 (by decide) (by decide)) (.cons (hexDig_lower '0' 0 (by decide) (by decide))
      (.cons (hexDig_lower '0' 0 (by decide) (by decide)) .nil)))))
    (by decide) (by decide) (by decide) (by decide) (by decide))

/-- … with the halves in braces, leading zeros, lower case: `\u{00d83d}\u{de00}` -/
theorem spell_pair_brace :
    SpellsStr ['\\', 'u', '{', '0', '0', 'd', '8', '3', 'd', '}', '\\', 'u', '{', 'd', 'e', '0', '0', '}'] [Char.ofNat 0x1F600] :=
  SpellsStr.single' (.esc (SpellsEsc.pair
    (.brace (cs := ['0', '0', 'd', '8', '3', 'd']) (ds := [0, 0, 13, 8, 3, 13])
      (.cons (hexDig_lower '0' 0 (by decide) (by decide)) (.cons (hexDig_lower '0' 0 (by decide) (by decide))
      (.cons (hexDig_lower 'd' 13 (by decide) (by decide)) (.cons (hexDig_lower '8' 8 (by decide) (by decide))
      (.cons (hexDig_lower '3' 3 (by decide) (by decide)) (.cons (hexDig_lower 'd' 13 (by decide) (by decide)) .nil))))))
      (by decide) (by decide))
    (.brace (cs := "de00".toList) (ds := [13, 14, 0, 0])
      (.cons (hexDig_lower 'd' 13 (by decide) (by decide)) (.cons (hexDig_lower 'e' 14 (by decide) (by decide))
      (.cons (hexDig_lower '0' 0 (by decide) (by decide)) (.cons (hexDig_lower '0' 0 (by decide) (by decide)) .nil))))
      (by decide) (by decide))
    (by decide) (by decide) (by decide) (by decide))) (by decide +kernel)

/-- `A` four ways: `\x41`, `\u0041`, `\u{41}`, raw -/
theorem spell_x41 : SpellsStr "\\x41".toList ['A'] :=
  SpellsStr.single (SpellsChar.hex (hexDig_lower '4' 4 (by decide) (by decide)) (hexDig_lower '1' 1 (by decide) (by decide)) (by decide))
theorem spell_u0041 : SpellsStr "\\u0041".toList ['A'] :=
  SpellsStr.single (SpellsChar.u4 (hexDig_lower '0' 0 (by decide) (by decide)) (hexDig_lower '0' 0 (by decide) (by decide))
    (hexDig_lower '4' 4 (by decide) (by decide)) (hexDig_lower '1' 1 (by decide) (by decide)) (by decide) (by decide))
theorem spell_ub41 : SpellsStr "\\u{41}".toList ['A'] :=
  SpellsStr.single (SpellsChar.ubrace (cs := "41".toList) (ds := [4, 1])
    (.cons (hexDig_lower '4' 4 (by decide) (by decide)) (.cons (hexDig_lower '1' 1 (by decide) (by decide)) .nil))
    (by decide) (by decide) (by decide) (by decide) (by decide))
theorem spell_A : SpellsStr "A".toList ['A'] :=
  SpellsStr.single (.plain 'A' (by decide) (by decide) (by decide) (by decide))

section
variable (o : Oracles) (ok : RoundTrip.OrOK o)
include ok
/-- all these literals are the same token, under every oracle satisfying `OrOK`, whatever follows -/
example : TokAt o (fun _ => True) '"' ("\\uD83D\\uDE00".toList ++ ['"']) (.string, [Char.ofNat 0x1F600]) := by
  have e : "\\uD83D\\uDE00".toList = ['\\', 'u', 'D', '8', '3', 'D', '\\', 'u', 'D', 'E', '0', '0'] := by decide +kernel
  rw [e]; exact tokAt_string_spelled o ok spell_pair
example : TokAt o (fun _ => True) '"' ("\\u{1F600}".toList ++ ['"']) (.string, [Char.ofNat 0x1F600]) :=
  tokAt_string_spelled o ok spell_brace
example : TokAt o (fun _ => True) '"' ("\\u{00d83d}\\u{de00}".toList ++ ['"']) (.string, [Char.ofNat 0x1F600]) := by
  have e : "\\u{00d83d}\\u{de00}".toList
      = ['\\', 'u', '{', '0', '0', 'd', '8', '3', 'd', '}', '\\', 'u', '{', 'd', 'e', '0', '0', '}'] := by decide +kernel
  rw [e]; exact tokAt_string_spelled o ok spell_pair_brace
example : TokAt o (fun _ => True) '"' ("\\x41".toList ++ ['"']) (.string, ['A']) := tokAt_string_spelled o ok spell_x41
example : TokAt o (fun _ => True) '"' ("\\u0041".toList ++ ['"']) (.string, ['A']) := tokAt_string_spelled o ok spell_u0041
example : TokAt o (fun _ => True) '"' ("\\u{41}".toList ++ ['"']) (.string, ['A']) := tokAt_string_spelled o ok spell_ub41
example : TokAt o (fun _ => True) '"' ("A".toList ++ ['"']) (.string, ['A']) := tokAt_string_spelled o ok spell_A
example : TokAt o (fun _ => True) '$' ('"' :: ("\\x41".toList ++ ['"'])) (.variable, ['A']) :=
  tokAt_variable_spelled o ok spell_x41
end

/-! ### the same on the model directly (ASCII oracles), and the spellings the model refuses -/

/-- first token (kind, value, error recorded) of a text -/
def lex1 (s : String) : Tok × List Char × Bool :=
  let r := Lex.lex asciiOracles { rest := s.toList.map Src.ch, ch := none, err := false }
  (r.1, r.2.1, r.2.2.err)

/-- every listed text lexes to the listed token -/
def allLex (l : List (String × Tok × List Char × Bool)) : Bool := l.all (fun p => lex1 p.1 == p.2)

theorem same_token_concrete : allLex [
    ("\"\\uD83D\\uDE00\"", .string, [Char.ofNat 0x1F600], false),
    ("\"\\u{1F600}\"", .string, [Char.ofNat 0x1F600], false),
    ("\"\\u{D83D}\\u{DE00}\"", .string, [Char.ofNat 0x1F600], false),
    ("\"\\u{00d83d}\\uDe00\"", .string, [Char.ofNat 0x1F600], false),
    ("\"\\x41\"", .string, ['A'], false), ("\"\\u0041\"", .string, ['A'], false),
    ("\"\\u{41}\"", .string, ['A'], false), ("\"\\u{000041}\"", .string, ['A'], false),
    ("\"A\"", .string, ['A'], false),
    ("\"\\b\\f\\n\\r\\t\\v\"", .string, [Char.ofNat 8, Char.ofNat 12, Char.ofNat 10, Char.ofNat 13, Char.ofNat 9, Char.ofNat 11], false),
    ("\"\\\"\\\\\\/\\a\\'\\ \\0\"", .string, ['"', '\\', '/', 'a', '\'', ' ', '0'], false),
    ("\"\\xfF\\x4a\\x4A\"", .string, [Char.ofNat 255, 'J', 'J'], false),
    ("$\"\\x41\"", .variable, ['A'], false)] = true := by
  decide +kernel

/-- the boundary of `SpellsChar`: what the model refuses (each is an error, token `stopTok`) -/
theorem refused_concrete : allLex [
    ("\"\\x00\"", .stop, [], true), ("\"\\u0000\"", .stop, [], true),
    ("\"\\u{0}\"", .stop, [], true), ("\"\\u{}\"", .stop, [], true),
    ("\"\\u{0000041}\"", .stop, [], true), ("\"\\u{110000}\"", .stop, [], true),
    ("\"\\uD83D\"", .stop, [], true), ("\"\\u{D83D}\"", .stop, [], true),
    ("\"\\uDE00\\uD83D\"", .stop, [], true), ("\"\\uD83D\\u0041\"", .stop, [], true),
    ("\"\\uD83Dx\"", .stop, [], true), ("\"\\x4\"", .stop, [], true),
    ("\"\\u004\"", .stop, [], true), ("\"a\nb\"", .stop, [], true),
    ("\"a\\", .stop, [], true)] = true := by
  decide +kernel

/-- observations on the permissive side: a backslash before *any* other character (also a raw line
    feed) yields that character, and raw control characters other than the line feed are accepted -/
theorem permissive_concrete : allLex [
    ("\"\\\n\"", .string, ['\n'], false), ("\"a\tb\"", .string, ['a', '\t', 'b'], false),
    ("\"\\q\"", .string, ['q'], false)] = true := by
  decide +kernel

/-! ## the same escapes in bare identifiers -/

theorem identLoop_succ (o : Oracles) (f : Nat) (ch : Option Char) (buf : List Char) (s : LState) :
    identLoop o (f + 1) ch buf s =
      if isIdentCont o ch then
        match ch with
        | some c =>
          if c = '\\' then
            let (ch', buf', s') := scanEscape buf s
            identLoop o f ch' buf' s'
          else
            let (ch', s') := next s
            identLoop o f ch' (c :: buf) s'
        | none => (ch, buf, s)
      else (ch, buf, s) := by
  rfl

/-- the characters after the first one of a bare identifier `w` denote `s`: identifier characters
    standing for themselves, and escapes -/
inductive SpellsIdTail (o : Oracles) : List Char → List Char → Prop
  | nil : SpellsIdTail o [] []
  | plain (c : Char) {w s : List Char} : c ≠ '\\' → (c = '_' ∨ o.xidContinue c = true) → c.toNat ≠ 0 →
      SpellsIdTail o w s → SpellsIdTail o (c :: w) (c :: s)
  | esc {es : List Char} {c : Char} {w s : List Char} : SpellsEsc es c →
      SpellsIdTail o w s → SpellsIdTail o ('\\' :: (es ++ w)) (c :: s)

/-- the bare identifier `w` denotes the name `s` -/
inductive SpellsIdent (o : Oracles) : List Char → List Char → Prop
  | plain (c : Char) {w s : List Char} : c ≠ '\\' → (c = '_' ∨ o.xidStart c = true) → c.toNat ≠ 0 →
      isWhitespace c = false → SpellsIdTail o w s → SpellsIdent o (c :: w) (c :: s)
  | esc {es : List Char} {c : Char} {w s : List Char} : SpellsEsc es c →
      SpellsIdTail o w s → SpellsIdent o ('\\' :: (es ++ w)) (c :: s)

theorem SpellsIdTail.noNul {o : Oracles} {w s : List Char} (h : SpellsIdTail o w s) : NoNul w := by
  induction h with
  | nil => exact NoNul.nil
  | plain c _ _ h0 _ ih => exact NoNul.cons h0 ih
  | esc he _ ih => exact NoNul.cons (by decide) (NoNul.append he.noNul ih)

theorem SpellsIdTail.length_le {o : Oracles} {w s : List Char} (h : SpellsIdTail o w s) : s.length ≤ w.length := by
  induction h with
  | nil => simp
  | plain c _ _ _ _ ih => simp only [List.length_cons]; omega
  | esc he _ ih => simp only [List.length_cons, List.length_append]; omega

/-- the identifier loop reads the rest of a spelled identifier and stops on the first character
    that cannot continue an identifier (or at the end of the input) -/
theorem identLoop_spelled (o : Oracles) {w s : List Char} (h : SpellsIdTail o w s) :
    ∀ (buf : List Char) (fuel : Nat) (st : LState) (r : List Char), st.err = false → NoNul r →
      isIdentCont o r.head? = false → s.length + 1 ≤ fuel →
      identLoop o fuel (w ++ r).head? buf (fd st (w ++ r).tail) = (r.head?, s.reverse ++ buf, fd st r.tail) := by
  induction h with
  | nil =>
    intro buf fuel st r he hr hy hf
    obtain ⟨f, rfl⟩ : ∃ f, fuel = f + 1 := ⟨fuel - 1, by simp at hf; omega⟩
    rw [identLoop_succ]
    simp [hy]
  | @plain c w s a1 a2 h0 hw ih =>
    intro buf fuel st r he hr hy hf
    obtain ⟨f, rfl⟩ : ∃ f, fuel = f + 1 := ⟨fuel - 1, by simp at hf; omega⟩
    have hc : isIdentCont o (some c) = true := by
      rcases a2 with a2 | a2 <;> simp [isIdentCont, a2]
    rw [identLoop_succ]
    simp only [List.cons_append, List.head?_cons, List.tail_cons, hc, if_true, a1, if_false]
    rw [next_fd _ _ (NoNul.append hw.noNul hr)]
    simp only []
    rw [ih (c :: buf) f st r he hr hy (by simp at hf; omega)]
    simp
  | @esc es c w s hesc hw ih =>
    intro buf fuel st r he hr hy hf
    obtain ⟨f, rfl⟩ : ∃ f, fuel = f + 1 := ⟨fuel - 1, by simp at hf; omega⟩
    have hc : isIdentCont o (some '\\') = true := by simp [isIdentCont]
    rw [identLoop_succ]
    simp only [List.cons_append, List.head?_cons, List.tail_cons, hc, if_true, List.append_assoc]
    rw [scanEscape_fd buf st he hesc (w ++ r) (NoNul.append hw.noNul hr)]
    simp only []
    rw [ih (c :: buf) f st r he hr hy (by simp at hf; omega)]
    simp

/-- **C03 for bare identifiers**: an identifier written with any mixture of identifier characters and
    escapes is the token `identToken s` (`IDENT_P` or the keyword `s` spells) with value `s`, provided the
    character after it cannot continue an identifier -/
theorem tokAt_ident_spelled (o : Oracles) {c0 : Char} {w s : List Char} (h : SpellsIdent o (c0 :: w) s) :
    TokAt o (fun y => isIdentCont o y = false) c0 w (identToken o s, s) := by
  intro f st r he hr hy
  generalize hcw : c0 :: w = cw at h
  cases h with
  | @plain c w' s' a1 a2 h0 hws hw =>
    injection hcw with e1 e2
    subst e1; subst e2
    have hst : isIdentStart o (some c0) = true := by
      rcases a2 with a2 | a2 <;> simp [isIdentStart, a2]
    simp only [lexFrom]
    rw [skipWs_nonws _ _ _ hws]
    simp only [hst, if_true]
    unfold scanIdent
    simp only [a1, if_false]
    rw [next_fd _ _ (NoNul.append hw.noNul hr)]
    simp only []
    have hlen : s'.length + 1 ≤ (fd st (w ++ r).tail).rest.length + 3 := by
      have := hw.length_le
      simp only [fd_rest, List.length_map, List.length_tail, List.length_append]; omega
    rw [identLoop_spelled o hw [c0] _ st r he hr hy hlen]
    simp [he]
  | @esc es c w' s' hesc hw =>
    injection hcw with e1 e2
    subst e1; subst e2
    have hst : isIdentStart o (some '\\') = true := by simp [isIdentStart]
    simp only [lexFrom]
    rw [skipWs_nonws _ _ _ (by decide)]
    simp only [hst, if_true]
    unfold scanIdent
    simp only [if_true, List.append_assoc]
    rw [scanEscape_fd [] st he hesc (w' ++ r) (NoNul.append hw.noNul hr)]
    simp only []
    have hlen : s'.length + 1 ≤ (fd st (w' ++ r).tail).rest.length + 3 := by
      have := hw.length_le
      simp only [fd_rest, List.length_map, List.length_tail, List.length_append]; omega
    rw [identLoop_spelled o hw [c] _ st r he hr hy hlen]
    simp [he]

/-- `\x66oo`, `foo`, `fo\u{6F}` and `foo` are the same key, under every oracle satisfying `OrOK` -/
theorem spellsIdent_foo (o : Oracles) (ok : RoundTrip.OrOK o) :
    SpellsIdent o ['\\', 'x', '6', '6', 'o', 'o'] ['f', 'o', 'o'] ∧
    SpellsIdent o ['f', '\\', 'u', '0', '0', '6', 'f', 'o'] ['f', 'o', 'o'] ∧
    SpellsIdent o ['f', 'o', '\\', 'u', '{', '6', 'F', '}'] ['f', 'o', 'o'] ∧
    SpellsIdent o ['f', 'o', 'o'] ['f', 'o', 'o'] := by
  have po : ∀ {w s}, SpellsIdTail o w s → SpellsIdTail o ('o' :: w) ('o' :: s) := fun h =>
    SpellsIdTail.plain 'o' (by decide) (Or.inr (ok.lowC 'o' (by decide))) (by decide) h
  have pf : ∀ {w s}, SpellsIdTail o w s → SpellsIdent o ('f' :: w) ('f' :: s) := fun h =>
    SpellsIdent.plain 'f' (by decide) (Or.inr (ok.lowS 'f' (by decide))) (by decide) (by decide) h
  have e1 : SpellsEsc ['x', '6', '6'] 'f' :=
    SpellsEsc.hex (hexDig_lower '6' 6 (by decide) (by decide)) (hexDig_lower '6' 6 (by decide) (by decide)) (by decide)
  have e2 : SpellsEsc ['u', '0', '0', '6', 'f'] 'o' :=
    SpellsEsc.uni (.fixed (hexDig_lower '0' 0 (by decide) (by decide)) (hexDig_lower '0' 0 (by decide) (by decide))
      (hexDig_lower '6' 6 (by decide) (by decide)) (hexDig_lower 'f' 15 (by decide) (by decide)))
      (by decide) (by decide) (by decide)
  have e3 : SpellsEsc ['u', '{', '6', 'F', '}'] 'o' :=
    SpellsEsc.uni (.brace (cs := ['6', 'F']) (ds := [6, 15])
      (.cons (hexDig_lower '6' 6 (by decide) (by decide)) (.cons (hexDig_upper 'F' 15 (by decide) (by decide)) .nil))
      (by decide) (by decide)) (by decide) (by decide) (by decide)
  refine ⟨?_, ?_, ?_, ?_⟩
  · exact SpellsIdent.esc (es := ['x', '6', '6']) e1 (po (po .nil))
  · exact pf (SpellsIdTail.esc (es := ['u', '0', '0', '6', 'f']) e2 (po .nil))
  · exact pf (po (SpellsIdTail.esc (es := ['u', '{', '6', 'F', '}']) (w := []) e3 .nil))
  · exact pf (po (po .nil))

example (o : Oracles) (ok : RoundTrip.OrOK o) :
    TokAt o (fun y => isIdentCont o y = false) '\\' ['x', '6', '6', 'o', 'o'] (identToken o ['f', 'o', 'o'], ['f', 'o', 'o']) :=
  tokAt_ident_spelled o (spellsIdent_foo o ok).1

/-- on the model directly; note that an identifier spelled with escapes is still looked up in the
    keyword table (`\x6eull` is the token `null`), and that a backslash makes any character part of
    an identifier (`a\ b`) -/
theorem ident_concrete : allLex [
    ("\\x66oo", .ident, ['f', 'o', 'o'], false), ("\\x66oo.", .ident, ['f', 'o', 'o'], false),
    ("f\\u006fo ", .ident, ['f', 'o', 'o'], false), ("fo\\u{6F}", .ident, ['f', 'o', 'o'], false),
    ("foo", .ident, ['f', 'o', 'o'], false),
    ("a\\uD83D\\uDE00", .ident, ['a', Char.ofNat 0x1F600], false),
    ("\\x6eull", .null, ['n', 'u', 'l', 'l'], false), ("a\\ b", .ident, ['a', ' ', 'b'], false),
    ("a\\x00", .stop, [], true), ("a\\uD83D", .stop, [], true), ("a\\", .stop, [], true)] = true := by
  decide +kernel

/-! ## the same as pieces of text (`Seg`): any spelling of a string or `$"…"` variable -/

theorem seg2_string_spelled (o : Oracles) (ok : OrOK o) {body s : List Char} (h : SpellsStr body s) :
    Seg2 o CT ('"' :: (body ++ ['"'])) [(.string, s)] :=
  seg2_tokAt o ok (tokAt_string_spelled o ok h) (by decide)
    (NoNul.append h.noNul (NoNul.cons (by decide) NoNul.nil)) (by simp) (by decide) (fun _ _ => trivial) tolB_true

theorem seg2_variable_spelled (o : Oracles) (ok : OrOK o) {body s : List Char} (h : SpellsStr body s) :
    Seg2 o CT ('$' :: '"' :: (body ++ ['"'])) [(.variable, s)] :=
  seg2_tokAt o ok (tokAt_variable_spelled o ok h) (by decide)
    (NoNul.cons (by decide) (NoNul.append h.noNul (NoNul.cons (by decide) NoNul.nil))) (by simp) (by decide)
    (fun _ _ => trivial) tolB_true

/-! # Spelling variants: integer literals -/


/-! ## (1) Digit strings in a base, with single underscores between digits -/

/-- value of the digit `c` in base `base` (hex digits in either case), `none` if `c` is not a digit
    of that base -/
def digitOf (base : Nat) (c : Char) : Option Nat :=
  match hexChar (some c) with
  | some d => if d < base then some d else none
  | none => none

/-- `DigitsFrom base a ds n`: a digit has just been read and the digits so far have the value `a`;
    `ds` continues the digit string (`digit`, or `_ digit`, repeatedly) and the whole has value `n` -/
inductive DigitsFrom (base : Nat) : Nat → List Char → Nat → Prop
  | nil (a : Nat) : DigitsFrom base a [] a
  | digit {a : Nat} {c : Char} {d : Nat} {ds : List Char} {n : Nat} :
      digitOf base c = some d → DigitsFrom base (a * base + d) ds n → DigitsFrom base a (c :: ds) n
  | sep {a : Nat} {c : Char} {d : Nat} {ds : List Char} {n : Nat} :
      digitOf base c = some d → DigitsFrom base (a * base + d) ds n →
      DigitsFrom base a ('_' :: c :: ds) n

/-- `BaseDigits base ds n`: `ds` is a non-empty string of digits of base `base`, starting and ending
    with a digit, with at most one `_` between two successive digits, and its value is `n` -/
inductive BaseDigits (base : Nat) : List Char → Nat → Prop
  | mk {c : Char} {d : Nat} {rest : List Char} {n : Nat} :
      digitOf base c = some d → DigitsFrom base d rest n → BaseDigits base (c :: rest) n

/-! ### facts on digit characters -/

def hexTable : List (Char × Nat) :=
  [('0', 0), ('1', 1), ('2', 2), ('3', 3), ('4', 4), ('5', 5), ('6', 6), ('7', 7), ('8', 8), ('9', 9),
   ('a', 10), ('b', 11), ('c', 12), ('d', 13), ('e', 14), ('f', 15),
   ('A', 10), ('B', 11), ('C', 12), ('D', 13), ('E', 14), ('F', 15)]

theorem char_eq_of_toNat (c : Char) (k : Nat) (h : c.toNat = k) : c = Char.ofNat k := by
  rw [← h, Char.ofNat_toNat]

theorem hexChar_mem (c : Char) (d : Nat) (h : hexChar (some c) = some d) : (c, d) ∈ hexTable := by
  simp only [hexChar] at h
  split at h
  · rename_i hb
    simp only [Bool.and_eq_true, decide_eq_true_eq] at hb
    have a1 : 48 ≤ c.toNat := hb.1
    have a2 : c.toNat ≤ 57 := hb.2
    injection h with h
    subst h
    have : c.toNat = 48 ∨ c.toNat = 49 ∨ c.toNat = 50 ∨ c.toNat = 51 ∨ c.toNat = 52 ∨ c.toNat = 53 ∨
      c.toNat = 54 ∨ c.toNat = 55 ∨ c.toNat = 56 ∨ c.toNat = 57 := by omega
    rcases this with h | h | h | h | h | h | h | h | h | h <;>
      (have := char_eq_of_toNat c _ h; subst this; decide)
  · split at h
    · rename_i hb
      simp only [Bool.and_eq_true, decide_eq_true_eq] at hb
      have a1 : 97 ≤ c.toNat := hb.1
      have a2 : c.toNat ≤ 102 := hb.2
      injection h with h
      subst h
      have : c.toNat = 97 ∨ c.toNat = 98 ∨ c.toNat = 99 ∨ c.toNat = 100 ∨ c.toNat = 101 ∨ c.toNat = 102 := by
        omega
      rcases this with h | h | h | h | h | h <;>
        (have := char_eq_of_toNat c _ h; subst this; decide)
    · split at h
      · rename_i hb
        simp only [Bool.and_eq_true, decide_eq_true_eq] at hb
        have a1 : 65 ≤ c.toNat := hb.1
        have a2 : c.toNat ≤ 70 := hb.2
        injection h with h
        subst h
        have : c.toNat = 65 ∨ c.toNat = 66 ∨ c.toNat = 67 ∨ c.toNat = 68 ∨ c.toNat = 69 ∨ c.toNat = 70 := by
          omega
        rcases this with h | h | h | h | h | h <;>
          (have := char_eq_of_toNat c _ h; subst this; decide)
      · simp at h

/-- what the lexer and `strconv` see of a digit `c` of value `d` in base `base` -/
structure DigitFacts (base : Nat) (c : Char) (d : Nat) : Prop where
  lt : d < base
  lt16 : d < 16
  neUs : c ≠ '_'
  nz : c.toNat ≠ 0
  hex : isHex c = true
  v36 : digitVal36 c = some d
  uok : Decimal.isDigit c = false → ('a' ≤ Decimal.lowerC c ∧ Decimal.lowerC c ≤ 'f')
  dec : d < 10 → isDecimal c = true ∧ Decimal.isDigit c = true ∧ c.toNat = 48 + d
  zero : d = 0 ↔ c = '0'
  neSign : c ≠ '-' ∧ c ≠ '+'

theorem hexTable_facts : ∀ p ∈ hexTable,
    p.2 < 16 ∧ p.1 ≠ '_' ∧ p.1.toNat ≠ 0 ∧ isHex p.1 = true ∧ digitVal36 p.1 = some p.2 ∧
    (Decimal.isDigit p.1 = false → ('a' ≤ Decimal.lowerC p.1 ∧ Decimal.lowerC p.1 ≤ 'f')) ∧
    (p.2 < 10 → isDecimal p.1 = true ∧ Decimal.isDigit p.1 = true ∧ p.1.toNat = 48 + p.2) ∧
    (p.2 = 0 ↔ p.1 = '0') ∧ (p.1 ≠ '-' ∧ p.1 ≠ '+') := by
  decide

theorem digitOf_facts {base : Nat} {c : Char} {d : Nat} (h : digitOf base c = some d) :
    DigitFacts base c d := by
  unfold digitOf at h
  split at h
  · rename_i d' hd'
    split at h
    · rename_i hlt
      injection h with h
      subst h
      obtain ⟨h1, h2, h3, h4, h5, h6, h7, h8, h9⟩ := hexTable_facts (c, d') (hexChar_mem c d' hd')
      exact ⟨hlt, h1, h2, h3, h4, h5, h6, h7, h8, h9⟩
    · simp at h
  · simp at h


theorem DigitsFrom.noNul {base a : Nat} {ds : List Char} {n : Nat} (h : DigitsFrom base a ds n) : NoNul ds := by
  induction h with
  | nil a => exact NoNul.nil
  | digit hc _ ih => exact NoNul.cons (digitOf_facts hc).nz ih
  | sep hc _ ih => exact NoNul.cons (by decide) (NoNul.cons (digitOf_facts hc).nz ih)

theorem BaseDigits.noNul {base : Nat} {ds : List Char} {n : Nat} (h : BaseDigits base ds n) : NoNul ds := by
  cases h with
  | mk hc hr => exact NoNul.cons (digitOf_facts hc).nz hr.noNul

/-! ## (2) Lexing -/

theorem digitsLoop_stop' (hex : Bool) (maxCh f : Nat) (y : Option Char) (b : Nat) (inv : Option Char)
    (acc : List Char) (s : LState) (h2 : y ≠ some '_')
    (h1 : ∀ c, y = some c → (if hex then isHex c else isDecimal c) = false) :
    digitsLoop hex maxCh (f + 1) y b inv acc s = (y, b, inv, acc, s) := by
  unfold digitsLoop
  cases y with
  | none => rfl
  | some c =>
    have : c ≠ '_' := fun h => h2 (by rw [h])
    have h1' := h1 c rfl
    simp [this, h1']

theorem digitsLoop_sep (hex : Bool) (maxCh f : Nat) (b : Nat) (inv : Option Char)
    (acc : List Char) (s : LState) :
    digitsLoop hex maxCh (f + 1) (some '_') b inv acc s
      = digitsLoop hex maxCh f (next s).1 (b ||| 2) inv ('_' :: acc) (next s).2 := by
  rw [digitsLoop]
  simp

theorem digitsLoop_digit {base : Nat} (hb : base ≤ 16) {c : Char} {d : Nat} (hc : digitOf base c = some d)
    (f b : Nat) (acc : List Char) (s : LState) :
    digitsLoop (decide (base > 10)) (48 + base) (f + 1) (some c) b none acc s
      = digitsLoop (decide (base > 10)) (48 + base) f (next s).1 (b ||| 1) none (c :: acc) (next s).2 := by
  have hf := digitOf_facts hc
  rw [digitsLoop]
  by_cases hbase : base > 10
  · simp [hf.neUs, hbase, hf.hex]
  · have hd := hf.dec (by have := hf.lt; omega)
    have hlt : ¬ (48 + base ≤ c.toNat) := by rw [hd.2.2]; have := hf.lt; omega
    simp [hf.neUs, hbase, hd.1, hlt]

theorem or_one_cases (b : Nat) (h : b = 0 ∨ b = 1 ∨ b = 3) : b ||| 1 = 1 ∨ b ||| 1 = 3 := by
  rcases h with h | h | h <;> subst h <;> decide

/-- the digit loop reads the rest of a digit string -/
theorem digitsLoop_from (base : Nat) (hb : base ≤ 16) (st : LState) (r : List Char) (hr : NoNul r)
    (h2 : r.head? ≠ some '_')
    (h1 : ∀ c, r.head? = some c → (if decide (base > 10) then isHex c else isDecimal c) = false)
    {a : Nat} {ds : List Char} {n : Nat} (h : DigitsFrom base a ds n) :
    ∀ (b : Nat) (acc : List Char) (f : Nat), (b = 1 ∨ b = 3) → ds.length + 1 ≤ f →
      ∃ b', (b' = 1 ∨ b' = 3) ∧
        digitsLoop (decide (base > 10)) (48 + base) f (ds ++ r).head? b none acc (fd st (ds ++ r).tail)
          = (r.head?, b', none, ds.reverse ++ acc, fd st r.tail) := by
  induction h with
  | nil a =>
    intro b acc f hb1 hf
    obtain ⟨f1, rfl⟩ : ∃ f1, f = f1 + 1 := ⟨f - 1, by simp at hf; omega⟩
    refine ⟨b, hb1, ?_⟩
    simp only [List.nil_append, List.reverse_nil]
    exact digitsLoop_stop' _ _ _ _ _ _ _ _ h2 h1
  | @digit a c d ds n hc hrest ih =>
    intro b acc f hb1 hf
    obtain ⟨f1, rfl⟩ : ∃ f1, f = f1 + 1 := ⟨f - 1, by simp at hf; omega⟩
    have hnn : NoNul (ds ++ r) := hrest.noNul.append hr
    simp only [List.cons_append, List.head?_cons, List.tail_cons]
    rw [digitsLoop_digit hb hc, next_fd _ _ hnn]
    obtain ⟨b', hb', heq⟩ := ih (b ||| 1) (c :: acc) f1
      (or_one_cases b (by rcases hb1 with h | h <;> simp [h])) (by simp at hf; omega)
    exact ⟨b', hb', by rw [heq]; simp⟩
  | @sep a c d ds n hc hrest ih =>
    intro b acc f hb1 hf
    obtain ⟨f1, rfl⟩ : ∃ f1, f = f1 + 2 := ⟨f - 2, by simp at hf; omega⟩
    have hnn : NoNul (ds ++ r) := hrest.noNul.append hr
    have hnn' : NoNul (c :: (ds ++ r)) := NoNul.cons (digitOf_facts hc).nz hnn
    simp only [List.cons_append, List.head?_cons, List.tail_cons]
    rw [digitsLoop_sep, next_fd _ _ hnn']
    simp only [List.head?_cons, List.tail_cons]
    rw [digitsLoop_digit hb hc, next_fd _ _ hnn]
    have hb2 : b ||| 2 = 3 := by rcases hb1 with h | h <;> subst h <;> decide
    obtain ⟨b', hb', heq⟩ := ih (b ||| 2 ||| 1) (c :: '_' :: acc) f1
      (by rw [hb2]; decide) (by simp at hf; omega)
    exact ⟨b', hb', by rw [heq]; simp⟩


/-- the base a prefix letter announces -/
def prefixBase (p : Char) : Option Nat :=
  if p = 'x' ∨ p = 'X' then some 16 else if p = 'o' ∨ p = 'O' then some 8
  else if p = 'b' ∨ p = 'B' then some 2 else none

theorem prefixBase_cases {p : Char} {base : Nat} (h : prefixBase p = some base) :
    (p = 'x' ∧ base = 16) ∨ (p = 'X' ∧ base = 16) ∨ (p = 'o' ∧ base = 8) ∨ (p = 'O' ∧ base = 8) ∨
    (p = 'b' ∧ base = 2) ∨ (p = 'B' ∧ base = 2) := by
  unfold prefixBase at h
  split at h
  · rename_i hh; injection h with h; rcases hh with hh | hh <;> simp [hh, h.symm]
  · split at h
    · rename_i hh; injection h with h; rcases hh with hh | hh <;> simp [hh, h.symm]
    · split at h
      · rename_i hh; injection h with h; rcases hh with hh | hh <;> simp [hh, h.symm]
      · simp at h

theorem invalidSepLoop_from (hp : Bool) {base : Nat} (hbase : hp = true ∨ base ≤ 10)
    {a : Nat} {ds : List Char} {n : Nat} (h : DigitsFrom base a ds n) :
    invalidSepLoop hp ds '0' = false := by
  have htest : ∀ c d, digitOf base c = some d → (isDecimal c || (hp && isHex c)) = true := by
    intro c d hc
    have hf := digitOf_facts hc
    rcases hbase with hb | hb
    · simp [hb, hf.hex]
    · simp [(hf.dec (by have := hf.lt; omega)).1]
  induction h with
  | nil a => simp [invalidSepLoop]
  | @digit a c d ds n hc hrest ih =>
    rw [invalidSepLoop]
    simp only [(digitOf_facts hc).neUs, if_false, htest c d hc, if_true]
    exact ih
  | @sep a c d ds n hc hrest ih =>
    rw [invalidSepLoop]
    simp only [if_true, ne_eq, not_true_eq_false, if_false]
    rw [invalidSepLoop]
    simp only [(digitOf_facts hc).neUs, if_false, htest c d hc, if_true]
    exact ih

theorem invalidSep_based {p : Char} {base : Nat} (hp : prefixBase p = some base)
    {ds : List Char} {n : Nat} (h : BaseDigits base ds n) :
    invalidSep ('0' :: p :: ds) = false := by
  cases h with
  | mk hc hrest =>
    have hd := DigitsFrom.digit (a := 0) (by simpa using hc) (by simpa using hrest)
    rcases prefixBase_cases hp with ⟨h1, h2⟩ | ⟨h1, h2⟩ | ⟨h1, h2⟩ | ⟨h1, h2⟩ | ⟨h1, h2⟩ | ⟨h1, h2⟩ <;>
      subst h1 <;> subst h2
    · exact invalidSepLoop_from true (Or.inl rfl) hd
    · exact invalidSepLoop_from true (Or.inl rfl) hd
    · exact invalidSepLoop_from false (Or.inr (by decide)) hd
    · exact invalidSepLoop_from false (Or.inr (by decide)) hd
    · exact invalidSepLoop_from false (Or.inr (by decide)) hd
    · exact invalidSepLoop_from false (Or.inr (by decide)) hd


theorem zeroPrefix_based {p : Char} {base : Nat} (hp : prefixBase p = some base) (st : LState)
    (c : Char) (l : List Char) (hc : c.toNat ≠ 0) :
    zeroPrefix [] (fd st (p :: c :: l)) = some (base, false, 0, some c, [p, '0'], fd st l) := by
  rcases prefixBase_cases hp with ⟨h1, h2⟩ | ⟨h1, h2⟩ | ⟨h1, h2⟩ | ⟨h1, h2⟩ | ⟨h1, h2⟩ | ⟨h1, h2⟩ <;>
    subst h1 <;> subst h2 <;>
    (unfold zeroPrefix
     rw [next_fd_cons _ _ _ (by decide)]
     simp only [next_fd_cons _ _ _ hc]
     rfl)

theorem scanNumberTail_int' (o : Oracles) (base : Nat) (pp : Bool) (y : Option Char) (hy : EndsNumber o y)
    (b : Nat) (acc : List Char) (s : LState) (hsep : invalidSep acc.reverse = false) :
    scanNumberTail o .int false base pp y b none acc s = ⟨.int, acc.reverse, y, s⟩ := by
  unfold scanNumberTail fracPart expPart numFinish
  simp [hy.notExp, hy.notIdentL, hy.notIdent, hsep]

section
variable (o : Oracles) (ok : RoundTrip.OrOK o)
include ok

/-- a rune that ends a number is not a digit of any base -/
theorem endsNumber_stop (y : Option Char) (hy : EndsNumber o y) (hex : Bool) :
    ∀ c, y = some c → (if hex then isHex c else isDecimal c) = false := by
  intro c hc
  subst hc
  have hd : isDecimal c = false := by simpa [isDecimalR] using hy.notDigit
  cases hex with
  | false => simpa using hd
  | true =>
    simp only [if_true, isHex, hd, Bool.false_or]
    cases hh : (decide ('a' ≤ lowerBit c) && decide (lowerBit c ≤ 'f')) with
    | false => rfl
    | true =>
      exfalso
      simp only [Bool.and_eq_true, decide_eq_true_eq] at hh
      have a1 : 97 ≤ (lowerBit c).toNat := hh.1
      have a2 : (lowerBit c).toNat ≤ 102 := hh.2
      have hl : isLow (lowerBit c) = true := by
        simp only [isLow, Bool.and_eq_true, decide_eq_true_eq]
        refine ⟨hh.1, ?_⟩
        show (lowerBit c).toNat ≤ 122
        omega
      have := hy.notIdentL
      simp [isIdentStart, ok.lowS _ hl] at this

/-- the digits of a literal: first digit `c` in the look-ahead, then the digit loop to the end -/
theorem digits_run {base : Nat} (hb : base ≤ 16) {c : Char} {d : Nat} {rest : List Char} {n : Nat}
    (hc : digitOf base c = some d) (hrest : DigitsFrom base d rest n)
    (st : LState) (r : List Char) (hr : NoNul r) (hy : EndsNumber o r.head?) (acc : List Char) :
    ∃ b', (b' = 1 ∨ b' = 3) ∧
      digits base (some c) none acc (fd st (rest ++ r))
        = (r.head?, b', none, rest.reverse ++ c :: acc, fd st r.tail) := by
  unfold digits
  have hnn : NoNul (rest ++ r) := hrest.noNul.append hr
  rw [show (fd st (rest ++ r)).rest.length + 3 = ((fd st (rest ++ r)).rest.length + 2) + 1 from rfl,
    digitsLoop_digit hb hc, next_fd _ _ hnn]
  obtain ⟨b', hb', heq⟩ := digitsLoop_from base hb st r hr hy.notSep
    (endsNumber_stop o ok _ hy _) hrest (0 ||| 1) (c :: acc) ((fd st (rest ++ r)).rest.length + 2)
    (Or.inl (by decide)) (by simp; omega)
  exact ⟨b', hb', heq⟩

/-- **C03, prefixed integers**: `0x…`, `0o…`, `0b…` (prefix letter in either case, hex digits in
    either case, single underscores between digits) followed by a rune that does not continue a
    number is `INT_P` with exactly that text, whatever follows that rune -/
theorem tokAt_based {p : Char} {base : Nat} (hp : prefixBase p = some base)
    {ds : List Char} {n : Nat} (h : BaseDigits base ds n) :
    TokAt o (EndsNumber o) '0' (p :: ds) (.int, '0' :: p :: ds) := by
  intro f st r he hr hy
  have hsep := invalidSep_based hp h
  have hb : base ≤ 16 := by
    rcases prefixBase_cases hp with ⟨_, h2⟩ | ⟨_, h2⟩ | ⟨_, h2⟩ | ⟨_, h2⟩ | ⟨_, h2⟩ | ⟨_, h2⟩ <;> omega
  cases h with
  | @mk c d rest n hc hrest =>
    have hf := digitOf_facts hc
    have hx := ok.digitS '0' (by decide)
    have hid : isIdentStart o (some '0') = false := by simp [isIdentStart, hx]
    simp only [lexFrom]
    rw [skipWs_nonws _ _ _ (by decide)]
    simp only [hid, Bool.false_eq_true, if_false, show isDecimal '0' = true by decide, if_true]
    unfold scanNumber
    simp only [Bool.false_eq_true, if_false, if_true, List.cons_append]
    rw [zeroPrefix_based hp st c (rest ++ r) hf.nz]
    simp only []
    unfold scanNumberBody
    have hne : (some c = some '_') = False := by simp [hf.neUs]
    simp only [hne, if_false]
    obtain ⟨b', hb', heq⟩ := digits_run o ok hb hc hrest st r hr hy [p, '0']
    rw [heq]
    simp only [Nat.zero_or]
    have h1 : (b' &&& 1 = 0) = False := by rcases hb' with h | h <;> subst h <;> decide
    simp only [h1, if_false, hy.notDot]
    rw [scanNumberTail_int' o base false _ hy b' _ _ (by simpa using hsep)]
    simp

omit ok in
theorem invalidSep_dec {d : Char} {ds : List Char} {n : Nat} (h : BaseDigits 10 (d :: ds) n) (hd : d ≠ '0') :
    invalidSep (d :: ds) = false := by
  cases h with
  | @mk _ v _ _ hc hrest =>
    have hf := digitOf_facts hc
    have hdec := (hf.dec hf.lt).1
    have hloop : invalidSepLoop false (d :: ds) '.' = false := by
      rw [invalidSepLoop]
      simp only [hf.neUs, if_false, hdec, Bool.true_or, if_true]
      exact invalidSepLoop_from false (Or.inr (Nat.le_refl _)) hrest
    unfold invalidSep
    split
    · rename_i heq
      injection heq with h1 h2
      exact absurd h1 hd
    · exact hloop

/-- **C03, decimal integers with separators**: a decimal digit string without a leading zero, with
    single underscores between digits, followed by a rune that does not continue a number, is
    `INT_P` with exactly that text -/
theorem tokAt_dec_sep {d : Char} {ds : List Char} {n : Nat} (h : BaseDigits 10 (d :: ds) n) (hd : d ≠ '0') :
    TokAt o (EndsNumber o) d ds (.int, d :: ds) := by
  intro f st r he hr hy
  have hsep := invalidSep_dec h hd
  cases h with
  | @mk _ v _ _ hc hrest =>
    have hf := digitOf_facts hc
    have hdec := (hf.dec hf.lt).1
    have hdd := isDecimal_facts d hdec
    have hx := ok.digitS d hdec
    have hid : isIdentStart o (some d) = false := by
      simp [isIdentStart, hdd.2.1, hdd.2.2.2.2.1, hx]
    simp only [lexFrom]
    rw [skipWs_nonws _ _ _ hdd.2.2.2.1]
    simp only [hid, Bool.false_eq_true, if_false, hdec, if_true]
    unfold scanNumber
    simp only [Bool.false_eq_true, if_false, hd]
    unfold scanNumberBody
    have hne : (some d = some '_') = False := by simp [hf.neUs]
    simp only [hne, if_false]
    obtain ⟨b', hb', heq⟩ := digits_run o ok (by decide : 10 ≤ 16) hc hrest st r hr hy []
    rw [heq]
    simp only [Nat.zero_or]
    have h1 : (b' &&& 1 = 0) = False := by rcases hb' with h | h <;> subst h <;> decide
    simp only [h1, if_false, hy.notDot]
    rw [scanNumberTail_int' o 10 true _ hy b' _ _ (by simpa using hsep)]
    simp

end

/-! ## (3) Value -/

theorem uintLoop_from {base a : Nat} {ds : List Char} {n : Nat} (h : DigitsFrom base a ds n) :
    uintLoop base ds a = some n := by
  induction h with
  | nil a => rfl
  | @digit a c d ds n hc hrest ih =>
    have hf := digitOf_facts hc
    rw [uintLoop]
    simp only [hf.neUs, if_false, hf.v36, ge_iff_le, Nat.not_le.mpr hf.lt]
    exact ih
  | @sep a c d ds n hc hrest ih =>
    have hf := digitOf_facts hc
    rw [uintLoop]
    simp only [if_true]
    rw [uintLoop]
    simp only [hf.neUs, if_false, hf.v36, ge_iff_le, Nat.not_le.mpr hf.lt]
    exact ih

theorem uintLoop_baseDigits {base : Nat} {ds : List Char} {n : Nat} (h : BaseDigits base ds n) :
    uintLoop base ds 0 = some n := by
  cases h with
  | mk hc hrest => exact uintLoop_from (DigitsFrom.digit (a := 0) hc (by simpa using hrest))

theorem underscoreOK_go_from (hex : Bool) {base : Nat} (hbase : hex = true ∨ base ≤ 10)
    {a : Nat} {ds : List Char} {n : Nat} (h : DigitsFrom base a ds n) :
    Decimal.underscoreOK.go hex ds '0' = true := by
  have htest : ∀ c d, digitOf base c = some d →
      (Decimal.isDigit c || (hex && decide ('a' ≤ Decimal.lowerC c) && decide (Decimal.lowerC c ≤ 'f'))) = true := by
    intro c d hc
    have hf := digitOf_facts hc
    rcases hbase with hb | hb
    · cases hd : Decimal.isDigit c with
      | true => rfl
      | false => simp [hb, (hf.uok hd).1, (hf.uok hd).2]
    · simp [(hf.dec (by have := hf.lt; omega)).2.1]
  have hus : (Decimal.isDigit '_' || (hex && decide ('a' ≤ Decimal.lowerC '_') && decide (Decimal.lowerC '_' ≤ 'f'))) = false := by
    cases hex <;> decide
  induction h with
  | nil a => simp [Decimal.underscoreOK.go]
  | @digit a c d ds n hc hrest ih =>
    rw [Decimal.underscoreOK.go]
    simp only [htest c d hc, if_true]
    exact ih
  | @sep a c d ds n hc hrest ih =>
    rw [Decimal.underscoreOK.go]
    simp only [hus, Bool.false_eq_true, if_false, if_true, bne_self_eq_false]
    rw [Decimal.underscoreOK.go]
    simp only [htest c d hc, if_true]
    exact ih

theorem basePrefix_based {p : Char} {base : Nat} (hp : prefixBase p = some base) (c : Char) (rest : List Char) :
    basePrefix '0' (p :: c :: rest) = (base, c :: rest) := by
  rcases prefixBase_cases hp with ⟨h1, h2⟩ | ⟨h1, h2⟩ | ⟨h1, h2⟩ | ⟨h1, h2⟩ | ⟨h1, h2⟩ | ⟨h1, h2⟩ <;>
    subst h1 <;> subst h2 <;> rfl

theorem underscoreOK_based {p : Char} {base : Nat} (hp : prefixBase p = some base)
    {ds : List Char} {n : Nat} (h : BaseDigits base ds n) :
    Decimal.underscoreOK ('0' :: p :: ds) = true := by
  cases h with
  | mk hc hrest =>
    have hd := DigitsFrom.digit (a := 0) (by simpa using hc) (by simpa using hrest)
    rcases prefixBase_cases hp with ⟨h1, h2⟩ | ⟨h1, h2⟩ | ⟨h1, h2⟩ | ⟨h1, h2⟩ | ⟨h1, h2⟩ | ⟨h1, h2⟩ <;>
      subst h1 <;> subst h2
    · exact underscoreOK_go_from true (Or.inl rfl) hd
    · exact underscoreOK_go_from true (Or.inl rfl) hd
    · exact underscoreOK_go_from false (Or.inr (by decide)) hd
    · exact underscoreOK_go_from false (Or.inr (by decide)) hd
    · exact underscoreOK_go_from false (Or.inr (by decide)) hd
    · exact underscoreOK_go_from false (Or.inr (by decide)) hd

/-- `strconv.ParseInt(…, 0, bits)` on a prefixed literal, sign taken off: the value of the digits,
    range-checked -/
theorem parseIntCore_based (bits : Nat) (neg : Bool) {p : Char} {base : Nat} (hp : prefixBase p = some base)
    {ds : List Char} {n : Nat} (h : BaseDigits base ds n) :
    parseIntCore bits neg ('0' :: p :: ds) = intRange bits neg n := by
  have hu := uintLoop_baseDigits h
  have hok := underscoreOK_based hp h
  cases h with
  | @mk c d rest n hc hrest =>
    unfold parseIntCore
    simp only [basePrefix_based hp c rest, hu, hok, Bool.not_true, Bool.and_false, Bool.false_eq_true, if_false]

theorem underscoreOK_plain (d : Char) (ds : List Char) (h0 : d ≠ '0') (h1 : d ≠ '-') (h2 : d ≠ '+') :
    Decimal.underscoreOK (d :: ds) = Decimal.underscoreOK.go false (d :: ds) '^' := by
  unfold Decimal.underscoreOK
  split
  · rename_i heq; injection heq with a b; exact absurd a h1
  · rename_i heq; injection heq with a b; exact absurd a h2
  · dsimp only
    split
    · rename_i heq; injection heq with a b; exact absurd a h0
    · rfl

/-- `strconv.ParseInt(…, 0, bits)` on a decimal literal with separators, sign taken off -/
theorem parseIntCore_dec_sep (bits : Nat) (neg : Bool) {d : Char} {ds : List Char} {n : Nat}
    (h : BaseDigits 10 (d :: ds) n) (hd : d ≠ '0') :
    parseIntCore bits neg (d :: ds) = intRange bits neg n := by
  have hu := uintLoop_baseDigits h
  cases h with
  | @mk _ v _ _ hc hrest =>
    have hf := digitOf_facts hc
    have hok : Decimal.underscoreOK (d :: ds) = true := by
      rw [underscoreOK_plain d ds hd hf.neSign.1 hf.neSign.2, Decimal.underscoreOK.go]
      simp only [(hf.dec hf.lt).2.1, Bool.true_or, if_true]
      exact underscoreOK_go_from false (Or.inr (Nat.le_refl _)) hrest
    have hbp : basePrefix d ds = (10, d :: ds) := by simp [basePrefix, hd]
    unfold parseIntCore
    simp only [hbp, hu, hok, Bool.not_true, Bool.and_false, Bool.false_eq_true, if_false]

theorem intRange_pos (bits n : Nat) (h : n < 2 ^ (bits - 1)) : intRange bits false n = some (n : Int) := by
  simp [intRange, Nat.not_le.mpr h]

theorem intRange_neg' (bits n : Nat) (h : n ≤ 2 ^ (bits - 1)) : intRange bits true n = some (-(n : Int)) := by
  simp [intRange, Nat.not_lt.mpr h]

/-- **C03, value of a prefixed integer literal** (`bits` = 64 for `newInteger`, 32 for `.**{…}` levels) -/
theorem parseIntBase0_based (bits : Nat) {p : Char} {base : Nat} (hp : prefixBase p = some base)
    {ds : List Char} {n : Nat} (h : BaseDigits base ds n) (hn : n < 2 ^ (bits - 1)) :
    parseIntBase0 bits ('0' :: p :: ds) = some (n : Int) := by
  rw [parseIntBase0_unsigned bits '0' _ (by decide) (by decide), parseIntCore_based bits false hp h,
    intRange_pos bits n hn]

theorem parseInt0_based {p : Char} {base : Nat} (hp : prefixBase p = some base)
    {ds : List Char} {n : Nat} (h : BaseDigits base ds n) (hn : n < 2 ^ 63) :
    parseInt0 ('0' :: p :: ds) = some (n : Int) :=
  parseIntBase0_based 64 hp h hn

/-- **C03**: the node `newInteger` builds from a prefixed literal -/
theorem newInteger_based {p : Char} {base : Nat} (hp : prefixBase p = some base)
    {ds : List Char} {n : Nat} (h : BaseDigits base ds n) (hn : n < 2 ^ 63) (s : PS) :
    newInteger ('0' :: p :: ds) s = .ok { node := .integer (n : Int) none, lit := '0' :: p :: ds } s := by
  unfold newInteger
  rw [parseInt0_based hp h hn]
  rfl

theorem parseIntBase0_dec_sep (bits : Nat) {d : Char} {ds : List Char} {n : Nat}
    (h : BaseDigits 10 (d :: ds) n) (hd : d ≠ '0') (hn : n < 2 ^ (bits - 1)) :
    parseIntBase0 bits (d :: ds) = some (n : Int) := by
  have hs : d ≠ '-' ∧ d ≠ '+' := by
    cases h with
    | mk hc _ => exact (digitOf_facts hc).neSign
  rw [parseIntBase0_unsigned bits d _ hs.1 hs.2, parseIntCore_dec_sep bits false h hd,
    intRange_pos bits n hn]

theorem parseInt0_dec_sep {d : Char} {ds : List Char} {n : Nat}
    (h : BaseDigits 10 (d :: ds) n) (hd : d ≠ '0') (hn : n < 2 ^ 63) :
    parseInt0 (d :: ds) = some (n : Int) :=
  parseIntBase0_dec_sep 64 h hd hn

theorem newInteger_dec_sep {d : Char} {ds : List Char} {n : Nat}
    (h : BaseDigits 10 (d :: ds) n) (hd : d ≠ '0') (hn : n < 2 ^ 63) (s : PS) :
    newInteger (d :: ds) s = .ok { node := .integer (n : Int) none, lit := d :: ds } s := by
  unfold newInteger
  rw [parseInt0_dec_sep h hd hn]
  rfl

/-! ## (4) Negation -/

theorem negLit_based (p : Char) (ds : List Char) : negLit ('0' :: p :: ds) = '-' :: '0' :: p :: ds := rfl

theorem parseInt0_neg_based {p : Char} {base : Nat} (hp : prefixBase p = some base)
    {ds : List Char} {n : Nat} (h : BaseDigits base ds n) (hn : n ≤ 2 ^ 63) :
    parseInt0 (negLit ('0' :: p :: ds)) = some (-(n : Int)) := by
  rw [negLit_based]
  show parseIntCore 64 true ('0' :: p :: ds) = _
  rw [parseIntCore_based 64 true hp h, intRange_neg' 64 n hn]

theorem negLit_dec_sep {d : Char} {ds : List Char} {n : Nat} (h : BaseDigits 10 (d :: ds) n) :
    negLit (d :: ds) = '-' :: d :: ds := by
  have hs : d ≠ '-' := by
    cases h with
    | mk hc _ => exact (digitOf_facts hc).neSign.1
  unfold negLit
  split
  · rename_i heq; injection heq with a b; exact absurd a hs
  · rfl

theorem parseInt0_neg_dec_sep {d : Char} {ds : List Char} {n : Nat}
    (h : BaseDigits 10 (d :: ds) n) (hd : d ≠ '0') (hn : n ≤ 2 ^ 63) :
    parseInt0 (negLit (d :: ds)) = some (-(n : Int)) := by
  rw [negLit_dec_sep h]
  show parseIntCore 64 true (d :: ds) = _
  rw [parseIntCore_dec_sep 64 true h hd, intRange_neg' 64 n hn]

/-! ## (1, continued) building digit strings; the generators -/

theorem DigitsFrom.append {base a : Nat} {ds : List Char} {n : Nat} (h : DigitsFrom base a ds n)
    {ds' : List Char} {m : Nat} (h' : DigitsFrom base n ds' m) : DigitsFrom base a (ds ++ ds') m := by
  induction h with
  | nil a => exact h'
  | digit hc _ ih => exact DigitsFrom.digit hc (ih h')
  | sep hc _ ih => exact DigitsFrom.sep hc (ih h')

theorem BaseDigits.one {base : Nat} {c : Char} {d : Nat} (hc : digitOf base c = some d) :
    BaseDigits base [c] d := BaseDigits.mk hc (DigitsFrom.nil d)

/-- one more digit at the end -/
theorem BaseDigits.snoc {base : Nat} {ds : List Char} {n : Nat} (h : BaseDigits base ds n)
    {c : Char} {d : Nat} (hc : digitOf base c = some d) : BaseDigits base (ds ++ [c]) (n * base + d) := by
  cases h with
  | mk hc0 hrest => exact BaseDigits.mk hc0 (hrest.append (DigitsFrom.digit hc (DigitsFrom.nil _)))

/-- a separator and one more digit at the end -/
theorem BaseDigits.snocSep {base : Nat} {ds : List Char} {n : Nat} (h : BaseDigits base ds n)
    {c : Char} {d : Nat} (hc : digitOf base c = some d) :
    BaseDigits base (ds ++ ['_', c]) (n * base + d) := by
  cases h with
  | mk hc0 hrest => exact BaseDigits.mk hc0 (hrest.append (DigitsFrom.sep hc (DigitsFrom.nil _)))

/-- the value is determined by the text -/
theorem BaseDigits.value_unique {base : Nat} {ds : List Char} {n m : Nat}
    (h1 : BaseDigits base ds n) (h2 : BaseDigits base ds m) : n = m := by
  have a := uintLoop_baseDigits h1
  have b := uintLoop_baseDigits h2
  rw [a] at b
  injection b

theorem hexChar_digitChar (d : Nat) (h : d < 16) :
    hexChar (some (Nat.digitChar d)) = some d ∧ hexChar (some (Nat.digitChar d).toUpper) = some d := by
  rcases lt16_cases d h with h | h | h | h | h | h | h | h | h | h | h | h | h | h | h | h <;> subst h <;> decide

/-- the digits `Nat.toDigits` writes, in either case, form a digit string of the value written -/
theorem baseDigits_toDigits (base : Nat) (h2 : 2 ≤ base) (h16 : base ≤ 16) (g : Char → Char)
    (hg : ∀ d, d < 16 → hexChar (some (g (Nat.digitChar d))) = some d) (n : Nat) :
    BaseDigits base ((Nat.toDigits base n).map g) n := by
  have hdig : ∀ d, d < base → digitOf base (g (Nat.digitChar d)) = some d := by
    intro d hd
    simp [digitOf, hg d (by omega), hd]
  induction n using Nat.strongRecOn with
  | _ n ih =>
    by_cases hlt : n < base
    · rw [Nat.toDigits_of_lt_base hlt]
      exact BaseDigits.one (hdig n hlt)
    · have hq : 0 < n / base := Nat.div_pos (by omega) (by omega)
      have hm : n % base < base := Nat.mod_lt _ (by omega)
      have happ := Nat.toDigits_append_toDigits (b := base) (n := n / base) (d := n % base) (by omega) hq hm
      rw [Nat.div_add_mod] at happ
      rw [← happ, Nat.toDigits_of_lt_base hm, List.map_append]
      have := (ih (n / base) (Nat.div_lt_self (by omega) (by omega))).snoc (hdig (n % base) hm)
      rw [Nat.div_add_mod'] at this
      exact this

/-- `strconv.FormatInt(n, 16)`, optionally in upper case -/
def hexDigitsOf (upper : Bool) (n : Nat) : List Char :=
  (Nat.toDigits 16 n).map (if upper then Char.toUpper else id)
/-- `strconv.FormatInt(n, 8)` -/
def octDigitsOf (n : Nat) : List Char := Nat.toDigits 8 n
/-- `strconv.FormatInt(n, 2)` -/
def binDigitsOf (n : Nat) : List Char := Nat.toDigits 2 n

theorem baseDigits_hexDigitsOf (upper : Bool) (n : Nat) : BaseDigits 16 (hexDigitsOf upper n) n := by
  unfold hexDigitsOf
  cases upper with
  | true => exact baseDigits_toDigits 16 (by decide) (by decide) _ (fun d hd => (hexChar_digitChar d hd).2) n
  | false => exact baseDigits_toDigits 16 (by decide) (by decide) _ (fun d hd => (hexChar_digitChar d hd).1) n

theorem baseDigits_octDigitsOf (n : Nat) : BaseDigits 8 (octDigitsOf n) n := by
  have := baseDigits_toDigits 8 (by decide) (by decide) id (fun d hd => (hexChar_digitChar d hd).1) n
  simpa [octDigitsOf] using this

theorem baseDigits_binDigitsOf (n : Nat) : BaseDigits 2 (binDigitsOf n) n := by
  have := baseDigits_toDigits 2 (by decide) (by decide) id (fun d hd => (hexChar_digitChar d hd).1) n
  simpa [binDigitsOf] using this

theorem baseDigits_decDigits (n : Nat) : BaseDigits 10 (Nat.toDigits 10 n) n := by
  have := baseDigits_toDigits 10 (by decide) (by decide) id (fun d hd => (hexChar_digitChar d hd).1) n
  simpa using this

/-! ### a checker for `BaseDigits` (so that instances are decided by evaluation) -/

/-- `sep` = the previous character was an underscore -/
def digitsVal (base : Nat) : Bool → List Char → Nat → Option Nat
  | sep, [], a => if sep then none else some a
  | sep, c :: ds, a =>
    if c = '_' then (if sep then none else digitsVal base true ds a)
    else match digitOf base c with
      | some d => digitsVal base false ds (a * base + d)
      | none => none

def baseDigitsVal (base : Nat) : List Char → Option Nat
  | [] => none
  | c :: ds => match digitOf base c with
    | some d => digitsVal base false ds d
    | none => none

theorem digitOf_underscore (base : Nat) : digitOf base '_' = none := by
  simp [digitOf, hexChar]

theorem digitsVal_of_from {base a : Nat} {ds : List Char} {n : Nat} (h : DigitsFrom base a ds n) :
    digitsVal base false ds a = some n := by
  induction h with
  | nil a => simp [digitsVal]
  | @digit a c d ds n hc _ ih =>
    rw [digitsVal]
    simp only [(digitOf_facts hc).neUs, if_false, hc]
    exact ih
  | @sep a c d ds n hc _ ih =>
    rw [digitsVal]
    simp only [if_true, Bool.false_eq_true, if_false]
    rw [digitsVal]
    simp only [(digitOf_facts hc).neUs, if_false, hc]
    exact ih

theorem from_of_digitsVal (base : Nat) (ds : List Char) :
    ∀ (a n : Nat),
      (digitsVal base false ds a = some n → DigitsFrom base a ds n) ∧
      (digitsVal base true ds a = some n →
        ∃ c d ds', ds = c :: ds' ∧ digitOf base c = some d ∧ DigitsFrom base (a * base + d) ds' n) := by
  induction ds with
  | nil =>
    intro a n
    constructor
    · intro h
      simp [digitsVal] at h
      subst h
      exact DigitsFrom.nil a
    · intro h
      simp [digitsVal] at h
  | cons c ds ih =>
    intro a n
    by_cases hc : c = '_'
    · subst hc
      constructor
      · intro h
        rw [digitsVal] at h
        simp only [if_true, Bool.false_eq_true, if_false] at h
        obtain ⟨c', d, ds', h1, h2, h3⟩ := (ih a n).2 h
        subst h1
        exact DigitsFrom.sep h2 h3
      · intro h
        rw [digitsVal] at h
        simp at h
    · cases hd : digitOf base c with
      | none =>
        constructor <;> (intro h; rw [digitsVal] at h; simp [hc, hd] at h)
      | some d =>
        constructor
        · intro h
          rw [digitsVal] at h
          simp only [hc, if_false, hd] at h
          exact DigitsFrom.digit hd ((ih _ n).1 h)
        · intro h
          rw [digitsVal] at h
          simp only [hc, if_false, hd] at h
          exact ⟨c, d, ds, rfl, hd, (ih _ n).1 h⟩

theorem baseDigits_iff (base : Nat) (ds : List Char) (n : Nat) :
    BaseDigits base ds n ↔ baseDigitsVal base ds = some n := by
  constructor
  · intro h
    cases h with
    | mk hc hrest => simp only [baseDigitsVal, hc]; exact digitsVal_of_from hrest
  · intro h
    cases ds with
    | nil => simp [baseDigitsVal] at h
    | cons c ds =>
      cases hd : digitOf base c with
      | none => simp [baseDigitsVal, hd] at h
      | some d =>
        simp only [baseDigitsVal, hd] at h
        exact BaseDigits.mk hd ((from_of_digitsVal base ds d n).1 h)

instance (base : Nat) (ds : List Char) (n : Nat) : Decidable (BaseDigits base ds n) :=
  decidable_of_iff _ (baseDigits_iff base ds n).symm

/-! ## (5) Concrete evaluations -/

/-- the specification is inhabited as intended -/
example : BaseDigits 16 "1F".toList 31 ∧ BaseDigits 16 "1f".toList 31 ∧ BaseDigits 16 "dead_BEEF".toList 3735928559 ∧
    BaseDigits 8 "17".toList 15 ∧ BaseDigits 2 "1_01".toList 5 ∧ BaseDigits 10 "1_000".toList 1000 ∧
    BaseDigits 10 "007".toList 7 := by decide

/-- … and rejects what it should -/
example : ¬ BaseDigits 10 "1__0".toList 10 ∧ ¬ BaseDigits 10 "1_".toList 1 ∧ ¬ BaseDigits 10 "_1".toList 1 ∧
    ¬ BaseDigits 16 "_1F".toList 31 ∧ ¬ BaseDigits 8 "18".toList 16 ∧ ¬ BaseDigits 2 "12".toList 4 ∧
    ¬ BaseDigits 10 "1F".toList 31 ∧ ¬ BaseDigits 16 "".toList 0 ∧ ¬ BaseDigits 16 "1F".toList 30 := by decide

/-- the theorems instantiated: `0x1F` and `1_000` as tokens, whatever the oracles and whatever follows -/
example (o : Oracles) (ok : RoundTrip.OrOK o) :
    TokAt o (EndsNumber o) '0' "x1F".toList (.int, "0x1F".toList) :=
  tokAt_based o ok (p := 'x') rfl (n := 31) (by decide)

example (o : Oracles) (ok : RoundTrip.OrOK o) :
    TokAt o (EndsNumber o) '1' "_000".toList (.int, "1_000".toList) :=
  tokAt_dec_sep o ok (n := 1000) (by decide) (by decide)

example (s : PS) : newInteger "0x1F".toList s = .ok { node := .integer 31 none, lit := "0x1F".toList } s :=
  newInteger_based (p := 'x') rfl (n := 31) (by decide) (by decide) s

example : parseInt0 (negLit "0x1F".toList) = some (-31) :=
  parseInt0_neg_based (p := 'x') rfl (n := 31) (by decide) (by decide)

/-- the accepted spellings denote their value (the model, ASCII oracles) -/
theorem spellings_accepted :
    run "0x1F" = "31" ∧ run "0X1f" = "31" ∧ run "0o17" = "15" ∧ run "0O17" = "15" ∧ run "0b101" = "5" ∧
    run "0B101" = "5" ∧ run "1_000" = "1000" ∧ run "0x1_F" = "31" ∧ run "0xdead_BEEF" = "3735928559" ∧
    run "0b1_0_1" = "5" ∧ run "-0x1F" = "-31" ∧ run "0x1e" = "30" ∧ run "0x1E" = "30" ∧
    run "0x7fffffffffffffff" = "9223372036854775807" ∧ run "0x1F.abs()" = "(31).abs()" ∧
    run "0x1F + 1" = "(31 + 1)" := by
  decide +kernel

/-- the spellings that are not accepted -/
theorem spellings_rejected :
    run "017" = "ERR" ∧ run "1__0" = "ERR" ∧ run "0x" = "ERR" ∧ run "1_" = "ERR" ∧ run "0_1" = "ERR" ∧
    run "00" = "ERR" ∧ run "0x1_" = "ERR" ∧ run "0x1__F" = "ERR" ∧ run "0o8" = "ERR" ∧ run "0o18" = "ERR" ∧
    run "0b2" = "ERR" ∧ run "0b12" = "ERR" ∧ run "0xg" = "ERR" ∧ run "0x1g" = "ERR" ∧ run "0b1e" = "ERR" ∧
    run "0o1e1" = "ERR" ∧ run "0x8000000000000000" = "ERR" ∧ run "_1" = "ERR" := by
  decide +kernel

/-- **observation**: an underscore directly after the base prefix (`0x_1F`, legal in Go source and
    for `strconv.ParseInt(…, 0, …)`, hence expected by the task) is NOT accepted: `scanNumber`
    reports "underscore disallowed at start of numeric literal" (`if ch == '_'` after the prefix
    switch; `scanNumberBody` in the model).  PostgreSQL's jsonpath scanner agrees
    (`hexinteger 0[xX]{hexdigit}(_?{hexdigit})*`), so `BaseDigits` does not include this form. -/
theorem underscore_after_prefix_rejected :
    run "0x_1F" = "ERR" ∧ run "0o_17" = "ERR" ∧ run "0b_101" = "ERR" ∧
    parseInt0 "0x_1F".toList = some 31 := by
  decide +kernel

/-! ## Summary corollaries for the generated spellings -/

/-- **C03** for `0x`/`0X` + `FormatInt(n, 16)` in either case: token, value, negated value -/
theorem hex_literal (o : Oracles) (ok : RoundTrip.OrOK o) {p : Char} (hp : prefixBase p = some 16) (upper : Bool) (n : Nat) :
    TokAt o (EndsNumber o) '0' (p :: hexDigitsOf upper n) (.int, '0' :: p :: hexDigitsOf upper n) ∧
    (n < 2 ^ 63 → parseInt0 ('0' :: p :: hexDigitsOf upper n) = some (n : Int)) ∧
    (n ≤ 2 ^ 63 → parseInt0 (negLit ('0' :: p :: hexDigitsOf upper n)) = some (-(n : Int))) :=
  ⟨tokAt_based o ok hp (baseDigits_hexDigitsOf upper n),
   parseInt0_based hp (baseDigits_hexDigitsOf upper n),
   parseInt0_neg_based hp (baseDigits_hexDigitsOf upper n)⟩

theorem oct_literal (o : Oracles) (ok : RoundTrip.OrOK o) {p : Char} (hp : prefixBase p = some 8) (n : Nat) :
    TokAt o (EndsNumber o) '0' (p :: octDigitsOf n) (.int, '0' :: p :: octDigitsOf n) ∧
    (n < 2 ^ 63 → parseInt0 ('0' :: p :: octDigitsOf n) = some (n : Int)) ∧
    (n ≤ 2 ^ 63 → parseInt0 (negLit ('0' :: p :: octDigitsOf n)) = some (-(n : Int))) :=
  ⟨tokAt_based o ok hp (baseDigits_octDigitsOf n),
   parseInt0_based hp (baseDigits_octDigitsOf n),
   parseInt0_neg_based hp (baseDigits_octDigitsOf n)⟩

theorem bin_literal (o : Oracles) (ok : RoundTrip.OrOK o) {p : Char} (hp : prefixBase p = some 2) (n : Nat) :
    TokAt o (EndsNumber o) '0' (p :: binDigitsOf n) (.int, '0' :: p :: binDigitsOf n) ∧
    (n < 2 ^ 63 → parseInt0 ('0' :: p :: binDigitsOf n) = some (n : Int)) ∧
    (n ≤ 2 ^ 63 → parseInt0 (negLit ('0' :: p :: binDigitsOf n)) = some (-(n : Int))) :=
  ⟨tokAt_based o ok hp (baseDigits_binDigitsOf n),
   parseInt0_based hp (baseDigits_binDigitsOf n),
   parseInt0_neg_based hp (baseDigits_binDigitsOf n)⟩

/-! # C03, the non-integer number forms: `D.D`, `D.`, `.D`, and all of them (and `D`) with an exponent

## (1) The accepted texts -/

/-- continuation of a decimal digit string after a digit: `digit` or `_ digit`, repeatedly -/
inductive DigsFrom : List Char → Prop
  | nil : DigsFrom []
  | digit {c : Char} {ds : List Char} : isDecimal c = true → DigsFrom ds → DigsFrom (c :: ds)
  | sep {c : Char} {ds : List Char} : isDecimal c = true → DigsFrom ds → DigsFrom ('_' :: c :: ds)

/-- `D`: a non-empty string of decimal digits, starting and ending with a digit, with at most one
    `_` between two successive digits (PostgreSQL: `{decdigit}(_?{decdigit})*`) -/
inductive Digs : List Char → Prop
  | mk {c : Char} {ds : List Char} : isDecimal c = true → DigsFrom ds → Digs (c :: ds)

/-- the integer part `d :: ds`: digits without a leading zero, or exactly `0`
    (PostgreSQL: `decinteger = 0|[1-9](_?{decdigit})*`) -/
def IntPart (d : Char) (ds : List Char) : Prop :=
  isDecimal d = true ∧ DigsFrom ds ∧ (d = '0' → ds = [])

/-- the digits after the dot: none, or `D` -/
inductive FracOpt : List Char → Prop
  | none : FracOpt []
  | some {fr : List Char} : Digs fr → FracOpt fr

/-- an exponent: `e` or `E`, an optional sign, `D` -/
inductive ExpSuffix : List Char → Prop
  | mk {x : Char} {sg ds : List Char} : (x = 'e' ∨ x = 'E') → (sg = [] ∨ sg = ['+'] ∨ sg = ['-']) → Digs ds →
      ExpSuffix (x :: (sg ++ ds))

/-- an optional exponent -/
inductive Suffix : List Char → Prop
  | none : Suffix []
  | some {e : List Char} : ExpSuffix e → Suffix e

/-- what follows the integer part of a non-integer literal: a dot, optional fraction digits and an
    optional exponent — or an exponent alone -/
inductive AfterInt : List Char → Prop
  | dot {fr e : List Char} : FracOpt fr → Suffix e → AfterInt ('.' :: (fr ++ e))
  | exp {e : List Char} : ExpSuffix e → AfterInt e

/-- **the non-integer number forms**:
    * `point`: `D.D`, `D.`, each optionally with an exponent (`1.5`, `5.`, `1.5E-3`, `5.e1`);
    * `intExp`: `D` with an exponent (`1e3`);
    * `lead`: `.D`, optionally with an exponent (`.5`, `.5e+2`). -/
inductive FloatForm : List Char → Prop
  | point {d : Char} {ds fr e : List Char} : IntPart d ds → FracOpt fr → Suffix e →
      FloatForm (d :: (ds ++ '.' :: (fr ++ e)))
  | intExp {d : Char} {ds e : List Char} : IntPart d ds → ExpSuffix e → FloatForm (d :: (ds ++ e))
  | lead {fr e : List Char} : Digs fr → Suffix e → FloatForm ('.' :: (fr ++ e))

/-- the rune after a non-integer number literal does not continue it: not a digit, not `_`, not
    `e`/`E`, not an identifier start (neither as it is nor lower-cased: `scanNumber` tests both).
    **A dot is allowed**: after a fraction, after `D.` and after an exponent a dot ends the token
    (`1.5.abs()`, `1..abs()`, `1e1.abs()`), unlike after a plain integer (`EndsNumber.notDot`). -/
structure EndsNumeric (o : Oracles) (y : Option Char) : Prop where
  notDigit : isDecimalR y = false
  notSep : y ≠ some '_'
  notExp : y.map lowerBit ≠ some 'e'
  notIdentL : isIdentStart o (y.map lowerBit) = false
  notIdent : isIdentStart o y = false

theorem EndsNumber.endsNumeric {o : Oracles} {y : Option Char} (h : EndsNumber o y) : EndsNumeric o y :=
  ⟨h.notDigit, h.notSep, h.notExp, h.notIdentL, h.notIdent⟩

/-! ### no NUL -/

theorem DigsFrom.noNul {ds : List Char} (h : DigsFrom ds) : NoNul ds := by
  induction h with
  | nil => exact NoNul.nil
  | digit hc _ ih => exact NoNul.cons (isDecimal_facts _ hc).1 ih
  | sep hc _ ih => exact NoNul.cons (by decide) (NoNul.cons (isDecimal_facts _ hc).1 ih)

theorem Digs.noNul {ds : List Char} (h : Digs ds) : NoNul ds := by
  cases h with
  | mk hc hr => exact NoNul.cons (isDecimal_facts _ hc).1 hr.noNul

theorem FracOpt.noNul {fr : List Char} (h : FracOpt fr) : NoNul fr := by
  cases h with
  | none => exact NoNul.nil
  | some h => exact h.noNul

theorem ExpSuffix.noNul {e : List Char} (h : ExpSuffix e) : NoNul e := by
  cases h with
  | mk hx hsg hds =>
    refine NoNul.cons (by rcases hx with rfl | rfl <;> decide) (NoNul.append ?_ hds.noNul)
    rcases hsg with rfl | rfl | rfl
    · exact NoNul.nil
    · exact NoNul.cons (by decide) NoNul.nil
    · exact NoNul.cons (by decide) NoNul.nil

theorem Suffix.noNul {e : List Char} (h : Suffix e) : NoNul e := by
  cases h with
  | none => exact NoNul.nil
  | some h => exact h.noNul

theorem AfterInt.noNul {tl : List Char} (h : AfterInt tl) : NoNul tl := by
  cases h with
  | dot hfr he => exact NoNul.cons (by decide) (hfr.noNul.append he.noNul)
  | exp he => exact he.noNul

/-! ## (2) Lexing -/

/-- the digit loop stops -/
def Stops (y : Option Char) : Prop := isDecimalR y = false ∧ y ≠ some '_'

theorem digitsLoop_digitF (maxCh f b : Nat) (inv : Option Char) (acc : List Char) (s : LState) {c : Char}
    (hc : isDecimal c = true) :
    ∃ inv', digitsLoop false maxCh (f + 1) (some c) b inv acc s
      = digitsLoop false maxCh f (next s).1 (b ||| 1) inv' (c :: acc) (next s).2 := by
  have hdd := isDecimal_facts c hc
  rw [digitsLoop]
  simp only [hdd.2.1, if_false, hc, Bool.false_eq_true, if_true]
  exact ⟨_, rfl⟩

theorem digitsLoop_sepF (maxCh f : Nat) (b : Nat) (inv : Option Char) (acc : List Char) (s : LState) :
    digitsLoop false maxCh (f + 1) (some '_') b inv acc s
      = digitsLoop false maxCh f (next s).1 (b ||| 2) inv ('_' :: acc) (next s).2 := by
  rw [digitsLoop]
  simp

theorem or_one_casesF (b : Nat) (h : b = 0 ∨ b = 1 ∨ b = 3) : b ||| 1 = 1 ∨ b ||| 1 = 3 := by
  rcases h with h | h | h <;> subst h <;> decide

/-- the digit loop reads the rest of a digit string (any `maxCh`: in the fraction of `0.…` the base
    is still 8 and the digits `8`, `9` are recorded as "invalid", which only matters for `INT_P`) -/
theorem digitsLoop_fromF (maxCh : Nat) (st : LState) (r : List Char) (hr : NoNul r) (hs : Stops r.head?)
    {ds : List Char} (h : DigsFrom ds) :
    ∀ (b : Nat) (inv : Option Char) (acc : List Char) (f : Nat), (b = 1 ∨ b = 3) → ds.length + 1 ≤ f →
      ∃ b' inv', (b' = 1 ∨ b' = 3) ∧
        digitsLoop false maxCh f (ds ++ r).head? b inv acc (fd st (ds ++ r).tail)
          = (r.head?, b', inv', ds.reverse ++ acc, fd st r.tail) := by
  induction h with
  | nil =>
    intro b inv acc f hb1 hf
    obtain ⟨f1, rfl⟩ : ∃ f1, f = f1 + 1 := ⟨f - 1, by simp at hf; omega⟩
    refine ⟨b, inv, hb1, ?_⟩
    simp only [List.nil_append, List.reverse_nil]
    exact digitsLoop_stop false _ _ _ _ _ _ _ hs.1 hs.2 rfl
  | @digit c ds hc hrest ih =>
    intro b inv acc f hb1 hf
    obtain ⟨f1, rfl⟩ : ∃ f1, f = f1 + 1 := ⟨f - 1, by simp at hf; omega⟩
    have hnn : NoNul (ds ++ r) := hrest.noNul.append hr
    simp only [List.cons_append, List.head?_cons, List.tail_cons]
    obtain ⟨inv1, h1⟩ := digitsLoop_digitF maxCh f1 b inv acc (fd st (ds ++ r)) hc
    rw [h1, next_fd _ _ hnn]
    obtain ⟨b', inv', hb', heq⟩ := ih (b ||| 1) inv1 (c :: acc) f1
      (or_one_casesF b (by rcases hb1 with h | h <;> simp [h])) (by simp at hf; omega)
    exact ⟨b', inv', hb', by rw [heq]; simp⟩
  | @sep c ds hc hrest ih =>
    intro b inv acc f hb1 hf
    obtain ⟨f1, rfl⟩ : ∃ f1, f = f1 + 2 := ⟨f - 2, by simp at hf; omega⟩
    have hnn : NoNul (ds ++ r) := hrest.noNul.append hr
    have hnn' : NoNul (c :: (ds ++ r)) := NoNul.cons (isDecimal_facts _ hc).1 hnn
    simp only [List.cons_append, List.head?_cons, List.tail_cons]
    rw [digitsLoop_sepF, next_fd _ _ hnn']
    simp only [List.head?_cons, List.tail_cons]
    obtain ⟨inv1, h1⟩ := digitsLoop_digitF maxCh f1 (b ||| 2) inv ('_' :: acc) (fd st (ds ++ r)) hc
    rw [h1, next_fd _ _ hnn]
    have hb2 : b ||| 2 = 3 := by rcases hb1 with h | h <;> subst h <;> decide
    obtain ⟨b', inv', hb', heq⟩ := ih (b ||| 2 ||| 1) inv1 (c :: '_' :: acc) f1
      (by rw [hb2]; decide) (by simp at hf; omega)
    exact ⟨b', inv', hb', by rw [heq]; simp⟩

theorem base_not_hex (base : Nat) (hb : base ≤ 10) : decide (base > 10) = false := by
  simp; omega

/-- `digits` on a digit string whose first digit is in the look-ahead -/
theorem digits_runF (base : Nat) (hb : base ≤ 10) {c : Char} {rest : List Char}
    (hc : isDecimal c = true) (hrest : DigsFrom rest)
    (st : LState) (r : List Char) (hr : NoNul r) (hs : Stops r.head?) (inv : Option Char) (acc : List Char) :
    ∃ b' inv', (b' = 1 ∨ b' = 3) ∧
      digits base (some c) inv acc (fd st (rest ++ r))
        = (r.head?, b', inv', rest.reverse ++ c :: acc, fd st r.tail) := by
  unfold digits
  rw [base_not_hex base hb]
  have hnn : NoNul (rest ++ r) := hrest.noNul.append hr
  obtain ⟨inv1, h1⟩ := digitsLoop_digitF (48 + base) ((fd st (rest ++ r)).rest.length + 2) 0 inv acc
    (fd st (rest ++ r)) hc
  rw [show (fd st (rest ++ r)).rest.length + 3 = ((fd st (rest ++ r)).rest.length + 2) + 1 from rfl,
    h1, next_fd _ _ hnn]
  obtain ⟨b', inv', hb', heq⟩ := digitsLoop_fromF (48 + base) st r hr hs hrest (0 ||| 1) inv1 (c :: acc)
    ((fd st (rest ++ r)).rest.length + 2) (Or.inl (by decide)) (by simp; omega)
  exact ⟨b', inv', hb', heq⟩

/-- `digits` on a rune that is neither a digit nor `_` -/
theorem digits_stopF (base : Nat) (hb : base ≤ 10) (y : Option Char) (hs : Stops y) (inv : Option Char)
    (acc : List Char) (s : LState) :
    digits base y inv acc s = (y, 0, inv, acc, s) := by
  unfold digits
  rw [base_not_hex base hb]
  exact digitsLoop_stop false _ _ _ _ _ _ _ hs.1 hs.2 rfl


/-! ### separators: `invalidSep` finds nothing in these texts -/

/-- a text cut into digit groups and single characters out of `.eE+-` -/
inductive Pieces : List Char → Prop
  | nil : Pieces []
  | digs {g t : List Char} : Digs g → Pieces t → Pieces (g ++ t)
  | pun {x : Char} {t : List Char} : x ∈ ['.', 'e', 'E', '+', '-'] → Pieces t → Pieces (x :: t)

theorem sepLoop_digsFrom {ds : List Char} (h : DigsFrom ds) (t : List Char) :
    invalidSepLoop false (ds ++ t) '0' = invalidSepLoop false t '0' := by
  induction h with
  | nil => rfl
  | @digit c ds hc _ ih =>
    rw [List.cons_append, invalidSepLoop]
    simp only [(isDecimal_facts c hc).2.1, if_false, hc, Bool.true_or, if_true]
    exact ih
  | @sep c ds hc _ ih =>
    rw [List.cons_append, List.cons_append, invalidSepLoop]
    simp only [if_true, ne_eq, not_true_eq_false, if_false]
    rw [invalidSepLoop]
    simp only [(isDecimal_facts c hc).2.1, if_false, hc, Bool.true_or, if_true]
    exact ih

theorem pun_facts : ∀ x ∈ ['.', 'e', 'E', '+', '-'], x ≠ '_' ∧ isDecimal x = false := by decide

theorem sepLoop_pieces {t : List Char} (h : Pieces t) :
    ∀ p : Char, p ≠ '_' → invalidSepLoop false t p = false := by
  induction h with
  | nil => intro p hp; simp [invalidSepLoop, hp]
  | @digs g t hg _ ih =>
    intro p _
    cases hg with
    | @mk c ds hc hrest =>
      rw [List.cons_append, invalidSepLoop]
      simp only [(isDecimal_facts c hc).2.1, if_false, hc, Bool.true_or, if_true]
      rw [sepLoop_digsFrom hrest]
      exact ih '0' (by decide)
  | @pun x t hx _ ih =>
    intro p hp
    have hf := pun_facts x hx
    rw [invalidSepLoop]
    simp only [hf.1, if_false, hf.2, Bool.false_and, Bool.or_self, Bool.false_eq_true, hp]
    exact ih '.' (by decide)

theorem invalidSep_eq_loop (t : List Char)
    (h : ∀ c1 rest, t = '0' :: c1 :: rest → c1 = '.' ∨ c1 = 'e' ∨ c1 = 'E') :
    invalidSep t = invalidSepLoop false t '.' := by
  unfold invalidSep
  split
  · rename_i c1 rest
    rcases h c1 rest rfl with rfl | rfl | rfl
    · have : (decide (lowerBit '.' = 'x') || decide (lowerBit '.' = 'o') || decide (lowerBit '.' = 'b')) = false := by
        decide
      simp only [this, Bool.false_eq_true, if_false]
    · have : (decide (lowerBit 'e' = 'x') || decide (lowerBit 'e' = 'o') || decide (lowerBit 'e' = 'b')) = false := by
        decide
      simp only [this, Bool.false_eq_true, if_false]
    · have : (decide (lowerBit 'E' = 'x') || decide (lowerBit 'E' = 'o') || decide (lowerBit 'E' = 'b')) = false := by
        decide
      simp only [this, Bool.false_eq_true, if_false]
  · rfl

theorem ExpSuffix.pieces {e : List Char} (h : ExpSuffix e) : Pieces e := by
  cases h with
  | @mk x sg ds hx hsg hds =>
    have hd : Pieces ds := by simpa using Pieces.digs hds Pieces.nil
    refine Pieces.pun (by rcases hx with rfl | rfl <;> decide) ?_
    rcases hsg with rfl | rfl | rfl
    · exact hd
    · exact Pieces.pun (by decide) hd
    · exact Pieces.pun (by decide) hd

theorem Suffix.pieces {e : List Char} (h : Suffix e) : Pieces e := by
  cases h with
  | none => exact Pieces.nil
  | some h => exact h.pieces

theorem FracOpt.pieces {fr t : List Char} (h : FracOpt fr) (ht : Pieces t) : Pieces (fr ++ t) := by
  cases h with
  | none => exact ht
  | some h => exact Pieces.digs h ht

theorem AfterInt.pieces {tl : List Char} (h : AfterInt tl) : Pieces tl := by
  cases h with
  | dot hfr he => exact Pieces.pun (by decide) (hfr.pieces he.pieces)
  | exp he => exact he.pieces

theorem AfterInt.head {tl : List Char} (h : AfterInt tl) :
    ∃ x l, tl = x :: l ∧ (x = '.' ∨ x = 'e' ∨ x = 'E') := by
  cases h with
  | dot hfr he => exact ⟨_, _, rfl, Or.inl rfl⟩
  | exp he =>
    cases he with
    | mk hx hsg hds => exact ⟨_, _, rfl, Or.inr hx⟩

theorem invalidSep_intForm {d : Char} {ds tl : List Char} (hip : IntPart d ds) (htl : AfterInt tl) :
    invalidSep (d :: (ds ++ tl)) = false := by
  rw [invalidSep_eq_loop]
  · have : Pieces ((d :: ds) ++ tl) := Pieces.digs (Digs.mk hip.1 hip.2.1) htl.pieces
    exact sepLoop_pieces this '.' (by decide)
  · intro c1 rest heq
    injection heq with h1 h2
    have := hip.2.2 h1
    subst this
    obtain ⟨x, l, hx, hx'⟩ := htl.head
    subst hx
    simp only [List.nil_append] at h2
    injection h2 with h2 _
    subst h2
    exact hx'

theorem invalidSep_leadForm {fr e : List Char} (hfr : Digs fr) (he : Suffix e) :
    invalidSep ('.' :: (fr ++ e)) = false := by
  rw [invalidSep_eq_loop]
  · exact sepLoop_pieces (Pieces.pun (by decide) (Pieces.digs hfr he.pieces)) '.' (by decide)
  · intro c1 rest heq
    injection heq with h1 _
    exact absurd h1 (by decide)


/-! ### the exponent block and the final checks -/

theorem EndsNumeric.stops {o : Oracles} {y : Option Char} (h : EndsNumeric o y) : Stops y := ⟨h.notDigit, h.notSep⟩

/-- no exponent: the final checks pass -/
theorem expPart_end (o : Oracles) (y : Option Char) (hy : EndsNumeric o y) (b : Nat) (inv : Option Char)
    (acc : List Char) (s : LState) (hsep : invalidSep acc.reverse = false) :
    expPart o true .numeric y b inv acc s = ⟨.numeric, acc.reverse, y, s⟩ := by
  unfold expPart numFinish
  simp [hy.notExp, hy.notIdentL, hy.notIdent, hsep]

theorem numFinish_numeric (o : Oracles) (y : Option Char) (hy : EndsNumeric o y) (b : Nat) (inv : Option Char)
    (acc : List Char) (s : LState) (hsep : invalidSep acc.reverse = false) :
    numFinish o .numeric y b inv acc s = ⟨.numeric, acc.reverse, y, s⟩ := by
  unfold numFinish
  simp [hy.notIdent, hsep]

/-- the exponent block on `e`/`E`, an optional sign and digits -/
theorem expPart_exp (o : Oracles) {e : List Char} (he : ExpSuffix e) (st : LState) (r : List Char)
    (hr : NoNul r) (hy : EndsNumeric o r.head?) (tok1 : Tok) (b : Nat) (inv : Option Char) (acc : List Char)
    (hsep : invalidSep (acc.reverse ++ e) = false) :
    expPart o true tok1 (e ++ r).head? b inv acc (fd st (e ++ r).tail)
      = ⟨.numeric, acc.reverse ++ e, r.head?, fd st r.tail⟩ := by
  cases he with
  | @mk x sg ds hx hsg hds =>
    cases hds with
    | @mk c rest hc hrest =>
      have hcz := (isDecimal_facts c hc).1
      have hlow : Option.map lowerBit (some x) = some 'e' := by
        rcases hx with rfl | rfl <;> decide
      have hcp : (decide (some c = some '+') || decide (some c = some '-')) = false := by
        have h1 : c ≠ '+' := by intro h; subst h; revert hc; decide
        have h2 : c ≠ '-' := by intro h; subst h; revert hc; decide
        simp [h1, h2]
      simp only [List.cons_append, List.head?_cons, List.tail_cons, List.append_assoc]
      unfold expPart
      simp only [hlow, if_true, Bool.not_true, Bool.false_eq_true, if_false, Option.getD_some]
      rcases hsg with rfl | rfl | rfl
      · simp only [List.nil_append, List.cons_append]
        simp only [next_fd_cons _ _ _ hcz, hcp, Bool.false_eq_true, if_false]
        obtain ⟨b', inv', hb', heq⟩ := digits_runF 10 (by decide) hc hrest st r hr hy.stops none (x :: acc)
        rw [heq]
        have h1 : (b' &&& 1 = 0) = False := by rcases hb' with h | h <;> subst h <;> decide
        simp only [h1, if_false]
        rw [numFinish_numeric o _ hy _ _ _ _ (by simpa using hsep)]
        simp
      · simp only [List.cons_append, List.nil_append]
        simp only [next_fd_cons _ '+' _ (by decide), decide_true, Bool.true_or, if_true, Option.getD_some,
          next_fd_cons _ _ _ hcz]
        obtain ⟨b', inv', hb', heq⟩ := digits_runF 10 (by decide) hc hrest st r hr hy.stops none ('+' :: x :: acc)
        rw [heq]
        have h1 : (b' &&& 1 = 0) = False := by rcases hb' with h | h <;> subst h <;> decide
        simp only [h1, if_false]
        rw [numFinish_numeric o _ hy _ _ _ _ (by simpa using hsep)]
        simp
      · simp only [List.cons_append, List.nil_append]
        simp only [next_fd_cons _ '-' _ (by decide), decide_true, Bool.or_true, if_true, Option.getD_some,
          next_fd_cons _ _ _ hcz]
        obtain ⟨b', inv', hb', heq⟩ := digits_runF 10 (by decide) hc hrest st r hr hy.stops none ('-' :: x :: acc)
        rw [heq]
        have h1 : (b' &&& 1 = 0) = False := by rcases hb' with h | h <;> subst h <;> decide
        simp only [h1, if_false]
        rw [numFinish_numeric o _ hy _ _ _ _ (by simpa using hsep)]
        simp


/-- the exponent block on an optional exponent, the token being `NUMERIC_P` already -/
theorem expPart_suffix (o : Oracles) {e : List Char} (he : Suffix e) (st : LState) (r : List Char)
    (hr : NoNul r) (hy : EndsNumeric o r.head?) (b : Nat) (inv : Option Char) (acc : List Char)
    (hsep : invalidSep (acc.reverse ++ e) = false) :
    expPart o true .numeric (e ++ r).head? b inv acc (fd st (e ++ r).tail)
      = ⟨.numeric, acc.reverse ++ e, r.head?, fd st r.tail⟩ := by
  cases he with
  | none =>
    simp only [List.nil_append, List.append_nil] at hsep ⊢
    exact expPart_end o _ hy b inv acc _ hsep
  | some he => exact expPart_exp o he st r hr hy .numeric b inv acc hsep

theorem Suffix.head_stops {o : Oracles} {e : List Char} (he : Suffix e) {r : List Char}
    (hy : EndsNumeric o r.head?) : Stops (e ++ r).head? := by
  cases he with
  | none => simpa using hy.stops
  | some he =>
    cases he with
    | mk hx hsg hds =>
      simp only [List.cons_append, List.head?_cons]
      rcases hx with rfl | rfl <;> exact ⟨by decide, by decide⟩

/-- **after the dot**: the "fractional part" block, the exponent block and the final checks -/
theorem scanNumberTail_dot (o : Oracles) (base : Nat) (hb : base ≤ 10) {fr e : List Char} (hfr : FracOpt fr)
    (he : Suffix e) (st : LState) (r : List Char) (hr : NoNul r) (hy : EndsNumeric o r.head?)
    (tok0 : Tok) (b : Nat) (inv : Option Char) (acc : List Char)
    (hsep : invalidSep (acc.reverse ++ (fr ++ e)) = false) :
    scanNumberTail o tok0 true base true (fr ++ (e ++ r)).head? b inv acc (fd st (fr ++ (e ++ r)).tail)
      = ⟨.numeric, acc.reverse ++ (fr ++ e), r.head?, fd st r.tail⟩ := by
  unfold scanNumberTail fracPart
  simp only [if_true]
  have hstop := he.head_stops hy
  have hnn : NoNul (e ++ r) := he.noNul.append hr
  cases hfr with
  | none =>
    simp only [List.nil_append] at hsep ⊢
    rw [digits_stopF base hb _ hstop]
    simp only []
    exact expPart_suffix o he st r hr hy _ inv acc hsep
  | some hd =>
    cases hd with
    | @mk c rest hc hrest =>
      simp only [List.cons_append, List.head?_cons, List.tail_cons]
      obtain ⟨b', inv', _, heq⟩ := digits_runF base hb hc hrest st (e ++ r) hnn hstop inv acc
      rw [heq]
      simp only []
      rw [expPart_suffix o he st r hr hy _ inv' _ (by simpa using hsep)]
      simp

/-- **an exponent directly after the integer part** -/
theorem scanNumberTail_exp (o : Oracles) (base : Nat) {e : List Char} (he : ExpSuffix e)
    (st : LState) (r : List Char) (hr : NoNul r) (hy : EndsNumeric o r.head?)
    (b : Nat) (inv : Option Char) (acc : List Char) (hsep : invalidSep (acc.reverse ++ e) = false) :
    scanNumberTail o .int false base true (e ++ r).head? b inv acc (fd st (e ++ r).tail)
      = ⟨.numeric, acc.reverse ++ e, r.head?, fd st r.tail⟩ := by
  unfold scanNumberTail fracPart
  simp only [Bool.false_eq_true, if_false]
  exact expPart_exp o he st r hr hy .int b inv acc hsep

/-- the integer part has been read by `digits`; what `scanNumberBody` does with the rest -/
theorem scanNumberBody_after (o : Oracles) (base : Nat) (hb : base ≤ 10) (b0 : Nat) (ch : Option Char)
    (acc1 : List Char) (s1 : LState) (hch : ch ≠ some '_')
    {tl : List Char} (htl : AfterInt tl) (st : LState) (r : List Char) (hr : NoNul r)
    (hy : EndsNumeric o r.head?) (bd : Nat) (inv : Option Char) (acc2 : List Char)
    (hdig : digits base ch none acc1 s1 = ((tl ++ r).head?, bd, inv, acc2, fd st (tl ++ r).tail))
    (hb1 : (b0 ||| bd) &&& 1 ≠ 0) (hsep : invalidSep (acc2.reverse ++ tl) = false) :
    scanNumberBody o base true b0 ch acc1 s1 = ⟨.numeric, acc2.reverse ++ tl, r.head?, fd st r.tail⟩ := by
  unfold scanNumberBody
  simp only [hch, if_false, hdig, hb1]
  cases htl with
  | @dot fr e hfr he =>
    have hnn : NoNul (fr ++ (e ++ r)) := hfr.noNul.append (he.noNul.append hr)
    simp only [List.cons_append, List.head?_cons, List.tail_cons, if_true, Bool.not_true, Bool.false_eq_true,
      if_false, List.append_assoc, next_fd _ _ hnn]
    rw [scanNumberTail_dot o base hb hfr he st r hr hy .int _ inv ('.' :: acc2)
      (by simpa using hsep)]
    simp
  | exp he =>
    have hne : (tl ++ r).head? ≠ some '.' := by
      cases he with
      | mk hx _ _ =>
        simp only [List.cons_append, List.head?_cons]
        rcases hx with rfl | rfl <;> decide
    simp only [hne, if_false]
    exact scanNumberTail_exp o base he st r hr hy _ inv acc2 hsep

theorem zeroPrefix_after {tl : List Char} (htl : AfterInt tl) (st : LState) (r : List Char) :
    zeroPrefix [] (fd st (tl ++ r)) = some (8, true, 1, (tl ++ r).head?, ['0'], fd st (tl ++ r).tail) := by
  obtain ⟨x, l, rfl, hx⟩ := htl.head
  simp only [List.cons_append, List.head?_cons, List.tail_cons]
  rcases hx with rfl | rfl | rfl
  · unfold zeroPrefix
    simp only [next_fd_cons _ '.' _ (by decide)]
    rfl
  · unfold zeroPrefix
    simp only [next_fd_cons _ 'e' _ (by decide)]
    rfl
  · unfold zeroPrefix
    simp only [next_fd_cons _ 'E' _ (by decide)]
    rfl

section
variable (o : Oracles) (ok : RoundTrip.OrOK o)
include ok

/-- `scanNumber` entered on the first digit of a non-integer literal -/
theorem scanNumber_float {d : Char} {ds tl : List Char} (hip : IntPart d ds) (htl : AfterInt tl)
    (st : LState) (r : List Char) (hr : NoNul r) (hy : EndsNumeric o r.head?) :
    scanNumber o d false [] (fd st (ds ++ tl ++ r)) = ⟨.numeric, d :: (ds ++ tl), r.head?, fd st r.tail⟩ := by
  have hsep := invalidSep_intForm hip htl
  have hdd := isDecimal_facts d hip.1
  obtain ⟨x, l, hxl, hx⟩ := htl.head
  have hstop : Stops (tl ++ r).head? := by
    subst hxl
    simp only [List.cons_append, List.head?_cons]
    rcases hx with rfl | rfl | rfl <;> exact ⟨by decide, by decide⟩
  have hnn : NoNul (tl ++ r) := htl.noNul.append hr
  unfold scanNumber
  simp only [Bool.false_eq_true, if_false]
  by_cases h0 : d = '0'
  · have := hip.2.2 h0
    subst this
    subst h0
    simp only [if_true, List.nil_append]
    rw [zeroPrefix_after htl st r]
    simp only []
    have hus : (tl ++ r).head? ≠ some '_' := hstop.2
    exact scanNumberBody_after o 8 (by decide) 1 _ ['0'] _ hus htl st r hr hy 0 none ['0']
      (digits_stopF 8 (by decide) _ hstop none _ _) (by decide) (by simpa using hsep)
  · simp only [h0, if_false, List.append_assoc]
    obtain ⟨b', inv', hb', heq⟩ := digits_runF 10 (by decide) hip.1 hip.2.1 st (tl ++ r) hnn hstop none []
    have hus : some d ≠ some '_' := by simp [hdd.2.1]
    rw [scanNumberBody_after o 10 (by decide) 0 _ [] _ hus htl st r hr hy b' inv' _ heq
      (by rcases hb' with h | h <;> subst h <;> decide) (by simpa using hsep)]
    simp

/-- **C03, non-integer literals starting with a digit** (`D.D`, `D.`, `D.De±D`, `D.e±D`, `De±D`):
    the text followed by a rune that does not continue it is `NUMERIC_P` with exactly that text,
    whatever follows that rune -/
theorem tokAt_float' {d : Char} {ds tl : List Char} (hip : IntPart d ds) (htl : AfterInt tl) :
    TokAt o (EndsNumeric o) d (ds ++ tl) (.numeric, d :: (ds ++ tl)) := by
  intro f st r he hr hy
  have hdd := isDecimal_facts d hip.1
  have hx := ok.digitS d hip.1
  have hid : isIdentStart o (some d) = false := by
    simp [isIdentStart, hdd.2.1, hdd.2.2.2.2.1, hx]
  simp only [lexFrom]
  rw [skipWs_nonws _ _ _ hdd.2.2.2.1]
  simp only [hid, Bool.false_eq_true, if_false, hip.1, if_true]
  exact scanNumber_float o ok hip htl st r hr hy

/-- **C03, non-integer literals starting with the dot** (`.D`, `.De±D`) -/
theorem tokAt_dot_float' {fr e : List Char} (hfr : Digs fr) (he : Suffix e) :
    TokAt o (EndsNumeric o) '.' (fr ++ e) (.numeric, '.' :: (fr ++ e)) := by
  intro f st r her hr hy
  have hsep := invalidSep_leadForm hfr he
  have hx := ok.punctS '.' (by decide)
  have hid : isIdentStart o (some '.') = false := by simp [isIdentStart, hx]
  cases hfr with
  | @mk c rest hc hrest =>
    have hcz := (isDecimal_facts c hc).1
    simp only [lexFrom]
    rw [skipWs_nonws _ _ _ (by decide)]
    simp only [hid, Bool.false_eq_true, if_false, show isDecimal '.' = false by decide,
      show ('.' = '"') = False by decide, show ('.' = '$') = False by decide, show ('.' = '/') = False by decide,
      if_true, List.cons_append, List.append_assoc, next_fd_cons _ _ _ hcz, hc]
    unfold scanNumber
    simp only [if_true]
    have := scanNumberTail_dot o 10 (by decide) (FracOpt.some (Digs.mk hc hrest)) he st r hr hy .numeric 0 none ['.']
      (by simpa using hsep)
    simpa using this

end


/-! ### the same, stated on `FloatForm` -/

theorem IntPart.noNul {d : Char} {ds : List Char} (h : IntPart d ds) : d.toNat ≠ 0 ∧ NoNul ds :=
  ⟨(isDecimal_facts d h.1).1, h.2.1.noNul⟩

theorem FloatForm.noNul {t : List Char} (h : FloatForm t) : NoNul t := by
  cases h with
  | point hip hfr he =>
    exact NoNul.cons hip.noNul.1 (hip.noNul.2.append (NoNul.cons (by decide) (hfr.noNul.append he.noNul)))
  | intExp hip he => exact NoNul.cons hip.noNul.1 (hip.noNul.2.append he.noNul)
  | lead hfr he => exact NoNul.cons (by decide) (hfr.noNul.append he.noNul)

section
variable (o : Oracles) (ok : RoundTrip.OrOK o)
include ok

/-- **C03, non-integer number literals starting with a digit.**  A text `d :: ds` of one of the forms
    `D.D`, `D.`, `D.D e±D`, `D. e±D`, `D e±D`, followed by a rune that does not continue it
    (`EndsNumeric`), is the token `(NUMERIC_P, d :: ds)` — exactly that text, whatever follows. -/
theorem tokAt_float {d : Char} {ds : List Char} (h : FloatForm (d :: ds)) (hd : isDecimal d = true) :
    TokAt o (EndsNumeric o) d ds (.numeric, d :: ds) := by
  generalize ht : d :: ds = t at h
  cases h with
  | point hip hfr he =>
    injection ht with h1 h2
    subst h1; subst h2
    exact tokAt_float' o ok hip (AfterInt.dot hfr he)
  | intExp hip he =>
    injection ht with h1 h2
    subst h1; subst h2
    exact tokAt_float' o ok hip (AfterInt.exp he)
  | lead hfr he =>
    injection ht with h1 _
    subst h1
    exact absurd hd (by decide)

/-- **C03, non-integer number literals starting with the dot** (`.D`, `.D e±D`; the `'.'` case of
    `Lex`): the token is `(NUMERIC_P, '.' :: ds)` -/
theorem tokAt_dot_float {ds : List Char} (h : FloatForm ('.' :: ds)) :
    TokAt o (EndsNumeric o) '.' ds (.numeric, '.' :: ds) := by
  generalize ht : '.' :: ds = t at h
  cases h with
  | point hip hfr he =>
    injection ht with h1 _
    subst h1
    exact absurd hip.1 (by decide)
  | intExp hip he =>
    injection ht with h1 _
    subst h1
    exact absurd hip.1 (by decide)
  | lead hfr he =>
    injection ht with _ h2
    subst h2
    exact tokAt_dot_float' o ok hfr he

/-- every non-integer number form is one `NUMERIC_P` token carrying its own text, in the `Seg`
    calculus of the round-trip proof: it composes with whatever follows -/
theorem seg_float {t : List Char} (h : FloatForm t) : RoundTrip.Seg o (EndsNumeric o) t [(.numeric, t)] := by
  have hnn := h.noNul
  cases t with
  | nil => cases h
  | cons c w =>
    have hc := (hnn.of_cons).1
    have hw := (hnn.of_cons).2
    by_cases hd : isDecimal c = true
    · exact RoundTrip.seg_of_tokAt o (tokAt_float o ok h hd) hc hw (by simp)
    · have : c = '.' := by
        generalize ht : c :: w = t at h
        cases h with
        | point hip _ _ => injection ht with h1 _; subst h1; exact absurd hip.1 hd
        | intExp hip _ => injection ht with h1 _; subst h1; exact absurd hip.1 hd
        | lead _ _ => injection ht with h1 _
      subst this
      exact RoundTrip.seg_of_tokAt o (tokAt_dot_float o ok h) hc hw (by simp)

/-- **C03 on `Lex` itself**: a lexer standing (error-free) before a non-integer number form `t`
    followed by `r`, where the first rune of `r` does not continue the number, returns
    `(NUMERIC_P, t)` and is left standing before `r` — the token and its text do not depend on `r` -/
theorem lex_float {t : List Char} (h : FloatForm t) (r : List Char) (hr : NoNul r)
    (hy : EndsNumeric o r.head?) (s : LState) (hs : At (t ++ r) s) :
    ∃ s', Lex.lex o s = (.numeric, t, s') ∧ At r s' := by
  have hnn := h.noNul
  cases t with
  | nil => cases h
  | cons c w =>
    have hc := (hnn.of_cons).1
    by_cases hd : isDecimal c = true
    · exact lex_of_tokAt o (tokAt_float o ok h hd) hc r hr hy s (by simpa using hs)
    · have : c = '.' := by
        generalize ht : c :: w = t at h
        cases h with
        | point hip _ _ => injection ht with h1 _; subst h1; exact absurd hip.1 hd
        | intExp hip _ => injection ht with h1 _; subst h1; exact absurd hip.1 hd
        | lead _ _ => injection ht with h1 _
      subst this
      exact lex_of_tokAt o (tokAt_dot_float o ok h) hc r hr hy s (by simpa using hs)

/-! ### which runes end a non-integer literal -/

/-- under the oracle hypotheses `notExp` is implied by `notIdentL` (`e` starts an identifier) -/
theorem endsNumeric_of_ident {y : Option Char} (h1 : isDecimalR y = false) (h2 : y ≠ some '_')
    (h3 : isIdentStart o (y.map lowerBit) = false) (h4 : isIdentStart o y = false) : EndsNumeric o y := by
  refine ⟨h1, h2, ?_, h3, h4⟩
  intro he
  rw [he] at h3
  simp [isIdentStart, ok.lowS 'e' (by decide)] at h3

/-- the end of the input ends the literal -/
theorem endsNumeric_none : EndsNumeric o none := ⟨rfl, by simp, by simp, rfl, rfl⟩

omit ok in
theorem punct_lower : ∀ c ∈ punct, c ≠ '@' →
    lowerBit c ∈ punct ∧ c ≠ '_' ∧ c ≠ '\\' ∧ isDecimal c = false ∧ lowerBit c ≠ 'e' ∧ lowerBit c ≠ '_' ∧
      lowerBit c ≠ '\\' := by decide

/-- every punctuation character except `@` ends the literal — **including the dot** -/
theorem endsNumeric_punct (c : Char) (hc : c ∈ punct) (hat : c ≠ '@') : EndsNumeric o (some c) := by
  obtain ⟨h1, h2, h3, h4, h5, h6, h7⟩ := punct_lower c hc hat
  refine ⟨h4, by simp [h2], by simp [h5], ?_, ?_⟩
  · simp [isIdentStart, h6, h7, ok.punctS _ h1]
  · simp [isIdentStart, h2, h3, ok.punctS _ hc]

theorem endsNumeric_dot : EndsNumeric o (some '.') := endsNumeric_punct o ok '.' (by decide) (by decide)

/-- `@` lower-cases to a back quote, about which `OrOK` says nothing -/
theorem endsNumeric_at (h : o.xidStart '`' = false) : EndsNumeric o (some '@') := by
  refine ⟨by decide, by decide, by decide, ?_, ?_⟩
  · simpa [isIdentStart, lowerBit] using h
  · simpa [isIdentStart] using ok.punctS '@' (by decide)

end


/-! ## A checker for `FloatForm` (sound; instances are then decided by evaluation) -/

/-- `sep` = the previous character was an underscore -/
def digsFromB : Bool → List Char → Bool
  | sep, [] => !sep
  | sep, c :: ds =>
    if c = '_' then (!sep && digsFromB true ds) else (isDecimal c && digsFromB false ds)

def digsB : List Char → Bool
  | [] => false
  | c :: ds => isDecimal c && digsFromB false ds

def intPartB : List Char → Bool
  | [] => false
  | d :: ds => isDecimal d && digsFromB false ds && (d != '0' || ds.isEmpty)

def expSuffixB : List Char → Bool
  | [] => false
  | x :: t => (x = 'e' || x = 'E') &&
    (match t with
     | [] => false
     | s :: ds => if s = '+' ∨ s = '-' then digsB ds else digsB (s :: ds))

def suffixB (e : List Char) : Bool := e.isEmpty || expSuffixB e

/-- a digit or an underscore -/
def isDU (c : Char) : Bool := isDecimal c || c = '_'

/-- cut the text at the first character that is neither a digit nor `_`, and again after the dot -/
def floatFormB (t : List Char) : Bool :=
  let ip := t.takeWhile isDU
  match t.dropWhile isDU with
  | [] => false
  | x :: t2 =>
    if x = '.' then
      let fr := t2.takeWhile isDU
      let e := t2.dropWhile isDU
      ((ip.isEmpty && digsB fr) || (intPartB ip && (fr.isEmpty || digsB fr))) && suffixB e
    else intPartB ip && expSuffixB (x :: t2)

theorem digsFromB_sound (ds : List Char) :
    (digsFromB false ds = true → DigsFrom ds) ∧
    (digsFromB true ds = true → ∃ c ds', ds = c :: ds' ∧ isDecimal c = true ∧ DigsFrom ds') := by
  induction ds with
  | nil =>
    constructor
    · intro _; exact DigsFrom.nil
    · intro h; simp [digsFromB] at h
  | cons c ds ih =>
    by_cases hc : c = '_'
    · subst hc
      constructor
      · intro h
        rw [digsFromB] at h
        simp only [if_true, Bool.not_false, Bool.true_and] at h
        obtain ⟨c', ds', h1, h2, h3⟩ := ih.2 h
        subst h1
        exact DigsFrom.sep h2 h3
      · intro h
        rw [digsFromB] at h
        simp at h
    · constructor
      · intro h
        rw [digsFromB] at h
        simp only [hc, if_false, Bool.and_eq_true] at h
        exact DigsFrom.digit h.1 (ih.1 h.2)
      · intro h
        rw [digsFromB] at h
        simp only [hc, if_false, Bool.and_eq_true] at h
        exact ⟨c, ds, rfl, h.1, ih.1 h.2⟩

theorem digsB_sound {ds : List Char} (h : digsB ds = true) : Digs ds := by
  cases ds with
  | nil => simp [digsB] at h
  | cons c ds =>
    simp only [digsB, Bool.and_eq_true] at h
    exact Digs.mk h.1 ((digsFromB_sound ds).1 h.2)

theorem intPartB_sound {t : List Char} (h : intPartB t = true) : ∃ d ds, t = d :: ds ∧ IntPart d ds := by
  cases t with
  | nil => simp [intPartB] at h
  | cons d ds =>
    simp only [intPartB, Bool.and_eq_true, Bool.or_eq_true, bne_iff_ne, ne_eq, List.isEmpty_iff] at h
    refine ⟨d, ds, rfl, h.1.1, (digsFromB_sound ds).1 h.1.2, ?_⟩
    intro h0
    rcases h.2 with h2 | h2
    · exact absurd h0 h2
    · exact h2

theorem expSuffixB_sound {e : List Char} (h : expSuffixB e = true) : ExpSuffix e := by
  cases e with
  | nil => simp [expSuffixB] at h
  | cons x t =>
    simp only [expSuffixB, Bool.and_eq_true, Bool.or_eq_true, decide_eq_true_eq] at h
    obtain ⟨hx, ht⟩ := h
    cases t with
    | nil => simp at ht
    | cons s ds =>
      simp only at ht
      by_cases hs : s = '+' ∨ s = '-'
      · simp only [hs, if_true] at ht
        rcases hs with rfl | rfl
        · exact ExpSuffix.mk (sg := ['+']) hx (Or.inr (Or.inl rfl)) (digsB_sound ht)
        · exact ExpSuffix.mk (sg := ['-']) hx (Or.inr (Or.inr rfl)) (digsB_sound ht)
      · simp only [hs, if_false] at ht
        exact ExpSuffix.mk (sg := []) hx (Or.inl rfl) (digsB_sound ht)

theorem suffixB_sound {e : List Char} (h : suffixB e = true) : Suffix e := by
  simp only [suffixB, Bool.or_eq_true, List.isEmpty_iff] at h
  rcases h with h | h
  · subst h; exact Suffix.none
  · exact Suffix.some (expSuffixB_sound h)

/-- **soundness of the checker** -/
theorem floatFormB_sound {t : List Char} (h : floatFormB t = true) : FloatForm t := by
  have hsplit : t.takeWhile isDU ++ t.dropWhile isDU = t := List.takeWhile_append_dropWhile
  unfold floatFormB at h
  simp only at h
  split at h
  · simp at h
  · rename_i x t2 hdrop
    rw [hdrop] at hsplit
    by_cases hx : x = '.'
    · subst hx
      simp only [if_true, Bool.and_eq_true, Bool.or_eq_true, List.isEmpty_iff] at h
      have hsplit2 : t2.takeWhile isDU ++ t2.dropWhile isDU = t2 := List.takeWhile_append_dropWhile
      have he := suffixB_sound h.2
      rw [← hsplit, ← hsplit2]
      rcases h.1 with ⟨h1, h2⟩ | ⟨h1, h2⟩
      · rw [h1]
        exact FloatForm.lead (digsB_sound h2) he
      · obtain ⟨d, ds, hd, hip⟩ := intPartB_sound h1
        rw [hd]
        rcases h2 with h2 | h2
        · rw [h2]
          exact FloatForm.point hip FracOpt.none he
        · exact FloatForm.point hip (FracOpt.some (digsB_sound h2)) he
    · simp only [hx, if_false, Bool.and_eq_true] at h
      obtain ⟨d, ds, hd, hip⟩ := intPartB_sound h.1
      rw [← hsplit, hd]
      exact FloatForm.intExp hip (expSuffixB_sound h.2)

/-! ### completeness of the checker: `FloatForm` is decidable -/

theorem takeDrop_split (p : Char → Bool) (a b : List Char) (ha : ∀ c ∈ a, p c = true)
    (hb : ∀ x, b.head? = some x → p x = false) :
    (a ++ b).takeWhile p = a ∧ (a ++ b).dropWhile p = b := by
  induction a with
  | nil =>
    cases b with
    | nil => exact ⟨rfl, rfl⟩
    | cons x b =>
      have := hb x rfl
      simp [List.takeWhile, List.dropWhile, this]
  | cons c a ih =>
    have hc := ha c (by simp)
    have := ih (fun c' hc' => ha c' (by simp [hc']))
    simp [List.takeWhile, List.dropWhile, hc, this.1, this.2]

theorem isDU_decimal {c : Char} (h : isDecimal c = true) : isDU c = true := by simp [isDU, h]

theorem DigsFrom.allDU {ds : List Char} (h : DigsFrom ds) : ∀ c ∈ ds, isDU c = true := by
  induction h with
  | nil => intro c hc; simp at hc
  | digit hc _ ih =>
    intro c' hc'
    simp at hc'
    rcases hc' with rfl | hc'
    · exact isDU_decimal hc
    · exact ih c' hc'
  | sep hc _ ih =>
    intro c' hc'
    simp at hc'
    rcases hc' with rfl | rfl | hc'
    · decide
    · exact isDU_decimal hc
    · exact ih c' hc'

theorem Digs.allDU {ds : List Char} (h : Digs ds) : ∀ c ∈ ds, isDU c = true := by
  cases h with
  | mk hc hrest =>
    intro c' hc'
    simp at hc'
    rcases hc' with rfl | hc'
    · exact isDU_decimal hc
    · exact hrest.allDU c' hc'

theorem digsFromB_complete {ds : List Char} (h : DigsFrom ds) : digsFromB false ds = true := by
  induction h with
  | nil => rfl
  | @digit c ds hc _ ih =>
    rw [digsFromB]
    simp [(isDecimal_facts c hc).2.1, hc, ih]
  | @sep c ds hc _ ih =>
    rw [digsFromB]
    simp only [if_true, Bool.not_false, Bool.true_and]
    rw [digsFromB]
    simp [(isDecimal_facts c hc).2.1, hc, ih]

theorem digsB_complete {ds : List Char} (h : Digs ds) : digsB ds = true := by
  cases h with
  | mk hc hrest => simp [digsB, hc, digsFromB_complete hrest]

theorem intPartB_complete {d : Char} {ds : List Char} (h : IntPart d ds) : intPartB (d :: ds) = true := by
  simp only [intPartB, h.1, digsFromB_complete h.2.1, Bool.true_and, Bool.or_eq_true, bne_iff_ne, ne_eq,
    List.isEmpty_iff]
  by_cases h0 : d = '0'
  · exact Or.inr (h.2.2 h0)
  · exact Or.inl h0

theorem expSuffixB_complete {e : List Char} (h : ExpSuffix e) : expSuffixB e = true := by
  cases h with
  | @mk x sg ds hx hsg hds =>
    have hd := digsB_complete hds
    cases hds with
    | @mk c rest hc hrest =>
      have h1 : c ≠ '+' := by intro h; subst h; revert hc; decide
      have h2 : c ≠ '-' := by intro h; subst h; revert hc; decide
      have hx' : (decide (x = 'e') || decide (x = 'E')) = true := by
        rcases hx with rfl | rfl <;> decide
      rcases hsg with rfl | rfl | rfl
      · simp [expSuffixB, hx', h1, h2, hd]
      · simp [expSuffixB, hx', hd]
      · simp [expSuffixB, hx', hd]

theorem suffixB_complete {e : List Char} (h : Suffix e) : suffixB e = true := by
  cases h with
  | none => rfl
  | some h => simp [suffixB, expSuffixB_complete h]

theorem ExpSuffix.head_notDU {e : List Char} (h : ExpSuffix e) :
    ∃ x l, e = x :: l ∧ isDU x = false ∧ x ≠ '.' := by
  cases h with
  | mk hx _ _ => exact ⟨_, _, rfl, by rcases hx with rfl | rfl <;> decide, by rcases hx with rfl | rfl <;> decide⟩

theorem Suffix.head_notDU {e : List Char} (h : Suffix e) : ∀ x, e.head? = Option.some x → isDU x = false := by
  cases h with
  | none => intro x hx; simp at hx
  | some h =>
    obtain ⟨x, l, rfl, hx, _⟩ := h.head_notDU
    intro y hy
    simp at hy
    subst hy
    exact hx

theorem IntPart.allDU {d : Char} {ds : List Char} (h : IntPart d ds) : ∀ c ∈ d :: ds, isDU c = true :=
  (Digs.mk h.1 h.2.1).allDU

theorem floatFormB_complete {t : List Char} (h : FloatForm t) : floatFormB t = true := by
  cases h with
  | @point d ds fr e hip hfr he =>
    have h1 := takeDrop_split isDU (d :: ds) ('.' :: (fr ++ e)) hip.allDU
      (by intro x hx; simp at hx; subst hx; decide)
    have hfrDU : ∀ c ∈ fr, isDU c = true := by
      cases hfr with
      | none => intro c hc; simp at hc
      | some h => exact h.allDU
    have h2 := takeDrop_split isDU fr e hfrDU he.head_notDU
    unfold floatFormB
    simp only [List.cons_append] at h1
    simp only [h1.1, h1.2, if_true, h2.1, h2.2, suffixB_complete he, intPartB_complete hip, Bool.and_true,
      Bool.true_and]
    cases hfr with
    | none => simp
    | some h => simp [digsB_complete h]
  | @intExp d ds e hip he =>
    obtain ⟨x, l, hxl, hx, hxd⟩ := he.head_notDU
    have h1 := takeDrop_split isDU (d :: ds) e hip.allDU
      (by intro y hy; subst hxl; simp at hy; subst hy; exact hx)
    unfold floatFormB
    simp only [List.cons_append] at h1
    simp only [h1.1, h1.2]
    subst hxl
    simp only [hxd, if_false, intPartB_complete hip, expSuffixB_complete he, Bool.and_self]
  | @lead fr e hfr he =>
    have h1 := takeDrop_split isDU [] ('.' :: (fr ++ e)) (by intro c hc; simp at hc)
      (by intro x hx; simp at hx; subst hx; decide)
    have h2 := takeDrop_split isDU fr e hfr.allDU he.head_notDU
    unfold floatFormB
    simp only [List.nil_append] at h1
    simp only [h1.1, h1.2, if_true, h2.1, h2.2, suffixB_complete he, digsB_complete hfr, List.isEmpty_nil,
      Bool.and_self, Bool.true_or]

theorem floatForm_iff (t : List Char) : FloatForm t ↔ floatFormB t = true :=
  ⟨floatFormB_complete, floatFormB_sound⟩

instance (t : List Char) : Decidable (FloatForm t) := decidable_of_iff _ (floatForm_iff t).symm

/-! ## (3) The value: the parser's action depends only on the token text -/

/-- `newNumeric` on a token text yields the numeric node of value `f` (keeping the text as the
    literal) exactly when `strconv.ParseFloat` of that very text is the finite `f`; nothing but the
    text enters -/
theorem newNumeric_iff (txt : List Char) (f : F64) (s : PS) :
    newNumeric txt s = .ok { node := .numeric f none, lit := txt } s ↔ parseFloatFinite txt = some f := by
  unfold newNumeric
  cases hp : parseFloatFinite txt with
  | none =>
    simp only [bind_apply, recordError, pure_apply]
    constructor
    · intro h
      injection h with h1 _
      injection h1 with h1 _
      cases h1
    · intro h; cases h
  | some f' =>
    simp only [pure_apply]
    constructor
    · intro h
      injection h with h1 _
      injection h1 with h1 _
      injection h1 with h1 _
      rw [h1]
    · intro h
      injection h with h
      rw [h]

/-- a text `strconv.ParseFloat` refuses (only `±Inf` out of range can occur for a `FloatForm`) is a
    recorded parse error, never a node -/
theorem newNumeric_none (txt : List Char) (s : PS) (h : parseFloatFinite txt = none) :
    newNumeric txt s = .ok { node := .const .null none } { s with lx := Lex.setErr s.lx } := by
  unfold newNumeric
  rw [h]
  rfl


/-! ### the values of the sample literals (kernel evaluation of the `strconv.ParseFloat` model) -/

/-- the IEEE doubles, as `(-1)^neg · m · 2^e` -/
theorem sample_values :
    parseFloatFinite "1.5".toList = some (.fin false 6755399441055744 (-52)) ∧      -- 3·2^51 · 2^-52
    parseFloatFinite ".5".toList = some (.fin false 4503599627370496 (-53)) ∧       -- 2^52 · 2^-53
    parseFloatFinite "5.".toList = some (.fin false 5629499534213120 (-50)) ∧       -- 5·2^50 · 2^-50
    parseFloatFinite "1e3".toList = some (.fin false 8796093022208000 (-43)) ∧      -- 1000·2^43 · 2^-43
    parseFloatFinite "1.5E-3".toList = some (.fin false 6917529027641082 (-62)) ∧
    parseFloatFinite "0.1".toList = some (.fin false 7205759403792794 (-56)) := by
  decide +kernel

/-- every spelling of a value denotes the same double -/
theorem sample_spellings :
    parseFloatFinite "1.5".toList = parseFloatFinite "1.50".toList ∧
    parseFloatFinite ".5".toList = parseFloatFinite "0.5".toList ∧
    parseFloatFinite "5.".toList = parseFloatFinite "5.0".toList ∧
    parseFloatFinite "5.".toList = parseFloatFinite "5".toList ∧
    parseFloatFinite "1e3".toList = parseFloatFinite "1000.0".toList ∧
    parseFloatFinite "1E3".toList = parseFloatFinite "1000".toList ∧
    parseFloatFinite "1.5E-3".toList = parseFloatFinite "0.0015".toList ∧
    parseFloatFinite "1.5e-3".toList = parseFloatFinite "0.0015".toList ∧
    parseFloatFinite "5.e1".toList = parseFloatFinite "50".toList ∧
    parseFloatFinite ".5e+2".toList = parseFloatFinite "50".toList ∧
    parseFloatFinite "1_0.5".toList = parseFloatFinite "10.5".toList ∧
    parseFloatFinite "0.e1".toList = parseFloatFinite "0".toList := by
  decide +kernel

/-- the text `json.Marshal` writes for them (what `String()` prints) -/
theorem sample_printed :
    (parseFloatFinite "1.5".toList).bind Decimal.jsonFloat = some "1.5".toList ∧
    (parseFloatFinite ".5".toList).bind Decimal.jsonFloat = some "0.5".toList ∧
    (parseFloatFinite "5.".toList).bind Decimal.jsonFloat = some "5".toList ∧
    (parseFloatFinite "1e3".toList).bind Decimal.jsonFloat = some "1000".toList ∧
    (parseFloatFinite "1.5E-3".toList).bind Decimal.jsonFloat = some "0.0015".toList ∧
    (parseFloatFinite "0.1".toList).bind Decimal.jsonFloat = some "0.1".toList := by
  decide +kernel

/-- out of range: `1e400` is refused (`±Inf`), `1e-400` silently becomes `0` (as `strconv` does) -/
theorem sample_range :
    parseFloatFinite "1e400".toList = none ∧
    parseFloatFinite "1e-400".toList = some (.fin false 0 (-1074)) := by
  decide +kernel

/-! ## (4) Concrete instances and evaluations -/

/-- the specification is inhabited as intended -/
theorem floatForm_samples :
    FloatForm "1.5".toList ∧ FloatForm "0.25".toList ∧ FloatForm "10.0".toList ∧ FloatForm "5.".toList ∧
    FloatForm "0.".toList ∧ FloatForm ".5".toList ∧ FloatForm "1e3".toList ∧ FloatForm "1E3".toList ∧
    FloatForm "1.5E-3".toList ∧ FloatForm ".5e+2".toList ∧ FloatForm "5.e1".toList ∧ FloatForm "0e1".toList ∧
    FloatForm "0.e1".toList ∧ FloatForm "1_0.5".toList ∧ FloatForm "1.5_0".toList ∧ FloatForm "1e1_0".toList ∧
    FloatForm ".5_0".toList ∧ FloatForm "0.89".toList := by
  refine ⟨?_, ?_, ?_, ?_, ?_, ?_, ?_, ?_, ?_, ?_, ?_, ?_, ?_, ?_, ?_, ?_, ?_, ?_⟩ <;>
    exact floatFormB_sound (by decide)

/-- … and excludes the forms the lexer refuses (and plain integers, which are `INT_P`) -/
theorem floatForm_excludes :
    ∀ s ∈ ["1e", "1e+", "1.5.5", "1..2", ".e1", "1.e", "00.5", "01.5", "1_.5", "1._5", "1__0.5", "1.5__0", "1e_1",
      "1_e1", "0_1.5", "15", "0", ".", "", "1.5e", "1.5_", "._5", "1e1_", "1e+_1", "1e1e1", "1.5 ", "-1.5"],
      ¬ FloatForm (String.toList s) := by
  decide

/-- the theorems instantiated: tokens whatever the oracles and whatever follows -/
example (o : Oracles) (ok : RoundTrip.OrOK o) :
    TokAt o (EndsNumeric o) '1' ".5E-3".toList (.numeric, "1.5E-3".toList) :=
  tokAt_float o ok (floatFormB_sound (by decide)) (by decide)

example (o : Oracles) (ok : RoundTrip.OrOK o) : TokAt o (EndsNumeric o) '5' ".".toList (.numeric, "5.".toList) :=
  tokAt_float o ok (floatFormB_sound (by decide)) (by decide)

example (o : Oracles) (ok : RoundTrip.OrOK o) : TokAt o (EndsNumeric o) '.' "5".toList (.numeric, ".5".toList) :=
  tokAt_dot_float o ok (floatFormB_sound (by decide))

example (o : Oracles) (ok : RoundTrip.OrOK o) : TokAt o (EndsNumeric o) '.' "5e+2".toList (.numeric, ".5e+2".toList) :=
  tokAt_dot_float o ok (floatFormB_sound (by decide))

example (s : PS) :
    newNumeric "1.5".toList s = .ok { node := .numeric (.fin false 6755399441055744 (-52)) none, lit := "1.5".toList } s :=
  (newNumeric_iff _ _ s).2 sample_values.1

/-- the accepted forms, parsed and printed back (the model, ASCII oracles) -/
theorem forms_accepted :
    run ".5" = "0.5" ∧ run "5." = "5" ∧ run "1.5" = "1.5" ∧ run "0.25" = "0.25" ∧ run "10.0" = "10" ∧
    run "1e3" = "1000" ∧ run "1E3" = "1000" ∧ run "1.5e-3" = "0.0015" ∧ run "1.5E-3" = "0.0015" ∧
    run ".5e+2" = "50" ∧ run "5.e1" = "50" ∧ run "1.e1" = "10" ∧ run "0.5" = "0.5" ∧ run "0." = "0" ∧
    run "0e1" = "0" ∧ run "0.e1" = "0" ∧ run "0.89" = "0.89" ∧ run ".0" = "0" ∧ run "-.5" = "-0.5" := by
  decide +kernel

/-- single underscores between digits are accepted in every digit group (as PostgreSQL ≥ 16 does) -/
theorem underscores_accepted :
    run "1_0.5" = "10.5" ∧ run "1.5_0" = "1.5" ∧ run ".5_0" = "0.5" ∧ run "1e1_0" = "10000000000" ∧
    run "1_0e1_0" = "100000000000" := by
  decide +kernel

/-- the forms that are not accepted -/
theorem forms_rejected :
    run "1e" = "ERR" ∧ run "1e+" = "ERR" ∧ run "1.5.5" = "ERR" ∧ run "1..2" = "ERR" ∧ run ".e1" = "ERR" ∧
    run "1.e" = "ERR" ∧ run "00.5" = "ERR" ∧ run "01.5" = "ERR" ∧ run "1_.5" = "ERR" ∧ run "1._5" = "ERR" ∧
    run "1__0.5" = "ERR" ∧ run "1.5__0" = "ERR" ∧ run "1e1__0" = "ERR" ∧ run "1_e1" = "ERR" ∧
    run "1e_1" = "ERR" ∧ run "1e1_" = "ERR" ∧ run "1.5_" = "ERR" ∧ run "._5" = "ERR" ∧ run "0_1.5" = "ERR" ∧
    run "1.5e" = "ERR" ∧ run "1e1e1" = "ERR" ∧ run "1.5a" = "ERR" ∧ run "1.x" = "ERR" ∧ run "00e1" = "ERR" ∧
    run "1e400" = "ERR" := by
  decide +kernel

/-- **what follows the literal.**  After a fraction, after `D.` and after an exponent a dot ends the
    token, so a method can be applied directly (`1.5.abs()`, `1..abs()`, `1e1.abs()`); after a plain
    integer the dot starts a fraction, hence `1.abs()` is an error (`1.` followed by an identifier
    start).  `1.5.e1` is the member accessor `.e1` applied to `1.5`; `1.5.5` and `1e1.5` are the
    tokens `1.5` `.5` / `1e1` `.5`, a syntax error of the grammar, not of the lexer.
    All of this agrees with PostgreSQL's jsonpath scanner (`1.type()` is "trailing junk", `1..e` is
    `(1).e`, `1.2.e` is `(1.2).e`). -/
theorem what_follows :
    run "1.5.abs()" = "(1.5).abs()" ∧ run "1.abs()" = "ERR" ∧ run "1..abs()" = "(1).abs()" ∧
    run "1 .abs()" = "(1).abs()" ∧ run "1e1.abs()" = "(10).abs()" ∧ run "1.5e1.abs()" = "(15).abs()" ∧
    run "1.5.e1" = "(1.5).\"e1\"" ∧ run "1e1.5" = "ERR" ∧ run "1.5[0]" = "(1.5)[0]" ∧
    run "1.5?(@ > 1)" = "(1.5)?(@ > 1)" ∧ run "1.5+2" = "(1.5 + 2)" ∧ run "1.+2" = "(1 + 2)" ∧
    run "1.5-2" = "(1.5 - 2)" ∧ run "1.5 " = "1.5" ∧ run "1.5<2" = "(1.5 < 2)" := by
  decide +kernel

/-! # Spelling variants: keyword case, `<>`, bare identifiers and variables -/


/-! ## (A) oracle hypotheses for upper-case ASCII letters and digits -/

def isUp (c : Char) : Bool := 'A' ≤ c && c ≤ 'Z'

/-- `unicode.ToLower` on ASCII -/
def lowerAscii (c : Char) : Char := if 'A' ≤ c && c ≤ 'Z' then Char.ofNat (c.toNat + 32) else c

structure OrUp (o : Oracles) : Prop where
  upS : ∀ c, isUp c = true → o.xidStart c = true
  upC : ∀ c, isUp c = true → o.xidContinue c = true
  upL : ∀ c, isUp c = true → o.toLower c = Char.ofNat (c.toNat + 32)
  digC : ∀ c, isDecimal c = true → o.xidContinue c = true
  digL : ∀ c, isDecimal c = true → o.toLower c = c

theorem isUp_nat (c : Char) : isUp c = true ↔ 65 ≤ c.toNat ∧ c.toNat ≤ 90 := by
  simp only [isUp, Bool.and_eq_true, decide_eq_true_eq]
  exact Iff.rfl

theorem isLow_nat (c : Char) : isLow c = true ↔ 97 ≤ c.toNat ∧ c.toNat ≤ 122 := by
  simp only [isLow, Bool.and_eq_true, decide_eq_true_eq]
  exact Iff.rfl

theorem isDecimal_nat (c : Char) : isDecimal c = true ↔ 48 ≤ c.toNat ∧ c.toNat ≤ 57 := by
  simp only [isDecimal, Bool.and_eq_true, decide_eq_true_eq]
  exact Iff.rfl

theorem isUp_false_of_nat (c : Char) (h : c.toNat < 65 ∨ 90 < c.toNat) : isUp c = false := by
  cases hu : isUp c with
  | false => rfl
  | true => have := (isUp_nat c).1 hu; omega

theorem orUp_ascii : OrUp asciiOracles where
  upS c h := by
    simp only [isUp] at h
    simp [asciiOracles, h]
  upC c h := by
    simp only [isUp] at h
    simp [asciiOracles, h]
  upL c h := by
    simp only [isUp] at h
    simp only [asciiOracles, h, ↓reduceIte]
  digC c h := by
    simp only [isDecimal] at h
    simp [asciiOracles, h]
  digL c h := by
    have h1 := (isDecimal_nat c).1 h
    have h2 : isUp c = false := isUp_false_of_nat c (by omega)
    simp only [isUp] at h2
    simp only [asciiOracles, h2, Bool.false_eq_true, ↓reduceIte]

theorem orOK_ascii0 : RoundTrip.OrOK asciiOracles where
  nl := by decide
  punctS := by decide
  punctC := by decide
  digitS c h := by
    have h1 := (isDecimal_nat c).1 h
    have h2 : isUp c = false := isUp_false_of_nat c (by omega)
    have h3 : isLow c = false := by
      cases hu : isLow c with
      | false => rfl
      | true => have := (isLow_nat c).1 hu; omega
    simp only [isUp] at h2
    simp only [isLow] at h3
    simp [asciiOracles, h2, h3]
  lowS c h := by
    simp only [isLow] at h
    simp [asciiOracles, h]
  lowC c h := by
    simp only [isLow] at h
    simp [asciiOracles, h]
  lowL c h := by
    have h2 : isUp c = false := by
      rcases h with h | h
      · have := (isLow_nat c).1 h
        exact isUp_false_of_nat c (by omega)
      · subst h; decide
    simp only [isUp] at h2
    simp only [asciiOracles, h2, Bool.false_eq_true, ↓reduceIte]
  lowP c h := by
    have := (isLow_nat c).1 h
    simp only [asciiOracles, Bool.and_eq_true, decide_eq_true_eq]
    omega

theorem orOK_ascii : OrOK asciiOracles where
  toOrOK := orOK_ascii0
  wsS c h := by rcases ws_cases h with h | h | h | h <;> subst h <;> decide
  wsC c h := by rcases ws_cases h with h | h | h | h <;> subst h <;> decide

/-! ## (B) identifiers and keywords of ASCII letters of either case, `_` and digits -/

/-- ASCII letter or `_`: a character that may start a bare identifier -/
def isIdCh0 (c : Char) : Bool := isLow c || isUp c || c = '_'

/-- ASCII letter, `_` or decimal digit -/
def isIdCh (c : Char) : Bool := isLow c || isUp c || c = '_' || isDecimal c

theorem isIdCh_of_0 {c : Char} (h : isIdCh0 c = true) : isIdCh c = true := by
  simp only [isIdCh0, isIdCh] at h ⊢
  simp [h]

theorem isIdCh0_of_word {c : Char} (h : isWordCh c = true) : isIdCh0 c = true := by
  simp only [isWordCh, Bool.or_eq_true, decide_eq_true_eq] at h
  simp only [isIdCh0, Bool.or_eq_true, decide_eq_true_eq]
  rcases h with h | h
  · exact Or.inl (Or.inl h)
  · exact Or.inr h

theorem isIdCh_cases {c : Char} (h : isIdCh c = true) :
    isLow c = true ∨ isUp c = true ∨ c = '_' ∨ isDecimal c = true := by
  simp only [isIdCh, Bool.or_eq_true, decide_eq_true_eq] at h
  rcases h with ((h | h) | h) | h
  · exact Or.inl h
  · exact Or.inr (Or.inl h)
  · exact Or.inr (Or.inr (Or.inl h))
  · exact Or.inr (Or.inr (Or.inr h))

theorem isIdCh0_cases {c : Char} (h : isIdCh0 c = true) :
    isLow c = true ∨ isUp c = true ∨ c = '_' := by
  simp only [isIdCh0, Bool.or_eq_true, decide_eq_true_eq] at h
  rcases h with (h | h) | h
  · exact Or.inl h
  · exact Or.inr (Or.inl h)
  · exact Or.inr (Or.inr h)

/-- character facts that do not depend on the oracles -/
theorem isIdCh_plain (c : Char) (h : isIdCh c = true) :
    c.toNat ≠ 0 ∧ c ≠ '\\' ∧ isWhitespace c = false := by
  have hn : 48 ≤ c.toNat ∧ c.toNat ≠ 92 := by
    rcases isIdCh_cases h with h | h | h | h
    · have := (isLow_nat c).1 h; omega
    · have := (isUp_nat c).1 h; omega
    · subst h; decide
    · have := (isDecimal_nat c).1 h; omega
  refine ⟨by omega, ?_, ?_⟩
  · intro hh; subst hh; exact hn.2 (by decide)
  · unfold isWhitespace
    have : c ≠ '\t' ∧ c ≠ '\n' ∧ c ≠ '\r' ∧ c ≠ ' ' := by
      refine ⟨?_, ?_, ?_, ?_⟩ <;> (intro hh; subst hh; revert hn; decide)
    simp [this.1, this.2.1, this.2.2.1, this.2.2.2]

theorem lowerAscii_up {c : Char} (h : isUp c = true) : lowerAscii c = Char.ofNat (c.toNat + 32) := by
  simp only [isUp] at h
  simp only [lowerAscii, h, ↓reduceIte]

theorem lowerAscii_notUp {c : Char} (h : isUp c = false) : lowerAscii c = c := by
  simp only [isUp] at h
  simp only [lowerAscii, h, Bool.false_eq_true, ↓reduceIte]

theorem asciiOracles_toLower : asciiOracles.toLower = lowerAscii := rfl

/-- a spelling whose lower-case form is a lower-case word consists of letters and `_` -/
theorem isIdCh0_of_lower {c : Char} (h : isWordCh (lowerAscii c) = true) : isIdCh0 c = true := by
  cases hu : isUp c with
  | true => simp [isIdCh0, hu]
  | false =>
    rw [lowerAscii_notUp hu] at h
    exact isIdCh0_of_word h

section
variable (o : Oracles) (ok : OrOK o) (up : OrUp o)
include ok up

theorem isIdCh_cont (c : Char) (h : isIdCh c = true) : isIdentCont o (some c) = true := by
  rcases isIdCh_cases h with h | h | h | h
  · simp [isIdentCont, ok.lowC c h]
  · simp [isIdentCont, up.upC c h]
  · subst h; simp [isIdentCont]
  · simp [isIdentCont, up.digC c h]

theorem isIdCh0_start (c : Char) (h : isIdCh0 c = true) : isIdentStart o (some c) = true := by
  rcases isIdCh0_cases h with h | h | h
  · simp [isIdentStart, ok.lowS c h]
  · simp [isIdentStart, up.upS c h]
  · subst h; simp [isIdentStart]

omit ok up in
theorem noNul_idw (w : List Char) (hw : ∀ c ∈ w, isIdCh c = true) : NoNul w :=
  fun c hc => (isIdCh_plain c (hw c hc)).1

/-- `identLoop_word` for letters of either case, `_` and digits -/
theorem identLoop_idw (w : List Char) (hw : ∀ c ∈ w, isIdCh c = true) :
    ∀ (f : Nat) (buf : List Char) (st : LState) (r : List Char), w.length + 1 ≤ f → NoNul r →
      isIdentCont o r.head? = false →
      identLoop o f (w ++ r).head? buf (fd st (w ++ r).tail) = (r.head?, w.reverse ++ buf, fd st r.tail) := by
  induction w with
  | nil =>
    intro f buf st r hf hr hy
    obtain ⟨f', rfl⟩ : ∃ f', f = f' + 1 := ⟨f - 1, by simp at hf; omega⟩
    simp only [List.nil_append, List.reverse_nil]
    unfold identLoop
    simp [hy]
  | cons c w ih =>
    intro f buf st r hf hr hy
    obtain ⟨f', rfl⟩ : ∃ f', f = f' + 1 := ⟨f - 1, by simp at hf; omega⟩
    have hc := isIdCh_plain c (hw c (by simp))
    have hcc := isIdCh_cont o ok up c (hw c (by simp))
    have hw' : ∀ c ∈ w, isIdCh c = true := fun d hd => hw d (by simp [hd])
    have hn : NoNul (w ++ r) := (noNul_idw w hw').append hr
    simp only [List.cons_append, List.head?_cons, List.tail_cons]
    unfold identLoop
    simp only [hcc, if_true, hc.2.1, if_false, next_fd _ _ hn]
    rw [ih hw' f' (c :: buf) st r (by simp at hf; omega) hr hy]
    simp

/-- `tokAt_word` for a first character that is a letter of either case or `_`, followed by letters,
    `_` and digits -/
theorem tokAt_idw (c : Char) (w : List Char) (hc : isIdCh0 c = true) (hw : ∀ x ∈ w, isIdCh x = true) :
    TokAt o (fun y => isIdentCont o y = false) c w (identToken o (c :: w), c :: w) := by
  intro f st r he hr hy
  have hcf := isIdCh_plain c (isIdCh_of_0 hc)
  have hn : NoNul (w ++ r) := (noNul_idw w hw).append hr
  have hid : isIdentStart o (some c) = true := isIdCh0_start o ok up c hc
  simp only [lexFrom]
  rw [skipWs_nonws _ _ _ hcf.2.2]
  simp only [hid, if_true]
  unfold scanIdent
  simp only [hcf.2.1, if_false, next_fd _ _ hn]
  rw [identLoop_idw o ok up w hw _ [c] st r ?_ hr hy]
  · simp [he]
  · simp only [fd_rest, List.length_map, List.length_tail, List.length_append]
    omega

/-- on ASCII identifier characters `unicode.ToLower` is `lowerAscii` -/
theorem toLower_idCh (c : Char) (h : isIdCh c = true) : o.toLower c = lowerAscii c := by
  rcases isIdCh_cases h with h | h | h | h
  · have := (isLow_nat c).1 h
    rw [lowerAscii_notUp (isUp_false_of_nat c (by omega))]
    exact ok.lowL c (Or.inl h)
  · rw [lowerAscii_up h]; exact up.upL c h
  · subst h
    rw [lowerAscii_notUp (by decide)]
    exact ok.lowL _ (Or.inr rfl)
  · have := (isDecimal_nat c).1 h
    rw [lowerAscii_notUp (isUp_false_of_nat c (by omega))]
    exact up.digL c h

theorem map_toLower_idw (w : List Char) (hw : ∀ x ∈ w, isIdCh x = true) :
    w.map o.toLower = w.map lowerAscii := by
  induction w with
  | nil => rfl
  | cons c w ih =>
    simp [toLower_idCh o ok up c (hw c (by simp)), ih (fun d hd => hw d (by simp [hd]))]

/-- the token of an ASCII identifier does not depend on the oracles: it can be computed with
    `asciiOracles` (by `decide` on a concrete word) -/
theorem identToken_ascii (w : List Char) (hw : ∀ x ∈ w, isIdCh x = true) :
    identToken o w = identToken asciiOracles w := by
  unfold identToken
  rw [map_toLower_idw o ok up w hw, asciiOracles_toLower]

end

/-- `identToken` on a word that is not one of the three case-sensitive literals depends on its
    lower-case form only -/
theorem identToken_lower (o o' : Oracles) (w w' : List Char)
    (h1 : w ≠ "null".toList) (h2 : w ≠ "true".toList) (h3 : w ≠ "false".toList)
    (h1' : w' ≠ "null".toList) (h2' : w' ≠ "true".toList) (h3' : w' ≠ "false".toList)
    (hm : w.map o.toLower = w'.map o'.toLower) : identToken o w = identToken o' w' := by
  unfold identToken
  simp only [h1, h2, h3, h1', h2', h3', if_false, hm]

/-- all keywords of `identToken`: those the printer writes and `lax` -/
def kwListAll : List (List Char × Tok) := ("lax".toList, .lax) :: kwList

theorem kwList_sub {p : List Char × Tok} (h : p ∈ kwList) : p ∈ kwListAll := List.mem_cons_of_mem _ h

theorem kwAll_wordChars : ∀ p ∈ kwListAll, ∀ x ∈ p.1, isWordCh x = true := by decide

theorem kwAll_identToken_id : ∀ p ∈ kwListAll, identToken idOracles p.1 = p.2 := by decide

theorem map_lowerAscii_word : ∀ p ∈ kwListAll, p.1.map lowerAscii = p.1 := by decide

/-- the keywords that are recognised whatever the case of their letters: all but `true`, `false`,
    `null` -/
def ciKw (t : Tok) : Bool := t != .true_ && t != .false_ && t != .null

theorem kw_not_lit : ∀ p ∈ kwListAll, ciKw p.2 = true →
    p.1 ≠ "null".toList ∧ p.1 ≠ "true".toList ∧ p.1 ≠ "false".toList := by decide

section
variable (o : Oracles) (ok : OrOK o) (up : OrUp o)
include ok up

/-- **keyword case**: any spelling whose ASCII lower-case form is the keyword `kw` (not `true`,
    `false`, `null`) is that keyword's token -/
theorem identToken_kw_case (sp kw : List Char) (t : Tok) (hp : (kw, t) ∈ kwListAll) (hci : ciKw t = true)
    (hl : sp.map lowerAscii = kw) : identToken o sp = t := by
  have hw : ∀ x ∈ sp, isIdCh x = true := by
    intro x hx
    have : lowerAscii x ∈ kw := by rw [← hl]; exact List.mem_map_of_mem hx
    exact isIdCh_of_0 (isIdCh0_of_lower (kwAll_wordChars (kw, t) hp _ this))
  have hnl := kw_not_lit (kw, t) hp hci
  have hidem := map_lowerAscii_word (kw, t) hp
  simp only at hnl hidem
  have hne : ∀ lit : List Char, lit.map lowerAscii = lit → kw ≠ lit → sp ≠ lit := by
    intro lit h1 h2 h3
    apply h2
    rw [← hl, h3, h1]
  have hid : identToken idOracles kw = t := kwAll_identToken_id (kw, t) hp
  rw [← hid]
  apply identToken_lower o idOracles sp kw (hne _ (by decide) hnl.1) (hne _ (by decide) hnl.2.1)
    (hne _ (by decide) hnl.2.2) hnl.1 hnl.2.1 hnl.2.2
  rw [map_toLower_idw o ok up sp hw, hl]
  show kw = kw.map (fun c => c)
  simp

theorem tokAt_kw_case (c : Char) (w kw : List Char) (t : Tok) (hp : (kw, t) ∈ kwListAll) (hci : ciKw t = true)
    (hl : (c :: w).map lowerAscii = kw) :
    TokAt o (fun y => isIdentCont o y = false) c w (t, c :: w) := by
  have hw : ∀ x ∈ c :: w, isIdCh0 x = true := by
    intro x hx
    have : lowerAscii x ∈ kw := by rw [← hl]; exact List.mem_map_of_mem hx
    exact isIdCh0_of_lower (kwAll_wordChars (kw, t) hp _ this)
  have := tokAt_idw o ok up c w (hw c (by simp)) (fun x hx => isIdCh_of_0 (hw x (by simp [hx])))
  rw [identToken_kw_case o ok up (c :: w) kw t hp hci hl] at this
  exact this

omit ok up in
theorem idCh0_not_punct {c : Char} (hc : isIdCh0 c = true) : c ∉ punct := by
  intro h
  have : ∀ x ∈ punct, isIdCh0 x = false := by decide
  rw [this c h] at hc
  exact absurd hc (by simp)

omit up in
theorem tolB_idCh0 {c : Char} {w : List Char} (hc : isIdCh0 c = true) :
    ∀ d, tolOf (c :: w) d = true → isIdentCont o (some d) = false := by
  have hnd : isDecimal c = false := by
    cases hd : isDecimal c with
    | false => rfl
    | true =>
      have h1 := (isDecimal_nat c).1 hd
      rcases isIdCh0_cases hc with h | h | h
      · have := (isLow_nat c).1 h; omega
      · have := (isUp_nat c).1 h; omega
      · subst h; exact absurd hd (by decide)
  exact tolB_word o ok hnd (idCh0_not_punct hc)

/-- the keyword as a piece of text -/
theorem seg_kw_case (c : Char) (w kw : List Char) (t : Tok) (hp : (kw, t) ∈ kwListAll) (hci : ciKw t = true)
    (hl : (c :: w).map lowerAscii = kw) (ht : t ≠ .stop) :
    Seg o (fun y => isIdentCont o y = false) (c :: w) [(t, c :: w)] := by
  have hw : ∀ x ∈ c :: w, isIdCh x = true := by
    intro x hx
    have : lowerAscii x ∈ kw := by rw [← hl]; exact List.mem_map_of_mem hx
    exact isIdCh_of_0 (isIdCh0_of_lower (kwAll_wordChars (kw, t) hp _ this))
  have hn := noNul_idw (c :: w) hw
  exact seg_of_tokAt o (tokAt_kw_case o ok up c w kw t hp hci hl) (NoNul.of_cons hn).1 (NoNul.of_cons hn).2 ht
    (isIdCh_plain c (hw c (by simp))).2.2 (fun _ h => tol_identCont o ok h)
    (tolB_idCh0 o ok (by
      have : lowerAscii c ∈ kw := by rw [← hl]; simp
      exact isIdCh0_of_lower (kwAll_wordChars (kw, t) hp _ this)))

/-- **`true`, `false`, `null` are case-sensitive**: any other spelling of them is an identifier -/
theorem identToken_lit_case (sp kw : List Char)
    (hk : kw = "true".toList ∨ kw = "false".toList ∨ kw = "null".toList)
    (hl : sp.map lowerAscii = kw) (hne : sp ≠ kw) : identToken o sp = .ident := by
  have hkw : ∀ x ∈ kw, isWordCh x = true := by
    rcases hk with h | h | h <;> subst h <;> decide
  have hw : ∀ x ∈ sp, isIdCh x = true := by
    intro x hx
    have : lowerAscii x ∈ kw := by rw [← hl]; exact List.mem_map_of_mem hx
    exact isIdCh_of_0 (isIdCh0_of_lower (hkw _ this))
  have hne' : ∀ lit : List Char, lit.map lowerAscii = lit → (kw = lit → False) ∨ kw = lit → sp ≠ lit := by
    intro lit h1 h2 h3
    rcases h2 with h2 | h2
    · apply h2; rw [← hl, h3, h1]
    · apply hne; rw [h3, h2]
  have e1 : sp ≠ "null".toList := by
    apply hne' _ (by decide)
    rcases hk with h | h | h <;> subst h
    · exact Or.inl (by decide)
    · exact Or.inl (by decide)
    · exact Or.inr rfl
  have e2 : sp ≠ "true".toList := by
    apply hne' _ (by decide)
    rcases hk with h | h | h <;> subst h
    · exact Or.inr rfl
    · exact Or.inl (by decide)
    · exact Or.inl (by decide)
  have e3 : sp ≠ "false".toList := by
    apply hne' _ (by decide)
    rcases hk with h | h | h <;> subst h
    · exact Or.inl (by decide)
    · exact Or.inr rfl
    · exact Or.inl (by decide)
  unfold identToken
  simp only [e1, e2, e3, if_false, map_toLower_idw o ok up sp hw, hl]
  rcases hk with h | h | h <;> subst h <;> decide

theorem identToken_TRUE : identToken o "TRUE".toList = .ident ∧ identToken o "True".toList = .ident ∧
    identToken o "FALSE".toList = .ident ∧ identToken o "NULL".toList = .ident ∧
    identToken o "Null".toList = .ident := by
  refine ⟨?_, ?_, ?_, ?_, ?_⟩
  · exact identToken_lit_case o ok up _ _ (Or.inl rfl) (by decide) (by decide)
  · exact identToken_lit_case o ok up _ _ (Or.inl rfl) (by decide) (by decide)
  · exact identToken_lit_case o ok up _ _ (Or.inr (Or.inl rfl)) (by decide) (by decide)
  · exact identToken_lit_case o ok up _ _ (Or.inr (Or.inr rfl)) (by decide) (by decide)
  · exact identToken_lit_case o ok up _ _ (Or.inr (Or.inr rfl)) (by decide) (by decide)

/-- … so `TRUE` etc. are lexed as bare identifiers (the text is kept as written) -/
theorem tokAt_lit_case (c : Char) (w kw : List Char)
    (hk : kw = "true".toList ∨ kw = "false".toList ∨ kw = "null".toList)
    (hl : (c :: w).map lowerAscii = kw) (hne : c :: w ≠ kw) :
    TokAt o (fun y => isIdentCont o y = false) c w (.ident, c :: w) := by
  have hkw : ∀ x ∈ kw, isWordCh x = true := by
    rcases hk with h | h | h <;> subst h <;> decide
  have hw : ∀ x ∈ c :: w, isIdCh0 x = true := by
    intro x hx
    have : lowerAscii x ∈ kw := by rw [← hl]; exact List.mem_map_of_mem hx
    exact isIdCh0_of_lower (hkw _ this)
  have := tokAt_idw o ok up c w (hw c (by simp)) (fun x hx => isIdCh_of_0 (hw x (by simp [hx])))
  rw [identToken_lit_case o ok up (c :: w) kw hk hl hne] at this
  exact this

end

/-! ## (C) `<>` is the token of `!=` -/

section
variable (o : Oracles) (ok : OrOK o)
include ok

theorem tokAt_ltgt : TokAt o (fun _ => True) '<' ['>'] (.notEq, []) := by
  intro f st r he hr _
  have hr' : NoNul ('>' :: r) := NoNul.cons (by decide) hr
  have hx := ok.punctS '<' (by decide)
  simp [lexFrom, skipWs, isWhitespace, isIdentStart, hx, isDecimal, isPrivateTokenRune, pathPrivate, pathTok2Len,
    scanOperator, next_fd _ _ hr', next_fd _ _ hr]

/-- `<>` and `!=` are the same token, text included -/
theorem tokAt_ltgt_eq_bangeq :
    TokAt o (fun _ => True) '<' ['>'] (.notEq, []) ∧ TokAt o (fun _ => True) '!' ['='] (.notEq, []) :=
  ⟨tokAt_ltgt o ok, tokAt_two o ok '!' '=' .notEq (by decide)⟩

theorem seg_ltgt : Seg o (fun _ => True) ['<', '>'] [(.notEq, [])] :=
  seg_of_tokAt o (tokAt_ltgt o ok) (by decide) (NoNul.cons (by decide) NoNul.nil) (by decide) (by decide)
    (fun _ _ => trivial) tolB_true

end

/-! ## (D) bare identifiers and bare variables -/

section
variable (o : Oracles) (ok : OrOK o) (up : OrUp o)
include ok up

/-- a bare identifier: letters of either case, `_`, digits (not first), not a keyword -/
theorem tokAt_ident (c : Char) (w : List Char) (hc : isIdCh0 c = true) (hw : ∀ x ∈ w, isIdCh x = true)
    (hid : identToken o (c :: w) = .ident) :
    TokAt o (fun y => isIdentCont o y = false) c w (.ident, c :: w) := by
  have := tokAt_idw o ok up c w hc hw
  rw [hid] at this
  exact this

/-- the same with the side condition in a form `decide` evaluates on a concrete word -/
theorem tokAt_ident' (c : Char) (w : List Char) (hc : isIdCh0 c = true) (hw : ∀ x ∈ w, isIdCh x = true)
    (hid : identToken asciiOracles (c :: w) = .ident) :
    TokAt o (fun y => isIdentCont o y = false) c w (.ident, c :: w) := by
  apply tokAt_ident o ok up c w hc hw
  rw [identToken_ascii o ok up (c :: w) ?_, hid]
  intro x hx
  simp only [List.mem_cons] at hx
  rcases hx with hx | hx
  · subst hx; exact isIdCh_of_0 hc
  · exact hw x hx

theorem seg_ident (c : Char) (w : List Char) (hc : isIdCh0 c = true) (hw : ∀ x ∈ w, isIdCh x = true)
    (hid : identToken o (c :: w) = .ident) :
    Seg o (fun y => isIdentCont o y = false) (c :: w) [(.ident, c :: w)] :=
  seg_of_tokAt o (tokAt_ident o ok up c w hc hw hid) (isIdCh_plain c (isIdCh_of_0 hc)).1 (noNul_idw w hw)
    (by simp) (isIdCh_plain c (isIdCh_of_0 hc)).2.2 (fun _ h => tol_identCont o ok h) (tolB_idCh0 o ok hc)

end

section
variable (o : Oracles)

/-- the loop of `scanVariable` over characters that are `xid.Continue` -/
theorem variableLoop_run (w : List Char) (hw : ∀ c ∈ w, o.xidContinue c = true ∧ c.toNat ≠ 0) :
    ∀ (f : Nat) (buf : List Char) (st : LState) (r : List Char), w.length + 1 ≤ f → NoNul r →
      isVariableRune o r.head? = false →
      variableLoop o f (w ++ r).head? buf (fd st (w ++ r).tail) = (r.head?, w.reverse ++ buf, fd st r.tail) := by
  induction w with
  | nil =>
    intro f buf st r hf hr hy
    obtain ⟨f', rfl⟩ : ∃ f', f = f' + 1 := ⟨f - 1, by simp at hf; omega⟩
    simp only [List.nil_append, List.reverse_nil]
    unfold variableLoop
    cases r with
    | nil => rfl
    | cons y r =>
      simp only [List.head?_cons, isVariableRune] at hy
      simp [hy]
  | cons c w ih =>
    intro f buf st r hf hr hy
    obtain ⟨f', rfl⟩ : ∃ f', f = f' + 1 := ⟨f - 1, by simp at hf; omega⟩
    have hc := hw c (by simp)
    have hw' : ∀ c ∈ w, o.xidContinue c = true ∧ c.toNat ≠ 0 := fun d hd => hw d (by simp [hd])
    have hn : NoNul (w ++ r) := NoNul.append (fun d hd => (hw' d hd).2) hr
    simp only [List.cons_append, List.head?_cons, List.tail_cons]
    unfold variableLoop
    simp only [hc.1, if_true, next_fd _ _ hn]
    rw [ih hw' f' (c :: buf) st r (by simp at hf; omega) hr hy]
    simp

variable (ok : OrOK o)
include ok

/-- a bare variable `$name`, `name` a non-empty sequence of `xid.Continue` characters -/
theorem tokAt_var_gen (n : Char) (ns : List Char) (hw : ∀ c ∈ n :: ns, o.xidContinue c = true ∧ c.toNat ≠ 0) :
    TokAt o (fun y => isVariableRune o y = false) '$' (n :: ns) (.variable, n :: ns) := by
  intro f st r he hr hy
  have hx := ok.punctS '$' (by decide)
  have hn0 := hw n (by simp)
  have hw' : ∀ c ∈ ns, o.xidContinue c = true ∧ c.toNat ≠ 0 := fun d hd => hw d (by simp [hd])
  have hnn : NoNul (n :: (ns ++ r)) := NoNul.cons hn0.2 (NoNul.append (fun d hd => (hw' d hd).2) hr)
  have hq : n ≠ '"' := by
    intro h
    have := ok.punctC '"' (by decide)
    rw [← h, hn0.1] at this
    exact absurd this (by simp)
  have hloop := variableLoop_run o (n :: ns) hw (List.length (ns ++ r) + 3) [] st r
    (by simp only [List.length_cons, List.length_append]; omega) hr hy
  simp only [List.cons_append, List.head?_cons, List.tail_cons, List.length_append] at hloop
  simp only [lexFrom]
  rw [skipWs_nonws _ _ _ (by decide)]
  simp [isIdentStart, hx, isDecimal, scanVariable, next_fd_cons _ _ _ hn0.2, hq, isVariableRune, hn0.1, hloop]

end

section
variable (o : Oracles) (ok : OrOK o) (up : OrUp o)
include ok up

/-- ASCII letter or digit -/
def isAlnum (c : Char) : Bool := isLow c || isUp c || isDecimal c

theorem isAlnum_cont (c : Char) (h : isAlnum c = true) : o.xidContinue c = true ∧ c.toNat ≠ 0 := by
  simp only [isAlnum, Bool.or_eq_true] at h
  rcases h with (h | h) | h
  · exact ⟨ok.lowC c h, by have := (isLow_nat c).1 h; omega⟩
  · exact ⟨up.upC c h, by have := (isUp_nat c).1 h; omega⟩
  · exact ⟨up.digC c h, by have := (isDecimal_nat c).1 h; omega⟩

/-- a bare variable `$name`, `name` a non-empty sequence of ASCII letters and digits (a digit may
    come first: `$1`) -/
theorem tokAt_var (n : Char) (ns : List Char) (hw : ∀ c ∈ n :: ns, isAlnum c = true) :
    TokAt o (fun y => isVariableRune o y = false) '$' (n :: ns) (.variable, n :: ns) :=
  tokAt_var_gen o ok n ns (fun c hc => isAlnum_cont o ok up c (hw c hc))

/-- … and with `_` as well, which is `xid.Continue` too (U+005F is in `XID_Continue`) -/
theorem tokAt_var_us (hus : o.xidContinue '_' = true) (n : Char) (ns : List Char)
    (hw : ∀ c ∈ n :: ns, isAlnum c = true ∨ c = '_') :
    TokAt o (fun y => isVariableRune o y = false) '$' (n :: ns) (.variable, n :: ns) := by
  apply tokAt_var_gen o ok n ns
  intro c hc
  rcases hw c hc with h | h
  · exact isAlnum_cont o ok up c h
  · subst h; exact ⟨hus, by decide⟩

end

/-! ## (E) the parser never looks at the text of a keyword token -/

section
variable {o : Oracles}

theorem plainKey_not {k : Tok} (h : isPlainKeyName k = true) : k ≠ .star ∧ k ≠ .any := by
  constructor <;> (intro hh; subst hh; simp [isPlainKeyName] at h)

/-- (E1) `.foo`, `."foo"`, `.strict`, `.last`, `.to`, `.true`, `.is` …: a key with the text as written -/
theorem accOp_plainKey (f : Nat) (k : Tok) (s : List Char) (hk : isPlainKeyName k = true) (rest : List TT) :
    RunsV (StP o (tDot :: (k, s) :: rest)) (accessorOp o (f + 1) .dot) (.key s none) (StE o rest) := by
  have hn := plainKey_not hk
  rw [accessorOp]
  lstep (consume_spec _ _)
  simp only [reduceCtorEq, ↓reduceIte]
  lstep (peek_cons _ _)
  simp only [hn.1, hn.2, hk, ↓reduceIte]
  lstep (consume_spec _ _)
  exact RunsV.pure _

/-- the keywords that are a method name when `(` follows and a key name otherwise -/
def isMethodKw (k : Tok) : Bool :=
  (methodOf k).isSome || k = .decimal || k = .date || k = .datetime || (precisionOp k).isSome

theorem accOp_methodKey (f : Nat) (k : Tok) (m : Method) (s : List Char) (hk : methodOf k = some m)
    (rest : List TT) (hr : (hd rest).1 ≠ .lparen) :
    RunsV (StP o (tDot :: (k, s) :: rest)) (accessorOp o (f + 1) .dot) (.key s none) (StA o rest) := by
  have h1 : k ≠ .star ∧ k ≠ .any ∧ isPlainKeyName k = false := by
    cases k <;> simp [methodOf] at hk <;> decide
  rw [accessorOp]
  lstep (consume_spec _ _)
  simp only [reduceCtorEq, ↓reduceIte]
  lstep (peek_cons _ _)
  simp only [h1.1, h1.2.1, h1.2.2, hk, ↓reduceIte, Bool.false_eq_true]
  lstep (consume_spec _ _)
  lstep (peek_any rest)
  simp only [hr, ↓reduceIte]
  exact RunsV.pure _

theorem accOp_decimalKey (f : Nat) (s : List Char) (rest : List TT) (hr : (hd rest).1 ≠ .lparen) :
    RunsV (StP o (tDot :: (.decimal, s) :: rest)) (accessorOp o (f + 1) .dot) (.key s none) (StA o rest) := by
  rw [accessorOp]
  lstep (consume_spec _ _)
  simp only [reduceCtorEq, ↓reduceIte]
  lstep (peek_cons _ _)
  simp [isPlainKeyName, methodOf]
  lstep (consume_spec _ _)
  lstep (peek_any rest)
  simp only [hr, ↓reduceIte]
  exact RunsV.pure _

theorem accOp_dateKey (f : Nat) (s : List Char) (rest : List TT) (hr : (hd rest).1 ≠ .lparen) :
    RunsV (StP o (tDot :: (.date, s) :: rest)) (accessorOp o (f + 1) .dot) (.key s none) (StA o rest) := by
  rw [accessorOp]
  lstep (consume_spec _ _)
  simp only [reduceCtorEq, ↓reduceIte]
  lstep (peek_cons _ _)
  simp [isPlainKeyName, methodOf]
  lstep (consume_spec _ _)
  lstep (peek_any rest)
  simp only [hr, ↓reduceIte]
  exact RunsV.pure _

theorem accOp_datetimeKey (f : Nat) (s : List Char) (rest : List TT) (hr : (hd rest).1 ≠ .lparen) :
    RunsV (StP o (tDot :: (.datetime, s) :: rest)) (accessorOp o (f + 1) .dot) (.key s none) (StA o rest) := by
  rw [accessorOp]
  lstep (consume_spec _ _)
  simp only [reduceCtorEq, ↓reduceIte]
  lstep (peek_cons _ _)
  simp [isPlainKeyName, methodOf]
  lstep (consume_spec _ _)
  lstep (peek_any rest)
  simp only [hr, ↓reduceIte]
  exact RunsV.pure _

theorem accOp_precisionKey (f : Nat) (k : Tok) (op : UnOp) (s : List Char) (hk : precisionOp k = some op)
    (rest : List TT) (hr : (hd rest).1 ≠ .lparen) :
    RunsV (StP o (tDot :: (k, s) :: rest)) (accessorOp o (f + 1) .dot) (.key s none) (StA o rest) := by
  have h1 : k ≠ .star ∧ k ≠ .any ∧ isPlainKeyName k = false ∧ methodOf k = none ∧ k ≠ .decimal ∧ k ≠ .date ∧
      k ≠ .datetime := by
    cases k <;> simp [precisionOp] at hk <;> decide
  rw [accessorOp]
  lstep (consume_spec _ _)
  simp only [reduceCtorEq, ↓reduceIte]
  lstep (peek_cons _ _)
  simp only [h1.1, h1.2.1, h1.2.2.1, h1.2.2.2.1, h1.2.2.2.2.1, h1.2.2.2.2.2.1, h1.2.2.2.2.2.2, hk, ↓reduceIte,
    Bool.false_eq_true]
  lstep (consume_spec _ _)
  lstep (peek_any rest)
  simp only [hr, ↓reduceIte]
  exact RunsV.pure _

/-- (E1, second half) `.size`, `.decimal`, `.date`, `.datetime`, `.time` … not followed by `(` are keys
    with the text as written -/
theorem accOp_kwKey (f : Nat) (k : Tok) (s : List Char) (hk : isMethodKw k = true)
    (rest : List TT) (hr : (hd rest).1 ≠ .lparen) :
    RunsV (StP o (tDot :: (k, s) :: rest)) (accessorOp o (f + 1) .dot) (.key s none) (StA o rest) := by
  simp only [isMethodKw, Bool.or_eq_true, decide_eq_true_eq, Option.isSome_iff_exists] at hk
  rcases hk with (((⟨m, hm⟩ | h) | h) | h) | ⟨op, hop⟩
  · exact accOp_methodKey f k m s hm rest hr
  · subst h; exact accOp_decimalKey f s rest hr
  · subst h; exact accOp_dateKey f s rest hr
  · subst h; exact accOp_datetimeKey f s rest hr
  · exact accOp_precisionKey f k op s hop rest hr

/-- (E2) `.SIZE()` = `.size()`: the method keyword in any spelling -/
theorem accOp_method_any (f : Nat) (m : Method) (x : List Char) (rest : List TT) :
    RunsV (StP o (tDot :: (methodTok m, x) :: tLp :: tRp :: rest)) (accessorOp o (f + 1) .dot) (.method m none)
      (StE o rest) := by
  have hm := (methodStr_lexes_back m).2
  have h1 : methodTok m ≠ .star ∧ methodTok m ≠ .any ∧ isPlainKeyName (methodTok m) = false := by
    cases m <;> decide
  rw [accessorOp]
  lstep (consume_spec _ _)
  simp only [reduceCtorEq, ↓reduceIte]
  lstep (peek_cons _ _)
  simp only [h1.1, h1.2.1, h1.2.2, hm, ↓reduceIte, Bool.false_eq_true]
  lstep (consume_spec _ _)
  lstep (peek_cons _ _)
  simp only [tLp, ↓reduceIte]
  lstep (consume_spec _ _)
  lstep (expect_spec _ _ _)
  exact RunsV.pure _

/-- the same with the keyword token given directly -/
theorem accOp_method_tok (f : Nat) (k : Tok) (m : Method) (x y z : List Char) (hk : methodOf k = some m)
    (rest : List TT) :
    RunsV (StP o (tDot :: (k, x) :: (.lparen, y) :: (.rparen, z) :: rest)) (accessorOp o (f + 1) .dot)
      (.method m none) (StE o rest) := by
  have h1 : k ≠ .star ∧ k ≠ .any ∧ isPlainKeyName k = false := by
    cases k <;> simp [methodOf] at hk <;> decide
  rw [accessorOp]
  lstep (consume_spec _ _)
  simp only [reduceCtorEq, ↓reduceIte]
  lstep (peek_cons _ _)
  simp only [h1.1, h1.2.1, h1.2.2, hk, ↓reduceIte, Bool.false_eq_true]
  lstep (consume_spec _ _)
  lstep (peek_cons _ _)
  simp only [↓reduceIte]
  lstep (consume_spec _ _)
  lstep (expect_spec _ _ _)
  exact RunsV.pure _

theorem accOp_date_any (f : Nat) (x : List Char) (rest : List TT) :
    RunsV (StP o (tDot :: (.date, x) :: tLp :: tRp :: rest)) (accessorOp o (f + 1) .dot) (.unary .date none none)
      (StE o rest) := by
  rw [accessorOp]
  lstep (consume_spec _ _)
  simp only [reduceCtorEq, ↓reduceIte]
  lstep (peek_cons _ _)
  simp [isPlainKeyName, methodOf]
  lstep (consume_spec _ _)
  lstep (peek_cons _ _)
  simp only [tLp, ↓reduceIte]
  lstep (consume_spec _ _)
  lstep (expect_spec _ _ _)
  exact RunsV.pure _

theorem accOp_datetime0_any (f : Nat) (x : List Char) (rest : List TT) :
    RunsV (StP o (tDot :: (.datetime, x) :: tLp :: tRp :: rest)) (accessorOp o (f + 1) .dot)
      (.unary .datetime none none) (StE o rest) := by
  rw [accessorOp]
  lstep (consume_spec _ _)
  simp only [reduceCtorEq, ↓reduceIte]
  lstep (peek_cons _ _)
  simp [isPlainKeyName, methodOf]
  lstep (consume_spec _ _)
  lstep (peek_cons _ _)
  simp only [tLp, ↓reduceIte]
  lstep (consume_spec _ _)
  lstep (peek_cons _ _)
  simp [tRp]
  lstep (expect_spec _ _ _).ofE
  exact RunsV.pure _

theorem accOp_datetime1_any (f : Nat) (x t : List Char) (rest : List TT) :
    RunsV (StP o (tDot :: (.datetime, x) :: tLp :: (.string, t) :: tRp :: rest)) (accessorOp o (f + 1) .dot)
      (.unary .datetime (some (.str t none)) none) (StE o rest) := by
  rw [accessorOp]
  lstep (consume_spec _ _)
  simp only [reduceCtorEq, ↓reduceIte]
  lstep (peek_cons _ _)
  simp [isPlainKeyName, methodOf]
  lstep (consume_spec _ _)
  lstep (peek_cons _ _)
  simp only [tLp, ↓reduceIte]
  lstep (consume_spec _ _)
  lstep (peek_cons _ _)
  simp
  lstep (consume_spec _ _)
  lstep (expect_spec _ _ _)
  exact RunsV.pure _

/-- (E3) the mode keyword in any spelling: `parseBody` up to the call of `parseAtom` -/
theorem body_mode_tok (lax : Bool) (x : List Char) {ts : List TT}
    {isPred : Bool} {ev : EV} {f : Nat}
    (hatom : ∃ a mid, RunsV (StE o ts) (parseAtom o f .top) a (StE o mid) ∧
      RunsV (StE o mid) (match a with
        | .expr v _ => (pure (lax, false, v) : P (Bool × Bool × EV))
        | .pred v0 => do
          let (v, _) ← predLoop o f v0
          pure (lax, true, v)) (lax, isPred, ev) (StE o [])) :
    RunsV (StE o ((if lax then Tok.lax else Tok.strict, x) :: ts)) (parseBody o f) (lax, isPred, ev) (StE o []) := by
  obtain ⟨a, mid, ha1, ha2⟩ := hatom
  cases lax with
  | true =>
    unfold parseBody
    lstep (peek_cons _ _)
    simp only [reduceCtorEq, ↓reduceIte]
    lstep (consume_spec _ _)
    lstep (RunsV.pure _)
    lstep ha1
    exact ha2
  | false =>
    unfold parseBody
    lstep (peek_cons _ _)
    simp only [reduceCtorEq, Bool.false_eq_true, ↓reduceIte]
    lstep (consume_spec _ _)
    lstep (RunsV.pure _)
    lstep ha1
    exact ha2

/-- no mode keyword: lax -/
theorem body_nomode_tok {tk : TT} {ts : List TT} (h1 : tk.1 ≠ .strict) (h2 : tk.1 ≠ .lax)
    {isPred : Bool} {ev : EV} {f : Nat}
    (hatom : ∃ a mid, RunsV (StE o (tk :: ts)) (parseAtom o f .top) a (StE o mid) ∧
      RunsV (StE o mid) (match a with
        | .expr v _ => (pure (true, false, v) : P (Bool × Bool × EV))
        | .pred v0 => do
          let (v, _) ← predLoop o f v0
          pure (true, true, v)) (true, isPred, ev) (StE o [])) :
    RunsV (StE o (tk :: ts)) (parseBody o f) (true, isPred, ev) (StE o []) := by
  obtain ⟨a, mid, ha1, ha2⟩ := hatom
  obtain ⟨t, x⟩ := tk
  simp only at h1 h2
  unfold parseBody
  lstep (peek_cons _ _)
  simp only [h1, h2, ↓reduceIte]
  lstep (RunsV.pure _)
  lstep ha1
  exact ha2

end

/-! ### (E4) the other keywords, with arbitrary token texts -/

section
variable {o : Oracles}

/-- `last` as an operand: the head node does not depend on the text of the token, so
    `unaryT_chain` / `unaryT_chain'` of `RoundTrip` apply to `(.last, x)` (and to `(.null, x)` …) as they are -/
theorem headOf_last_any (x : List Char) : headOf (.last, x) = some (.const .last none) := rfl

/-- `last` as a level of `.**` -/
theorem anyLevel_last_any (x : List Char) (rest : List TT) :
    RunsV (StE o ((.last, x) :: rest)) (anyLevel o) none (StE o rest) := by
  unfold anyLevel
  lstep (peek_cons _ _)
  simp only [reduceCtorEq, ↓reduceIte]
  lstep (consume_spec _ _)
  exact RunsV.pure _

/-- `.**{a}` with any tokens `la` for the level -/
theorem accOp_anyOne_any (f : Nat) (la : TT) (va : Option Nat) (rest : List TT)
    (ha : ∀ rest', RunsV (StE o (la :: rest')) (anyLevel o) va (StE o rest')) :
    RunsV (StP o (tDot :: tAny :: tLc :: la :: tRc :: rest)) (accessorOp o (f + 1) .dot) (newAny va va)
      (StE o rest) := by
  rw [accessorOp]
  lstep (consume_spec _ _)
  simp only [reduceCtorEq, ↓reduceIte]
  lstep (peek_cons _ _)
  simp [tAny]
  lstep (consume_spec _ _)
  lstep (peek_cons _ _)
  simp only [tLc, ↓reduceIte]
  lstep (consume_spec _ _)
  lstep (ha _)
  lstep (peek_cons _ _)
  simp only [tRc, ↓reduceIte]
  lstep (consume_spec _ _)
  exact RunsV.pure _

/-- `.**{a to b}`: `to` in any spelling -/
theorem accOp_anyRange_any (f : Nat) (la lb : TT) (va vb : Option Nat) (x : List Char) (rest : List TT)
    (ha : ∀ rest', RunsV (StE o (la :: rest')) (anyLevel o) va (StE o rest'))
    (hb : ∀ rest', RunsV (StE o (lb :: rest')) (anyLevel o) vb (StE o rest')) :
    RunsV (StP o (tDot :: tAny :: tLc :: la :: (.to, x) :: lb :: tRc :: rest)) (accessorOp o (f + 1) .dot)
      (newAny va vb) (StE o rest) := by
  rw [accessorOp]
  lstep (consume_spec _ _)
  simp only [reduceCtorEq, ↓reduceIte]
  lstep (peek_cons _ _)
  simp [tAny]
  lstep (consume_spec _ _)
  lstep (peek_cons _ _)
  simp only [tLc, ↓reduceIte]
  lstep (consume_spec _ _)
  lstep (ha _)
  lstep (peek_cons _ _)
  simp only [reduceCtorEq, ↓reduceIte]
  lstep (consume_spec _ _)
  lstep (hb _)
  lstep (expect_spec _ _ _)
  exact RunsV.pure _

/-- after `(`: a predicate, `) is unknown`, the two keywords in any spelling -/
theorem parenTail_isUnknown_any {p : Node} {toks : List TT} (x y : List Char) (h : FullSpec o p toks) (f : Nat)
    (rest : List TT) (hf : 16 * toks.length + 8 ≤ f) :
    RunsV (StE o (toks ++ tRp :: (.is, x) :: (.unknown, y) :: rest)) (parenTail o (f + 1) .paren)
      (.pred (unary .isUnknown { node := p })) (StE o rest) := by
  obtain ⟨v0, mid, h1, h2⟩ := h f .paren (tRp :: (.is, x) :: (.unknown, y) :: rest) hf (Or.inl rfl)
  rw [parenTail]
  lstep h1
  lstep h2
  simp only [hd, tRp, ne_eq, not_true_eq_false, ↓reduceIte]
  lstep (consume_spec _ _)
  lstep (peek_cons _ _)
  simp only [isAccessorStart, reduceCtorEq, ↓reduceIte, decide_false, Bool.or_self, Bool.false_eq_true]
  lstep (consume_spec _ _)
  lstep (expect_spec _ _ _)
  exact RunsV.pure _

/-- `(p) IS UNKNOWN` is an atom -/
theorem isUnknown_atom_any {p : Node} {toks : List TT} (x y : List Char) (h : FullSpec o p toks) :
    AtomSpec o (.unary .isUnknown (some p) none) (tLp :: toks ++ [tRp, (.is, x), (.unknown, y)]) := by
  intro f ctx rest hf hfol
  simp only [List.length_cons, List.length_append, List.length_nil] at hf
  obtain ⟨f', rfl⟩ : ∃ f', f = f' + 2 := ⟨f - 2, by omega⟩
  rw [parseAtom]
  simp only [List.cons_append, List.append_assoc, List.nil_append]
  lstep (peek_cons _ _)
  simp only [tLp, reduceCtorEq, ↓reduceIte]
  lstep (consume_spec _ _)
  lstep (parenTail_isUnknown_any x y h f' rest (by omega))
  exact RunsV.pure _

/-- `EXISTS (x)` is an atom (operand form) -/
theorem exists_atom_any {x : Node} {tk : TT} {ts : List TT} (a : List Char) (hx : OpdSpec o x tk ts) :
    AtomSpec o (.unary .exists (some x) none) ((.exists, a) :: tLp :: tk :: ts ++ [tRp]) := by
  intro f ctx rest hf hfol
  simp only [List.length_cons, List.length_append, List.length_nil] at hf
  obtain ⟨f', rfl⟩ : ∃ f', f = f' + 4 := ⟨f - 4, by omega⟩
  have hrun := hx (f' + 1) (tRp :: rest) (by omega) rfl (by simp [hd, tRp])
  have hex : RunsV (StE o (tLp :: tk :: ts ++ tRp :: rest)) (existsTail o (f' + 3)) (unary .exists (evOf x))
      (StE o rest) := by
    rw [existsTail]
    lstep (expect_spec _ _ _)
    simp only [List.cons_append] at hrun
    lstep (unary_of_unaryT hrun)
    lstep (arith_nil (f' + 1) (evOf x) _ rfl rfl)
    simp only [hd, tRp, ne_eq, not_true_eq_false, ↓reduceIte]
    lstep (consume_spec _ _)
    exact RunsV.pure _
  rw [parseAtom]
  simp only [List.cons_append, List.append_assoc, List.nil_append]
  lstep (peek_cons _ _)
  simp only [reduceCtorEq, ↓reduceIte]
  lstep (consume_spec _ _)
  simp only [List.cons_append, List.append_assoc, List.nil_append] at hex
  lstep hex
  exact RunsV.pure' (by simp [unary]) (fun _ h => h)

/-- `EXISTS (e)` with an expression `e` -/
theorem existsE_atom_any {x : Node} {tk : TT} {ts : List TT} {p q : Prop} (a : List Char)
    (hx : ESpec o x tk ts p q) :
    AtomSpec o (.unary .exists (some x) none) ((.exists, a) :: tLp :: tk :: ts ++ [tRp]) := by
  intro f ctx rest hf hfol
  simp only [List.length_cons, List.length_append, List.length_nil] at hf
  obtain ⟨f', rfl⟩ : ∃ f', f = f' + 3 := ⟨f - 3, by omega⟩
  obtain ⟨u, mid, hr1, hr2⟩ := expr_full hx (f' + 1) (tRp :: rest) (by omega) ⟨rfl, by simp [hd, tRp], rfl, rfl⟩
  have hex : RunsV (StE o (tLp :: tk :: ts ++ tRp :: rest)) (existsTail o (f' + 2)) (unary .exists (evOf x))
      (StE o rest) := by
    rw [existsTail]
    lstep (expect_spec _ _ _)
    simp only [List.cons_append] at hr1
    lstep hr1
    lstep hr2
    simp only [hd, tRp, ne_eq, not_true_eq_false, ↓reduceIte]
    lstep (consume_spec _ _)
    exact RunsV.pure _
  rw [parseAtom]
  simp only [List.cons_append, List.append_assoc, List.nil_append]
  lstep (peek_cons _ _)
  simp only [reduceCtorEq, ↓reduceIte]
  lstep (consume_spec _ _)
  simp only [List.cons_append, List.append_assoc, List.nil_append] at hex
  lstep hex
  exact RunsV.pure' rfl (fun _ h => h)

/-- `l STARTS WITH "s"` / `l STARTS WITH $s` (the variable token with any text, so a bare `$s` too) -/
theorem startsE_atom_any {l : Node} {tkl : TT} {tsl : List TT} {p q : Prop} (a b s : List Char) (isVar : Bool)
    (hl : ESpec o l tkl tsl p q) :
    AtomSpec o (.binary .startsWith (some l) (some (if isVar then .var s none else .str s none)) none)
      (tkl :: tsl ++ [(.starts, a), (.with_, b), if isVar then (.variable, s) else (.string, s)]) := by
  intro f ctx rest hf hfol
  simp only [List.length_cons, List.length_append, List.length_nil] at hf
  obtain ⟨f', rfl⟩ : ∃ f', f = f' + 2 := ⟨f - 2, by omega⟩
  have := atom_of_expr hl f' ctx ((.starts, a) :: (.with_, b) :: (if isVar then (.variable, s) else (.string, s)) :: rest)
    (.pred { node := .binary .startsWith (some l) (some (if isVar then .var s none else .str s none)) none })
    (StE o rest) (by omega) ⟨rfl, by simp [hd], rfl, rfl⟩ ?_
  · simpa using this
  · simp only [hd, List.cons_append, List.nil_append, exprTailK, compOp, ↓reduceIte]
    lstep (consume_spec _ _)
    lstep (expect_spec _ _ _)
    cases isVar with
    | false =>
      simp only [Bool.false_eq_true, ↓reduceIte]
      lstep (peek_cons _ _)
      simp only [↓reduceIte]
      lstep (consume_spec _ _)
      exact RunsV.pure' rfl (fun _ h => h)
    | true =>
      simp only [↓reduceIte]
      lstep (peek_cons _ _)
      simp only [reduceCtorEq, ↓reduceIte]
      lstep (consume_spec _ _)
      exact RunsV.pure' rfl (fun _ h => h)

/-- `x LIKE_REGEX "pat"` -/
theorem regexE_atom_noflag_any {x : Node} {tk : TT} {ts : List TT} {p q : Prop} (a pat : List Char)
    (hx : ESpec o x tk ts p q) (hacc : o.regexAccepts pat 0 = true) :
    AtomSpec o (.regex x pat 0 none) (tk :: ts ++ [(.likeRegex, a), (.string, pat)]) := by
  intro f ctx rest hf hfol
  simp only [List.length_cons, List.length_append, List.length_nil] at hf
  obtain ⟨f', rfl⟩ : ∃ f', f = f' + 2 := ⟨f - 2, by omega⟩
  have := atom_of_expr hx f' ctx ((.likeRegex, a) :: (.string, pat) :: rest)
    (.pred { node := .regex x pat 0 none }) (StE o rest) (by omega) ⟨rfl, by simp [hd], rfl, rfl⟩ ?_
  · simpa using this
  · simp only [hd, List.cons_append, exprTailK, compOp, reduceCtorEq, ↓reduceIte]
    lstep (consume_spec _ _)
    lstep (peek_cons _ _)
    simp only [ne_eq, not_true_eq_false, ↓reduceIte]
    lstep (consume_spec _ _)
    lstep (peek_any rest)
    simp only [hfol.notFlag, ↓reduceIte]
    have : regexFlags [] = some 0 := by decide
    simp only [mkRegex, this, hacc, ↓reduceIte]
    exact RunsV.pure' rfl (fun _ h => StE.ofA h)

/-- `x LIKE_REGEX "pat" FLAG "fs"`, the flag letters `fs` in any order, with repetitions -/
theorem regexE_atom_flag_any {x : Node} {tk : TT} {ts : List TT} {p q : Prop} (a b pat fs : List Char) (fl : Nat)
    (hx : ESpec o x tk ts p q) (hfs : regexFlags fs = some fl) (hacc : o.regexAccepts pat fl = true) :
    AtomSpec o (.regex x pat fl none) (tk :: ts ++ [(.likeRegex, a), (.string, pat), (.flag, b), (.string, fs)]) := by
  intro f ctx rest hf hfol
  simp only [List.length_cons, List.length_append, List.length_nil] at hf
  obtain ⟨f', rfl⟩ : ∃ f', f = f' + 2 := ⟨f - 2, by omega⟩
  have := atom_of_expr hx f' ctx ((.likeRegex, a) :: (.string, pat) :: (.flag, b) :: (.string, fs) :: rest)
    (.pred { node := .regex x pat fl none }) (StE o rest) (by omega) ⟨rfl, by simp [hd], rfl, rfl⟩ ?_
  · simpa using this
  · simp only [hd, List.cons_append, exprTailK, compOp, reduceCtorEq, ↓reduceIte]
    lstep (consume_spec _ _)
    lstep (peek_cons _ _)
    simp only [ne_eq, not_true_eq_false, ↓reduceIte]
    lstep (consume_spec _ _)
    lstep (peek_cons _ _)
    simp only [↓reduceIte]
    lstep (consume_spec _ _)
    lstep (peek_cons _ _)
    simp only [ne_eq, not_true_eq_false, ↓reduceIte]
    lstep (consume_spec _ _)
    simp only [mkRegex, hfs, hacc, ↓reduceIte]
    exact RunsV.pure' rfl (fun _ h => h)

/-- a subscript range `l TO r` -/
theorem subRun_two_any {l r : Node} {tkl tkr : TT} {tsl tsr : List TT} {p q p' q' : Prop} (x : List Char)
    (hl : ESpec o l tkl tsl p q) (hr : ESpec o r tkr tsr p' q') :
    SubRun o (.binary .subscript (some l) (some r) none) tkl (tsl ++ (.to, x) :: tkr :: tsr) := by
  intro f acc more w post hf hsep hk
  simp only [List.length_cons, List.length_append] at hf
  have hs := sepFollow hsep
  obtain ⟨u, mid, h1, h2⟩ := expr_fullT hl f ((.to, x) :: tkr :: (tsr ++ more)) (by omega) ⟨rfl, by simp [hd], rfl, rfl⟩
  obtain ⟨u2, mid2, h3, h4⟩ := expr_full hr f more (by omega) hs.1
  rw [indexList_eq]
  simp only [List.cons_append, List.append_assoc] at h1 ⊢
  lstep h1
  lstep h2
  simp only [hd, indexElemK, ↓reduceIte, evOf_node]
  lstep (consume_spec _ _)
  simp only [List.cons_append] at h3
  lstep h3
  lstep h4
  exact hk

end

/-! ## pieces of text (`Seg`) for the spelling variants -/

section
variable (o : Oracles) (ok : OrOK o) (up : OrUp o)
include ok up

omit ok up in
theorem isIdCh0_notDecimal (c : Char) (h : isIdCh0 c = true) : isDecimalR (some c) = false := by
  have hn : 58 ≤ c.toNat := by
    rcases isIdCh0_cases h with h | h | h
    · have := (isLow_nat c).1 h; omega
    · have := (isUp_nat c).1 h; omega
    · subst h; decide
  cases hd : isDecimalR (some c) with
  | false => rfl
  | true =>
    have := (isDecimal_nat c).1 hd
    omega

/-- `.name` with a bare identifier -/
theorem seg_dot_ident (c : Char) (w : List Char) (hc : isIdCh0 c = true) (hw : ∀ x ∈ w, isIdCh x = true)
    (hid : identToken o (c :: w) = .ident) :
    Seg o (fun y => isIdentCont o y = false) ('.' :: c :: w) [tDot, (.ident, c :: w)] :=
  Seg.app_cons o (seg_dot o ok) (seg_ident o ok up c w hc hw hid) (isIdCh0_notDecimal c hc)

/-- `.KEYWORD` in any spelling -/
theorem seg_dot_kw_case (c : Char) (w kw : List Char) (t : Tok) (hp : (kw, t) ∈ kwListAll) (hci : ciKw t = true)
    (hl : (c :: w).map lowerAscii = kw) (ht : t ≠ .stop) :
    Seg o (fun y => isIdentCont o y = false) ('.' :: c :: w) [tDot, (t, c :: w)] := by
  have hc : isIdCh0 c = true := by
    have : lowerAscii c ∈ kw := by rw [← hl]; simp
    exact isIdCh0_of_lower (kwAll_wordChars (kw, t) hp _ this)
  exact Seg.app_cons o (seg_dot o ok) (seg_kw_case o ok up c w kw t hp hci hl ht) (isIdCh0_notDecimal c hc)

/-- `$name` -/
theorem seg_var (n : Char) (ns : List Char) (hw : ∀ c ∈ n :: ns, isAlnum c = true) :
    Seg o (fun y => isVariableRune o y = false) ('$' :: n :: ns) [(.variable, n :: ns)] :=
  seg_of_tokAt o (tokAt_var o ok up n ns hw) (by decide)
    (fun c hc => (isAlnum_cont o ok up c (hw c hc)).2) (by simp) (by decide) (fun _ h => (tol_dollar o ok h).2)
    (tolB_var o ok (by
      intro h
      have := hw n (by simp)
      rw [h] at this
      exact absurd this (by decide)))

end

/-- `.name` and `."name"` are the same accessor; so are `.SIZE()` and `.size()` -/
theorem key_bare_eq_quoted {o : Oracles} (f : Nat) (s : List Char) (rest : List TT) :
    RunsV (StP o (tDot :: (.ident, s) :: rest)) (accessorOp o (f + 1) .dot) (.key s none) (StE o rest) ∧
    RunsV (StP o (tDot :: (.string, s) :: rest)) (accessorOp o (f + 1) .dot) (.key s none) (StE o rest) :=
  ⟨accOp_plainKey f .ident s (by decide) rest, accOp_plainKey f .string s (by decide) rest⟩

/-- (E3, text level) the mode keyword in any spelling followed by a blank: text, tokens and `parseBody`
    up to the call of `parseAtom` (the counterpart of `RoundTrip.body_mode`, which writes `strict ` only) -/
theorem body_mode_case {o : Oracles} (ok : OrOK o) (up : OrUp o) (lax : Bool) (c : Char) (w : List Char)
    (hl : (c :: w).map lowerAscii = if lax then "lax".toList else "strict".toList)
    {txt : List Char} {tk : TT} {ts : List TT} (hseg : Seg2 o brk txt (tk :: ts))
    {isPred : Bool} {ev : EV} {f : Nat}
    (hatom : ∃ a mid, RunsV (StE o (tk :: ts)) (parseAtom o f .top) a (StE o mid) ∧
      RunsV (StE o mid) (match a with
        | .expr v _ => (pure (lax, false, v) : P (Bool × Bool × EV))
        | .pred v0 => do
          let (v, _) ← predLoop o f v0
          pure (lax, true, v)) (lax, isPred, ev) (StE o [])) :
    ∃ toks', Lexes o (c :: w ++ ' ' :: txt) toks' ∧ toks'.length = ts.length + 2 ∧
      RunsV (StE o toks') (parseBody o f) (lax, isPred, ev) (StE o []) := by
  have hkw : ((if lax then "lax".toList else "strict".toList), (if lax then Tok.lax else Tok.strict)) ∈ kwListAll := by
    cases lax <;> decide
  have hci : ciKw (if lax then Tok.lax else Tok.strict) = true := by cases lax <;> decide
  have hns : (if lax then Tok.lax else Tok.strict) ≠ .stop := by cases lax <;> decide
  have h1 := seg_kw_case o ok up c w _ _ hkw hci hl hns
  have hs := Seg.app_cons o h1 hseg.2 (identCont_punct o ok ' ' (by decide))
  refine ⟨_, hs.lexes o ok brk_none, by simp, ?_⟩
  exact body_mode_tok lax (c :: w) hatom

/-! ## (F) concrete evaluations (`asciiOracles`) -/

/-- keyword case, `<>`, bare vs quoted keys: the same result as the canonical spelling -/
theorem c03_examples :
    run "STRICT $.a" = run "strict $.a" ∧ run "StRiCt $.a" = "strict $.\"a\"" ∧
    run "Lax $" = run "$" ∧ run "LAX $" = "$" ∧ run "lax $" = "$" ∧
    run "$ ? (@ LIKE_REGEX \"a\" FLAG \"i\")" = run "$ ? (@ like_regex \"a\" flag \"i\")" ∧
    run "$ ? (@ like_regex \"a\" flag \"i\")" = "$?(@ like_regex \"a\" flag \"i\")" ∧
    run "($ == 1) IS UNKNOWN" = run "($ == 1) is unknown" ∧ run "($ == 1) Is Unknown" = "($ == 1) is unknown" ∧
    run "$.a <> 1" = run "$.a != 1" ∧ run "$.a <> 1" = "($.\"a\" != 1)" ∧
    run "$.foo" = run "$.\"foo\"" ∧ run "$.foo" = "$.\"foo\"" ∧
    run "$.SIZE()" = run "$.size()" ∧ run "$.Size()" = "$.size()" ∧
    run "$[LAST]" = run "$[last]" ∧ run "$[Last]" = "$[last]" ∧
    run "$[1 TO 2]" = run "$[1 to 2]" ∧ run "$[1 To 2]" = "$[1 to 2]" ∧
    run "EXISTS ($.a)" = run "exists ($.a)" ∧ run "$ ? (@ STARTS WITH \"a\")" = run "$ ? (@ starts with \"a\")" ∧
    run "$.**{1 TO LAST}" = run "$.**{1 to last}" ∧ run "$.DATETIME()" = run "$.datetime()" ∧
    run "$.Time_Tz(2)" = run "$.time_tz(2)" ∧ run "$.DECIMAL(1,2)" = run "$.decimal(1,2)" := by
  decide +kernel

/-- keywords as key names keep the text as written (the key is case-sensitive) -/
theorem c03_keyword_keys :
    run "$.strict" = "$.\"strict\"" ∧ run "$.STRICT" = "$.\"STRICT\"" ∧ run "$.last" = "$.\"last\"" ∧
    run "$.to" = "$.\"to\"" ∧ run "$.true" = "$.\"true\"" ∧ run "$.is" = "$.\"is\"" ∧
    run "$.size" = "$.\"size\"" ∧ run "$.SIZE" = "$.\"SIZE\"" ∧ run "$.decimal" = "$.\"decimal\"" ∧
    run "$.time_tz.a" = "$.\"time_tz\".\"a\"" ∧ run "$.\\u0066oo" = "$.\"foo\"" := by
  decide +kernel

/-- `true`, `false`, `null` are case-sensitive: other spellings are bare identifiers, which are not
    operands — rejected; after a `.` they are keys like any identifier -/
theorem c03_literals_case_sensitive :
    run "TRUE" = "ERR" ∧ run "True" = "ERR" ∧ run "$ == TRUE" = "ERR" ∧ run "$ == NULL" = "ERR" ∧
    run "$ == False" = "ERR" ∧ run "$ == true" = "($ == true)" ∧ run "$ == null" = "($ == null)" ∧
    run "$.TRUE" = "$.\"TRUE\"" ∧ firstTok "TRUE".toList = .ident ∧ firstTok "true".toList = .true_ := by
  decide +kernel

/-- bare variables -/
theorem c03_variables :
    run "$foo" = run "$\"foo\"" ∧ run "$foo" = "$\"foo\"" ∧ run "$a_1" = "$\"a_1\"" ∧ run "$1" = "$\"1\"" ∧
    run "$STRICT" = "$\"STRICT\"" := by
  decide +kernel

/-! ## Respelling a token of the canonical text: string escapes, `$"…"`, `<>` -/

section
variable {o : Oracles}

/-- the token of a text is determined by the text -/
theorem tk_unique {C C' : Option Char → Prop} {c : Char} {w : List Char} {tk tk' : TT}
    (h : TokAt o C c w tk) (h' : TokAt o C' c w tk') (y : Option Char) (hy : C y) (hy' : C' y)
    (hn : ∀ d, y = some d → d.toNat ≠ 0) : tk = tk' := by
  let st : LState := { rest := [], ch := none, err := false }
  have hr : NoNul y.toList := by
    intro d hd
    cases y with
    | none => simp at hd
    | some e => simp at hd; subst hd; exact hn _ rfl
  have hh : y.toList.head? = y := by cases y <;> rfl
  have e1 := h 0 st y.toList rfl hr (by rw [hh]; exact hy)
  have e2 := h' 0 st y.toList rfl hr (by rw [hh]; exact hy')
  rw [e1] at e2
  injection e2 with a b _ _
  exact Prod.ext a b

/-- a respelling whose own follow condition is trivial: same blank flag, same token; the first
    character may change only where the canonical text has a blank before the token -/
theorem Resp.free {it it' : Item} (hsp : it'.sp = it.sp) (htk : it'.tk = it.tk) (hok : ItemOK o it')
    (hC : ∀ y, it'.C y) (hc : it'.c = it.c ∨ it.sp = true) : Resp o it it' :=
  ⟨hsp, htk, hok, fun y _ => hC y, hc⟩

/-- a piece `p'` is a permitted respelling of the piece `p` of the canonical text: the same text; or
    both are double-quoted strings (resp. `$"…"` variables) spelling the same characters; or `p` is `!=`
    (preceded by a blank) and `p'` is `<>` -/
def PieceResp (p p' : Bool × List Char) : Prop :=
  p'.1 = p.1 ∧
  (p'.2 = p.2 ∨
   (∃ body body' s, SpellsStr body s ∧ SpellsStr body' s ∧
      p.2 = '"' :: (body ++ ['"']) ∧ p'.2 = '"' :: (body' ++ ['"'])) ∨
   (∃ body body' s, SpellsStr body s ∧ SpellsStr body' s ∧
      p.2 = '$' :: '"' :: (body ++ ['"']) ∧ p'.2 = '$' :: '"' :: (body' ++ ['"'])) ∨
   (p.1 = true ∧ p.2 = ['!', '='] ∧ p'.2 = ['<', '>']))

/-- pointwise -/
inductive PieceRespL : List (Bool × List Char) → List (Bool × List Char) → Prop
  | nil : PieceRespL [] []
  | cons {p p' : Bool × List Char} {r r' : List (Bool × List Char)} (h : PieceResp p p') (hr : PieceRespL r r') :
      PieceRespL (p :: r) (p' :: r')

theorem sepStart_blank : SepStart (some ' ') := ⟨' ', rfl, Or.inl (by decide)⟩

/-- from a respelled piece to a respelled item -/
theorem resp_of_piece (ok : OrOK o) {it : Item} (hit : ItemOK o it) {p' : Bool × List Char}
    (h : PieceResp it.piece p') : ∃ it', Resp o it it' ∧ it'.piece = p' := by
  obtain ⟨p1, p2⟩ := p'
  obtain ⟨hsp, h⟩ := h
  simp only [Item.piece] at hsp h
  rcases h with h | ⟨body, body', s, hb, hb', e, e'⟩ | ⟨body, body', s, hb, hb', e, e'⟩ | ⟨hs, e, e'⟩
  · refine ⟨it, Resp.refl hit, ?_⟩
    simp only [Item.piece]; rw [hsp, h]
  · injection e with ec ew
    have htk : it.tk = (.string, s) := by
      have h1 := hit.1
      rw [ec, ew] at h1
      exact tk_unique h1 (tokAt_string_spelled o ok hb) (some ' ') (hit.2.2.2.2.2.1 _ sepStart_blank) trivial
        (fun d hd => by injection hd with hd; subst hd; decide)
    refine ⟨⟨it.sp, '"', body' ++ ['"'], (.string, s), fun _ => True⟩, Resp.free rfl htk.symm ?_ (fun _ => trivial)
      (Or.inl ec.symm), ?_⟩
    · exact ⟨tokAt_string_spelled o ok hb', (show ('"' : Char).toNat ≠ 0 by decide),
        hb'.noNul.append (NoNul.cons (by decide) NoNul.nil),
        by simp, (show isWhitespace '"' = false by decide), fun _ _ => trivial, fun _ _ => trivial⟩
    · simp only [Item.piece]; rw [hsp, e']
  · injection e with ec ew
    have htk : it.tk = (.variable, s) := by
      have h1 := hit.1
      rw [ec, ew] at h1
      exact tk_unique h1 (tokAt_variable_spelled o ok hb) (some ' ') (hit.2.2.2.2.2.1 _ sepStart_blank) trivial
        (fun d hd => by injection hd with hd; subst hd; decide)
    refine ⟨⟨it.sp, '$', '"' :: (body' ++ ['"']), (.variable, s), fun _ => True⟩,
      Resp.free rfl htk.symm ?_ (fun _ => trivial) (Or.inl ec.symm), ?_⟩
    · exact ⟨tokAt_variable_spelled o ok hb', (show ('$' : Char).toNat ≠ 0 by decide),
        NoNul.cons (by decide) (hb'.noNul.append (NoNul.cons (by decide) NoNul.nil)), by simp,
        (show isWhitespace '$' = false by decide), fun _ _ => trivial, fun _ _ => trivial⟩
    · simp only [Item.piece]; rw [hsp, e']
  · injection e with ec ew
    have htk : it.tk = (.notEq, []) := by
      have h1 := hit.1
      rw [ec, ew] at h1
      exact tk_unique h1 (tokAt_two o (ok : RoundTrip.OrOK o) '!' '=' .notEq (by decide)) (some ' ')
        (hit.2.2.2.2.2.1 _ sepStart_blank) trivial (fun d hd => by injection hd with hd; subst hd; decide)
    refine ⟨⟨it.sp, '<', ['>'], (.notEq, []), fun _ => True⟩,
      Resp.free rfl htk.symm ?_ (fun _ => trivial) (Or.inr hs), ?_⟩
    · exact ⟨tokAt_ltgt o ok, (show ('<' : Char).toNat ≠ 0 by decide), NoNul.cons (by decide) NoNul.nil, by simp,
        (show isWhitespace '<' = false by decide), fun _ _ => trivial, fun _ _ => trivial⟩
    · simp only [Item.piece]; rw [hsp, e']

theorem respL_of_pieces (ok : OrOK o) : ∀ {items : List Item}, (∀ it ∈ items, ItemOK o it) →
    ∀ {ps' : List (Bool × List Char)}, PieceRespL (items.map Item.piece) ps' →
    ∃ items', RespL o items items' ∧ items'.map Item.piece = ps' := by
  intro items
  induction items with
  | nil =>
    intro _ ps' h
    cases h
    exact ⟨[], RespL.nil, rfl⟩
  | cons it r ih =>
    intro hok ps' h
    cases h with
    | cons h hr =>
      obtain ⟨it', h1, h2⟩ := resp_of_piece ok (hok it (by simp)) h
      obtain ⟨r', h3, h4⟩ := ih (fun it' h' => hok it' (by simp [h'])) hr
      exact ⟨it' :: r', RespL.cons h1 h3, by simp [h2, h4]⟩

/-- **`spelling_independent`** (class `RT5`), explicit form: cut the printed text of `a` into its token
    texts; respell strings and `$"…"` variables with any permitted escapes, write `<>` for `!=`; put any
    separator before each piece (non-empty where the printer writes a blank) and at the end: `Parse`
    returns `a`. -/
theorem spelling_independent (ok : OrOK o) (a : AST) (h : RT5 o a = true) :
    ∃ txt, Print.toString o.isPrint a = some txt ∧
      ∀ (ps' : List (Bool × List Char)) (seps : List (List Char)) (fin : List Char),
        PieceRespL (tokSplit o txt) ps' → LayoutOKT ps' seps → Sep fin →
        parse o (utf8 (renderT (ps'.map (·.2)) seps ++ fin)) = .ok a := by
  obtain ⟨items, h1, h2, h3, h4⟩ := layout_stage5 ok a h
  refine ⟨canon items, h1, ?_⟩
  intro ps' seps fin hp hl hfin
  rw [tokSplit_canon (ok : RoundTrip.OrOK o) brk_none items h2 h3] at hp
  obtain ⟨items', hr, he⟩ := respL_of_pieces ok h2 hp
  subst he
  rw [renderT_items]
  exact h4 items' seps fin hr (layoutOKT_items items' seps hl) hfin _ (decodeAll_utf8 _)

end

/-! ## The mode keyword in any spelling (`STRICT`, `Lax`, …, or none) before a root in any layout -/

section
variable {o : Oracles}

/-- what is proved of the root of a path: printed text, tokens (not starting with a mode keyword), and
    `parseAtom` (followed by `predLoop` for a predicate) on them -/
def RootOK (o : Oracles) (root : Node) (isPred : Bool) : Prop :=
  ∃ (txt : List Char) (tk : TT) (ts : List TT),
    Print.writeTo o.isPrint root false true = some txt ∧ Seg2 o brk txt (tk :: ts) ∧
    tk.1 ≠ .strict ∧ tk.1 ≠ .lax ∧
    ∀ (f : Nat) (lax : Bool), 16 * (ts.length + 1) + 8 ≤ f → ∃ ev : EV, ev.node = root ∧
      ∃ a mid, RunsV (StE o (tk :: ts)) (parseAtom o f .top) a (StE o mid) ∧
        RunsV (StE o mid) (match a with
          | .expr v _ => (pure (lax, false, v) : P (Bool × Bool × EV))
          | .pred v0 => do
            let (v, _) ← predLoop o f v0
            pure (lax, true, v)) (lax, isPred, ev) (StE o [])

theorem rootOK_pred {p : Node} (hp : PredOK o p) : RootOK o p true := by
  obtain ⟨txt, toks, hpr, hseg, ⟨tk, ts, htoks, hst⟩, _, _, hl2⟩ := hp true
  subst htoks
  have hm := predStart_mode hst
  have hfull := full_of_left (by decide) hl2
  refine ⟨txt, tk, ts, hpr, hseg, hm.1, hm.2, ?_⟩
  intro f lax hf
  obtain ⟨v0, mid, h1, h2⟩ := hfull f .top [] (by simpa using hf) (Or.inr rfl)
  refine ⟨{ node := p }, rfl, .pred v0, mid, by simpa using h1, ?_⟩
  simp only []
  lstep h2
  exact RunsV.pure' rfl (fun _ h => StE.ofA h)

theorem rootOK_expr {n : Node} (hn : ExprOK o n) : RootOK o n false := by
  obtain ⟨txt, tk, ts, hpr, hseg, hst, _, _, hunit⟩ := hn true
  obtain ⟨_, hha⟩ := hunit (Or.inl rfl)
  have hm := predStart_mode hst
  refine ⟨txt, tk, ts, hpr, hseg, hm.1, hm.2, ?_⟩
  intro f lax hf
  obtain ⟨f', rfl⟩ : ∃ f', f = f' + 3 := ⟨f - 3, by omega⟩
  refine ⟨evOf n, rfl, .expr (evOf n) .stop, [], ?_, RunsV.pure _⟩
  have := hha (f' + 2) .top [] (.expr (evOf n) .stop) (StE o []) (by omega) rfl (by decide) ?_
  · simpa using this
  · rw [exprTail_eq]
    lstep (arith_nil f' (evOf n) [] rfl rfl)
    exact (exprK_end (f' + 1) .top (by decide) (evOf n) [] (Or.inr rfl)).toE

theorem rootOK_stage5 (ok : OrOK o) (a : AST) (h : RT5 o a = true) : validate a.root = true ∧ RootOK o a.root a.pred := by
  obtain ⟨root, lax, pred⟩ := a
  simp only [RT5, Bool.and_eq_true] at h
  obtain ⟨hv, hr⟩ := h
  refine ⟨hv, ?_⟩
  cases pred with
  | true =>
    simp only [if_true] at hr
    exact rootOK_pred ((allOK5 ok _).pred root (Nat.le_refl _) hr)
  | false =>
    simp only [Bool.false_eq_true, if_false] at hr
    exact rootOK_expr ((allOK5 ok _).expr root (Nat.le_refl _) hr)

/-- the spellings of the mode prefix: nothing (lax), or the keyword `lax` / `strict` with letters of
    either case — the text of the prefix and its tokens -/
inductive ModeSp : Bool → List Char → List TT → Prop
  | none : ModeSp true [] []
  | kw (lax : Bool) (c : Char) (w : List Char)
      (h : (c :: w).map lowerAscii = if lax then "lax".toList else "strict".toList) :
      ModeSp lax (c :: w) [(if lax then Tok.lax else Tok.strict, c :: w)]

/-- the text of a path: the mode prefix, a blank if there is a prefix, the root -/
def withMode (m txt : List Char) : List Char := if m = [] then txt else m ++ ' ' :: txt

/-- **The mode keyword in any spelling, the root in any layout.** -/
theorem layout_mode (ok : OrOK o) (up : OrUp o) {root : Node} {isPred : Bool} (H : RootOK o root isPred)
    (hv : validate root = true) {lax : Bool} {m : List Char} {mt : List TT} (hm : ModeSp lax m mt) :
    ∃ (rtxt : List Char) (items : List Item), Print.writeTo o.isPrint root false true = some rtxt ∧
      withMode m rtxt = canon items ∧ (∀ it ∈ items, ItemOK o it) ∧ Gaps items brk ∧
      ∀ (items' : List Item) (seps : List (List Char)) (fin : List Char),
        RespL o items items' → LayoutOK items' seps → Sep fin →
        ∀ bytes, decodeAll bytes = (render items' seps ++ fin).map Src.ch →
          parse o bytes = .ok ⟨root, lax, isPred⟩ := by
  obtain ⟨txt, tk, ts, hpr, hseg, h1, h2, hrun⟩ := H
  cases hm with
  | none =>
    have hr : ∀ f, 16 * (tk :: ts).length + 8 ≤ f → ∃ ev : EV, ev.node = root ∧
        RunsV (StE o (tk :: ts)) (parseBody o f) (true, isPred, ev) (StE o []) := by
      intro f hf
      obtain ⟨ev, hev, hatom⟩ := hrun f true (by simpa using hf)
      exact ⟨ev, hev, body_nomode_tok h1 h2 hatom⟩
    obtain ⟨items, e1, _, e3, e4, e5⟩ := parse_layout ok hseg.1 true isPred root hr hv
    exact ⟨txt, items, hpr, by simpa [withMode] using e1, e3, e4, e5⟩
  | kw lax c w hl =>
    have hkw : ((if lax then "lax".toList else "strict".toList), (if lax then Tok.lax else Tok.strict)) ∈ kwListAll := by
      cases lax <;> decide
    have hci : ciKw (if lax then Tok.lax else Tok.strict) = true := by cases lax <;> decide
    have hns : (if lax then Tok.lax else Tok.strict) ≠ .stop := by cases lax <;> decide
    have s1 := seg_kw_case o ok up c w _ _ hkw hci hl hns
    have hs := Seg.app_cons o s1 hseg.2 (identCont_punct o (ok : RoundTrip.OrOK o) ' ' (by decide))
    have hr : ∀ f, 16 * ([(if lax then Tok.lax else Tok.strict, c :: w)] ++ tk :: ts).length + 8 ≤ f →
        ∃ ev : EV, ev.node = root ∧
        RunsV (StE o ([(if lax then Tok.lax else Tok.strict, c :: w)] ++ tk :: ts)) (parseBody o f)
          (lax, isPred, ev) (StE o []) := by
      intro f hf
      obtain ⟨ev, hev, hatom⟩ := hrun f lax (by simp at hf; omega)
      exact ⟨ev, hev, body_mode_tok lax (c :: w) hatom⟩
    obtain ⟨items, e1, _, e3, e4, e5⟩ := parse_layout ok hs lax isPred root hr hv
    exact ⟨txt, items, hpr, by simpa [withMode] using e1, e3, e4, e5⟩

/-- `layout_mode` for the class `RT5` -/
theorem layout_mode_stage5 (ok : OrOK o) (up : OrUp o) (a : AST) (h : RT5 o a = true)
    {lax : Bool} {m : List Char} {mt : List TT} (hm : ModeSp lax m mt) :
    ∃ (rtxt : List Char) (items : List Item), Print.writeTo o.isPrint a.root false true = some rtxt ∧
      withMode m rtxt = canon items ∧ (∀ it ∈ items, ItemOK o it) ∧ Gaps items brk ∧
      ∀ (items' : List Item) (seps : List (List Char)) (fin : List Char),
        RespL o items items' → LayoutOK items' seps → Sep fin →
        ∀ bytes, decodeAll bytes = (render items' seps ++ fin).map Src.ch →
          parse o bytes = .ok ⟨a.root, lax, a.pred⟩ :=
  layout_mode ok up (rootOK_stage5 ok a h).2 (rootOK_stage5 ok a h).1 hm

end

/-! ## A checker for separators and layouts (for concrete instances) -/

/-- split at the first `*/`: the comment body and what follows the comment -/
def splitClose : List Char → Option (List Char × List Char)
  | [] => none
  | c :: r =>
    if c = '*' ∧ r.head? = some '/' then some ([], r.tail)
    else match splitClose r with
      | some (b, r') => some (c :: b, r')
      | none => none

theorem splitClose_spec : ∀ (l b r : List Char), splitClose l = some (b, r) →
    l = b ++ '*' :: '/' :: r ∧ noClose b = true := by
  intro l
  induction l with
  | nil => intro b r h; simp [splitClose] at h
  | cons c t ih =>
    intro b r h
    rw [splitClose] at h
    by_cases hc : c = '*' ∧ t.head? = some '/'
    · rw [if_pos hc] at h
      injection h with h
      injection h with h1 h2
      subst h1; subst h2
      obtain ⟨hc1, hc2⟩ := hc
      cases t with
      | nil => simp at hc2
      | cons d t' =>
        simp only [List.head?_cons, Option.some.injEq] at hc2
        subst hc1; subst hc2
        exact ⟨rfl, rfl⟩
    · rw [if_neg hc] at h
      cases hs : splitClose t with
      | none => rw [hs] at h; simp at h
      | some p =>
        obtain ⟨b', r'⟩ := p
        rw [hs] at h
        simp only [Option.some.injEq, Prod.mk.injEq] at h
        obtain ⟨h1, h2⟩ := h
        subst h1; subst h2
        obtain ⟨e, hn⟩ := ih b' r' hs
        refine ⟨by rw [e]; rfl, ?_⟩
        cases b' with
        | nil => rfl
        | cons d b'' =>
          have hd : t.head? = some d := by rw [e]; rfl
          simp only [noClose, Bool.and_eq_true, Bool.not_eq_true', Bool.and_eq_false_iff, beq_eq_false_iff_ne]
          refine ⟨?_, hn⟩
          by_cases h1 : c = '*'
          · right
            intro h2
            exact hc ⟨h1, by rw [hd, h2]⟩
          · left; exact h1

/-- is the text a separator (the fuel bounds the number of white-space characters and comments) -/
def sepB : Nat → List Char → Bool
  | _, [] => true
  | 0, _ :: _ => false
  | f + 1, c :: s =>
    if isWhitespace c then sepB f s
    else if c = '/' ∧ s.head? = some '*' then
      match splitClose s.tail with
      | some (b, r) => noNulB b && sepB f r
      | none => false
    else false

theorem sep_of_sepB : ∀ (f : Nat) (l : List Char), sepB f l = true → Sep l := by
  intro f
  induction f with
  | zero =>
    intro l h
    cases l with
    | nil => exact Sep.nil
    | cons _ _ => simp [sepB] at h
  | succ f ih =>
    intro l h
    cases l with
    | nil => exact Sep.nil
    | cons c s =>
      rw [sepB] at h
      by_cases hw : isWhitespace c = true
      · rw [if_pos hw] at h
        exact Sep.ws hw (ih s h)
      · rw [if_neg hw] at h
        by_cases hc : c = '/' ∧ s.head? = some '*'
        · rw [if_pos hc] at h
          obtain ⟨hc1, hc2⟩ := hc
          cases s with
          | nil => simp at hc2
          | cons d t =>
            simp only [List.head?_cons, Option.some.injEq] at hc2
            subst hc1; subst hc2
            simp only [List.tail_cons] at h
            cases hs : splitClose t with
            | none => rw [hs] at h; simp at h
            | some p =>
              obtain ⟨b, r⟩ := p
              rw [hs] at h
              simp only [Bool.and_eq_true] at h
              obtain ⟨e, hn⟩ := splitClose_spec t b r hs
              rw [e]
              exact Sep.comment (noNul_of_B h.1) hn (ih r h.2)
        · rw [if_neg hc] at h
          simp at h

/-- is `seps` a layout for the pieces -/
def layoutOKTB : Option (List Char) → List (Bool × List Char) → List (List Char) → Bool
  | _, [], [] => true
  | prev, p :: r, s :: ss =>
    sepB s.length s &&
      (!p.1 || !s.isEmpty || (match prev, p.2 with
        | some q, c :: _ => tolOf q c
        | _, _ => false)) && layoutOKTB (some p.2) r ss
  | _, _, _ => false

theorem layoutOKTp_of_B : ∀ (ps : List (Bool × List Char)) (prev : Option (List Char)) (seps : List (List Char)),
    layoutOKTB prev ps seps = true → LayoutOKTp prev ps seps := by
  intro ps
  induction ps with
  | nil => intro prev seps h; cases seps with
    | nil => trivial
    | cons _ _ => simp [layoutOKTB] at h
  | cons p r ih =>
    intro prev seps h
    cases seps with
    | nil => simp [layoutOKTB] at h
    | cons s ss =>
      simp only [layoutOKTB, Bool.and_eq_true, Bool.or_eq_true, Bool.not_eq_true'] at h
      refine ⟨sep_of_sepB _ _ h.1.1, ?_, ih _ ss h.2⟩
      intro hp
      rcases h.1.2 with (h' | h') | h'
      · rw [hp] at h'; exact absurd h' (by simp)
      · left; intro hs; rw [hs] at h'; simp at h'
      · right
        cases prev with
        | none => simp at h'
        | some q =>
          cases hp2 : p.2 with
          | nil => rw [hp2] at h'; simp at h'
          | cons c t => rw [hp2] at h'; exact ⟨q, c, rfl, rfl, h'⟩

theorem layoutOKT_of_B (ps : List (Bool × List Char)) (seps : List (List Char))
    (h : layoutOKTB none ps seps = true) : LayoutOKT ps seps := layoutOKTp_of_B ps none seps h

/-! ## §1 The parser calculus -/

/-- `n` pairs of parentheses around a token sequence -/
def parensT : Nat → List TT → List TT
  | 0, ts => ts
  | n + 1, ts => tLp :: parensT n ts ++ [tRp]

/-- `n` pairs of parentheses around a text -/
def parensC : Nat → List Char → List Char
  | 0, s => s
  | n + 1, s => '(' :: (parensC n s ++ [')'])

section
variable {o : Oracles}

/-- **Redundant parentheses around an expression.**  If the tokens `tk :: ts` are the expression `e`
    (whatever positions they are fit for), then `( tk … ts )` is the *same* expression `e`, and it is fit
    for every expression position: as a unit (operand of `* / %`, of a sign, head of accessors' absence),
    as right operand of `+ -`, as a whole expression. -/
theorem redundant_parens_expr (ok : OrOK o) {e : Node} {tk : TT} {ts : List TT} {p q : Prop}
    (h : ESpec o e tk ts p q) (p' q' : Prop) : ESpec o e tLp (tk :: ts ++ [tRp]) p' q' :=
  espec_paren ok h p' q'

/-- any number of pairs: `(( … tk … ts … ))` is still `e`; with at least one pair it is fit for every
    position -/
theorem redundant_parens_expr_iter (ok : OrOK o) {e : Node} {tk : TT} {ts : List TT} {p q : Prop}
    (h : ESpec o e tk ts p q) :
    ∀ n, ∃ tk' ts', parensT n (tk :: ts) = tk' :: ts' ∧ ESpec o e tk' ts' (0 < n ∨ p) (0 < n ∨ q) := by
  intro n
  induction n with
  | zero =>
    exact ⟨tk, ts, rfl, h.imp (fun hh => hh.resolve_left (by simp)) (fun hh => hh.resolve_left (by simp))⟩
  | succ n ih =>
    obtain ⟨tk', ts', he, hs⟩ := ih
    refine ⟨tLp, tk' :: ts' ++ [tRp], ?_, espec_paren ok hs _ _⟩
    simp only [parensT, he]
    rfl

/-- **Redundant parentheses around a predicate.**  If the tokens are the whole predicate `p` (up to a
    `)` or the end), then `( toks )` is the same predicate `p`, as an *atom*: it may stand as operand of
    `&&`, `||`, and (by `left_of_atom`, `right_of_atom`, `full_of_left`) wherever a predicate may stand. -/
theorem redundant_parens_pred {p : Node} {toks : List TT} (h : FullSpec o p toks) :
    AtomSpec o p (tLp :: toks ++ [tRp]) :=
  paren_atom h

/-- an atom is a whole predicate -/
theorem full_of_atom {p : Node} {toks : List TT} (h : AtomSpec o p toks) : FullSpec o p toks :=
  full_of_left (by decide) (left_of_atom h 2)

/-- any number of pairs -/
theorem redundant_parens_pred_iter {p : Node} {toks : List TT} (h : FullSpec o p toks) :
    ∀ n, AtomSpec o p (parensT (n + 1) toks) := by
  intro n
  induction n with
  | zero => exact paren_atom h
  | succ n ih => exact paren_atom (full_of_atom ih)

/-- … in each of the positions of a predicate -/
theorem redundant_parens_pred_positions {p : Node} {toks : List TT} (h : FullSpec o p toks) (n : Nat) :
    (∀ k, LeftSpec o p (parensT (n + 1) toks) k) ∧ RightSpec o p (parensT (n + 1) toks) ∧
      FullSpec o p (parensT (n + 1) toks) :=
  have ha := redundant_parens_pred_iter h n
  ⟨fun k => left_of_atom ha k, right_of_atom ha, full_of_atom ha⟩

end

/-! ## §2 Spellings: print-free bundles -/

/-- **`txt` is a spelling of the expression `e`**: in every layout it is a token sequence of which the
    parser makes `e`; `u` — it may be used as a unit (operand of `* / %` or of a sign), `m` — it may be
    used as an operand of `+ -` -/
def ExprT (o : Oracles) (e : Node) (u m : Prop) (txt : List Char) : Prop :=
  ∃ tk ts, Seg2 o brk txt (tk :: ts) ∧ isPredStart tk.1 = true ∧ ESpec o e tk ts u m

/-- **`txt` is a spelling of the predicate `p`**: `a` — it may be used as an operand of `&&`, `l` — it
    may be used as an operand of `||`; in any case it may stand where a whole predicate is expected -/
def PredT (o : Oracles) (p : Node) (a l : Prop) (txt : List Char) : Prop :=
  ∃ toks, Seg2 o brk txt toks ∧ PHead toks ∧ (a → AtomSpec o p toks) ∧
    (l → LeftSpec o p toks 1 ∧ RightSpec o p toks) ∧ LeftSpec o p toks 2

section
variable {o : Oracles}

/-- the printed text is a spelling -/
theorem exprT_of_exprOK {e : Node} (h : ExprOK o e) (wp : Bool) :
    ∃ txt, Print.writeTo o.isPrint e false wp = some txt ∧
      ExprT o e (wp = true ∨ isBin e = false) (wp = true ∨ isAddLevel e = false) txt := by
  obtain ⟨txt, tk, ts, hpr, hseg, hst, hsp⟩ := h wp
  exact ⟨txt, hpr, tk, ts, hseg, hst, hsp⟩

theorem predT_of_predOK {p : Node} (h : PredOK o p) (wp : Bool) :
    ∃ txt, Print.writeTo o.isPrint p false wp = some txt ∧
      PredT o p (wp = true ∨ isAndOr p = false) (wp = true ∨ isOr p = false) txt := by
  obtain ⟨txt, toks, hpr, hseg, hh, h1, h2, h3⟩ := h wp
  exact ⟨txt, hpr, toks, hseg, hh, h1, h2, h3⟩

theorem exprT_weaken {e : Node} {u m u' m' : Prop} {txt : List Char} (h : ExprT o e u m txt)
    (hu : u' → u) (hm : m' → m) : ExprT o e u' m' txt := by
  obtain ⟨tk, ts, hseg, hst, hsp⟩ := h
  exact ⟨tk, ts, hseg, hst, hsp.imp hu hm⟩

theorem predT_weaken {p : Node} {a l a' l' : Prop} {txt : List Char} (h : PredT o p a l txt)
    (ha : a' → a) (hl : l' → l) : PredT o p a' l' txt := by
  obtain ⟨toks, hseg, hh, h1, h2, h3⟩ := h
  exact ⟨toks, hseg, hh, fun x => h1 (ha x), fun x => h2 (hl x), h3⟩

variable (ok : OrOK o)
include ok

/-- **The redundant-parentheses rule for expressions**: `(txt)` is a spelling of the same expression,
    fit for every position. -/
theorem exprT_paren {e : Node} {u m : Prop} {txt : List Char} (h : ExprT o e u m txt) :
    ExprT o e True True ('(' :: (txt ++ [')'])) := by
  obtain ⟨tk, ts, hseg, hst, hsp⟩ := h
  have := seg2_paren ok hseg
  exact ⟨tLp, tk :: ts ++ [tRp], by simpa using this, rfl, espec_paren ok hsp _ _⟩

/-- any number of pairs -/
theorem exprT_parens {e : Node} {u m : Prop} {txt : List Char} (h : ExprT o e u m txt) :
    ∀ n, ExprT o e (0 < n ∨ u) (0 < n ∨ m) (parensC n txt) := by
  intro n
  induction n with
  | zero => exact exprT_weaken h (fun hh => hh.resolve_left (by simp)) (fun hh => hh.resolve_left (by simp))
  | succ n ih => exact exprT_weaken (exprT_paren ok ih) (fun _ => trivial) (fun _ => trivial)

/-- **The redundant-parentheses rule for predicates**: `(txt)` is a spelling of the same predicate, fit
    for every position. -/
theorem predT_paren {p : Node} {a l : Prop} {txt : List Char} (h : PredT o p a l txt) :
    PredT o p True True ('(' :: (txt ++ [')'])) := by
  obtain ⟨toks, hseg, _, _, _, hl2⟩ := h
  have hat := paren_atom (full_of_left (by decide) hl2)
  exact ⟨tLp :: toks ++ [tRp], seg2_paren ok hseg, ⟨tLp, _, rfl, rfl⟩, fun _ => hat,
    fun _ => ⟨left_of_atom hat 1, right_of_atom hat⟩, left_of_atom hat 2⟩

/-- any number of pairs -/
theorem predT_parens {p : Node} {a l : Prop} {txt : List Char} (h : PredT o p a l txt) :
    ∀ n, PredT o p (0 < n ∨ a) (0 < n ∨ l) (parensC n txt) := by
  intro n
  induction n with
  | zero => exact predT_weaken h (fun hh => hh.resolve_left (by simp)) (fun hh => hh.resolve_left (by simp))
  | succ n ih => exact predT_weaken (predT_paren ok ih) (fun _ => trivial) (fun _ => trivial)

end

/-! ### one rule per construct

The operand texts are *any* spellings (in particular: parenthesised any number of times, by
`exprT_paren` / `predT_paren`); the operator is written as the printer writes it (one blank on either
side — every other layout is covered by §3). -/

section
variable {o : Oracles} (ok : OrOK o)
include ok

/-- `l * r`, `l / r`, `l % r`: both operands must be units -/
theorem exprT_mul (op : BinOp) {l r : Node} {ml mr : Prop} {tl tr : List Char} (hop : isMulOp op = true)
    (hl : ExprT o l True ml tl) (hr : ExprT o r True mr tr) :
    ExprT o (.binary op (some l) (some r) none) False True (tl ++ ' ' :: (Print.binStr op ++ ' ' :: tr)) := by
  obtain ⟨tkl, tsl, hsegl, hstl, _, _, hunitl⟩ := hl
  obtain ⟨tkr, tsr, hsegr, _, _, _, hunitr⟩ := hr
  obtain ⟨hol, hal⟩ := hunitl trivial
  obtain ⟨hor, _⟩ := hunitr trivial
  have har : isArith op = true := by cases op <;> simp [isMulOp] at hop <;> rfl
  refine ⟨tkl, tsl ++ arithTok op :: tkr :: tsr, ?_, hstl, espec_mul hop hol hal hor True⟩
  have h1 := Seg.app_cons o (seg_sp_arith o ok op har) hsegr.2 rfl
  have h2 := Seg2.app_cons o hsegl h1 brk_sp
  simpa using h2

/-- `l + r`, `l - r`: the left operand is any spelling fit for `+ -` (a unit or a product), and so is
    the right one -/
theorem exprT_add (op : BinOp) {l r : Node} {ul ur : Prop} {tl tr : List Char} (hop : isAddOp op = true)
    (hl : ExprT o l ul True tl) (hr : ExprT o r ur True tr) :
    ExprT o (.binary op (some l) (some r) none) False False (tl ++ ' ' :: (Print.binStr op ++ ' ' :: tr)) := by
  obtain ⟨tkl, tsl, hsegl, hstl, hspl⟩ := hl
  obtain ⟨tkr, tsr, hsegr, _, _, hmulr, _⟩ := hr
  have har : isArith op = true := by cases op <;> simp [isAddOp] at hop <;> rfl
  refine ⟨tkl, tsl ++ arithTok op :: tkr :: tsr, ?_, hstl, espec_add hop hspl trivial (hmulr trivial)⟩
  have h1 := Seg.app_cons o (seg_sp_arith o ok op har) hsegr.2 rfl
  have h2 := Seg2.app_cons o hsegl h1 brk_sp
  simpa using h2

/-- `+x`, `-x` for a unit `x` that is not a number literal: a unit again -/
theorem exprT_sign (op : UnOp) {x : Node} {m : Prop} {tx : List Char} (hop : isSign op = true)
    (hx : ExprT o x True m tx) (hn : notNumLit x = true) :
    ExprT o (.unary op (some x) none) True True ((signTok op).2 ++ tx) := by
  obtain ⟨tk, ts, hseg, _, _, _, hunit⟩ := hx
  obtain ⟨hopd, _⟩ := hunit trivial
  have hs := sign_opdSpec (o := o) op hop hopd hn
  have hf := signTok_facts op
  refine ⟨signTok op, tk :: ts, ?_, hf.2.2.2.2, espec_unit hs (headA_of_opdSpec hs hf.1 hf.2.1 hf.2.2.1 hf.2.2.2.1) _ _⟩
  cases op <;> simp [isSign] at hop
  · have := Seg2.app o (seg2_plus o ok) hseg.1 (fun _ _ => trivial)
    simpa [signTok, tPlus] using this
  · have := Seg2.app o (seg2_minus o ok) hseg.1 (fun _ _ => trivial)
    simpa [signTok, tMinus] using this

/-- `l op r` with a comparison operator: the operands are any spellings of expressions -/
theorem predT_cmp (op : BinOp) {l r : Node} {ul ml ur mr : Prop} {tl tr : List Char} (hop : isCmp op = true)
    (hl : ExprT o l ul ml tl) (hr : ExprT o r ur mr tr) :
    PredT o (.binary op (some l) (some r) none) True True (tl ++ ' ' :: (Print.binStr op ++ ' ' :: tr)) := by
  obtain ⟨tkl, tsl, hsegl, hstl, hspl⟩ := hl
  obtain ⟨tkr, tsr, hsegr, _, hspr⟩ := hr
  have hat := cmpE_atom (o := o) hspl hspr hop
  refine ⟨tkl :: tsl ++ opTok op :: tkr :: tsr, ?_, ⟨tkl, _, rfl, hstl⟩, fun _ => hat,
    fun _ => ⟨left_of_atom hat 1, right_of_atom hat⟩, left_of_atom hat 2⟩
  have h1 := Seg.app_cons o (seg_sp_op o ok op (Or.inl hop)) hsegr.2 rfl
  have h2 := Seg2.app_cons o hsegl h1 brk_sp
  simpa using h2

/-- `l && r`: both operands must be fit for `&&` -/
theorem predT_and {l r : Node} {ll lr : Prop} {tl tr : List Char}
    (hl : PredT o l True ll tl) (hr : PredT o r True lr tr) :
    PredT o (.binary .and (some l) (some r) none) False True
      (tl ++ ' ' :: (Print.binStr .and ++ ' ' :: tr)) := by
  obtain ⟨ltoks, hsegl, ⟨tkh, tsh, hh1, hh2⟩, hatl, _, _⟩ := hl
  obtain ⟨rtoks, hsegr, _, hatr, _, _⟩ := hr
  have hal := hatl trivial
  have har := hatr trivial
  refine ⟨ltoks ++ tAnd :: rtoks, ?_, ⟨tkh, tsh ++ tAnd :: rtoks, by simp [hh1], hh2⟩,
    fun h => absurd h id, fun _ => ⟨and_left hal har, and_right hal har⟩, (and_left hal har).mono (by decide)⟩
  have h1 := Seg.app_cons o (seg_sp_op o ok .and (Or.inr rfl)) hsegr.2 rfl
  have h2 := Seg2.app_cons o hsegl h1 brk_sp
  simpa [opTok, tAnd] using h2

/-- `l || r`: both operands must be fit for `||` -/
theorem predT_or {l r : Node} {al ar : Prop} {tl tr : List Char}
    (hl : PredT o l al True tl) (hr : PredT o r ar True tr) :
    PredT o (.binary .or (some l) (some r) none) False False
      (tl ++ ' ' :: (Print.binStr .or ++ ' ' :: tr)) := by
  obtain ⟨ltoks, hsegl, ⟨tkh, tsh, hh1, hh2⟩, _, hlrl, _⟩ := hl
  obtain ⟨rtoks, hsegr, _, _, hlrr, _⟩ := hr
  have hll := (hlrl trivial).1
  have hrr := (hlrr trivial).2
  refine ⟨ltoks ++ tOr :: rtoks, ?_, ⟨tkh, tsh ++ tOr :: rtoks, by simp [hh1], hh2⟩,
    fun h => absurd h id, fun h => absurd h id, or_left hll hrr⟩
  have h1 := Seg.app_cons o (seg_sp_op o ok .or (Or.inr rfl)) hsegr.2 rfl
  have h2 := Seg2.app_cons o hsegl h1 brk_sp
  simpa [opTok, tOr] using h2

/-- `!(p)`: the operand is any spelling of a predicate -/
theorem predT_not {p : Node} {a l : Prop} {tp : List Char} (hp : PredT o p a l tp) :
    PredT o (.unary .not (some p) none) True True ('!' :: '(' :: (tp ++ [')'])) := by
  obtain ⟨ptoks, hseg, _, _, _, hl2⟩ := hp
  have hat := not_atom (full_of_left (by decide) hl2)
  refine ⟨tNot :: tLp :: ptoks ++ [tRp], ?_, ⟨tNot, _, rfl, rfl⟩, fun _ => hat,
    fun _ => ⟨left_of_atom hat 1, right_of_atom hat⟩, left_of_atom hat 2⟩
  have h1 := Seg.app_cons o hseg.1 (seg_rp o ok) brk_rp
  have h2 := Seg.app o (seg_lp o ok) h1 (fun _ _ => trivial)
  have h3 := Seg2.app_cons o (seg2_bang o ok) h2 (by decide)
  have := Seg2.mono o h3 (C' := brk) (fun _ _ => trivial)
  simpa [tNot] using this

/-- `(p) is unknown` -/
theorem predT_isUnknown {p : Node} {a l : Prop} {tp : List Char} (hp : PredT o p a l tp) :
    PredT o (.unary .isUnknown (some p) none) True True
      ('(' :: (tp ++ ')' :: ' ' :: 'i' :: 's' :: ' ' :: 'u' :: 'n' :: 'k' :: 'n' :: 'o' :: 'w' :: 'n' :: [])) := by
  obtain ⟨ptoks, hseg, _, _, _, hl2⟩ := hp
  have hat := isUnknown_atom (full_of_left (by decide) hl2)
  refine ⟨tLp :: ptoks ++ [tRp, tIs, tUnknown], ?_, ⟨tLp, _, rfl, rfl⟩, fun _ => hat,
    fun _ => ⟨left_of_atom hat 1, right_of_atom hat⟩, left_of_atom hat 2⟩
  have h0 := (seg_sp_kw o ok 'u' ['n', 'k', 'n', 'o', 'w', 'n'] .unknown (by decide) (by decide)).mono o
    (C' := brk) (fun _ h => brk_identCont ok h)
  have h1 := Seg.app_cons o (seg_sp_kw o ok 'i' ['s'] .is (by decide) (by decide)) h0
    (identCont_punct o ok ' ' (by decide))
  have h2 := Seg.app o (seg_rp o ok) h1 (fun _ _ => trivial)
  have h3 := Seg.app_cons o hseg.1 h2 brk_rp
  have h4 := Seg2.app o (seg2_lp o ok) h3 (fun _ _ => trivial)
  simpa [tIs, tUnknown] using h4

/-- `exists (x)`: the operand is any spelling of an expression -/
theorem predT_exists {x : Node} {u m : Prop} {tx : List Char} (hx : ExprT o x u m tx) :
    PredT o (.unary .exists (some x) none) True True
      ('e' :: 'x' :: 'i' :: 's' :: 't' :: 's' :: ' ' :: '(' :: (tx ++ [')'])) := by
  obtain ⟨tk, ts, hseg, hst, hsp⟩ := hx
  have hat := existsE_atom (o := o) hsp
  refine ⟨tExists :: tLp :: tk :: ts ++ [tRp], ?_, ⟨tExists, _, rfl, rfl⟩, fun _ => hat,
    fun _ => ⟨left_of_atom hat 1, right_of_atom hat⟩, left_of_atom hat 2⟩
  have h1 := Seg.app_cons o hseg.1 (seg_rp o ok) brk_rp
  have h2 := Seg.app o (seg2_lp o ok).2 h1 (fun _ _ => trivial)
  have h3 := Seg2.app_cons o (seg2_kw o ok 'e' ['x', 'i', 's', 't', 's'] .exists (by decide) (by decide)) h2
    (identCont_punct o ok ' ' (by decide))
  have := Seg2.mono o h3 (C' := brk) (fun _ _ => trivial)
  simpa [tExists] using this

/-- `l starts with "s"` / `l starts with $"s"` -/
theorem predT_starts {l : Node} {u m : Prop} {tl : List Char} (s : List Char) (isVar : Bool)
    (hl : ExprT o l u m tl) (hs : NoNul s) :
    PredT o (.binary .startsWith (some l) (some (if isVar then .var s none else .str s none)) none) True True
      (tl ++ ' ' :: 's' :: 't' :: 'a' :: 'r' :: 't' :: 's' :: ' ' :: 'w' :: 'i' :: 't' :: 'h' :: ' ' ::
        (if isVar then '$' :: Print.quote o.isPrint s else Print.quote o.isPrint s)) := by
  obtain ⟨tkl, tsl, hsegl, hstl, hspl⟩ := hl
  have hat := startsE_atom (o := o) s isVar hspl
  refine ⟨tkl :: tsl ++ [tStarts, tWith, if isVar then tVar s else (.string, s)], ?_, ⟨tkl, _, rfl, hstl⟩,
    fun _ => hat, fun _ => ⟨left_of_atom hat 1, right_of_atom hat⟩, left_of_atom hat 2⟩
  have h0 : Seg o brk (' ' :: (if isVar then '$' :: Print.quote o.isPrint s else Print.quote o.isPrint s))
      [if isVar then tVar s else (.string, s)] := by
    cases isVar
    · exact (seg2_string o ok s hs).2.mono o (fun _ _ => trivial)
    · exact (seg2_variable o ok s hs).2.mono o (fun _ _ => trivial)
  have h1 := Seg.app_cons o (seg_sp_kw o ok 'w' ['i', 't', 'h'] .with_ (by decide) (by decide)) h0
    (identCont_punct o ok ' ' (by decide))
  have h2 := Seg.app_cons o (seg_sp_kw o ok 's' ['t', 'a', 'r', 't', 's'] .starts (by decide) (by decide)) h1
    (identCont_punct o ok ' ' (by decide))
  have h3 := Seg2.app_cons o hsegl h2 brk_sp
  simpa [tStarts, tWith] using h3

/-- `x like_regex "pat" [flag "…"]` -/
theorem predT_regex {x : Node} {u m : Prop} {tx : List Char} (pat : List Char) (fl : Nat)
    (hx : ExprT o x u m tx) (hp : NoNul pat) (hfl : fl < 32) (hok : okFlags fl = true)
    (hacc : o.regexAccepts pat fl = true) :
    PredT o (.regex x pat fl none) True True
      (tx ++ ' ' :: 'l' :: 'i' :: 'k' :: 'e' :: '_' :: 'r' :: 'e' :: 'g' :: 'e' :: 'x' :: ' ' ::
        (Print.quote o.isPrint pat ++ Print.flagsStr fl)) := by
  obtain ⟨tk, ts, hseg, hst, hsp⟩ := hx
  have hat := regexE_atom (o := o) pat fl hsp hfl hok hacc
  have hfs : Seg o brk (Print.flagsStr fl) (flagToks fl) := by
    rw [flagsStr_eq fl hfl]
    unfold flagToks
    split
    · exact Seg.nil o _
    · have hn : NoNul (flagChars fl) := fun c hc => (isLow_facts c (flagChars_low fl hfl c hc)).1
      have h0 := (seg2_string o ok (flagChars fl) hn).2
      rw [quote_flagChars ok fl hfl] at h0
      have h1 := Seg.app_cons o (seg_sp_kw o ok 'f' ['l', 'a', 'g'] .flag (by decide) (by decide)) h0
        (identCont_punct o ok ' ' (by decide))
      exact (by simpa [tFlag] using h1.mono o (C' := brk) (fun _ _ => trivial))
  refine ⟨tk :: ts ++ tLike :: (.string, pat) :: flagToks fl, ?_, ⟨tk, _, rfl, hst⟩,
    fun _ => hat, fun _ => ⟨left_of_atom hat 1, right_of_atom hat⟩, left_of_atom hat 2⟩
  have h0 := Seg.app o ((seg2_string o ok pat hp).2) hfs (fun _ _ => trivial)
  have h1 := Seg.app_cons o
    (seg_sp_kw o ok 'l' ['i', 'k', 'e', '_', 'r', 'e', 'g', 'e', 'x'] .likeRegex (by decide) (by decide)) h0
    (identCont_punct o ok ' ' (by decide))
  have h2 := Seg2.app_cons o hseg h1 brk_sp
  simpa [tLike] using h2

end

/-! ### accessors, print-free

`StepT` / `ChainT` are `StepOK` / `ChainOK` without the print equation, the text being a parameter: a
filter step may contain *any* spelling of its predicate, a subscript *any* spelling of its bounds. -/

/-- `stxt` is a spelling of the accessor `n` (whatever its `next`) -/
def StepT (o : Oracles) (n : Node) (stxt : List Char) : Prop :=
  ∃ (t : Tok) (x : List Char) (ts : List TT) (c : Char) (cs : List Char),
    Seg o brkS stxt ((t, x) :: ts) ∧ stxt = c :: cs ∧ brkS (some c) ∧ isAccessorStart t = true ∧
    ∀ rest f, (hd rest).1 ≠ .lbrace → 16 * (ts.length + 1) + 1 ≤ f →
      RunsV (StP o ((t, x) :: ts ++ rest)) (accessorOp o f t) (n.setNext none) (StE o rest)

/-- `txt` is a spelling of the chain of accessors `nx` -/
def ChainT (o : Oracles) (nx : Option Node) (txt : List Char) : Prop :=
  ∃ (toks : List TT) (L : List Node),
    Seg o brk txt toks ∧ (∀ r, brk r.head? → brkS (txt ++ r).head?) ∧ HeadT toks ∧ chainOf L = nx ∧
    ∀ f head ops rest, 16 * toks.length + 2 ≤ f → isAccessorStart (hd rest).1 = false →
      (hd rest).1 ≠ .lbrace →
      RunsV (StE o (toks ++ rest)) (accessorLoop o f head ops) (linkNodes head (ops ++ L)) (StA o rest)

/-- `txt` is a spelling of the subscript `s` (`l` or `l to r`) -/
def SubT (o : Oracles) (s : Node) (txt : List Char) : Prop :=
  ∃ (tk : TT) (ts : List TT), Seg o brk txt (tk :: ts) ∧ isPredStart tk.1 = true ∧ SubRun o s tk ts

/-- `txt` is a spelling of the subscript list `subs` (without the brackets) -/
def SubsT (o : Oracles) (subs : List Node) (txt : List Char) : Prop :=
  ∃ (tk : TT) (ts : List TT), Seg o brk txt (tk :: ts) ∧ isPredStart tk.1 = true ∧
    ∀ f acc rest, 16 * (ts.length + 1) + 8 ≤ f →
      RunsV (StP o (tk :: ts ++ tRb :: rest)) (indexList o (f + 1) tk acc) (acc ++ subs) (StE o rest)

section
variable {o : Oracles}

theorem stepT_of_stepOK {n : Node} (h : StepOK o n) :
    ∃ stxt, (∀ wp, Print.writeTo o.isPrint n true wp
        = (Print.writeNext o.isPrint n.next).bind (fun tl => some (stxt ++ tl))) ∧ StepT o n stxt := by
  obtain ⟨stxt, t, x, ts, c, cs, hw, hseg, hcs, hbc, hacc, hop⟩ := h
  exact ⟨stxt, hw, t, x, ts, c, cs, hseg, hcs, hbc, hacc, hop⟩

theorem chainT_of_chainOK {nx : Option Node} (h : ChainOK o nx) :
    ∃ txt, Print.writeNext o.isPrint nx = some txt ∧ ChainT o nx txt := by
  obtain ⟨txt, toks, L, hw, hseg, hhead, hheadT, hL, hloop⟩ := h
  exact ⟨txt, hw, toks, L, hseg, hhead, hheadT, hL, hloop⟩

theorem chainT_nil : ChainT o none [] := by
  refine ⟨[], [], Seg.nil o _, fun r h => brkS_of_brk h, Or.inl rfl, rfl, ?_⟩
  intro f head ops rest hf h1 _
  obtain ⟨f', rfl⟩ : ∃ f', f = f' + 1 := ⟨f - 1, by omega⟩
  simpa using accLoop_nil f' head ops rest h1

theorem chainT_cons {n : Node} {stxt ctxt : List Char} (hs : StepT o n stxt) (hc : ChainT o n.next ctxt) :
    ChainT o (some n) (stxt ++ ctxt) := by
  obtain ⟨t, x, ts, c, cs, hseg, hcs, hbc, hacc, hop⟩ := hs
  obtain ⟨toks, L, hseg', hhead, hheadT, hL, hloop⟩ := hc
  refine ⟨((t, x) :: ts) ++ toks, n.setNext none :: L, ?_, ?_, ?_, ?_, ?_⟩
  · exact Seg.app o hseg hseg' hhead
  · intro r _
    rw [hcs]; exact hbc
  · exact Or.inr ⟨t, x, ts ++ toks, rfl, hacc⟩
  · simp only [chainOf, hL, setNext_setNext, setNext_next]
  · intro f head ops rest hf h1 h2
    obtain ⟨f', rfl⟩ : ∃ f', f = f' + 1 := ⟨f - 1, by omega⟩
    simp only [List.length_append, List.length_cons] at hf
    rw [accessorLoop]
    simp only [List.cons_append, List.append_assoc]
    lstep (peek_cons _ _)
    simp only [hacc, ↓reduceIte]
    have hop' := hop (toks ++ rest) f' (hheadT.lbrace h2) (by omega)
    simp only [List.cons_append, List.append_assoc] at hop'
    lstep hop'
    have := hloop f' head (ops ++ [n.setNext none]) rest (by omega) h1 h2
    simpa using this

/-- the accessor is the same whatever its `next` -/
theorem stepT_setNext {n : Node} {stxt : List Char} (h : StepT o n stxt) (nx : Option Node) :
    StepT o (n.setNext nx) stxt := by
  obtain ⟨t, x, ts, c, cs, hseg, hcs, hbc, hacc, hop⟩ := h
  exact ⟨t, x, ts, c, cs, hseg, hcs, hbc, hacc, by simpa [setNext_setNext] using hop⟩

/-- a head token (`$`, `@`, a string, a variable, `null`, `true`, `false`) followed by any spelling of a
    chain of accessors -/
theorem exprT_head (ok : OrOK o) (tk : TT) (hn : Node) (hh : headOf tk = some hn) (hst : isOpdStart tk.1 = true)
    {htxt : List Char} (hseg : Seg2 o brkS htxt [tk]) {nx : Option Node} {ctxt : List Char}
    (hc : ChainT o nx ctxt) : ExprT o (hn.setNext nx) True True (htxt ++ ctxt) := by
  obtain ⟨toks, L, hcseg, hhead, _, hL, hloop⟩ := hc
  have hopd : OpdSpec o (hn.setNext nx) tk toks := by
    intro f rest hf h1 h2
    obtain ⟨f', rfl⟩ : ∃ f', f = f' + 2 := ⟨f - 2, by omega⟩
    have hev : linkNodes { node := hn } L = evOf (hn.setNext nx) := by
      have h1 := linkNodes_node { node := hn } L (headOf_next hh)
      have h2 := linkNodes_lit { node := hn } L
      rw [hL] at h1
      cases hq : linkNodes { node := hn } L with
      | mk nd lt =>
        rw [hq] at h1 h2
        simp only at h1 h2
        simp only [evOf, h1, headOf_lit hh nx]
        rw [h2]
    rw [parseUnaryT_head f' tk hn hh]
    simp only [List.cons_append]
    lstep (consume_spec _ _)
    have := hloop f' { node := hn } [] rest (by omega) h1 h2
    rw [← hev]
    simpa using this
  have hf := opdStart_facts hst
  refine ⟨tk, toks, ?_, opdStart_pred (ok : RoundTrip.OrOK o) hst,
    espec_unit hopd (headA_of_opdSpec hopd hf.1 hf.2.1 hf.2.2.1 hf.2.2.2) _ _⟩
  have := Seg2.app o hseg hcseg hhead
  simpa using this

/-- `$` followed by accessors -/
theorem exprT_root (ok : OrOK o) {nx : Option Node} {ctxt : List Char} (hc : ChainT o nx ctxt) :
    ExprT o (.const .root nx) True True ('$' :: ctxt) :=
  exprT_head ok tDollar (.const .root none) rfl rfl (seg2_dollar o ok) hc

/-- `@` followed by accessors -/
theorem exprT_current (ok : OrOK o) {nx : Option Node} {ctxt : List Char} (hc : ChainT o nx ctxt) :
    ExprT o (.const .current nx) True True ('@' :: ctxt) :=
  exprT_head ok tAt (.const .current none) rfl rfl ((seg2_at o ok).mono o (fun _ _ => trivial)) hc

/-- the spelling the printer writes, with the text computed -/
theorem exprT_of_print {e : Node} (h : ExprOK o e) (wp : Bool) {txt : List Char}
    (hpr : Print.writeTo o.isPrint e false wp = some txt) :
    ExprT o e (wp = true ∨ isBin e = false) (wp = true ∨ isAddLevel e = false) txt := by
  obtain ⟨txt', hpr', ht⟩ := exprT_of_exprOK h wp
  rw [hpr] at hpr'
  injection hpr' with e1
  rw [e1]; exact ht

theorem predT_of_print {p : Node} (h : PredOK o p) (wp : Bool) {txt : List Char}
    (hpr : Print.writeTo o.isPrint p false wp = some txt) :
    PredT o p (wp = true ∨ isAndOr p = false) (wp = true ∨ isOr p = false) txt := by
  obtain ⟨txt', hpr', ht⟩ := predT_of_predOK h wp
  rw [hpr] at hpr'
  injection hpr' with e1
  rw [e1]; exact ht

variable (ok : OrOK o)
include ok

/-- **the filter accessor** `?(p)` with any spelling of the predicate (e.g. `?((p))`) -/
theorem stepT_filter {p : Node} {a l : Prop} {tp : List Char} (hp : PredT o p a l tp) (nx : Option Node) :
    StepT o (.unary .filter (some p) nx) ('?' :: '(' :: (tp ++ [')'])) := by
  obtain ⟨ptoks, hseg, _, _, _, hl2⟩ := hp
  have hfull := full_of_left (by decide) hl2
  refine ⟨.question, ['?'], tLp :: ptoks ++ [tRp], '?', _, ?_, rfl,
    Or.inr (Or.inr (Or.inr rfl)), rfl, ?_⟩
  · have h1 := Seg.app_cons o hseg.1 (seg_rp o ok) brk_rp
    have h2 := Seg.app o (seg_lp o ok) h1 (fun _ _ => trivial)
    have h3 := Seg.app o (seg_q o ok) h2 (fun _ _ => trivial)
    have := h3.mono o (C' := brkS) (fun _ _ => trivial)
    simpa [tQ] using this
  · intro rest f hr hf
    simp only [List.length_cons, List.length_append, List.length_nil] at hf
    obtain ⟨f', rfl⟩ : ∃ f', f = f' + 1 := ⟨f - 1, by omega⟩
    obtain ⟨v0, mid, h1, h2⟩ := hfull f' .pred (tRp :: rest) (by omega) (Or.inl rfl)
    rw [accessorOp]
    simp only [List.cons_append, List.append_assoc, List.nil_append]
    lstep (consume_spec _ _)
    simp only [↓reduceIte]
    lstep (expect_spec _ _ _)
    lstep h1
    lstep h2
    simp only [hd, tRp, ne_eq, not_true_eq_false, ↓reduceIte]
    lstep (consume_spec _ _)
    exact RunsV.pure _

omit ok in
/-- a single bound: any spelling of the expression -/
theorem subT_one {l : Node} {u m : Prop} {tl : List Char} (hl : ExprT o l u m tl) :
    SubT o (.binary .subscript (some l) none none) tl := by
  obtain ⟨tk, ts, hseg, hst, hsp⟩ := hl
  exact ⟨tk, ts, hseg.1, hst, subRun_one hsp⟩

/-- a range `l to r`: any spellings of the two expressions -/
theorem subT_two {l r : Node} {ul ml ur mr : Prop} {tl tr : List Char}
    (hl : ExprT o l ul ml tl) (hr : ExprT o r ur mr tr) :
    SubT o (.binary .subscript (some l) (some r) none) (tl ++ ' ' :: 't' :: 'o' :: ' ' :: tr) := by
  obtain ⟨tkl, tsl, hsegl, hstl, hspl⟩ := hl
  obtain ⟨tkr, tsr, hsegr, _, hspr⟩ := hr
  refine ⟨tkl, tsl ++ tTo :: tkr :: tsr, ?_, hstl, subRun_two hspl hspr⟩
  have h2 := Seg.app_cons o (seg_sp_to o ok) hsegr.2 (identCont_punct o ok ' ' (by decide))
  have h3 := Seg.app_cons o hsegl.1 h2 brk_sp
  simpa using h3

omit ok in
theorem subsT_one {s : Node} {txt : List Char} (h : SubT o s txt) : SubsT o [s] txt := by
  obtain ⟨tk, ts, hseg, hst, hrun⟩ := h
  refine ⟨tk, ts, hseg, hst, ?_⟩
  intro f acc rest hf
  exact hrun f acc (tRb :: rest) _ _ hf (Or.inr rfl) (indexK_last f acc s rest)

theorem subsT_cons {s : Node} {ss : List Node} {txt txt2 : List Char} (h : SubT o s txt) (h2 : SubsT o ss txt2) :
    SubsT o (s :: ss) (txt ++ ',' :: txt2) := by
  obtain ⟨tk, ts, hseg, hst, hrun⟩ := h
  obtain ⟨tk2, ts2, hseg2, hst2, hrun2⟩ := h2
  refine ⟨tk, ts ++ tComma :: tk2 :: ts2, ?_, hst, ?_⟩
  · have h2 := Seg.app o (seg_comma o ok) hseg2 (fun _ _ => trivial)
    have h3 := Seg.app_cons o hseg h2 (Or.inr (Or.inr (Or.inr (Or.inr (Or.inl rfl)))))
    simpa using h3
  · intro f acc rest hf
    simp only [List.length_cons, List.length_append] at hf
    obtain ⟨f', rfl⟩ : ∃ f', f = f' + 1 := ⟨f - 1, by omega⟩
    have h2 := hrun2 f' (acc ++ [s]) rest (by omega)
    have h3 := indexK_more (o := o) (f' + 1) acc s tk2 (ts2 ++ tRb :: rest) (predStart_sub hst2).2 _ _
      (by simpa using h2)
    have := hrun (f' + 1) acc (tComma :: tk2 :: (ts2 ++ tRb :: rest)) _ _ (by omega) (Or.inl rfl) h3
    simpa using this

/-- **the subscript accessor** `[s₁,…,sₙ]` with any spellings of the bounds (e.g. `[(1) to (2)]`) -/
theorem stepT_index {subs : List Node} {txt : List Char} (h : SubsT o subs txt) (nx : Option Node) :
    StepT o (.arrayIndex subs nx) ('[' :: (txt ++ [']'])) := by
  obtain ⟨tk, ts, hseg, hst, hrun⟩ := h
  have hss := predStart_sub hst
  refine ⟨.lbrack, ['['], tk :: ts ++ [tRb], '[', _, ?_, rfl, Or.inr (Or.inr (Or.inl rfl)), rfl, ?_⟩
  · have h1 := Seg.app_cons o hseg (seg_rb o ok) (Or.inr (Or.inr (Or.inr (Or.inl rfl))))
    have h2 := Seg.app o (seg_lb o ok) h1 (fun _ _ => trivial)
    have := h2.mono o (C' := brkS) (fun _ _ => trivial)
    simpa [tLb] using this
  · intro rest f _ hf
    simp only [List.length_cons, List.length_append, List.length_nil] at hf
    obtain ⟨f', rfl⟩ : ∃ f', f = f' + 2 := ⟨f - 2, by omega⟩
    have h1 := hrun f' [] rest (by omega)
    obtain ⟨t, x⟩ := tk
    simp only at hss
    rw [accessorOp]
    simp only [List.cons_append, List.append_assoc, List.nil_append]
    lstep (consume_spec _ _)
    simp only [reduceCtorEq, ↓reduceIte]
    lstep (peek_cons _ _)
    simp only [hss.1, hss.2, ↓reduceIte]
    simp only [List.cons_append, List.nil_append] at h1
    lstep h1
    exact RunsV.pure _

end

/-! ### a parenthesised expression followed by accessors: `(e).k`, `(e)[0]`, `(e)?(p)` -/

section
variable {o : Oracles}

theorem litOf_appendEnd (e : Node) (t : Option Node) : litOf (appendEnd e t) = litOf e := by
  cases e <;> (rename_i nx; cases nx) <;> simp [appendEnd, litOf]

/-- `ast.LinkNodes` on a complete expression and the accessors after its `)` -/
theorem linkNodes_appendEnd (e n : Node) (L : List Node) (hL : chainOf L = n.next) :
    linkNodes (evOf e) ([n.setNext none] ++ L) = evOf (appendEnd e (some n)) := by
  simp only [List.singleton_append, linkNodes, chainOf, hL, setNext_setNext, setNext_next]
  simp only [evOf, litOf_appendEnd]

/-- after `(`: any expression, `)`, and accessors — the accessors are appended at the end of the
    chain the expression already has (generalises `parenTail_lit_chain`) -/
theorem parenTail_chain (e n : Node) {tk0 : TT} {ts0 : List TT} {p q : Prop}
    (hsp : ESpec o e tk0 ts0 p q)
    {t : Tok} {x : List Char} {ts ctoks : List TT} {L : List Node}
    (hacc : isAccessorStart t = true)
    (hop : ∀ rest f, (hd rest).1 ≠ .lbrace → 16 * (ts.length + 1) + 1 ≤ f →
      RunsV (StP o ((t, x) :: ts ++ rest)) (accessorOp o f t) (n.setNext none) (StE o rest))
    (hheadT : HeadT ctoks) (hL : chainOf L = n.next)
    (hloop : ∀ f head ops rest, 16 * ctoks.length + 2 ≤ f → isAccessorStart (hd rest).1 = false →
      (hd rest).1 ≠ .lbrace →
      RunsV (StE o (ctoks ++ rest)) (accessorLoop o f head ops) (linkNodes head (ops ++ L)) (StA o rest))
    (F : Nat) (ctx : Ctx) (hctx : ctx ≠ .pred) (rest : List TT)
    (hF : 16 * (ts0.length + ts.length + ctoks.length + 3) + 8 ≤ F + 2)
    (ha : isAccessorStart (hd rest).1 = false) (hb : (hd rest).1 ≠ .lbrace) :
    RunsV (StE o (tk0 :: ts0 ++ tRp :: (t, x) :: (ts ++ (ctoks ++ rest)))) (parenTail o (F + 3) ctx)
      (.expr (evOf (appendEnd e (some n)))) (StA o rest) := by
  rw [parenTail]
  have h1 := atom_of_expr hsp F ctx (tRp :: (t, x) :: (ts ++ (ctoks ++ rest))) (.expr (evOf e) .rparen)
    (StA o (tRp :: (t, x) :: (ts ++ (ctoks ++ rest)))) (by omega) ⟨rfl, by simp [hd, tRp], rfl, rfl⟩
    (exprK_end F ctx hctx _ (tRp :: (t, x) :: (ts ++ (ctoks ++ rest))) (Or.inl rfl))
  lstep h1
  simp only [ne_eq, not_true_eq_false, ↓reduceIte]
  lstep (consume_spec _ _)
  lstep (peek_cons _ _)
  simp only [hacc, ↓reduceIte]
  have h2 := hop (ctoks ++ rest) (F + 2) (hheadT.lbrace hb) (by omega)
  simp only [List.cons_append] at h2
  lstep h2
  have h3 := hloop (F + 2) (evOf e) [n.setNext none] rest (by omega) ha hb
  lstep h3
  exact RunsV.pure' (by rw [linkNodes_appendEnd e n L hL]) (fun _ h => h)

/-- **`(e)` followed by accessors** is `e` with the accessors appended to its chain: `($.a).b` is
    `$.a.b`, `($.a + 1).b` is the sum with `.b` as its `next`, `(1).abs()` is the literal with `.abs()` -/
theorem exprT_paren_chain (ok : OrOK o) {e n : Node} {u m : Prop} {te stxt ctxt : List Char}
    (he : ExprT o e u m te) (hs : StepT o n stxt) (hc : ChainT o n.next ctxt) :
    ExprT o (appendEnd e (some n)) True True ('(' :: (te ++ ')' :: (stxt ++ ctxt))) := by
  obtain ⟨tk0, ts0, hseg0, _, hsp⟩ := he
  obtain ⟨t, x, ts, c, cs, hseg, hcs, hbc, hacc, hop⟩ := hs
  obtain ⟨ctoks, L, hseg', hhead, hheadT, hL, hloop⟩ := hc
  have hopd : OpdSpec o (appendEnd e (some n)) tLp (tk0 :: ts0 ++ tRp :: (t, x) :: (ts ++ ctoks)) := by
    intro f rest hf ha hb
    simp only [List.length_cons, List.length_append] at hf
    obtain ⟨F, rfl⟩ : ∃ F, f = F + 4 := ⟨f - 4, by omega⟩
    rw [parseUnaryT]
    simp only [tLp, reduceCtorEq, ↓reduceIte]
    simp only [List.cons_append, List.append_assoc]
    lstep (consume_spec _ _)
    lstep (parenTail_chain e n hsp hacc hop hheadT hL hloop F .parenE (by decide) rest (by omega) ha hb)
    exact RunsV.pure _
  have hha : HeadA o (appendEnd e (some n)) tLp (tk0 :: ts0 ++ tRp :: (t, x) :: (ts ++ ctoks)) := by
    intro f ctx rest w post hf ha hb hk
    simp only [List.length_cons, List.length_append] at hf
    obtain ⟨F, rfl⟩ : ∃ F, f = F + 3 := ⟨f - 3, by omega⟩
    rw [parseAtom]
    simp only [List.cons_append, List.append_assoc]
    lstep (peek_cons _ _)
    simp only [tLp, reduceCtorEq, ↓reduceIte]
    lstep (consume_spec _ _)
    lstep (parenTail_chain e n hsp hacc hop hheadT hL hloop F .paren (by decide) rest (by omega) ha hb)
    exact hk
  refine ⟨tLp, tk0 :: ts0 ++ tRp :: (t, x) :: (ts ++ ctoks), ?_, rfl, espec_unit hopd hha _ _⟩
  have h1 := Seg.app o hseg hseg' hhead
  have h2 := Seg.app_cons o (seg_rp o ok) (by rw [hcs] at h1; exact h1) trivial
  have h3 := Seg.app_cons o hseg0.1 h2 brk_rp
  have h4 := Seg2.app o (seg2_lp o ok) h3 (fun _ _ => trivial)
  rw [hcs]
  simpa using h4

end

/-! ### a sign on a (parenthesised) integer literal is folded into the literal: `-(1)`, `-((1))` -/

section
variable {o : Oracles}

/-- `-` before any token sequence that is the positive literal `i` as a unit: the literal `-i` -/
theorem neg_lit_opdSpec {i : Int} {tk : TT} {ts : List TT} (h0 : 0 < i) (h1 : i < 9223372036854775808)
    (hx : OpdSpec o (.integer i none) tk ts) : OpdSpec o (.integer (-i) none) tMinus (tk :: ts) := by
  intro f rest hf ha hb
  simp only [List.length_cons] at hf
  obtain ⟨f', rfl⟩ : ∃ f', f = f' + 2 := ⟨f - 2, by omega⟩
  have hrun := hx f' rest (by omega) ha hb
  have hneg : ¬ i < 0 := by omega
  have hnat : i.natAbs = i.toNat := by omega
  have e2 : evOf (.integer i none) = { node := .integer i none, lit := Nat.toDigits 10 i.toNat } := by
    simp [evOf, litOf, Decimal.formatInt, Decimal.formatNat, hneg, hnat]
  rw [parseUnaryT]
  simp only [tMinus, reduceCtorEq, ↓reduceIte]
  lstep (consume_spec _ _)
  simp only [List.cons_append] at hrun ⊢
  lstep (unary_of_unaryT hrun)
  rw [e2]
  unfold newUnaryOrNumber
  simp only [Node.next, Option.isNone_none, ↓reduceIte, reduceCtorEq]
  unfold astNewInteger
  rw [negLit_toDigits, parseInt0_neg_toDigits _ (by omega)]
  have e3 : -((i.toNat : Nat) : Int) = -i := by omega
  have hneg' : -i < 0 := by omega
  have hnat' : (-i).natAbs = i.toNat := by omega
  refine RunsV.pure' ?_ (fun _ h => h)
  simp [evOf, litOf, Decimal.formatInt, Decimal.formatNat, hneg', hnat', e3]
  omega

/-- `-txt` for any spelling `txt` of the positive literal `i` that is a unit (`1`, `(1)`, `((1))`, …) is a
    spelling of the literal `-i` — not of a unary minus -/
theorem exprT_neg_lit (ok : OrOK o) {i : Int} {m : Prop} {tx : List Char} (h0 : 0 < i)
    (h1 : i < 9223372036854775808) (hx : ExprT o (.integer i none) True m tx) :
    ExprT o (.integer (-i) none) True True ('-' :: tx) := by
  obtain ⟨tk, ts, hseg, _, _, _, hunit⟩ := hx
  obtain ⟨hopd, _⟩ := hunit trivial
  have hs := neg_lit_opdSpec h0 h1 hopd
  refine ⟨tMinus, tk :: ts, ?_, rfl,
    espec_unit hs (headA_of_opdSpec hs (by decide) (by decide) (by decide) (by decide)) _ _⟩
  have := Seg2.app o (seg2_minus o ok) hseg.1 (fun _ _ => trivial)
  simpa [tMinus] using this

end

/-! ## §3 From a spelling to `Parse`, in every layout -/

/-- `txt` is the canonical text of the token items `items`, and every respelling of the items in every
    layout (any separator before each token and at the end) parses to `a` -/
def SpellInv (o : Oracles) (a : AST) (txt : List Char) (items : List Item) : Prop :=
  txt = canon items ∧ (∀ it ∈ items, ItemOK o it) ∧ Gaps items brk ∧
    ∀ (items' : List Item) (seps : List (List Char)) (fin : List Char),
      RespL o items items' → LayoutOK items' seps → Sep fin →
      ∀ bytes, decodeAll bytes = (render items' seps ++ fin).map Src.ch → parse o bytes = .ok a

section
variable {o : Oracles}

/-- in particular the text itself parses to `a`, with any separator after it -/
theorem SpellInv.self {a : AST} {txt : List Char} {items : List Item} (h : SpellInv o a txt items)
    (fin : List Char) (hfin : Sep fin) (bytes : List UInt8) (hb : decodeAll bytes = (txt ++ fin).map Src.ch) :
    parse o bytes = .ok a := by
  obtain ⟨h1, h2, _, h4⟩ := h
  refine h4 items (canonSeps items) fin (RespL.refl h2) (layoutOK_canon items) hfin bytes ?_
  rw [render_canon, ← h1]
  exact hb

/-- **An expression at the top level**: every spelling of `e` (whatever positions inside a larger
    expression it is fit for) after the mode prefix parses to `e`, in every layout. -/
theorem layout_exprT (ok : OrOK o) {e : Node} {u m : Prop} {txt : List Char} (h : ExprT o e u m txt)
    (hv : validate e = true) (lax : Bool) :
    ∃ items, SpellInv o ⟨e, lax, false⟩ (modeTxt lax ++ txt) items := by
  obtain ⟨tk, ts, hseg, hst, hsp⟩ := h
  have hm := predStart_mode hst
  have hrun : ∀ f, 16 * (modeToks lax ++ tk :: ts).length + 8 ≤ f → ∃ ev : EV, ev.node = e ∧
      RunsV (StE o (modeToks lax ++ tk :: ts)) (parseBody o f) (lax, false, ev) (StE o []) := by
    intro f hf'
    have hf2 : 16 * (ts.length + 1) + 8 ≤ f := by
      simp only [List.length_append, List.length_cons] at hf'; omega
    obtain ⟨F, rfl⟩ : ∃ F, f = F + 2 := ⟨f - 2, by omega⟩
    refine ⟨evOf e, rfl, mode_run lax hm.1 hm.2 ⟨.expr (evOf e) .stop, [], ?_, RunsV.pure _⟩⟩
    have := atom_of_expr hsp F .top [] (.expr (evOf e) .stop) (StE o []) (by omega) ⟨rfl, by decide, rfl, rfl⟩
      (exprK_end F .top (by decide) (evOf e) [] (Or.inr rfl)).toE
    simpa using this
  obtain ⟨items, h1, _, h3, h4, h5⟩ := parse_layout ok (mode_seg ok lax hseg) lax false e hrun hv
  exact ⟨items, h1, h3, h4, h5⟩

/-- **A predicate at the top level**: every spelling of `p` after the mode prefix parses to `p`, in
    every layout. -/
theorem layout_predT (ok : OrOK o) {p : Node} {a l : Prop} {txt : List Char} (h : PredT o p a l txt)
    (hv : validate p = true) (lax : Bool) :
    ∃ items, SpellInv o ⟨p, lax, true⟩ (modeTxt lax ++ txt) items := by
  obtain ⟨toks, hseg, ⟨tk, ts, htoks, hst⟩, _, _, hl2⟩ := h
  subst htoks
  have hm := predStart_mode hst
  have hfull := full_of_left (by decide) hl2
  have hrun : ∀ f, 16 * (modeToks lax ++ tk :: ts).length + 8 ≤ f → ∃ ev : EV, ev.node = p ∧
      RunsV (StE o (modeToks lax ++ tk :: ts)) (parseBody o f) (lax, true, ev) (StE o []) := by
    intro f hf'
    have hf2 : 16 * (ts.length + 1) + 8 ≤ f := by
      simp only [List.length_append, List.length_cons] at hf'; omega
    obtain ⟨v0, mid, h1, h2⟩ := hfull f .top [] (by simpa using hf2) (Or.inr rfl)
    refine ⟨{ node := p }, rfl, mode_run lax hm.1 hm.2 ⟨.pred v0, mid, by simpa using h1, ?_⟩⟩
    simp only []
    lstep h2
    exact RunsV.pure' rfl (fun _ h => StE.ofA h)
  obtain ⟨items, h1, _, h3, h4, h5⟩ := parse_layout ok (mode_seg ok lax hseg) lax true p hrun hv
  exact ⟨items, h1, h3, h4, h5⟩

/-! ## §4 The class `RT5` -/

/-- **Redundant parentheses around the whole path** (class `RT5`): the text the printer writes for the
    root, wrapped in `n` more pairs of parentheses, after the mode prefix, parses to `a` — in every
    layout.  (`n = 0` is `layout_stage5`.) -/
theorem redundant_parens_stage5 (ok : OrOK o) (a : AST) (h : RT5 o a = true) (n : Nat) :
    ∃ txt, Print.writeTo o.isPrint a.root false true = some txt ∧
      Print.toString o.isPrint a = some (modeTxt a.lax ++ txt) ∧
      ∃ items, SpellInv o a (modeTxt a.lax ++ parensC n txt) items := by
  obtain ⟨root, lax, pred⟩ := a
  simp only [RT5, Bool.and_eq_true] at h
  obtain ⟨hv, hr⟩ := h
  cases pred with
  | true =>
    simp only [if_true] at hr
    obtain ⟨txt, hpr, ht⟩ := predT_of_predOK ((allOK5 ok _).pred root (Nat.le_refl _) hr) true
    exact ⟨txt, hpr, toString_eq _ _ _ _ _ hpr, layout_predT ok (predT_parens ok ht n) hv lax⟩
  | false =>
    simp only [Bool.false_eq_true, if_false] at hr
    obtain ⟨txt, hpr, ht⟩ := exprT_of_exprOK ((allOK5 ok _).expr root (Nat.le_refl _) hr) true
    exact ⟨txt, hpr, toString_eq _ _ _ _ _ hpr, layout_exprT ok (exprT_parens ok ht n) hv lax⟩

/-- **Fewer parentheses than canonical** (class `RT5`): the printer writes a binary root in parentheses
    (`writeTo root false true`); the text *without* them (`writeTo root false false`), wrapped in `n`
    pairs of parentheses (`n = 0`: none at all), parses to `a` as well — in every layout. -/
theorem fewer_parens_stage5 (ok : OrOK o) (a : AST) (h : RT5 o a = true) (n : Nat) :
    ∃ txt0, Print.writeTo o.isPrint a.root false false = some txt0 ∧
      ∃ items, SpellInv o a (modeTxt a.lax ++ parensC n txt0) items := by
  obtain ⟨root, lax, pred⟩ := a
  simp only [RT5, Bool.and_eq_true] at h
  obtain ⟨hv, hr⟩ := h
  cases pred with
  | true =>
    simp only [if_true] at hr
    obtain ⟨txt, hpr, ht⟩ := predT_of_predOK ((allOK5 ok _).pred root (Nat.le_refl _) hr) false
    exact ⟨txt, hpr, layout_predT ok (predT_parens ok ht n) hv lax⟩
  | false =>
    simp only [Bool.false_eq_true, if_false] at hr
    obtain ⟨txt, hpr, ht⟩ := exprT_of_exprOK ((allOK5 ok _).expr root (Nat.le_refl _) hr) false
    exact ⟨txt, hpr, layout_exprT ok (exprT_parens ok ht n) hv lax⟩

end

/-! ## §4b Leaves in canonical spelling, worked examples -/

section
variable {o : Oracles}

/-- the stage-1 accessors (`.key`, `.*`, `[*]`, `.**{…}`, methods, `.date()`, `.datetime(…)`, literal
    subscripts) in their canonical spelling -/
theorem stepT_simple (ok : OrOK o) {n : Node} (h : StepShape n) : StepT o n (stepTxt o.isPrint n) := by
  have hseg := seg_step o ok h
  obtain ⟨t, x, ts, hts, hacc, _⟩ := accOp_simple (o := o) h [] (by decide) (16 * (stepToks n).length + 1)
    (Nat.le_refl _)
  have hhead : ∃ c cs, stepTxt o.isPrint n = c :: cs ∧ brkS (some c) := by
    cases h <;> first
      | exact ⟨'.', _, rfl, Or.inr (Or.inl rfl)⟩
      | exact ⟨'[', _, rfl, Or.inr (Or.inr (Or.inl rfl))⟩
  obtain ⟨c, cs, hcs, hbc⟩ := hhead
  refine ⟨t, x, ts, c, cs, by rw [← hts]; exact hseg, hcs, hbc, hacc, ?_⟩
  intro rest f hr hf
  obtain ⟨t', x', ts', hts', _, hrun⟩ := accOp_simple (o := o) h rest hr f (by rw [hts]; simpa using hf)
  rw [hts] at hts' hrun
  injection hts' with h1 h2
  injection h1 with h1a h1b
  subst h1a
  exact hrun

/-- a non-negative integer literal -/
theorem exprT_nat (ok : OrOK o) (i : Int) (h : intOK i = true) :
    ExprT o (.integer i none) True True (Nat.toDigits 10 i.toNat) := by
  have hok := exprOK_opd ok (opdOK_int ok i h)
  refine exprT_weaken (exprT_of_print hok false ?_) (fun _ => Or.inr rfl) (fun _ => Or.inr rfl)
  simp only [intOK, Bool.and_eq_true, decide_eq_true_eq] at h
  have hneg : ¬ i < 0 := by omega
  have : i.natAbs = i.toNat := by omega
  simp [Print.writeTo, Print.writeNext, Print.parenIf, Decimal.formatInt, Decimal.formatNat, hneg, this]

/-- every expression / predicate / accessor / chain of the class `RT5`, in the printer's spelling, as a
    leaf for the rules -/
theorem exprT_stage5 (ok : OrOK o) {e : Node} (h : okExpr5 o e = true) (wp : Bool) :
    ∃ txt, Print.writeTo o.isPrint e false wp = some txt ∧
      ExprT o e (wp = true ∨ isBin e = false) (wp = true ∨ isAddLevel e = false) txt :=
  exprT_of_exprOK ((allOK5 ok _).expr e (Nat.le_refl _) h) wp

theorem predT_stage5 (ok : OrOK o) {p : Node} (h : okPred5 o p = true) (wp : Bool) :
    ∃ txt, Print.writeTo o.isPrint p false wp = some txt ∧
      PredT o p (wp = true ∨ isAndOr p = false) (wp = true ∨ isOr p = false) txt :=
  predT_of_predOK ((allOK5 ok _).pred p (Nat.le_refl _) h) wp

theorem stepT_stage5 (ok : OrOK o) {n : Node} (h : okStep5 o n = true) :
    ∃ stxt, (∀ wp, Print.writeTo o.isPrint n true wp
        = (Print.writeNext o.isPrint n.next).bind (fun tl => some (stxt ++ tl))) ∧ StepT o n stxt :=
  stepT_of_stepOK ((allOK5 ok _).step n (Nat.le_refl _) h)

theorem chainT_stage5 (ok : OrOK o) {nx : Option Node} (h : okNext5 o nx = true) :
    ∃ txt, Print.writeNext o.isPrint nx = some txt ∧ ChainT o nx txt :=
  chainT_of_chainOK ((allOK5 ok _).chain nx (Nat.le_refl _) h)

end

/-! ### worked examples: the rules instantiated -/

/-- `$."a"` -/
def exA : Node := .const .root (some (.key ['a'] none))
/-- `$."a" + 1 * 2` -/
def exSum : Node :=
  .binary .add (some exA) (some (.binary .mul (some (.integer 1 none)) (some (.integer 2 none)) none)) none
/-- `$?(@ > 1)` -/
def exFilter : Node :=
  .const .root (some (.unary .filter (some (.binary .gt (some (.const .current none)) (some (.integer 1 none)) none)) none))
/-- `$."a"."b"` -/
def exAB : Node := .const .root (some (.key ['a'] (some (.key ['b'] none))))
/-- `$[1 to 2]` -/
def exRange : Node :=
  .const .root (some (.arrayIndex [.binary .subscript (some (.integer 1 none)) (some (.integer 2 none)) none] none))
/-- `$."a" == 1 && $."a" > 2` -/
def exAnd : Node :=
  .binary .and (some (.binary .eq (some exA) (some (.integer 1 none)) none))
    (some (.binary .gt (some exA) (some (.integer 2 none)) none)) none

section
variable {o : Oracles}

/-- transport along an equality of texts (decided by kernel evaluation in the examples) -/
theorem ExprT.cast {e : Node} {u m : Prop} {t t' : List Char} (h : ExprT o e u m t) (he : t = t') :
    ExprT o e u m t' := he ▸ h

theorem PredT.cast {p : Node} {a l : Prop} {t t' : List Char} (h : PredT o p a l t) (he : t = t') :
    PredT o p a l t' := he ▸ h

theorem spell_cast {a : AST} {t t' : List Char} (h : ∃ items, SpellInv o a t items) (he : t = t') :
    ∃ items, SpellInv o a t' items := he ▸ h

variable (ok : OrOK o)
include ok

theorem exA_spelling : ExprT o exA True True "$.\"a\"".toList := by
  have hq : Print.quote o.isPrint ['a'] = ['"', 'a', '"'] := by
    simp [Print.quote, Print.escapeRune, ok.lowP 'a' (by decide)]
  have hs : StepT o (.key ['a'] none) ('.' :: Print.quote o.isPrint ['a']) :=
    stepT_simple ok (.key ['a'] none (NoNul.cons (by decide) NoNul.nil))
  rw [hq] at hs
  exact (exprT_root ok (chainT_cons hs chainT_nil)).cast (by decide +kernel)

theorem one_spelling : ExprT o (.integer 1 none) True True "1".toList :=
  (exprT_nat ok 1 (by decide)).cast (by decide +kernel)
theorem two_spelling : ExprT o (.integer 2 none) True True "2".toList :=
  (exprT_nat ok 2 (by decide)).cast (by decide +kernel)

/-- `(($."a")) + ((1 * (2)))` is a spelling of `$."a" + 1 * 2` -/
theorem exSum_spelling : ExprT o exSum False False "(($.\"a\")) + ((1 * (2)))".toList :=
  (exprT_add ok .add rfl
    (exprT_paren ok (exprT_paren ok (exA_spelling ok)))
    (exprT_paren ok (exprT_paren ok
      (exprT_mul ok .mul rfl (one_spelling ok) (exprT_paren ok (two_spelling ok)))))).cast (by decide +kernel)

/-- **worked example**: `strict (($."a")) + ((1 * (2)))` parses to the tree of `$."a" + 1 * 2` (which the
    printer writes `strict ($."a" + 1 * 2)`, see §5) — in every layout -/
theorem exSum_parse :
    ∃ items, SpellInv o ⟨exSum, false, false⟩ "strict (($.\"a\")) + ((1 * (2)))".toList items :=
  spell_cast (layout_exprT ok (exSum_spelling ok) (by decide) false) (by decide +kernel)

/-- the same with the bytes spelled out: every byte string that decodes to this text -/
theorem exSum_parse_text (bytes : List UInt8)
    (hb : decodeAll bytes = "strict (($.\"a\")) + ((1 * (2)))".toList.map Src.ch) :
    parse o bytes = .ok ⟨exSum, false, false⟩ := by
  obtain ⟨items, h⟩ := exSum_parse ok
  exact h.self [] Sep.nil bytes (by simpa using hb)

/-- `$?(((@ > 1)))`: redundant parentheses inside a filter -/
theorem exFilter_parse : ∃ items, SpellInv o ⟨exFilter, true, false⟩ "$?(((@ > 1)))".toList items :=
  spell_cast (layout_exprT ok
    (exprT_root ok (chainT_cons
      (stepT_filter ok (predT_paren ok (predT_paren ok
        (predT_cmp ok .gt rfl (exprT_current ok chainT_nil) (one_spelling ok)))) none)
      chainT_nil))
    (by decide) true) (by decide +kernel)

/-- `(($."a"))."b"` is `$."a"."b"`: parentheses around the head of an accessor chain -/
theorem exAB_parse : ∃ items, SpellInv o ⟨exAB, true, false⟩ "(($.\"a\")).\"b\"".toList items := by
  have hq : Print.quote o.isPrint ['b'] = ['"', 'b', '"'] := by
    simp [Print.quote, Print.escapeRune, ok.lowP 'b' (by decide)]
  have hs : StepT o (.key ['b'] none) ('.' :: Print.quote o.isPrint ['b']) :=
    stepT_simple ok (.key ['b'] none (NoNul.cons (by decide) NoNul.nil))
  rw [hq] at hs
  have h : ExprT o exAB True True _ := exprT_paren_chain ok (exprT_paren ok (exA_spelling ok)) hs chainT_nil
  exact spell_cast (layout_exprT ok h (by decide) true) (by decide +kernel)

/-- `$[(1) to ((2))]`: parentheses around subscript bounds -/
theorem exRange_parse : ∃ items, SpellInv o ⟨exRange, true, false⟩ "$[(1) to ((2))]".toList items :=
  spell_cast (layout_exprT ok
    (exprT_root ok (chainT_cons
      (stepT_index ok (subsT_one (subT_two ok (exprT_paren ok (one_spelling ok))
        (exprT_paren ok (exprT_paren ok (two_spelling ok))))) none)
      chainT_nil))
    (by decide) true) (by decide +kernel)

/-- `(($."a" == 1)) && ((($."a" > 2)))` at the top level, without the outer parentheses of the printer -/
theorem exAnd_parse :
    ∃ items, SpellInv o ⟨exAnd, true, true⟩ "(($.\"a\" == 1)) && ((($.\"a\" > 2)))".toList items :=
  spell_cast (layout_predT ok
    (predT_and ok
      (predT_paren ok (predT_paren ok (predT_cmp ok .eq rfl (exA_spelling ok) (one_spelling ok))))
      (predT_paren ok (predT_paren ok (predT_paren ok (predT_cmp ok .gt rfl (exA_spelling ok) (two_spelling ok))))))
    (by decide) true) (by decide +kernel)

end

/-! ## §5 Concrete evaluations (kernel `decide`, ASCII instance of the oracles)

`same s t`: both texts are accepted and `Parse` returns the *same tree* (structural equality `nodeEq`,
sound by `nodeEq_sound`; `Node` has no `DecidableEq`), the same mode and the same `pred` flag. -/

mutual
  /-- structural equality of trees (`Node` has no `DecidableEq`) -/
  def nodeEq : Node → Node → Bool
    | .const k n, .const k' n' => k == k' && optEq n n'
    | .method k n, .method k' n' => k == k' && optEq n n'
    | .str k n, .str k' n' => k == k' && optEq n n'
    | .var k n, .var k' n' => k == k' && optEq n n'
    | .key k n, .key k' n' => k == k' && optEq n n'
    | .numeric k n, .numeric k' n' => k == k' && optEq n n'
    | .integer k n, .integer k' n' => k == k' && optEq n n'
    | .any a b n, .any a' b' n' => a == a' && b == b' && optEq n n'
    | .binary op l r n, .binary op' l' r' n' => op == op' && optEq l l' && optEq r r' && optEq n n'
    | .unary op x n, .unary op' x' n' => op == op' && optEq x x' && optEq n n'
    | .regex x p f n, .regex x' p' f' n' => nodeEq x x' && p == p' && f == f' && optEq n n'
    | .arrayIndex s n, .arrayIndex s' n' => listEq s s' && optEq n n'
    | _, _ => false
  def optEq : Option Node → Option Node → Bool
    | none, none => true
    | some a, some b => nodeEq a b
    | _, _ => false
  def listEq : List Node → List Node → Bool
    | [], [] => true
    | a :: as, b :: bs => nodeEq a b && listEq as bs
    | _, _ => false
end

mutual
  theorem nodeEq_sound : ∀ a b : Node, nodeEq a b = true → a = b
    | .const k n, .const k' n', h => by
      simp only [nodeEq, Bool.and_eq_true, beq_iff_eq] at h
      rw [h.1, optEq_sound n n' h.2]
    | .method k n, .method k' n', h => by
      simp only [nodeEq, Bool.and_eq_true, beq_iff_eq] at h
      rw [h.1, optEq_sound n n' h.2]
    | .str k n, .str k' n', h => by
      simp only [nodeEq, Bool.and_eq_true, beq_iff_eq] at h
      rw [h.1, optEq_sound n n' h.2]
    | .var k n, .var k' n', h => by
      simp only [nodeEq, Bool.and_eq_true, beq_iff_eq] at h
      rw [h.1, optEq_sound n n' h.2]
    | .key k n, .key k' n', h => by
      simp only [nodeEq, Bool.and_eq_true, beq_iff_eq] at h
      rw [h.1, optEq_sound n n' h.2]
    | .numeric k n, .numeric k' n', h => by
      simp only [nodeEq, Bool.and_eq_true, beq_iff_eq] at h
      rw [h.1, optEq_sound n n' h.2]
    | .integer k n, .integer k' n', h => by
      simp only [nodeEq, Bool.and_eq_true, beq_iff_eq] at h
      rw [h.1, optEq_sound n n' h.2]
    | .any a b n, .any a' b' n', h => by
      simp only [nodeEq, Bool.and_eq_true, beq_iff_eq] at h
      rw [h.1.1, h.1.2, optEq_sound n n' h.2]
    | .binary op l r n, .binary op' l' r' n', h => by
      simp only [nodeEq, Bool.and_eq_true, beq_iff_eq] at h
      rw [h.1.1.1, optEq_sound l l' h.1.1.2, optEq_sound r r' h.1.2, optEq_sound n n' h.2]
    | .unary op x n, .unary op' x' n', h => by
      simp only [nodeEq, Bool.and_eq_true, beq_iff_eq] at h
      rw [h.1.1, optEq_sound x x' h.1.2, optEq_sound n n' h.2]
    | .regex x p f n, .regex x' p' f' n', h => by
      simp only [nodeEq, Bool.and_eq_true, beq_iff_eq] at h
      rw [nodeEq_sound x x' h.1.1.1, h.1.1.2, h.1.2, optEq_sound n n' h.2]
    | .arrayIndex s n, .arrayIndex s' n', h => by
      simp only [nodeEq, Bool.and_eq_true, beq_iff_eq] at h
      rw [listEq_sound s s' h.1, optEq_sound n n' h.2]
  theorem optEq_sound : ∀ a b : Option Node, optEq a b = true → a = b
    | none, none, _ => rfl
    | some a, some b, h => by
      simp only [optEq] at h
      rw [nodeEq_sound a b h]
  theorem listEq_sound : ∀ a b : List Node, listEq a b = true → a = b
    | [], [], _ => rfl
    | a :: as, b :: bs, h => by
      simp only [listEq, Bool.and_eq_true] at h
      rw [nodeEq_sound a b h.1, listEq_sound as bs h.2]
end


/-- both outcomes are `ok` with the same tree, mode and `pred` flag -/
def sameParse : ParseOutcome → ParseOutcome → Bool
  | .ok a, .ok b => nodeEq a.root b.root && a.lax == b.lax && a.pred == b.pred
  | _, _ => false

theorem sameParse_sound {x y : ParseOutcome} (h : sameParse x y = true) : ∃ a, x = .ok a ∧ y = .ok a := by
  cases x with
  | ok a =>
    cases y with
    | ok b =>
      obtain ⟨r1, l1, p1⟩ := a
      obtain ⟨r2, l2, p2⟩ := b
      simp only [sameParse, Bool.and_eq_true, beq_iff_eq] at h
      obtain ⟨⟨h1, h2⟩, h3⟩ := h
      have := nodeEq_sound _ _ h1
      subst this; subst h2; subst h3
      exact ⟨_, rfl, rfl⟩
    | err => simp [sameParse] at h
    | panic => simp [sameParse] at h
  | err => simp [sameParse] at h
  | panic => simp [sameParse] at h

/-- the two ASCII texts parse to the same tree -/
def same (s t : String) : Bool := sameParse (parse asciiOracles (ascii s)) (parse asciiOracles (ascii t))

theorem same_sound {s t : String} (h : same s t = true) :
    ∃ a, parse asciiOracles (ascii s) = .ok a ∧ parse asciiOracles (ascii t) = .ok a := sameParse_sound h

/-- the examples of the task -/
theorem redundant_parens_examples :
    same "((($.a)))" "$.a" = true ∧
    same "($.a == 1)" "$.a == 1" = true ∧
    same "(($.a == 1)) && ((($.b > 2)))" "$.a == 1 && $.b > 2" = true ∧
    same "$.a + (1)" "$.a + 1" = true ∧
    same "($)[(0)]" "$[0]" = true ∧
    same "strict (($.a)) + ((1 * (2)))" "strict $.a + 1 * 2" = true ∧
    same "strict (($.a)) + ((1 * (2)))" "strict ($.a + 1 * 2)" = true := by
  decide +kernel

/-- every position where the grammar has `'(' expr ')'` or `'(' predicate ')'` -/
theorem redundant_parens_positions :
    -- around the head of an accessor chain, around a literal with a method
    same "($.a).b" "$.a.b" = true ∧ same "(($.a).b).c" "$.a.b.c" = true ∧ same "($.a)[*]" "$.a[*]" = true ∧
    same "($.a ? (@ > 1))[0]" "$.a ? (@ > 1)[0]" = true ∧
    same "((1)).abs()" "(1).abs()" = true ∧ same "(-(1)).abs()" "(-1).abs()" = true ∧
    -- operands of arithmetic, of a sign, of a comparison
    same "($.a * 1) + 2" "$.a * 1 + 2" = true ∧ same "$.a + (1 * 2)" "$.a + 1 * 2" = true ∧
    same "($.a - 1) - 2" "$.a - 1 - 2" = true ∧ same "(1 * 2) * 3" "1 * 2 * 3" = true ∧
    same "-($.a)" "-$.a" = true ∧ same "-(($.a))" "-$.a" = true ∧ same "(-$.a) * 3" "-$.a * 3" = true ∧
    same "2 * (-$.a)" "2 * -$.a" = true ∧ same "-(1)" "-1" = true ∧ same "2 - (-1)" "2 - -1" = true ∧
    same "($.a) == (1)" "$.a == 1" = true ∧ same "$.a == ((1) + (2))" "$.a == 1 + 2" = true ∧
    same "(($.a)) like_regex \"x\" flag \"i\"" "$.a like_regex \"x\" flag \"i\"" = true ∧
    same "(($.a) starts with $\"v\")" "$.a starts with $\"v\"" = true ∧
    -- predicates: operands of `&&`, `||`, `!`, `is unknown`, `exists`, filters
    same "($.a == 1) || ($.b == 2)" "$.a == 1 || $.b == 2" = true ∧
    same "$.a == 1 || ($.b == 2 && $.c == 3)" "$.a == 1 || $.b == 2 && $.c == 3" = true ∧
    same "($.a == 1 && $.b == 2) && $.c == 3" "$.a == 1 && $.b == 2 && $.c == 3" = true ∧
    same "($.a == 1 || $.b == 2) || $.c == 3" "$.a == 1 || $.b == 2 || $.c == 3" = true ∧
    same "!(($.a == 1))" "!($.a == 1)" = true ∧ same "(!($.a == 1))" "!($.a == 1)" = true ∧
    same "(($.a == 1)) is unknown" "($.a == 1) is unknown" = true ∧
    same "((($.a == 1)) is unknown)" "($.a == 1) is unknown" = true ∧
    same "exists(($.a))" "exists($.a)" = true ∧ same "(exists($.a))" "exists($.a)" = true ∧
    same "$?(!((exists(@.a))))" "$?(!exists(@.a))" = true ∧
    same "$ ? ((@ > 1))" "$ ? (@ > 1)" = true ∧ same "$?((@ > 1) && (@ < 3))" "$?(@ > 1 && @ < 3)" = true ∧
    same "$?((@).a == 1)" "$?(@.a == 1)" = true ∧
    same "$.a ? (((@ > 1)) is unknown)" "$.a ? ((@ > 1) is unknown)" = true ∧
    -- subscripts
    same "$[(1) to (2)]" "$[1 to 2]" = true ∧ same "$[(1), (2)]" "$[1,2]" = true ∧
    same "$[(last) - (1)]" "$[last - 1]" = true ∧ same "$[(1 + 2)]" "$[1 + 2]" = true ∧
    -- the whole path, after the mode
    same "strict ($.a)" "strict $.a" = true ∧ same "lax (($.a))" "lax $.a" = true ∧
    same "(((((((((($))))))))))" "$" = true ∧ same "(/* c */$.a/* d */)" "$.a" = true := by
  decide +kernel

/-- parentheses that are *not* redundant change the tree as precedence and associativity demand … -/
theorem significant_parens :
    same "$.a - (1 - 2)" "$.a - 1 - 2" = false ∧ same "1 / (2 / 3)" "1 / 2 / 3" = false ∧
    same "(1 - 2) * 3" "1 - 2 * 3" = false ∧ same "1 * (2 - 3)" "1 * 2 - 3" = false ∧
    same "-($.a * 3)" "-$.a * 3" = false ∧ same "(-$.a).b" "-$.a.b" = false ∧
    same "-(1).abs()" "(-1).abs()" = false ∧
    same "($.a == 1 || $.b == 2) && $.c == 3" "$.a == 1 || $.b == 2 && $.c == 3" = false ∧
    same "$.a == 1 && ($.b == 2 && $.c == 3)" "$.a == 1 && $.b == 2 && $.c == 3" = false ∧
    same "$.a == 1 || ($.b == 2 || $.c == 3)" "$.a == 1 || $.b == 2 || $.c == 3" = false := by
  decide +kernel

/-- … and where the grammar has no parenthesised form the text is rejected: the mode inside the
    parentheses, a parenthesised range, key, method argument, level, `starts with` / `like_regex`
    operand; empty or unbalanced parentheses; a comparison of a parenthesised predicate;
    `is unknown` / `exists` without their own parentheses; `1.abs()` (the parentheses of `(1).abs()` are
    lexically needed); and `(@)`, `(last)` stay invalid -/
theorem no_parenthesised_form :
    run "(strict $.a)" = "ERR" ∧ run "$[(1 to 2)]" = "ERR" ∧ run "$[((1) to (2)), 3]" = "ERR" ∧
    run "$.(a)" = "ERR" ∧ run "$.a.type(())" = "ERR" ∧ run "$.a.datetime((\"x\"))" = "ERR" ∧
    run "$.**{(1)}" = "ERR" ∧ run "$.a.decimal((1))" = "ERR" ∧
    run "\"a\" starts with (\"b\")" = "ERR" ∧ run "$.a like_regex (\"x\")" = "ERR" ∧
    run "()" = "ERR" ∧ run "(())" = "ERR" ∧ run "($.a" = "ERR" ∧ run "$.a)" = "ERR" ∧ run "($.a))" = "ERR" ∧
    run "($.a == 1) == 2" = "ERR" ∧ run "($.a == 1) + 2" = "ERR" ∧ run "1 + ($.a == 1)" = "ERR" ∧
    run "exists($.a) is unknown" = "ERR" ∧ run "1.abs()" = "ERR" ∧ run "-1.abs()" = "ERR" ∧
    run "(@)" = "ERR" ∧ run "(last)" = "ERR" ∧ run "(@ == 1) is unknown" = "ERR" := by
  decide +kernel

/-- the canonical text of the worked example of §4b -/
theorem exSum_canonical :
    Print.toString asciiOracles.isPrint ⟨exSum, false, false⟩ = some "strict ($.\"a\" + 1 * 2)".toList ∧
    run "strict (($.\"a\")) + ((1 * (2)))" = "strict ($.\"a\" + 1 * 2)" := by
  decide +kernel


/-! # Precedence and associativity: the parser on unparenthesised chains -/

/-! ## (1) Abstract chains and the trees precedence climbing assigns to them -/

/-- `x op₁ u₁ op₂ u₂ …` with `* / %`: left-associative -/
def mulTree (x : Node) (ms : List (BinOp × Node)) : Node :=
  ms.foldl (fun acc p => .binary p.1 (some acc) (some p.2) none) x

/-- a product `head op₁ u₁ … opₙ uₙ` of units -/
structure Term where
  head : Node
  muls : List (BinOp × Node)

def Term.tree (t : Term) : Node := mulTree t.head t.muls

/-- `T₀ op₁ T₁ op₂ T₂ …` with `+ -` between products: left-associative, products bind tighter -/
def sumFrom (a : Node) (as : List (BinOp × Term)) : Node :=
  as.foldl (fun acc p => .binary p.1 (some acc) (some p.2.tree) none) a

def sumTree (t₀ : Term) (as : List (BinOp × Term)) : Node := sumFrom t₀.tree as

/-- `a₀ && a₁ && …`: left-associative -/
def andTree (a₀ : Node) (as : List Node) : Node :=
  as.foldl (fun acc a => .binary .and (some acc) (some a) none) a₀

/-- a conjunction `head && a₁ && … && aₙ` of atoms -/
structure Conj where
  head : Node
  ands : List Node

def Conj.tree (c : Conj) : Node := andTree c.head c.ands

/-- `C₀ || C₁ || …` between conjunctions: left-associative, `&&` binds tighter -/
def orTree (c₀ : Conj) (cs : List Conj) : Node :=
  cs.foldl (fun acc c => .binary .or (some acc) (some c.tree) none) c₀.tree

theorem mulTree_nil (x : Node) : mulTree x [] = x := rfl
theorem mulTree_cons (x : Node) (p : BinOp × Node) (ms : List (BinOp × Node)) :
    mulTree x (p :: ms) = mulTree (.binary p.1 (some x) (some p.2) none) ms := rfl
theorem sumTree_nil (t : Term) : sumTree t [] = t.tree := rfl
theorem sumFrom_cons (a : Node) (p : BinOp × Term) (as : List (BinOp × Term)) :
    sumFrom a (p :: as) = sumFrom (.binary p.1 (some a) (some p.2.tree) none) as := rfl
theorem sumTree_mul_cons (x : Node) (p : BinOp × Node) (ms : List (BinOp × Node)) (as : List (BinOp × Term)) :
    sumTree ⟨x, p :: ms⟩ as = sumTree ⟨.binary p.1 (some x) (some p.2) none, ms⟩ as := rfl
theorem andTree_nil (a : Node) : andTree a [] = a := rfl
theorem andTree_cons (a b : Node) (as : List Node) :
    andTree a (b :: as) = andTree (.binary .and (some a) (some b) none) as := rfl
theorem orTree_nil (c : Conj) : orTree c [] = c.tree := rfl

/-! ### the same with tokens -/

/-- a unit with its tokens -/
structure UnitC where
  node : Node
  tk : TT
  ts : List TT

def UnitC.toks (u : UnitC) : List TT := u.tk :: u.ts

/-- `parseUnaryT` makes the node of the tokens -/
def UnitC.OK (o : Oracles) (u : UnitC) : Prop := OpdSpec o u.node u.tk u.ts

/-- tokens of `op₁ u₁ … opₙ uₙ` -/
def mulToks : List (BinOp × UnitC) → List TT
  | [] => []
  | p :: ms => arithTok p.1 :: p.2.tk :: (p.2.ts ++ mulToks ms)

def mulNodes (ms : List (BinOp × UnitC)) : List (BinOp × Node) := ms.map (fun p => (p.1, p.2.node))

def MulsOK (o : Oracles) (ms : List (BinOp × UnitC)) : Prop := ∀ p ∈ ms, isMulOp p.1 = true ∧ p.2.OK o

structure TermC where
  head : UnitC
  muls : List (BinOp × UnitC)

def TermC.toks (t : TermC) : List TT := t.head.tk :: (t.head.ts ++ mulToks t.muls)
def TermC.term (t : TermC) : Term := ⟨t.head.node, mulNodes t.muls⟩
def TermC.OK (o : Oracles) (t : TermC) : Prop := t.head.OK o ∧ MulsOK o t.muls

/-- tokens of `op₁ T₁ … opₙ Tₙ` -/
def addToks : List (BinOp × TermC) → List TT
  | [] => []
  | p :: as => arithTok p.1 :: p.2.head.tk :: (p.2.head.ts ++ (mulToks p.2.muls ++ addToks as))

def addTerms (as : List (BinOp × TermC)) : List (BinOp × Term) := as.map (fun p => (p.1, p.2.term))

def AddsOK (o : Oracles) (as : List (BinOp × TermC)) : Prop := ∀ p ∈ as, isAddOp p.1 = true ∧ p.2.OK o

/-- what may follow a unit: no accessor, no `{` -/
def UFollow (t : Tok) : Prop := isAccessorStart t = false ∧ t ≠ .lbrace

section
variable {o : Oracles}

theorem ufollow_mulToks {ms : List (BinOp × UnitC)} (hms : MulsOK o ms) {rest : List TT}
    (h : UFollow (hd rest).1) : UFollow (hd (mulToks ms ++ rest)).1 := by
  cases ms with
  | nil => simpa [mulToks] using h
  | cons p ms =>
    have hf := mul_facts (hms p (List.mem_cons_self ..)).1
    simp only [mulToks, List.cons_append, hd]
    exact ⟨hf.2.2.1, hf.2.2.2⟩

theorem ufollow_addToks {as : List (BinOp × TermC)} (has : AddsOK o as) {rest : List TT}
    (h : UFollow (hd rest).1) : UFollow (hd (addToks as ++ rest)).1 := by
  cases as with
  | nil => simpa [addToks] using h
  | cons p as =>
    have hf := add_facts (has p (List.mem_cons_self ..)).1
    simp only [addToks, List.cons_append, hd]
    exact ⟨hf.2.2.1, hf.2.2.2⟩

theorem mulOp_addToks {as : List (BinOp × TermC)} (has : AddsOK o as) {rest : List TT}
    (h : mulOp (hd rest).1 = none) : mulOp (hd (addToks as ++ rest)).1 = none := by
  cases as with
  | nil => simpa [addToks] using h
  | cons p as =>
    have hf := add_facts (has p (List.mem_cons_self ..)).1
    simp only [addToks, List.cons_append, hd]
    exact hf.2.1

/-! ## (2) The loops on chains: fuel proportional to the number of tokens -/

/-- **`* / %` are left-associative.**  `mulLoop` with the left operand `x`, standing before
    `op₁ u₁ … opₙ uₙ` followed by something that is not `* / %`, returns `((x op₁ u₁) op₂ u₂) …`. -/
theorem mulLoop_chain (ms : List (BinOp × UnitC)) (hms : MulsOK o ms) :
    ∀ (x : Node) (g : Nat) (rest : List TT), 16 * (mulToks ms).length + 4 ≤ g →
      UFollow (hd rest).1 → mulOp (hd rest).1 = none →
      RunsV (StE o (mulToks ms ++ rest)) (mulLoop o g (evOf x)) (evOf (mulTree x (mulNodes ms))) (StA o rest) := by
  induction ms with
  | nil =>
    intro x g rest hg hu hm
    obtain ⟨g', rfl⟩ : ∃ g', g = g' + 1 := ⟨g - 1, by omega⟩
    simpa [mulToks, mulNodes, mulTree] using mulLoop_nil g' (evOf x) rest hm
  | cons p ms ih =>
    intro x g rest hg hu hm
    have hp := hms p (List.mem_cons_self ..)
    have hms' : MulsOK o ms := fun q hq => hms q (List.mem_cons_of_mem _ hq)
    have hf := mul_facts hp.1
    simp only [mulToks, List.length_cons, List.length_append] at hg
    obtain ⟨g', rfl⟩ : ∃ g', g = g' + 2 := ⟨g - 2, by omega⟩
    have hfol := ufollow_mulToks hms' hu
    have hrun := hp.2 g' (mulToks ms ++ rest) (by omega) hfol.1 hfol.2
    rw [mulLoop]
    simp only [mulToks, List.cons_append, List.append_assoc]
    lstep (peek_cons _ _)
    simp only [hf.2.1]
    lstep (consume_spec _ _)
    simp only [List.cons_append, List.append_assoc] at hrun
    lstep (unary_of_unaryT hrun)
    rw [evOf_binary]
    have := ih hms' (.binary p.1 (some x) (some p.2.node) none) (g' + 1) rest (by omega) hu hm
    simp only [mulNodes, List.map_cons, mulTree_cons]
    lexact this

/-- **`+ -` are left-associative and `* / %` bind tighter.**  `arithLoop` with the left operand `a`,
    standing before `op₁ T₁ … opₙ Tₙ` (`opᵢ` among `+ -`, every `Tᵢ` a product of units), returns
    `((a op₁ T₁) op₂ T₂) …` and the token that follows. -/
theorem arithLoop_sum (as : List (BinOp × TermC)) (has : AddsOK o as) :
    ∀ (a : Node) (g : Nat) (rest : List TT), 16 * (addToks as).length + 4 ≤ g →
      UFollow (hd rest).1 → addOp (hd rest).1 = none → mulOp (hd rest).1 = none →
      RunsV (StE o (addToks as ++ rest)) (arithLoop o g (evOf a))
        (evOf (sumFrom a (addTerms as)), (hd rest).1) (StA o rest) := by
  induction as with
  | nil =>
    intro a g rest hg hu ha hm
    obtain ⟨g', rfl⟩ : ∃ g', g = g' + 1 := ⟨g - 1, by omega⟩
    simpa [addToks, addTerms, sumFrom] using arith_nil g' (evOf a) rest ha hm
  | cons p as ih =>
    intro a g rest hg hu ha hm
    have hp := has p (List.mem_cons_self ..)
    have has' : AddsOK o as := fun q hq => has q (List.mem_cons_of_mem _ hq)
    have hf := add_facts hp.1
    simp only [addToks, List.length_cons, List.length_append] at hg
    obtain ⟨g', rfl⟩ : ∃ g', g = g' + 2 := ⟨g - 2, by omega⟩
    have hfolA := ufollow_addToks has' hu
    have hfolM := ufollow_mulToks hp.2.2 hfolA
    have hrun := hp.2.1 g' (mulToks p.2.muls ++ (addToks as ++ rest)) (by omega) hfolM.1 hfolM.2
    have hmul := mulLoop_chain p.2.muls hp.2.2 p.2.head.node (g' + 1) (addToks as ++ rest) (by omega) hfolA
      (mulOp_addToks has' hm)
    rw [arithLoop]
    simp only [addToks, List.cons_append, List.append_assoc]
    lstep (peek_cons _ _)
    simp only [hf.1]
    lstep (consume_spec _ _)
    simp only [List.cons_append, List.append_assoc] at hrun
    lstep (unary_of_unaryT hrun)
    lstep hmul
    rw [evOf_binary]
    have := ih has' (.binary p.1 (some a) (some (mulTree p.2.head.node (mulNodes p.2.muls))) none) (g' + 1) rest
      (by omega) hu ha hm
    simp only [addTerms, List.map_cons, sumFrom_cons]
    lexact this

/-- **Precedence climbing on a whole chain.**  `arithLoop` with the first unit `x` as left operand,
    standing before `op₁ u₁ … opₖ uₖ` (`* / %`: the rest of the first product, which `arithLoop` folds
    itself) and then `op'₁ T₁ … op'ₙ Tₙ` (`+ -` and products, folded by `mulLoop`), returns the tree
    `sumTree (x op₁ u₁ … opₖ uₖ) [op'₁ T₁, …]`. -/
theorem arithLoop_chain (ms : List (BinOp × UnitC)) (hms : MulsOK o ms) (as : List (BinOp × TermC))
    (has : AddsOK o as) :
    ∀ (x : Node) (g : Nat) (rest : List TT), 16 * ((mulToks ms).length + (addToks as).length) + 4 ≤ g →
      UFollow (hd rest).1 → addOp (hd rest).1 = none → mulOp (hd rest).1 = none →
      RunsV (StE o (mulToks ms ++ (addToks as ++ rest))) (arithLoop o g (evOf x))
        (evOf (sumTree ⟨x, mulNodes ms⟩ (addTerms as)), (hd rest).1) (StA o rest) := by
  induction ms with
  | nil =>
    intro x g rest hg hu ha hm
    have := arithLoop_sum as has x g rest (by simpa [mulToks] using hg) hu ha hm
    simpa [mulToks, mulNodes, sumTree, Term.tree, mulTree] using this
  | cons p ms ih =>
    intro x g rest hg hu ha hm
    have hp := hms p (List.mem_cons_self ..)
    have hms' : MulsOK o ms := fun q hq => hms q (List.mem_cons_of_mem _ hq)
    have hf := mul_facts hp.1
    simp only [mulToks, List.length_cons, List.length_append] at hg
    obtain ⟨g', rfl⟩ : ∃ g', g = g' + 2 := ⟨g - 2, by omega⟩
    have hfolA := ufollow_addToks has hu
    have hfolM := ufollow_mulToks hms' hfolA
    have hrun := hp.2 g' (mulToks ms ++ (addToks as ++ rest)) (by omega) hfolM.1 hfolM.2
    rw [arithLoop]
    simp only [mulToks, List.cons_append, List.append_assoc]
    lstep (peek_cons _ _)
    simp only [hf.1, hf.2.1]
    lstep (consume_spec _ _)
    simp only [List.cons_append, List.append_assoc] at hrun
    lstep (unary_of_unaryT hrun)
    rw [evOf_binary]
    have := ih hms' (.binary p.1 (some x) (some p.2.node) none) (g' + 1) rest (by omega) hu ha hm
    simp only [mulNodes, List.map_cons, sumTree_mul_cons]
    lexact this

/-! ## `ESpecC`: the tokens are a chain whose tree is `e` -/

/-- the parser on the tokens `tk :: ts` of the (whole) expression `e`: a head unit `x`, then
    `arithLoop` from `x` over the remaining tokens `M` yields `e` — with fuel proportional to the
    number of tokens, whatever the length of the chain -/
def ESpecC (o : Oracles) (e : Node) (tk : TT) (ts : List TT) : Prop :=
  ∃ (x : Node) (tsH M : List TT), ts = tsH ++ M ∧ MHead M ∧ OpdSpec o x tk tsH ∧ HeadA o x tk tsH ∧
    ∀ g rest, 16 * M.length + 4 ≤ g → EFollow (hd rest).1 →
      RunsV (StA o (M ++ rest)) (arithLoop o g (evOf x)) (evOf e, (hd rest).1) (StA o rest)

/-- (a) everything proved so far feeds in -/
theorem especC_of_espec {e : Node} {tk : TT} {ts : List TT} {p q : Prop} (h : ESpec o e tk ts p q) :
    ESpecC o e tk ts := by
  obtain ⟨⟨x, tsH, M, hts, hmh, hopd, hha, hl2, _⟩, _, _⟩ := h
  refine ⟨x, tsH, M, hts, hmh, hopd, hha, ?_⟩
  intro g rest hg hfol
  refine hl2 g rest _ _ hg hfol.1 hfol.2.1 hfol.2.2.2 ?_
  intro g1 h1 h2
  obtain ⟨g2, rfl⟩ : ∃ g2, g1 = g2 + 1 := ⟨g1 - 1, by omega⟩
  exact arith_nil g2 _ rest hfol.2.2.1 hfol.2.2.2

theorem mhead_chain {ms : List (BinOp × UnitC)} (hms : MulsOK o ms) {as : List (BinOp × TermC)}
    (has : AddsOK o as) : MHead (mulToks ms ++ addToks as) := by
  intro rest h1 h2
  have := ufollow_mulToks hms (ufollow_addToks has (rest := rest) ⟨h1, h2⟩)
  rw [List.append_assoc]
  exact this

/-- (b) **chains of units compose**: the head unit `x` (fit for `parseAtom`), the rest of the first
    product, and any number of `+ -` products, unparenthesised, are the expression `sumTree …` -/
theorem especC_chain' {x : Node} {tk : TT} {tsx : List TT} (hx : OpdSpec o x tk tsx) (hax : HeadA o x tk tsx)
    (ms : List (BinOp × UnitC)) (hms : MulsOK o ms) (as : List (BinOp × TermC)) (has : AddsOK o as) :
    ESpecC o (sumTree ⟨x, mulNodes ms⟩ (addTerms as)) tk (tsx ++ (mulToks ms ++ addToks as)) := by
  refine ⟨x, tsx, mulToks ms ++ addToks as, rfl, mhead_chain hms has, hx, hax, ?_⟩
  intro g rest hg hfol
  have := arithLoop_chain ms hms as has x g rest (by simpa [List.length_append] using hg)
    ⟨hfol.1, hfol.2.1⟩ hfol.2.2.1 hfol.2.2.2
  rw [List.append_assoc]
  exact RunsV.ofA this

/-- the same, the first product packaged as a `TermC` -/
theorem especC_chain (t₀ : TermC) (h₀ : t₀.OK o) (hh : HeadA o t₀.head.node t₀.head.tk t₀.head.ts)
    (as : List (BinOp × TermC)) (has : AddsOK o as) :
    ESpecC o (sumTree t₀.term (addTerms as)) t₀.head.tk (t₀.head.ts ++ (mulToks t₀.muls ++ addToks as)) :=
  especC_chain' h₀.1 hh t₀.muls h₀.2 as has

/-! ### consumers of `ESpecC` (cf. `atom_of_expr`, `expr_full`, `expr_fullT`, `cmpE_atom`, …) -/

/-- where an expression may start, `parseAtom` on the tokens of the chain `e` goes on with the part of
    `exprTail` after the arithmetic -/
theorem atom_of_exprC {e : Node} {tk : TT} {ts : List TT} (h : ESpecC o e tk ts)
    (F : Nat) (ctx : Ctx) (rest : List TT) (w : AtomR) (post : PS → Prop)
    (hF : 16 * (ts.length + 1) + 8 ≤ F + 2) (hfol : EFollow (hd rest).1)
    (hk : RunsV (StA o rest) (exprTailK o F ctx (evOf e) (hd rest).1) w post) :
    RunsV (StE o (tk :: ts ++ rest)) (parseAtom o (F + 2) ctx) w post := by
  obtain ⟨x, tsH, M, hts, hmh, _, hha, hl⟩ := h
  subst hts
  simp only [List.length_append] at hF
  have hm := hmh rest hfol.1 hfol.2.1
  have := hha (F + 1) ctx (M ++ rest) w post (by omega) hm.1 hm.2 ?_
  · simpa using this
  · rw [exprTail_eq]
    exact RunsV.bind (hl F rest (by omega) hfol) hk

/-- a chain in a position where only an expression may stand: `parseUnary` then `arithLoop` -/
theorem expr_fullC {e : Node} {tk : TT} {ts : List TT} (h : ESpecC o e tk ts)
    (g : Nat) (rest : List TT) (hg : 16 * (ts.length + 1) + 8 ≤ g) (hfol : EFollow (hd rest).1) :
    ∃ (u : EV) (mid : List TT),
      RunsV (StE o (tk :: ts ++ rest)) (parseUnary o g) u (StA o mid) ∧
      RunsV (StA o mid) (arithLoop o g u) (evOf e, (hd rest).1) (StA o rest) := by
  obtain ⟨x, tsH, M, hts, hmh, hopd, _, hl⟩ := h
  subst hts
  simp only [List.length_append] at hg
  have hm := hmh rest hfol.1 hfol.2.1
  obtain ⟨g', rfl⟩ : ∃ g', g = g' + 1 := ⟨g - 1, by omega⟩
  have hrun := hopd g' (M ++ rest) (by omega) hm.1 hm.2
  exact ⟨evOf x, M ++ rest, by simpa using unary_of_unaryT hrun, hl (g' + 1) rest (by omega) hfol⟩

/-- the head unit with `parseUnaryT`, then the loop (subscripts) -/
theorem expr_fullTC {e : Node} {tk : TT} {ts : List TT} (h : ESpecC o e tk ts)
    (g : Nat) (rest : List TT) (hg : 16 * (ts.length + 1) + 8 ≤ g) (hfol : EFollow (hd rest).1) :
    ∃ (u : EV) (mid : List TT),
      RunsV (StP o (tk :: ts ++ rest)) (parseUnaryT o g tk) u (StA o mid) ∧
      RunsV (StA o mid) (arithLoop o g u) (evOf e, (hd rest).1) (StA o rest) := by
  obtain ⟨x, tsH, M, hts, hmh, hopd, _, hl⟩ := h
  subst hts
  simp only [List.length_append] at hg
  have hm := hmh rest hfol.1 hfol.2.1
  have hrun := hopd g (M ++ rest) (by omega) hm.1 hm.2
  exact ⟨evOf x, M ++ rest, by simpa using hrun, hl g rest (by omega) hfol⟩

/-- **comparisons bind looser than arithmetic**: `l op r` between two chains is the atom
    `(l) op (r)` -/
theorem cmpE_atomC {l r : Node} {tkl tkr : TT} {tsl tsr : List TT} {op : BinOp}
    (hl : ESpecC o l tkl tsl) (hr : ESpecC o r tkr tsr) (hop : isCmp op = true) :
    AtomSpec o (.binary op (some l) (some r) none) (tkl :: tsl ++ opTok op :: tkr :: tsr) := by
  intro f ctx rest hf hfol
  simp only [List.length_cons, List.length_append] at hf
  obtain ⟨f', rfl⟩ : ∃ f', f = f' + 2 := ⟨f - 2, by omega⟩
  have hc := cmp_facts hop
  obtain ⟨u, mid, hr1, hr2⟩ := expr_fullC hr f' rest (by omega) hfol.efollow
  have := atom_of_exprC hl f' ctx (opTok op :: tkr :: (tsr ++ rest)) (.pred { node := .binary op (some l) (some r) none })
    (StE o rest) (by omega) ⟨hc.2.2.2.1, hc.2.2.2.2, hc.1, hc.2.1⟩ ?_
  · simpa using this
  · simp only [hd, exprTailK, hc.2.2.1]
    lstep (consume_spec _ _)
    simp only [List.cons_append] at hr1
    lstep hr1
    lstep hr2
    exact RunsV.pure' rfl (fun _ h => StE.ofA h)

/-- `l starts with "s"` / `l starts with $"s"` with a chain `l` -/
theorem startsE_atomC {l : Node} {tkl : TT} {tsl : List TT} (s : List Char) (isVar : Bool)
    (hl : ESpecC o l tkl tsl) :
    AtomSpec o (.binary .startsWith (some l) (some (if isVar then .var s none else .str s none)) none)
      (tkl :: tsl ++ [tStarts, tWith, if isVar then tVar s else (.string, s)]) := by
  intro f ctx rest hf hfol
  simp only [List.length_cons, List.length_append, List.length_nil] at hf
  obtain ⟨f', rfl⟩ : ∃ f', f = f' + 2 := ⟨f - 2, by omega⟩
  have := atom_of_exprC hl f' ctx (tStarts :: tWith :: (if isVar then tVar s else (.string, s)) :: rest)
    (.pred { node := .binary .startsWith (some l) (some (if isVar then .var s none else .str s none)) none })
    (StE o rest) (by omega) ⟨rfl, by simp [hd, tStarts], rfl, rfl⟩ ?_
  · simpa using this
  · simp only [hd, List.cons_append, List.nil_append, tStarts, exprTailK, compOp, ↓reduceIte]
    lstep (consume_spec _ _)
    lstep (expect_spec _ _ _)
    cases isVar with
    | false =>
      simp only [Bool.false_eq_true, ↓reduceIte]
      lstep (peek_cons _ _)
      simp only [↓reduceIte]
      lstep (consume_spec _ _)
      exact RunsV.pure' rfl (fun _ h => h)
    | true =>
      simp only [↓reduceIte]
      lstep (peek_cons _ _)
      simp only [tVar, reduceCtorEq, ↓reduceIte]
      lstep (consume_spec _ _)
      exact RunsV.pure' rfl (fun _ h => h)

/-- `x like_regex "pat" [flag "…"]` with a chain `x` -/
theorem regexE_atomC {x : Node} {tk : TT} {ts : List TT} (pat : List Char) (fl : Nat)
    (hx : ESpecC o x tk ts) (hfl : fl < 32) (hok : okFlags fl = true)
    (hacc : o.regexAccepts pat fl = true) :
    AtomSpec o (.regex x pat fl none) (tk :: ts ++ tLike :: (.string, pat) :: flagToks fl) := by
  intro f ctx rest hf hfol
  have hlen : (flagToks fl).length ≤ 2 := by unfold flagToks; split <;> simp
  simp only [List.length_cons, List.length_append] at hf
  obtain ⟨f', rfl⟩ : ∃ f', f = f' + 2 := ⟨f - 2, by omega⟩
  have := atom_of_exprC hx f' ctx (tLike :: (.string, pat) :: (flagToks fl ++ rest))
    (.pred { node := .regex x pat fl none }) (StE o rest) (by omega) ⟨rfl, by simp [hd, tLike], rfl, rfl⟩ ?_
  · simpa using this
  · simp only [hd, List.cons_append, tLike, exprTailK, compOp, reduceCtorEq, ↓reduceIte]
    lstep (consume_spec _ _)
    lstep (peek_cons _ _)
    simp only [ne_eq, not_true_eq_false, ↓reduceIte]
    lstep (consume_spec _ _)
    unfold flagToks
    by_cases h0 : fl = 0
    · subst h0
      simp only [↓reduceIte, List.nil_append]
      lstep (peek_any rest)
      simp only [hfol.notFlag, ↓reduceIte]
      have : regexFlags [] = some 0 := by decide
      simp only [mkRegex, this, hacc, ↓reduceIte]
      exact RunsV.pure' rfl (fun _ h => StE.ofA h)
    · simp only [h0, ↓reduceIte, List.cons_append, List.nil_append]
      lstep (peek_cons _ _)
      simp only [tFlag, ↓reduceIte]
      lstep (consume_spec _ _)
      lstep (peek_cons _ _)
      simp only [ne_eq, not_true_eq_false, ↓reduceIte]
      lstep (consume_spec _ _)
      simp only [mkRegex, regexFlags_flagChars fl hfl hok, hacc, ↓reduceIte]
      exact RunsV.pure' rfl (fun _ h => h)

/-- `exists (e)` with a chain `e` -/
theorem existsE_atomC {x : Node} {tk : TT} {ts : List TT} (hx : ESpecC o x tk ts) :
    AtomSpec o (.unary .exists (some x) none) (tExists :: tLp :: tk :: ts ++ [tRp]) := by
  intro f ctx rest hf hfol
  simp only [List.length_cons, List.length_append, List.length_nil] at hf
  obtain ⟨f', rfl⟩ : ∃ f', f = f' + 3 := ⟨f - 3, by omega⟩
  obtain ⟨u, mid, hr1, hr2⟩ := expr_fullC hx (f' + 1) (tRp :: rest) (by omega) ⟨rfl, by simp [hd, tRp], rfl, rfl⟩
  have hex : RunsV (StE o (tLp :: tk :: ts ++ tRp :: rest)) (existsTail o (f' + 2)) (unary .exists (evOf x))
      (StE o rest) := by
    rw [existsTail]
    lstep (expect_spec _ _ _)
    simp only [List.cons_append] at hr1
    lstep hr1
    lstep hr2
    simp only [hd, tRp, ne_eq, not_true_eq_false, ↓reduceIte]
    lstep (consume_spec _ _)
    exact RunsV.pure _
  rw [parseAtom]
  simp only [List.cons_append, List.append_assoc, List.nil_append]
  lstep (peek_cons _ _)
  simp only [tExists, reduceCtorEq, ↓reduceIte]
  lstep (consume_spec _ _)
  simp only [List.cons_append, List.append_assoc, List.nil_append] at hex
  lstep hex
  exact RunsV.pure' rfl (fun _ h => h)

/-- after `(`: a chain and `)`, followed by something that is not an accessor -/
theorem parenTail_exprC {e : Node} {tk : TT} {ts : List TT} (h : ESpecC o e tk ts)
    (F : Nat) (ctx : Ctx) (hctx : ctx ≠ .pred) (rest : List TT) (hF : 16 * (ts.length + 1) + 8 ≤ F + 2)
    (ha : isAccessorStart (hd rest).1 = false) :
    RunsV (StE o (tk :: ts ++ tRp :: rest)) (parenTail o (F + 3) ctx) (.expr (evOf e)) (StA o rest) := by
  rw [parenTail]
  have h1 := atom_of_exprC h F ctx (tRp :: rest) (.expr (evOf e) .rparen) (StA o (tRp :: rest)) hF
    ⟨rfl, by simp [hd, tRp], rfl, rfl⟩ (exprK_end F ctx hctx (evOf e) (tRp :: rest) (Or.inl rfl))
  lstep h1
  simp only [ne_eq, not_true_eq_false, ↓reduceIte]
  lstep (consume_spec _ _)
  lstep (peek_any rest)
  simp only [ha, Bool.false_eq_true, ↓reduceIte]
  exact RunsV.pure _

/-- `( chain )` is a unit for `parseUnaryT` … -/
theorem paren_opdSpecC {e : Node} {tk : TT} {ts : List TT} (h : ESpecC o e tk ts) :
    OpdSpec o e tLp (tk :: ts ++ [tRp]) := by
  intro f rest hf ha _
  simp only [List.length_cons, List.length_append, List.length_nil] at hf
  obtain ⟨F, rfl⟩ : ∃ F, f = F + 4 := ⟨f - 4, by omega⟩
  rw [parseUnaryT]
  simp only [tLp, reduceCtorEq, ↓reduceIte]
  simp only [List.cons_append, List.append_assoc, List.nil_append]
  lstep (consume_spec _ _)
  lstep (parenTail_exprC h F .parenE (by decide) rest (by omega) ha)
  exact RunsV.pure _

/-- … and for `parseAtom` -/
theorem paren_headAC {e : Node} {tk : TT} {ts : List TT} (h : ESpecC o e tk ts) :
    HeadA o e tLp (tk :: ts ++ [tRp]) := by
  intro f ctx rest w post hf ha _ hk
  simp only [List.length_cons, List.length_append, List.length_nil] at hf
  obtain ⟨F, rfl⟩ : ∃ F, f = F + 3 := ⟨f - 3, by omega⟩
  rw [parseAtom]
  simp only [List.cons_append, List.append_assoc, List.nil_append]
  lstep (peek_cons _ _)
  simp only [tLp, reduceCtorEq, ↓reduceIte]
  lstep (consume_spec _ _)
  lstep (parenTail_exprC h F .paren (by decide) rest (by omega) ha)
  exact hk

/-- **`( chain )` plugs back into every existing rule**: it is an `ESpec` fit for every position -/
theorem espec_paren_of_chain {e : Node} {tk : TT} {ts : List TT} (h : ESpecC o e tk ts) (p q : Prop) :
    ESpec o e tLp (tk :: ts ++ [tRp]) p q :=
  espec_unit (paren_opdSpecC h) (paren_headAC h) _ _

/-- … in particular it is a unit of a longer chain -/
def UnitC.paren (e : Node) (tk : TT) (ts : List TT) : UnitC := ⟨e, tLp, tk :: ts ++ [tRp]⟩

theorem UnitC.paren_ok {e : Node} {tk : TT} {ts : List TT} (h : ESpecC o e tk ts) : (UnitC.paren e tk ts).OK o :=
  paren_opdSpecC h

/-- a single subscript bound that is a chain -/
theorem subRun_oneC {l : Node} {tk : TT} {ts : List TT} (hl : ESpecC o l tk ts) :
    SubRun o (.binary .subscript (some l) none none) tk ts := by
  intro f acc more w post hf hsep hk
  have hs := sepFollow hsep
  obtain ⟨u, mid, h1, h2⟩ := expr_fullTC hl f more hf hs.1
  rw [indexList_eq]
  lstep h1
  lstep h2
  simp only [indexElemK, hs.2, ↓reduceIte, evOf_node]
  exact hk

/-- a range `l to r` of two chains -/
theorem subRun_twoC {l r : Node} {tkl tkr : TT} {tsl tsr : List TT}
    (hl : ESpecC o l tkl tsl) (hr : ESpecC o r tkr tsr) :
    SubRun o (.binary .subscript (some l) (some r) none) tkl (tsl ++ tTo :: tkr :: tsr) := by
  intro f acc more w post hf hsep hk
  simp only [List.length_cons, List.length_append] at hf
  have hs := sepFollow hsep
  obtain ⟨u, mid, h1, h2⟩ := expr_fullTC hl f (tTo :: tkr :: (tsr ++ more)) (by omega) ⟨rfl, by simp [hd, tTo], rfl, rfl⟩
  obtain ⟨u2, mid2, h3, h4⟩ := expr_fullC hr f more (by omega) hs.1
  rw [indexList_eq]
  simp only [List.cons_append, List.append_assoc] at h1 ⊢
  lstep h1
  lstep h2
  simp only [hd, tTo, indexElemK, ↓reduceIte, evOf_node]
  lstep (consume_spec _ _)
  simp only [List.cons_append] at h3
  lstep h3
  lstep h4
  exact hk

end

/-! ## Predicates: `&&` binds tighter than `||`, both left-associative -/

/-- an atom (operand of `&&`) with its tokens -/
structure AtomC where
  node : Node
  toks : List TT

def AtomC.OK (o : Oracles) (a : AtomC) : Prop := AtomSpec o a.node a.toks

/-- tokens of `&& a₁ … && aₙ` -/
def andToks : List AtomC → List TT
  | [] => []
  | a :: as => tAnd :: (a.toks ++ andToks as)

def andNodes (as : List AtomC) : List Node := as.map (·.node)

def AndsOK (o : Oracles) (as : List AtomC) : Prop := ∀ a ∈ as, a.OK o

structure ConjC where
  head : AtomC
  ands : List AtomC

def ConjC.conj (c : ConjC) : Conj := ⟨c.head.node, andNodes c.ands⟩
def ConjC.OK (o : Oracles) (c : ConjC) : Prop := c.head.OK o ∧ AndsOK o c.ands
def ConjC.toks (c : ConjC) : List TT := c.head.toks ++ andToks c.ands

/-- tokens of `|| C₁ … || Cₙ` -/
def orToks : List ConjC → List TT
  | [] => []
  | c :: cs => tOr :: (c.head.toks ++ (andToks c.ands ++ orToks cs))

def orConjs (cs : List ConjC) : List Conj := cs.map ConjC.conj

def OrsOK (o : Oracles) (cs : List ConjC) : Prop := ∀ c ∈ cs, c.OK o

def orFrom (a : Node) (cs : List Conj) : Node :=
  cs.foldl (fun acc c => .binary .or (some acc) (some c.tree) none) a

theorem orTree_eq (c₀ : Conj) (cs : List Conj) : orTree c₀ cs = orFrom c₀.tree cs := rfl
theorem orFrom_cons (a : Node) (c : Conj) (cs : List Conj) :
    orFrom a (c :: cs) = orFrom (.binary .or (some a) (some c.tree) none) cs := rfl
theorem orTree_and_cons (a b : Node) (as : List Node) (cs : List Conj) :
    orTree ⟨a, b :: as⟩ cs = orTree ⟨.binary .and (some a) (some b) none, as⟩ cs := rfl

/-- the end of a whole predicate -/
def EndP (t : Tok) : Prop := t = .rparen ∨ t = .stop

theorem EndP.facts {t : Tok} (h : EndP t) : PFollow t ∧ LFollow t ∧ t ≠ .and ∧ t ≠ .or := by
  rcases h with h | h <;> subst h <;> refine ⟨?_, ?_, by decide, by decide⟩
  · exact Or.inl rfl
  · exact Or.inl rfl
  · exact Or.inr (Or.inr (Or.inr rfl))
  · exact Or.inr (Or.inr rfl)

section
variable {o : Oracles}

theorem pfollow_andToks (as : List AtomC) {rest : List TT} (h : PFollow (hd rest).1) :
    PFollow (hd (andToks as ++ rest)).1 := by
  cases as with
  | nil => simpa [andToks] using h
  | cons a as => exact Or.inr (Or.inl rfl)

theorem pfollow_orToks (cs : List ConjC) {rest : List TT} (h : PFollow (hd rest).1) :
    PFollow (hd (orToks cs ++ rest)).1 := by
  cases cs with
  | nil => simpa [orToks] using h
  | cons c cs => exact Or.inr (Or.inr (Or.inl rfl))

theorem notAnd_orToks (cs : List ConjC) {rest : List TT} (h : (hd rest).1 ≠ .and) :
    (hd (orToks cs ++ rest)).1 ≠ .and := by
  cases cs with
  | nil => simpa [orToks] using h
  | cons c cs => simp [orToks, hd, tOr]

/-- **`&&` is left-associative.**  `orLoop` (the right operand of `||`) with the left operand `a`,
    standing before `&& a₁ … && aₙ` followed by something that is not `&&`, returns
    `((a && a₁) && a₂) …`. -/
theorem orLoop_chain (as : List AtomC) (has : AndsOK o as) :
    ∀ (a : Node) (g : Nat) (rest : List TT), 16 * (andToks as).length + 8 ≤ g →
      PFollow (hd rest).1 → (hd rest).1 ≠ .and →
      RunsV (StE o (andToks as ++ rest)) (orLoop o g { node := a }) { node := andTree a (andNodes as) }
        (StA o rest) := by
  induction as with
  | nil =>
    intro a g rest hg hp hna
    obtain ⟨g', rfl⟩ : ∃ g', g = g' + 1 := ⟨g - 1, by omega⟩
    simpa [andToks, andNodes, andTree] using orLoop_nil g' { node := a } rest hna
  | cons b as ih =>
    intro a g rest hg hp hna
    have hb := has b (List.mem_cons_self ..)
    have has' : AndsOK o as := fun q hq => has q (List.mem_cons_of_mem _ hq)
    simp only [andToks, List.length_cons, List.length_append] at hg
    obtain ⟨g', rfl⟩ : ∃ g', g = g' + 1 := ⟨g - 1, by omega⟩
    have hrun := hb g' .pred (andToks as ++ rest) (by omega) (pfollow_andToks as hp)
    rw [orLoop]
    simp only [andToks, List.cons_append, List.append_assoc]
    lstep (peek_cons _ _)
    simp only [tAnd, ↓reduceIte]
    lstep (consume_spec _ _)
    lstep hrun
    have := ih has' (.binary .and (some a) (some b.node) none) g' rest (by omega) hp hna
    simp only [andNodes, List.map_cons, andTree_cons]
    exact this

/-- **`||` is left-associative and `&&` binds tighter.**  `predLoop` with the left operand `a`, standing
    before `|| C₁ … || Cₙ` (every `Cᵢ` a conjunction of atoms) up to `)` or the end, returns
    `((a || C₁) || C₂) …`. -/
theorem predLoop_sum (cs : List ConjC) (hcs : OrsOK o cs) :
    ∀ (a : Node) (g : Nat) (rest : List TT), 16 * (orToks cs).length + 8 ≤ g → EndP (hd rest).1 →
      RunsV (StE o (orToks cs ++ rest)) (predLoop o g { node := a })
        ({ node := orFrom a (orConjs cs) }, (hd rest).1) (StA o rest) := by
  induction cs with
  | nil =>
    intro a g rest hg he
    obtain ⟨g', rfl⟩ : ∃ g', g = g' + 1 := ⟨g - 1, by omega⟩
    simpa [orToks, orConjs, orFrom] using predLoop_nil g' { node := a } rest he.facts.2.2.1 he.facts.2.2.2
  | cons c cs ih =>
    intro a g rest hg he
    have hc := hcs c (List.mem_cons_self ..)
    have hcs' : OrsOK o cs := fun q hq => hcs q (List.mem_cons_of_mem _ hq)
    simp only [orToks, List.length_cons, List.length_append] at hg
    obtain ⟨g', rfl⟩ : ∃ g', g = g' + 1 := ⟨g - 1, by omega⟩
    have hpo := pfollow_orToks cs he.facts.1
    have hrun := hc.1 g' .pred (andToks c.ands ++ (orToks cs ++ rest)) (by omega) (pfollow_andToks c.ands hpo)
    have hor := orLoop_chain c.ands hc.2 c.head.node g' (orToks cs ++ rest) (by omega) hpo
      (notAnd_orToks cs he.facts.2.2.1)
    rw [predLoop]
    simp only [orToks, List.cons_append, List.append_assoc]
    lstep (peek_cons _ _)
    simp only [tOr, reduceCtorEq, ↓reduceIte]
    lstep (consume_spec _ _)
    lstep hrun
    lstep hor
    have := ih hcs' (.binary .or (some a) (some (andTree c.head.node (andNodes c.ands))) none) g' rest (by omega) he
    simp only [orConjs, List.map_cons, orFrom_cons]
    lexact this

/-- **Precedence climbing on a whole chain of atoms.**  `predLoop` with the first atom `a` as left operand,
    standing before `&& a₁ … && aₖ` (the rest of the first conjunction, which `predLoop` folds itself) and
    then `|| C₁ … || Cₙ` (folded by `orLoop`), returns `orTree (a && a₁ … && aₖ) [C₁, …]`. -/
theorem predLoop_chain (as : List AtomC) (has : AndsOK o as) (cs : List ConjC) (hcs : OrsOK o cs) :
    ∀ (a : Node) (g : Nat) (rest : List TT), 16 * ((andToks as).length + (orToks cs).length) + 8 ≤ g →
      EndP (hd rest).1 →
      RunsV (StE o (andToks as ++ (orToks cs ++ rest))) (predLoop o g { node := a })
        ({ node := orTree ⟨a, andNodes as⟩ (orConjs cs) }, (hd rest).1) (StA o rest) := by
  induction as with
  | nil =>
    intro a g rest hg he
    have := predLoop_sum cs hcs a g rest (by simpa [andToks] using hg) he
    simpa [andToks, andNodes, orTree, Conj.tree, andTree, orFrom] using this
  | cons b as ih =>
    intro a g rest hg he
    have hb := has b (List.mem_cons_self ..)
    have has' : AndsOK o as := fun q hq => has q (List.mem_cons_of_mem _ hq)
    simp only [andToks, List.length_cons, List.length_append] at hg
    obtain ⟨g', rfl⟩ : ∃ g', g = g' + 1 := ⟨g - 1, by omega⟩
    have hrun := hb g' .pred (andToks as ++ (orToks cs ++ rest)) (by omega)
      (pfollow_andToks as (pfollow_orToks cs he.facts.1))
    rw [predLoop]
    simp only [andToks, List.cons_append, List.append_assoc]
    lstep (peek_cons _ _)
    simp only [tAnd, ↓reduceIte]
    lstep (consume_spec _ _)
    lstep hrun
    have := ih has' (.binary .and (some a) (some b.node) none) g' rest (by omega) he
    simp only [andNodes, List.map_cons, orTree_and_cons]
    exact this

/-- `FullSpec` is already in direct style with fuel linear in the tokens, so it serves as the spec of
    chains of atoms: no new predicate is needed -/
abbrev FullSpecC (o : Oracles) (p : Node) (toks : List TT) : Prop := FullSpec o p toks

theorem fullSpecC_of_fullSpec {p : Node} {toks : List TT} (h : FullSpec o p toks) : FullSpecC o p toks := h

/-- **an unparenthesised chain of atoms is the predicate `orTree …`**, wherever a whole predicate may
    stand (top level, `( … )`, `?( … )`, `!( … )`, `( … ) is unknown`) -/
theorem fullSpec_chain (c₀ : ConjC) (h₀ : c₀.OK o) (cs : List ConjC) (hcs : OrsOK o cs) :
    FullSpecC o (orTree c₀.conj (orConjs cs)) (c₀.head.toks ++ (andToks c₀.ands ++ orToks cs)) := by
  intro f ctx rest hf he
  simp only [List.length_append] at hf
  refine ⟨{ node := c₀.head.node }, andToks c₀.ands ++ (orToks cs ++ rest), ?_, ?_⟩
  · have := h₀.1 f ctx (andToks c₀.ands ++ (orToks cs ++ rest)) (by omega)
      (pfollow_andToks c₀.ands (pfollow_orToks cs (EndP.facts he).1))
    simpa [List.append_assoc] using this
  · exact predLoop_chain c₀.ands h₀.2 cs hcs c₀.head.node f rest (by omega) he

end

/-! ## (3) Text level: print-free bundles for chains -/

/-- **`txt` is a spelling of the expression `e` as a whole** (a chain; it need not be fit for any
    operand position): in every layout it is a token sequence of which the parser makes `e` -/
def ExprTC (o : Oracles) (e : Node) (txt : List Char) : Prop :=
  ∃ tk ts, Seg2 o brk txt (tk :: ts) ∧ isPredStart tk.1 = true ∧ ESpecC o e tk ts

/-- **`txt` is a spelling of the predicate `p` as a whole** -/
def PredTC (o : Oracles) (p : Node) (txt : List Char) : Prop :=
  ∃ toks, Seg2 o brk txt toks ∧ PHead toks ∧ FullSpecC o p toks

/-- a unit with a text -/
structure UnitT where
  node : Node
  txt : List Char

/-- the text is a spelling of the node fit for a unit position (operand of `* / %`) -/
def UnitT.OK (o : Oracles) (u : UnitT) : Prop := ExprT o u.node True True u.txt

/-- ` op₁ u₁ … opₙ uₙ` as the printer spaces it -/
def mulTxt : List (BinOp × UnitT) → List Char
  | [] => []
  | p :: ms => ' ' :: (Print.binStr p.1 ++ ' ' :: (p.2.txt ++ mulTxt ms))

def mulNodesT (ms : List (BinOp × UnitT)) : List (BinOp × Node) := ms.map (fun p => (p.1, p.2.node))

def MulsOKT (o : Oracles) (ms : List (BinOp × UnitT)) : Prop := ∀ p ∈ ms, isMulOp p.1 = true ∧ p.2.OK o

structure TermT where
  head : UnitT
  muls : List (BinOp × UnitT)

def TermT.term (t : TermT) : Term := ⟨t.head.node, mulNodesT t.muls⟩
def TermT.txt (t : TermT) : List Char := t.head.txt ++ mulTxt t.muls
def TermT.OK (o : Oracles) (t : TermT) : Prop := t.head.OK o ∧ MulsOKT o t.muls

def addTxt : List (BinOp × TermT) → List Char
  | [] => []
  | p :: as => ' ' :: (Print.binStr p.1 ++ ' ' :: (p.2.head.txt ++ (mulTxt p.2.muls ++ addTxt as)))

def addTermsT (as : List (BinOp × TermT)) : List (BinOp × Term) := as.map (fun p => (p.1, p.2.term))

def AddsOKT (o : Oracles) (as : List (BinOp × TermT)) : Prop := ∀ p ∈ as, isAddOp p.1 = true ∧ p.2.OK o

/-- an atom with a text -/
structure AtomT where
  node : Node
  txt : List Char

/-- the text is a spelling of the predicate fit for an operand position of `&&` -/
def AtomT.OK (o : Oracles) (a : AtomT) : Prop := PredT o a.node True True a.txt

def andTxt : List AtomT → List Char
  | [] => []
  | a :: as => ' ' :: (Print.binStr .and ++ ' ' :: (a.txt ++ andTxt as))

def andNodesT (as : List AtomT) : List Node := as.map (·.node)

def AndsOKT (o : Oracles) (as : List AtomT) : Prop := ∀ a ∈ as, a.OK o

structure ConjT where
  head : AtomT
  ands : List AtomT

def ConjT.conj (c : ConjT) : Conj := ⟨c.head.node, andNodesT c.ands⟩
def ConjT.txt (c : ConjT) : List Char := c.head.txt ++ andTxt c.ands
def ConjT.OK (o : Oracles) (c : ConjT) : Prop := c.head.OK o ∧ AndsOKT o c.ands

def orTxt : List ConjT → List Char
  | [] => []
  | c :: cs => ' ' :: (Print.binStr .or ++ ' ' :: (c.head.txt ++ (andTxt c.ands ++ orTxt cs)))

def orConjsT (cs : List ConjT) : List Conj := cs.map ConjT.conj

def OrsOKT (o : Oracles) (cs : List ConjT) : Prop := ∀ c ∈ cs, c.OK o

/-- the text is empty or starts with a blank: after a piece that tolerates a `brk`, it may follow -/
def SpHead (t : List Char) : Prop := ∀ r : List Char, brk r.head? → brk (t ++ r).head?

theorem spHead_nil : SpHead [] := fun _ h => h
theorem spHead_sp (t : List Char) : SpHead (' ' :: t) := fun _ _ => brk_sp
theorem spHead_app {a b : List Char} (ha : SpHead a) (hb : SpHead b) : SpHead (a ++ b) := by
  intro r hr
  rw [List.append_assoc]
  exact ha _ (hb r hr)

theorem spHead_mulTxt (ms : List (BinOp × UnitT)) : SpHead (mulTxt ms) := by
  cases ms <;> simp only [mulTxt]
  · exact spHead_nil
  · exact spHead_sp _

theorem spHead_addTxt (as : List (BinOp × TermT)) : SpHead (addTxt as) := by
  cases as <;> simp only [addTxt]
  · exact spHead_nil
  · exact spHead_sp _

theorem spHead_andTxt (as : List AtomT) : SpHead (andTxt as) := by
  cases as <;> simp only [andTxt]
  · exact spHead_nil
  · exact spHead_sp _

theorem spHead_orTxt (cs : List ConjT) : SpHead (orTxt cs) := by
  cases cs <;> simp only [orTxt]
  · exact spHead_nil
  · exact spHead_sp _

section
variable {o : Oracles}

theorem exprTC_of_exprT {e : Node} {u m : Prop} {txt : List Char} (h : ExprT o e u m txt) : ExprTC o e txt := by
  obtain ⟨tk, ts, hseg, hst, hsp⟩ := h
  exact ⟨tk, ts, hseg, hst, especC_of_espec hsp⟩

theorem predTC_of_predT {p : Node} {a l : Prop} {txt : List Char} (h : PredT o p a l txt) : PredTC o p txt := by
  obtain ⟨toks, hseg, hh, _, _, hl2⟩ := h
  exact ⟨toks, hseg, hh, full_of_left (by decide) hl2⟩

/-- a spelling fit for a unit position is fit for every position -/
theorem exprT_unit_upgrade {x : Node} {m : Prop} {txt : List Char} (h : ExprT o x True m txt) (u' m' : Prop) :
    ExprT o x u' m' txt := by
  obtain ⟨tk, ts, hseg, hst, _, _, hunit⟩ := h
  obtain ⟨hopd, hha⟩ := hunit trivial
  exact ⟨tk, ts, hseg, hst, espec_unit hopd hha _ _⟩

/-- a spelling fit for an operand position of `&&` is fit for every position -/
theorem predT_atom_upgrade {p : Node} {l : Prop} {txt : List Char} (h : PredT o p True l txt) (a' l' : Prop) :
    PredT o p a' l' txt := by
  obtain ⟨toks, hseg, hh, hat, _, _⟩ := h
  have hat := hat trivial
  exact ⟨toks, hseg, hh, fun _ => hat, fun _ => ⟨left_of_atom hat 1, right_of_atom hat⟩, left_of_atom hat 2⟩

variable (ok : OrOK o)
include ok

/-! ### from texts to tokens -/

theorem mulsT_toC (ms : List (BinOp × UnitT)) (h : MulsOKT o ms) :
    ∃ msC : List (BinOp × UnitC), MulsOK o msC ∧ mulNodes msC = mulNodesT ms ∧
      Seg o brk (mulTxt ms) (mulToks msC) := by
  induction ms with
  | nil => exact ⟨[], fun _ h => by simp at h, rfl, Seg.nil o _⟩
  | cons p ms ih =>
    obtain ⟨msC, h1, h2, h3⟩ := ih (fun q hq => h q (List.mem_cons_of_mem _ hq))
    obtain ⟨hop, tk, ts, hseg, _, _, _, hunit⟩ := h p (List.mem_cons_self ..)
    obtain ⟨hopd, _⟩ := hunit trivial
    have har : isArith p.1 = true := by
      revert hop; cases p.1 <;> simp [isMulOp, isArith]
    refine ⟨(p.1, ⟨p.2.node, tk, ts⟩) :: msC, ?_, ?_, ?_⟩
    · intro q hq
      rcases List.mem_cons.1 hq with rfl | hq
      · exact ⟨hop, hopd⟩
      · exact h1 q hq
    · simp only [mulNodes, mulNodesT, List.map_cons] at h2 ⊢
      rw [h2]
    · have s1 := Seg.app_cons o (seg_sp_arith o ok p.1 har) hseg.2 rfl
      have s2 := Seg.app o s1 h3 (spHead_mulTxt ms)
      simpa [mulTxt, mulToks] using s2

theorem termT_toC (t : TermT) (h : t.OK o) :
    ∃ tC : TermC, tC.OK o ∧ tC.term = t.term ∧ isPredStart tC.head.tk.1 = true ∧
      HeadA o tC.head.node tC.head.tk tC.head.ts ∧
      Seg2 o brk (t.head.txt ++ mulTxt t.muls) (tC.head.tk :: (tC.head.ts ++ mulToks tC.muls)) := by
  obtain ⟨⟨tk, ts, hseg, hst, _, _, hunit⟩, hm⟩ := h
  obtain ⟨hopd, hha⟩ := hunit trivial
  obtain ⟨msC, h1, h2, h3⟩ := mulsT_toC ok t.muls hm
  refine ⟨⟨⟨t.head.node, tk, ts⟩, msC⟩, ⟨hopd, h1⟩, ?_, hst, hha, ?_⟩
  · simp only [TermC.term, TermT.term, h2]
  · have := Seg2.app o hseg h3 (spHead_mulTxt t.muls)
    simpa using this

theorem addsT_toC (as : List (BinOp × TermT)) (h : AddsOKT o as) :
    ∃ asC : List (BinOp × TermC), AddsOK o asC ∧ addTerms asC = addTermsT as ∧
      Seg o brk (addTxt as) (addToks asC) := by
  induction as with
  | nil => exact ⟨[], fun _ h => by simp at h, rfl, Seg.nil o _⟩
  | cons p as ih =>
    obtain ⟨asC, h1, h2, h3⟩ := ih (fun q hq => h q (List.mem_cons_of_mem _ hq))
    obtain ⟨hop, hterm⟩ := h p (List.mem_cons_self ..)
    obtain ⟨tC, t1, t2, _, _, t3⟩ := termT_toC ok p.2 hterm
    have har : isArith p.1 = true := by
      revert hop; cases p.1 <;> simp [isAddOp, isArith]
    refine ⟨(p.1, tC) :: asC, ?_, ?_, ?_⟩
    · intro q hq
      rcases List.mem_cons.1 hq with rfl | hq
      · exact ⟨hop, t1⟩
      · exact h1 q hq
    · simp only [addTerms, addTermsT, List.map_cons] at h2 ⊢
      rw [h2, t2]
    · have s1 := Seg.app_cons o (seg_sp_arith o ok p.1 har) t3.2 rfl
      have s2 := Seg.app o s1 h3 (spHead_addTxt as)
      simpa [addTxt, addToks] using s2

/-- **(3) the text of a chain**: the units' spellings joined by ` op ` — `T₀ op₁ T₁ …` with `+ -` between
    products `u op u …` with `* / %` — is a spelling of `sumTree …` -/
theorem exprTC_chain (t₀ : TermT) (h₀ : t₀.OK o) (as : List (BinOp × TermT)) (has : AddsOKT o as) :
    ExprTC o (sumTree t₀.term (addTermsT as)) (t₀.head.txt ++ (mulTxt t₀.muls ++ addTxt as)) := by
  obtain ⟨tC, t1, t2, hst, hha, t3⟩ := termT_toC ok t₀ h₀
  obtain ⟨asC, a1, a2, a3⟩ := addsT_toC ok as has
  refine ⟨tC.head.tk, tC.head.ts ++ (mulToks tC.muls ++ addToks asC), ?_, hst, ?_⟩
  · have := Seg2.app o t3 a3 (spHead_addTxt as)
    simpa [List.append_assoc] using this
  · have := especC_chain tC t1 hha asC a1
    rw [t2, a2] at this
    exact this

/-- **chains plug back into every existing rule as parenthesised units** -/
theorem exprT_paren_of_chain {e : Node} {txt : List Char} (h : ExprTC o e txt) :
    ExprT o e True True ('(' :: (txt ++ [')'])) := by
  obtain ⟨tk, ts, hseg, hst, hsp⟩ := h
  have := seg2_paren ok hseg
  exact ⟨tLp, tk :: ts ++ [tRp], by simpa using this, rfl, espec_paren_of_chain hsp _ _⟩

/-- … as a unit of a longer chain -/
theorem UnitT.paren_ok {e : Node} {txt : List Char} (h : ExprTC o e txt) :
    (UnitT.mk e ('(' :: (txt ++ [')']))).OK o := exprT_paren_of_chain ok h

/-! ### predicates -/

theorem andsT_toC (as : List AtomT) (h : AndsOKT o as) :
    ∃ asC : List AtomC, AndsOK o asC ∧ andNodes asC = andNodesT as ∧ Seg o brk (andTxt as) (andToks asC) := by
  induction as with
  | nil => exact ⟨[], fun _ h => by simp at h, rfl, Seg.nil o _⟩
  | cons a as ih =>
    obtain ⟨asC, h1, h2, h3⟩ := ih (fun q hq => h q (List.mem_cons_of_mem _ hq))
    obtain ⟨toks, hseg, _, hat, _, _⟩ := h a (List.mem_cons_self ..)
    refine ⟨⟨a.node, toks⟩ :: asC, ?_, ?_, ?_⟩
    · intro q hq
      rcases List.mem_cons.1 hq with rfl | hq
      · exact hat trivial
      · exact h1 q hq
    · simp only [andNodes, andNodesT, List.map_cons] at h2 ⊢
      rw [h2]
    · have s1 := Seg.app_cons o (seg_sp_op o ok .and (Or.inr rfl)) hseg.2 rfl
      have s2 := Seg.app o s1 h3 (spHead_andTxt as)
      simpa [andTxt, andToks, opTok, tAnd] using s2

theorem conjT_toC (c : ConjT) (h : c.OK o) :
    ∃ cC : ConjC, cC.OK o ∧ cC.conj = c.conj ∧ PHead cC.head.toks ∧
      Seg2 o brk (c.head.txt ++ andTxt c.ands) (cC.head.toks ++ andToks cC.ands) := by
  obtain ⟨⟨toks, hseg, hh, hat, _, _⟩, hm⟩ := h
  obtain ⟨asC, h1, h2, h3⟩ := andsT_toC ok c.ands hm
  refine ⟨⟨⟨c.head.node, toks⟩, asC⟩, ⟨hat trivial, h1⟩, ?_, hh, ?_⟩
  · simp only [ConjC.conj, ConjT.conj, h2]
  · exact Seg2.app o hseg h3 (spHead_andTxt c.ands)

theorem orsT_toC (cs : List ConjT) (h : OrsOKT o cs) :
    ∃ csC : List ConjC, OrsOK o csC ∧ orConjs csC = orConjsT cs ∧ Seg o brk (orTxt cs) (orToks csC) := by
  induction cs with
  | nil => exact ⟨[], fun _ h => by simp at h, rfl, Seg.nil o _⟩
  | cons c cs ih =>
    obtain ⟨csC, h1, h2, h3⟩ := ih (fun q hq => h q (List.mem_cons_of_mem _ hq))
    obtain ⟨cC, c1, c2, _, c3⟩ := conjT_toC ok c (h c (List.mem_cons_self ..))
    refine ⟨cC :: csC, ?_, ?_, ?_⟩
    · intro q hq
      rcases List.mem_cons.1 hq with rfl | hq
      · exact c1
      · exact h1 q hq
    · simp only [orConjs, orConjsT, List.map_cons] at h2 ⊢
      rw [h2, c2]
    · have s1 := Seg.app_cons o (seg_sp_op o ok .or (Or.inr rfl)) c3.2 rfl
      have s2 := Seg.app o s1 h3 (spHead_orTxt cs)
      simpa [orTxt, orToks, opTok, tOr] using s2

/-- **the text of a chain of atoms**: the atoms' spellings joined by ` && ` / ` || ` is a spelling of
    `orTree …` -/
theorem predTC_chain (c₀ : ConjT) (h₀ : c₀.OK o) (cs : List ConjT) (hcs : OrsOKT o cs) :
    PredTC o (orTree c₀.conj (orConjsT cs)) (c₀.head.txt ++ (andTxt c₀.ands ++ orTxt cs)) := by
  obtain ⟨cC, c1, c2, ⟨tk, ts, hh1, hh2⟩, c3⟩ := conjT_toC ok c₀ h₀
  obtain ⟨csC, o1, o2, o3⟩ := orsT_toC ok cs hcs
  refine ⟨cC.head.toks ++ (andToks cC.ands ++ orToks csC), ?_, ⟨tk, ts ++ (andToks cC.ands ++ orToks csC), by simp [hh1], hh2⟩, ?_⟩
  · have := Seg2.app o c3 o3 (spHead_orTxt cs)
    simpa [List.append_assoc] using this
  · have := fullSpec_chain cC c1 csC o1
    rw [c2, o2] at this
    exact this

/-- `( chain )` is an atom: it plugs back into `predT_and`, `predT_or`, … -/
theorem predT_paren_of_chain {p : Node} {txt : List Char} (h : PredTC o p txt) :
    PredT o p True True ('(' :: (txt ++ [')'])) := by
  obtain ⟨toks, hseg, _, hfull⟩ := h
  have hat := paren_atom hfull
  exact ⟨tLp :: toks ++ [tRp], seg2_paren ok hseg, ⟨tLp, _, rfl, rfl⟩, fun _ => hat,
    fun _ => ⟨left_of_atom hat 1, right_of_atom hat⟩, left_of_atom hat 2⟩

theorem AtomT.paren_ok {p : Node} {txt : List Char} (h : PredTC o p txt) :
    (AtomT.mk p ('(' :: (txt ++ [')']))).OK o := predT_paren_of_chain ok h

/-- `!( chain )` -/
theorem predT_not_of_chain {p : Node} {tp : List Char} (hp : PredTC o p tp) :
    PredT o (.unary .not (some p) none) True True ('!' :: '(' :: (tp ++ [')'])) := by
  obtain ⟨ptoks, hseg, _, hfull⟩ := hp
  have hat := not_atom hfull
  refine ⟨tNot :: tLp :: ptoks ++ [tRp], ?_, ⟨tNot, _, rfl, rfl⟩, fun _ => hat,
    fun _ => ⟨left_of_atom hat 1, right_of_atom hat⟩, left_of_atom hat 2⟩
  have h1 := Seg.app_cons o hseg.1 (seg_rp o ok) brk_rp
  have h2 := Seg.app o (seg_lp o ok) h1 (fun _ _ => trivial)
  have h3 := Seg2.app_cons o (seg2_bang o ok) h2 (by decide)
  have := Seg2.mono o h3 (C' := brk) (fun _ _ => trivial)
  simpa [tNot] using this

/-- `( chain ) is unknown` -/
theorem predT_isUnknown_of_chain {p : Node} {tp : List Char} (hp : PredTC o p tp) :
    PredT o (.unary .isUnknown (some p) none) True True
      ('(' :: (tp ++ ')' :: ' ' :: 'i' :: 's' :: ' ' :: 'u' :: 'n' :: 'k' :: 'n' :: 'o' :: 'w' :: 'n' :: [])) := by
  obtain ⟨ptoks, hseg, _, hfull⟩ := hp
  have hat := isUnknown_atom hfull
  refine ⟨tLp :: ptoks ++ [tRp, tIs, tUnknown], ?_, ⟨tLp, _, rfl, rfl⟩, fun _ => hat,
    fun _ => ⟨left_of_atom hat 1, right_of_atom hat⟩, left_of_atom hat 2⟩
  have h0 := (seg_sp_kw o ok 'u' ['n', 'k', 'n', 'o', 'w', 'n'] .unknown (by decide) (by decide)).mono o
    (C' := brk) (fun _ h => brk_identCont ok h)
  have h1 := Seg.app_cons o (seg_sp_kw o ok 'i' ['s'] .is (by decide) (by decide)) h0
    (identCont_punct o ok ' ' (by decide))
  have h2 := Seg.app o (seg_rp o ok) h1 (fun _ _ => trivial)
  have h3 := Seg.app_cons o hseg.1 h2 brk_rp
  have h4 := Seg2.app o (seg2_lp o ok) h3 (fun _ _ => trivial)
  simpa [tIs, tUnknown] using h4

/-- the filter accessor `?( chain )` -/
theorem stepT_filterC {p : Node} {tp : List Char} (hp : PredTC o p tp) (nx : Option Node) :
    StepT o (.unary .filter (some p) nx) ('?' :: '(' :: (tp ++ [')'])) := by
  obtain ⟨ptoks, hseg, _, hfull⟩ := hp
  refine ⟨.question, ['?'], tLp :: ptoks ++ [tRp], '?', _, ?_, rfl,
    Or.inr (Or.inr (Or.inr rfl)), rfl, ?_⟩
  · have h1 := Seg.app_cons o hseg.1 (seg_rp o ok) brk_rp
    have h2 := Seg.app o (seg_lp o ok) h1 (fun _ _ => trivial)
    have h3 := Seg.app o (seg_q o ok) h2 (fun _ _ => trivial)
    have := h3.mono o (C' := brkS) (fun _ _ => trivial)
    simpa [tQ] using this
  · intro rest f hr hf
    simp only [List.length_cons, List.length_append, List.length_nil] at hf
    obtain ⟨f', rfl⟩ : ∃ f', f = f' + 1 := ⟨f - 1, by omega⟩
    obtain ⟨v0, mid, h1, h2⟩ := hfull f' .pred (tRp :: rest) (by omega) (Or.inl rfl)
    rw [accessorOp]
    simp only [List.cons_append, List.append_assoc, List.nil_append]
    lstep (consume_spec _ _)
    simp only [↓reduceIte]
    lstep (expect_spec _ _ _)
    lstep h1
    lstep h2
    simp only [hd, tRp, ne_eq, not_true_eq_false, ↓reduceIte]
    lstep (consume_spec _ _)
    exact RunsV.pure _

/-! ### comparisons and the other predicates over chains -/

/-- `l op r` with a comparison operator between two chains: an atom -/
theorem predT_cmpC (op : BinOp) {l r : Node} {tl tr : List Char} (hop : isCmp op = true)
    (hl : ExprTC o l tl) (hr : ExprTC o r tr) :
    PredT o (.binary op (some l) (some r) none) True True (tl ++ ' ' :: (Print.binStr op ++ ' ' :: tr)) := by
  obtain ⟨tkl, tsl, hsegl, hstl, hspl⟩ := hl
  obtain ⟨tkr, tsr, hsegr, _, hspr⟩ := hr
  have hat := cmpE_atomC (o := o) hspl hspr hop
  refine ⟨tkl :: tsl ++ opTok op :: tkr :: tsr, ?_, ⟨tkl, _, rfl, hstl⟩, fun _ => hat,
    fun _ => ⟨left_of_atom hat 1, right_of_atom hat⟩, left_of_atom hat 2⟩
  have h1 := Seg.app_cons o (seg_sp_op o ok op (Or.inl hop)) hsegr.2 rfl
  have h2 := Seg2.app_cons o hsegl h1 brk_sp
  simpa using h2

/-- `exists ( chain )` -/
theorem predT_existsC {x : Node} {tx : List Char} (hx : ExprTC o x tx) :
    PredT o (.unary .exists (some x) none) True True
      ('e' :: 'x' :: 'i' :: 's' :: 't' :: 's' :: ' ' :: '(' :: (tx ++ [')'])) := by
  obtain ⟨tk, ts, hseg, hst, hsp⟩ := hx
  have hat := existsE_atomC (o := o) hsp
  refine ⟨tExists :: tLp :: tk :: ts ++ [tRp], ?_, ⟨tExists, _, rfl, rfl⟩, fun _ => hat,
    fun _ => ⟨left_of_atom hat 1, right_of_atom hat⟩, left_of_atom hat 2⟩
  have h1 := Seg.app_cons o hseg.1 (seg_rp o ok) brk_rp
  have h2 := Seg.app o (seg2_lp o ok).2 h1 (fun _ _ => trivial)
  have h3 := Seg2.app_cons o (seg2_kw o ok 'e' ['x', 'i', 's', 't', 's'] .exists (by decide) (by decide)) h2
    (identCont_punct o ok ' ' (by decide))
  have := Seg2.mono o h3 (C' := brk) (fun _ _ => trivial)
  simpa [tExists] using this

/-- `chain starts with "s"` / `chain starts with $"s"` -/
theorem predT_startsC {l : Node} {tl : List Char} (s : List Char) (isVar : Bool)
    (hl : ExprTC o l tl) (hs : NoNul s) :
    PredT o (.binary .startsWith (some l) (some (if isVar then .var s none else .str s none)) none) True True
      (tl ++ ' ' :: 's' :: 't' :: 'a' :: 'r' :: 't' :: 's' :: ' ' :: 'w' :: 'i' :: 't' :: 'h' :: ' ' ::
        (if isVar then '$' :: Print.quote o.isPrint s else Print.quote o.isPrint s)) := by
  obtain ⟨tkl, tsl, hsegl, hstl, hspl⟩ := hl
  have hat := startsE_atomC (o := o) s isVar hspl
  refine ⟨tkl :: tsl ++ [tStarts, tWith, if isVar then tVar s else (.string, s)], ?_, ⟨tkl, _, rfl, hstl⟩,
    fun _ => hat, fun _ => ⟨left_of_atom hat 1, right_of_atom hat⟩, left_of_atom hat 2⟩
  have h0 : Seg o brk (' ' :: (if isVar then '$' :: Print.quote o.isPrint s else Print.quote o.isPrint s))
      [if isVar then tVar s else (.string, s)] := by
    cases isVar
    · exact (seg2_string o ok s hs).2.mono o (fun _ _ => trivial)
    · exact (seg2_variable o ok s hs).2.mono o (fun _ _ => trivial)
  have h1 := Seg.app_cons o (seg_sp_kw o ok 'w' ['i', 't', 'h'] .with_ (by decide) (by decide)) h0
    (identCont_punct o ok ' ' (by decide))
  have h2 := Seg.app_cons o (seg_sp_kw o ok 's' ['t', 'a', 'r', 't', 's'] .starts (by decide) (by decide)) h1
    (identCont_punct o ok ' ' (by decide))
  have h3 := Seg2.app_cons o hsegl h2 brk_sp
  simpa [tStarts, tWith] using h3

/-- a single subscript bound that is a chain -/
theorem subT_oneC {l : Node} {tl : List Char} (hl : ExprTC o l tl) :
    SubT o (.binary .subscript (some l) none none) tl := by
  obtain ⟨tk, ts, hseg, hst, hsp⟩ := hl
  exact ⟨tk, ts, hseg.1, hst, subRun_oneC hsp⟩

/-- a range `l to r` of two chains -/
theorem subT_twoC {l r : Node} {tl tr : List Char} (hl : ExprTC o l tl) (hr : ExprTC o r tr) :
    SubT o (.binary .subscript (some l) (some r) none) (tl ++ ' ' :: 't' :: 'o' :: ' ' :: tr) := by
  obtain ⟨tkl, tsl, hsegl, hstl, hspl⟩ := hl
  obtain ⟨tkr, tsr, hsegr, _, hspr⟩ := hr
  refine ⟨tkl, tsl ++ tTo :: tkr :: tsr, ?_, hstl, subRun_twoC hspl hspr⟩
  have h2 := Seg.app_cons o (seg_sp_to o ok) hsegr.2 (identCont_punct o ok ' ' (by decide))
  have h3 := Seg.app_cons o hsegl.1 h2 brk_sp
  simpa using h3

/-- `chain like_regex "pat" [flag "…"]` -/
theorem predT_regexC {x : Node} {tx : List Char} (pat : List Char) (fl : Nat)
    (hx : ExprTC o x tx) (hp : NoNul pat) (hfl : fl < 32) (hok : okFlags fl = true)
    (hacc : o.regexAccepts pat fl = true) :
    PredT o (.regex x pat fl none) True True
      (tx ++ ' ' :: 'l' :: 'i' :: 'k' :: 'e' :: '_' :: 'r' :: 'e' :: 'g' :: 'e' :: 'x' :: ' ' ::
        (Print.quote o.isPrint pat ++ Print.flagsStr fl)) := by
  obtain ⟨tk, ts, hseg, hst, hsp⟩ := hx
  have hat := regexE_atomC (o := o) pat fl hsp hfl hok hacc
  have hfs : Seg o brk (Print.flagsStr fl) (flagToks fl) := by
    rw [flagsStr_eq fl hfl]
    unfold flagToks
    split
    · exact Seg.nil o _
    · have hn : NoNul (flagChars fl) := fun c hc => (isLow_facts c (flagChars_low fl hfl c hc)).1
      have h0 := (seg2_string o ok (flagChars fl) hn).2
      rw [quote_flagChars ok fl hfl] at h0
      have h1 := Seg.app_cons o (seg_sp_kw o ok 'f' ['l', 'a', 'g'] .flag (by decide) (by decide)) h0
        (identCont_punct o ok ' ' (by decide))
      exact (by simpa [tFlag] using h1.mono o (C' := brk) (fun _ _ => trivial))
  refine ⟨tk :: ts ++ tLike :: (.string, pat) :: flagToks fl, ?_, ⟨tk, _, rfl, hst⟩,
    fun _ => hat, fun _ => ⟨left_of_atom hat 1, right_of_atom hat⟩, left_of_atom hat 2⟩
  have h0 := Seg.app o ((seg2_string o ok pat hp).2) hfs (fun _ _ => trivial)
  have h1 := Seg.app_cons o
    (seg_sp_kw o ok 'l' ['i', 'k', 'e', '_', 'r', 'e', 'g', 'e', 'x'] .likeRegex (by decide) (by decide)) h0
    (identCont_punct o ok ' ' (by decide))
  have h2 := Seg2.app_cons o hseg h1 brk_sp
  simpa [tLike] using h2

/-! ### top level -/

/-- **A chain at the top level**: every spelling of `e` as a whole, after the mode prefix, parses to `e`,
    in every layout. -/
theorem layout_exprTC {e : Node} {txt : List Char} (h : ExprTC o e txt)
    (hv : validate e = true) (lax : Bool) :
    ∃ items, SpellInv o ⟨e, lax, false⟩ (modeTxt lax ++ txt) items := by
  obtain ⟨tk, ts, hseg, hst, hsp⟩ := h
  have hm := predStart_mode hst
  have hrun : ∀ f, 16 * (modeToks lax ++ tk :: ts).length + 8 ≤ f → ∃ ev : EV, ev.node = e ∧
      RunsV (StE o (modeToks lax ++ tk :: ts)) (parseBody o f) (lax, false, ev) (StE o []) := by
    intro f hf'
    have hf2 : 16 * (ts.length + 1) + 8 ≤ f := by
      simp only [List.length_append, List.length_cons] at hf'; omega
    obtain ⟨F, rfl⟩ : ∃ F, f = F + 2 := ⟨f - 2, by omega⟩
    refine ⟨evOf e, rfl, mode_run lax hm.1 hm.2 ⟨.expr (evOf e) .stop, [], ?_, RunsV.pure _⟩⟩
    have := atom_of_exprC hsp F .top [] (.expr (evOf e) .stop) (StE o []) (by omega) ⟨rfl, by decide, rfl, rfl⟩
      (exprK_end F .top (by decide) (evOf e) [] (Or.inr rfl)).toE
    simpa using this
  obtain ⟨items, h1, _, h3, h4, h5⟩ := parse_layout ok (mode_seg ok lax hseg) lax false e hrun hv
  exact ⟨items, h1, h3, h4, h5⟩

/-- **A chain of atoms at the top level** -/
theorem layout_predTC {p : Node} {txt : List Char} (h : PredTC o p txt)
    (hv : validate p = true) (lax : Bool) :
    ∃ items, SpellInv o ⟨p, lax, true⟩ (modeTxt lax ++ txt) items := by
  obtain ⟨toks, hseg, ⟨tk, ts, htoks, hst⟩, hfull⟩ := h
  subst htoks
  have hm := predStart_mode hst
  have hrun : ∀ f, 16 * (modeToks lax ++ tk :: ts).length + 8 ≤ f → ∃ ev : EV, ev.node = p ∧
      RunsV (StE o (modeToks lax ++ tk :: ts)) (parseBody o f) (lax, true, ev) (StE o []) := by
    intro f hf'
    have hf2 : 16 * (ts.length + 1) + 8 ≤ f := by
      simp only [List.length_append, List.length_cons] at hf'; omega
    obtain ⟨v0, mid, h1, h2⟩ := hfull f .top [] (by simpa using hf2) (Or.inr rfl)
    refine ⟨{ node := p }, rfl, mode_run lax hm.1 hm.2 ⟨.pred v0, mid, by simpa using h1, ?_⟩⟩
    simp only []
    lstep h2
    exact RunsV.pure' rfl (fun _ h => StE.ofA h)
  obtain ⟨items, h1, _, h3, h4, h5⟩ := parse_layout ok (mode_seg ok lax hseg) lax true p hrun hv
  exact ⟨items, h1, h3, h4, h5⟩

/-- **Precedence and associativity of arithmetic, stated on texts.**  The spellings of units joined
    by ` op ` — products `u * u / u …` joined by `+ -` — without any parentheses, after the mode prefix,
    parse to the left-nested tree in which `* / %` bind tighter than `+ -`: in every layout. -/
theorem layout_expr_chain (t₀ : TermT) (h₀ : t₀.OK o) (as : List (BinOp × TermT)) (has : AddsOKT o as)
    (hv : validate (sumTree t₀.term (addTermsT as)) = true) (lax : Bool) :
    ∃ items, SpellInv o ⟨sumTree t₀.term (addTermsT as), lax, false⟩
      (modeTxt lax ++ (t₀.head.txt ++ (mulTxt t₀.muls ++ addTxt as))) items :=
  layout_exprTC ok (exprTC_chain ok t₀ h₀ as has) hv lax

/-- **Precedence and associativity of `&&` / `||`, stated on texts.**  The spellings of atoms joined by
    ` && ` / ` || `, without any parentheses, after the mode prefix, parse to the left-nested tree in
    which `&&` binds tighter than `||`: in every layout. -/
theorem layout_pred_chain (c₀ : ConjT) (h₀ : c₀.OK o) (cs : List ConjT) (hcs : OrsOKT o cs)
    (hv : validate (orTree c₀.conj (orConjsT cs)) = true) (lax : Bool) :
    ∃ items, SpellInv o ⟨orTree c₀.conj (orConjsT cs), lax, true⟩
      (modeTxt lax ++ (c₀.head.txt ++ (andTxt c₀.ands ++ orTxt cs))) items :=
  layout_predTC ok (predTC_chain ok c₀ h₀ cs hcs) hv lax

end

/-! ## Comparisons are non-associative: `l op r op' x` is rejected -/

/-- from every state satisfying `pre`, `m` ends with a syntax error -/
def FailsSyn {α : Type} (pre : PS → Prop) (m : P α) : Prop := ∀ s, pre s → m s = .syn

/-- every respelling of `txt` (the canonical text of `items`) in every layout is rejected by `Parse` -/
def RejectInv (o : Oracles) (txt : List Char) (items : List Item) : Prop :=
  txt = canon items ∧ (∀ it ∈ items, ItemOK o it) ∧ Gaps items brk ∧
    ∀ (items' : List Item) (seps : List (List Char)) (fin : List Char),
      RespL o items items' → LayoutOK items' seps → Sep fin →
      ∀ bytes, decodeAll bytes = (render items' seps ++ fin).map Src.ch → parse o bytes = .err

section
variable {o : Oracles}

theorem FailsSyn.bind {α β : Type} {pre mid : PS → Prop} {m : P α} {f : α → P β} {v : α}
    (h1 : RunsV pre m v mid) (h2 : FailsSyn mid (f v)) : FailsSyn pre (m >>= f) := by
  intro s hs
  obtain ⟨s1, e1, p1⟩ := h1 s hs
  rw [bind_apply, e1]
  exact h2 s1 p1

theorem cmp_not_logic {op : BinOp} (h : isCmp op = true) : (opTok op).1 ≠ .and ∧ (opTok op).1 ≠ .or ∧
    (opTok op).1 ≠ .stop := by
  cases op <;> simp [isCmp] at h <;> decide

/-- `parseAtom` on `l op r` (two chains and a comparison operator) returns the comparison as soon as
    the token after `r` does not continue the arithmetic — whatever it is; in particular a second
    comparison operator is left where it stands -/
theorem cmpE_runC {l r : Node} {tkl tkr : TT} {tsl tsr : List TT} {op : BinOp}
    (hl : ESpecC o l tkl tsl) (hr : ESpecC o r tkr tsr) (hop : isCmp op = true)
    (f : Nat) (ctx : Ctx) (rest : List TT)
    (hf : 16 * (tkl :: tsl ++ opTok op :: tkr :: tsr).length + 8 ≤ f) (hfol : EFollow (hd rest).1) :
    RunsV (StE o ((tkl :: tsl ++ opTok op :: tkr :: tsr) ++ rest)) (parseAtom o f ctx)
      (.pred { node := .binary op (some l) (some r) none }) (StA o rest) := by
  simp only [List.length_cons, List.length_append] at hf
  obtain ⟨f', rfl⟩ : ∃ f', f = f' + 2 := ⟨f - 2, by omega⟩
  have hc := cmp_facts hop
  obtain ⟨u, mid, hr1, hr2⟩ := expr_fullC hr f' rest (by omega) hfol
  have := atom_of_exprC hl f' ctx (opTok op :: tkr :: (tsr ++ rest)) (.pred { node := .binary op (some l) (some r) none })
    (StA o rest) (by omega) ⟨hc.2.2.2.1, hc.2.2.2.2, hc.1, hc.2.1⟩ ?_
  · simpa using this
  · simp only [hd, exprTailK, hc.2.2.1]
    lstep (consume_spec _ _)
    simp only [List.cons_append] at hr1
    lstep hr1
    lstep hr2
    exact RunsV.pure' rfl (fun _ h => h)

/-- `parseBody` on the mode prefix followed by the tokens of the root, with any final state -/
theorem mode_run' (lax : Bool) {tk : TT} {ts : List TT} (h1 : tk.1 ≠ .strict) (h2 : tk.1 ≠ .lax)
    {isPred : Bool} {ev : EV} {f : Nat} {post : PS → Prop}
    (hatom : ∃ a mid, RunsV (StE o (tk :: ts)) (parseAtom o f .top) a (StE o mid) ∧
      RunsV (StE o mid) (match a with
        | .expr v _ => (pure (lax, false, v) : P (Bool × Bool × EV))
        | .pred v0 => do
          let (v, _) ← predLoop o f v0
          pure (lax, true, v)) (lax, isPred, ev) post) :
    RunsV (StE o (modeToks lax ++ tk :: ts)) (parseBody o f) (lax, isPred, ev) post := by
  obtain ⟨a, mid, ha1, ha2⟩ := hatom
  obtain ⟨t, x⟩ := tk
  simp only at h1 h2
  cases lax with
  | true =>
    simp only [modeToks, if_true, List.nil_append]
    unfold parseBody
    lstep (peek_cons _ _)
    simp only [h1, h2, ↓reduceIte]
    lstep (RunsV.pure _)
    lstep ha1
    exact ha2
  | false =>
    simp only [modeToks, Bool.false_eq_true, if_false, List.cons_append, List.nil_append]
    unfold parseBody
    lstep (peek_cons _ _)
    simp only [tStrict, reduceCtorEq, ↓reduceIte]
    lstep (consume_spec _ _)
    lstep (RunsV.pure _)
    lstep ha1
    exact ha2

/-- the accept state with a token left over: a syntax error -/
theorem finish_syn (lax isPred : Bool) (root : EV) (tk : TT) (ts : List TT) :
    FailsSyn (StP o (tk :: ts)) (finish o lax isPred root) := by
  intro s hs
  obtain ⟨hla, hns, _⟩ := hs
  unfold finish
  cases he : s.lx.err <;> cases hv : validate root.node <;>
    simp [bind_apply, hasError, recordError, pure_apply, peek, he, hv, hla, hns, syn]

/-- **`l op r op' …` is a syntax error at the top level** (`op`, `op'` comparison operators, `l`, `r`
    chains): the comparison `l op r` is complete, and nothing can follow it but `&&`, `||`, the end -/
theorem parseTop_cmp_cmp {l r : Node} {tkl tkr : TT} {tsl tsr : List TT} {op op' : BinOp}
    (hl : ESpecC o l tkl tsl) (hr : ESpecC o r tkr tsr) (hop : isCmp op = true) (hop' : isCmp op' = true)
    (hst : isPredStart tkl.1 = true) (lax : Bool) (rest : List TT) (f : Nat)
    (hf : 16 * (tkl :: tsl ++ opTok op :: tkr :: tsr).length + 8 ≤ f) :
    FailsSyn (StE o (modeToks lax ++ tkl :: (tsl ++ opTok op :: tkr :: tsr ++ opTok op' :: rest)))
      (parseTop o f) := by
  have hm := predStart_mode hst
  have hc' := cmp_facts hop'
  have hn' := cmp_not_logic hop'
  have hrun := cmpE_runC hl hr hop f .top (opTok op' :: rest) hf ⟨hc'.2.2.2.1, hc'.2.2.2.2, hc'.1, hc'.2.1⟩
  have hbody : RunsV (StE o (modeToks lax ++ tkl :: (tsl ++ opTok op :: tkr :: tsr ++ opTok op' :: rest)))
      (parseBody o f) (lax, true, { node := .binary op (some l) (some r) none })
      (StP o (opTok op' :: rest)) := by
    refine mode_run' lax hm.1 hm.2 ⟨.pred { node := .binary op (some l) (some r) none }, opTok op' :: rest, ?_, ?_⟩
    · have := hrun.toE
      simpa using this
    · obtain ⟨f', rfl⟩ : ∃ f', f = f' + 1 := ⟨f - 1, by simp at hf; omega⟩
      simp only []
      lstep (predLoop_nil f' _ (opTok op' :: rest) hn'.1 hn'.2.1)
      exact RunsV.pure' rfl (fun _ h => h)
  unfold parseTop
  exact FailsSyn.bind hbody (finish_syn _ _ _ _ _)

/-- if `parseTop` ends with a syntax error on the tokens of the text, `Parse` returns an error -/
theorem parse_err_of_top (bytes : List UInt8) (txt : List Char) (toks : List TT)
    (hdec : decodeAll bytes = txt.map Src.ch) (hlex : Lexes o txt toks)
    (h : FailsSyn (StE o toks) (parseTop o (fuelFor bytes))) : parse o bytes = .err := by
  have h0 : StE o toks { lx := LState.init bytes, la := none } := by
    refine Or.inl ⟨rfl, hlex _ ⟨rfl, rfl, Or.inl ⟨rfl, ?_⟩⟩⟩
    simp only [LState.init, hdec]
  have := h _ h0
  unfold parse Parse.run
  rw [this]

/-- the counterpart of `parse_layout` for rejected texts -/
theorem parse_layout_fail (ok : OrOK o) {txt : List Char} {toks : List TT} (hseg : Seg o brk txt toks)
    (hrun : ∀ f, 16 * toks.length + 8 ≤ f → FailsSyn (StE o toks) (parseTop o f)) :
    ∃ items : List Item, RejectInv o txt items := by
  obtain ⟨_, _, items, h3, h4, h5, h6⟩ := hseg
  refine ⟨items, h3, h5, h6, ?_⟩
  intro items' seps fin hr hl hfin bytes hb
  have hC : brk fin.head? ∨ (SepStart fin.head? ∧ ∃ y, brk y) := by
    cases fin with
    | nil => exact Or.inl brk_none
    | cons c r => exact Or.inr ⟨hfin.head (by simp), none, brk_none⟩
  have hlex := layout_lexes o (ok : RoundTrip.OrOK o) h6 hr hl fin [] hfin.noNul hC (lexes_sep o ok hfin)
  rw [List.append_nil, ← h4] at hlex
  have hlen : toks.length ≤ bytes.length := by
    have h1 := decodeAll_length bytes
    rw [hb] at h1
    have h2 := render_length (items := items') (seps := seps) hl.length
    rw [hr.length] at h2
    rw [h4]
    simp only [List.length_map, List.length_append] at h1 ⊢
    omega
  exact parse_err_of_top bytes _ toks hb hlex (hrun (fuelFor bytes) (by unfold fuelFor; omega))

/-- **Comparisons are non-associative.**  For chains `l`, `r`, `x` and comparison operators `op`, `op'`,
    the text `l op r op' x` after the mode prefix is rejected by `Parse` — in every layout. -/
theorem cmp_nonassoc (ok : OrOK o) (op op' : BinOp) (hop : isCmp op = true) (hop' : isCmp op' = true)
    {l r x : Node} {tl tr tx : List Char} (hl : ExprTC o l tl) (hr : ExprTC o r tr) (hx : ExprTC o x tx)
    (lax : Bool) :
    ∃ items, RejectInv o
      (modeTxt lax ++ (tl ++ ' ' :: (Print.binStr op ++ ' ' :: (tr ++ ' ' :: (Print.binStr op' ++ ' ' :: tx)))))
      items := by
  obtain ⟨tkl, tsl, hsegl, hstl, hspl⟩ := hl
  obtain ⟨tkr, tsr, hsegr, _, hspr⟩ := hr
  obtain ⟨tkx, tsx, hsegx, _, _⟩ := hx
  have s1 := Seg.app_cons o (seg_sp_op o ok op' (Or.inl hop')) hsegx.2 rfl
  have s2 := Seg.app_cons o hsegr.2 s1 brk_sp
  have s3 := Seg.app_cons o (seg_sp_op o ok op (Or.inl hop)) s2 rfl
  have s4 := Seg2.app_cons o hsegl s3 brk_sp
  have s5 := mode_seg ok lax s4
  refine parse_layout_fail ok (toks := modeToks lax ++ tkl :: (tsl ++ opTok op :: tkr :: tsr ++ opTok op' :: (tkx :: tsx)))
    (by simpa [List.append_assoc] using s5) ?_
  intro f hf
  refine parseTop_cmp_cmp hspl hspr hop hop' hstl lax (tkx :: tsx) f ?_
  simp only [List.length_cons, List.length_append] at hf ⊢
  omega

end

/-! ### building the side conditions of concrete chains -/

section
variable {o : Oracles}

theorem MulsOKT.nil : MulsOKT o [] := fun _ h => by simp at h
theorem MulsOKT.cons {op : BinOp} {u : UnitT} {ms : List (BinOp × UnitT)} (hop : isMulOp op = true) (hu : u.OK o)
    (h : MulsOKT o ms) : MulsOKT o ((op, u) :: ms) := by
  intro q hq
  rcases List.mem_cons.1 hq with rfl | hq
  · exact ⟨hop, hu⟩
  · exact h q hq

theorem AddsOKT.nil : AddsOKT o [] := fun _ h => by simp at h
theorem AddsOKT.cons {op : BinOp} {t : TermT} {as : List (BinOp × TermT)} (hop : isAddOp op = true) (ht : t.OK o)
    (h : AddsOKT o as) : AddsOKT o ((op, t) :: as) := by
  intro q hq
  rcases List.mem_cons.1 hq with rfl | hq
  · exact ⟨hop, ht⟩
  · exact h q hq

theorem AndsOKT.nil : AndsOKT o [] := fun _ h => by simp at h
theorem AndsOKT.cons {a : AtomT} {as : List AtomT} (ha : a.OK o) (h : AndsOKT o as) : AndsOKT o (a :: as) := by
  intro q hq
  rcases List.mem_cons.1 hq with rfl | hq
  · exact ha
  · exact h q hq

theorem OrsOKT.nil : OrsOKT o [] := fun _ h => by simp at h
theorem OrsOKT.cons {c : ConjT} {cs : List ConjT} (hc : c.OK o) (h : OrsOKT o cs) : OrsOKT o (c :: cs) := by
  intro q hq
  rcases List.mem_cons.1 hq with rfl | hq
  · exact hc
  · exact h q hq

/-- a unit alone is a product -/
theorem TermT.ok_unit {u : UnitT} (h : u.OK o) : (TermT.mk u []).OK o := ⟨h, MulsOKT.nil⟩
/-- an atom alone is a conjunction -/
theorem ConjT.ok_atom {a : AtomT} (h : a.OK o) : (ConjT.mk a []).OK o := ⟨h, AndsOKT.nil⟩

theorem ExprTC.cast {e : Node} {t t' : List Char} (h : ExprTC o e t) (he : t = t') : ExprTC o e t' := he ▸ h
theorem PredTC.cast {p : Node} {t t' : List Char} (h : PredTC o p t) (he : t = t') : PredTC o p t' := he ▸ h

end

/-! ## (4) Examples -/

/-! ### the trees, spelled out -/

def nI (i : Int) : Node := .integer i none
def bin (op : BinOp) (l r : Node) : Node := .binary op (some l) (some r) none

/-- `1 - 2 - 3` is `(1 - 2) - 3` -/
example : sumTree ⟨nI 1, []⟩ [(.sub, ⟨nI 2, []⟩), (.sub, ⟨nI 3, []⟩)] = bin .sub (bin .sub (nI 1) (nI 2)) (nI 3) := rfl

/-- `1 - 2 * 3 % 4 + 5` is `(1 - ((2 * 3) % 4)) + 5` -/
example : sumTree ⟨nI 1, []⟩ [(.sub, ⟨nI 2, [(.mul, nI 3), (.mod, nI 4)]⟩), (.add, ⟨nI 5, []⟩)]
    = bin .add (bin .sub (nI 1) (bin .mod (bin .mul (nI 2) (nI 3)) (nI 4))) (nI 5) := rfl

/-- `1 * 2 / 3 + 4` is `((1 * 2) / 3) + 4` -/
example : sumTree ⟨nI 1, [(.mul, nI 2), (.div, nI 3)]⟩ [(.add, ⟨nI 4, []⟩)]
    = bin .add (bin .div (bin .mul (nI 1) (nI 2)) (nI 3)) (nI 4) := rfl

/-- `p || q && r || s` is `(p || (q && r)) || s`; `p && q && r` is `(p && q) && r` -/
example (p q r s : Node) :
    orTree ⟨p, []⟩ [⟨q, [r]⟩, ⟨s, []⟩] = bin .or (bin .or p (bin .and q r)) s ∧
    orTree ⟨p, [q, r]⟩ [] = bin .and (bin .and p q) r ∧
    orTree ⟨p, [q]⟩ [⟨r, [s]⟩] = bin .or (bin .and p q) (bin .and r s) := ⟨rfl, rfl, rfl⟩

/-! ### the model itself (kernel evaluation, ASCII oracles) -/

/-- `Parse` accepts the ASCII text and returns exactly the tree `e` (lax mode) -/
def parsesTo (s : String) (e : Node) (isPred : Bool) : Bool :=
  sameParse (parse asciiOracles (ascii s)) (.ok ⟨e, true, isPred⟩)

theorem parsesTo_sound {s : String} {e : Node} {isPred : Bool} (h : parsesTo s e isPred = true) :
    parse asciiOracles (ascii s) = .ok ⟨e, true, isPred⟩ := by
  obtain ⟨a, h1, h2⟩ := sameParse_sound h
  rw [h1]
  injection h2 with h2
  rw [h2]

/-- unparenthesised chains against the trees of (1) -/
theorem chain_trees_concrete :
    parsesTo "1 - 2 - 3" (sumTree ⟨nI 1, []⟩ [(.sub, ⟨nI 2, []⟩), (.sub, ⟨nI 3, []⟩)]) false = true ∧
    parsesTo "1 - 2 * 3 % 4 + 5"
      (sumTree ⟨nI 1, []⟩ [(.sub, ⟨nI 2, [(.mul, nI 3), (.mod, nI 4)]⟩), (.add, ⟨nI 5, []⟩)]) false = true ∧
    parsesTo "1 * 2 / 3 % 4" (sumTree ⟨nI 1, [(.mul, nI 2), (.div, nI 3), (.mod, nI 4)]⟩ []) false = true ∧
    parsesTo "-1 - -2" (sumTree ⟨nI (-1), []⟩ [(.sub, ⟨nI (-2), []⟩)]) false = true ∧
    parsesTo "1 + 2 == 3 * 4"
      (bin .eq (sumTree ⟨nI 1, []⟩ [(.add, ⟨nI 2, []⟩)]) (sumTree ⟨nI 3, [(.mul, nI 4)]⟩ [])) true = true ∧
    parsesTo "1 < 2 && 2 < 3 || 3 < 4 && 4 < 5 || 5 < 6"
      (orTree ⟨bin .lt (nI 1) (nI 2), [bin .lt (nI 2) (nI 3)]⟩
        [⟨bin .lt (nI 3) (nI 4), [bin .lt (nI 4) (nI 5)]⟩, ⟨bin .lt (nI 5) (nI 6), []⟩]) true = true := by
  decide +kernel

/-- the same as equalities of parses: a chain and its fully parenthesised form -/
theorem chain_examples :
    same "1 - 2 - 3" "(1 - 2) - 3" = true ∧ same "1 - 2 - 3" "1 - (2 - 3)" = false ∧
    same "1 - 2 * 3 % 4 + 5" "(1 - ((2 * 3) % 4)) + 5" = true ∧
    same "1 * 2 / 3 % 4" "((1 * 2) / 3) % 4" = true ∧
    same "2 * 3 + 4 * 5 - 6 / 7" "((2 * 3) + (4 * 5)) - (6 / 7)" = true ∧
    same "-1 - -2" "(-1) - (-2)" = true ∧ same "-$.a * -$.b" "(-$.a) * (-$.b)" = true ∧
    same "1 + 2 == 3 * 4" "(1 + 2) == (3 * 4)" = true ∧
    same "$.a == 1 && $.b == 2 && $.c == 3" "(($.a == 1) && ($.b == 2)) && ($.c == 3)" = true ∧
    same "$.a == 1 && $.b == 2 || $.c == 3 && $.d == 4"
      "(($.a == 1) && ($.b == 2)) || (($.c == 3) && ($.d == 4))" = true ∧
    same "$.a == 1 || $.b == 2 && $.c == 3 || $.d == 4"
      "(($.a == 1) || (($.b == 2) && ($.c == 3))) || ($.d == 4)" = true ∧
    same "$?(@.a > 1 + 2 * 3 && @.b < 4 - 5 - 6 || exists(@.c - 1 - 2))"
      "$?(((@.a > (1 + (2 * 3))) && (@.b < ((4 - 5) - 6))) || exists((@.c - 1) - 2))" = true ∧
    same "$[1 - 2 - 3 to 4 * 5 * 6]" "$[(1 - 2) - 3 to (4 * 5) * 6]" = true := by
  decide +kernel

/-- comparisons are non-associative: a second comparison operator is a syntax error -/
theorem cmp_nonassoc_concrete :
    run "1 < 2 < 3" = "ERR" ∧ run "1 == 2 == 3" = "ERR" ∧ run "1 < 2 == 3" = "ERR" ∧ run "(1 < 2) < 3" = "ERR" ∧
    run "1 < (2 < 3)" = "ERR" := by
  decide +kernel

/-! ### instances of the general theorems, for every `o` with `OrOK o`, in every layout -/

section
variable {o : Oracles} (ok : OrOK o)
include ok

theorem three_spelling : ExprT o (nI 3) True True "3".toList := (exprT_nat ok 3 (by decide)).cast (by decide +kernel)
theorem four_spelling : ExprT o (nI 4) True True "4".toList := (exprT_nat ok 4 (by decide)).cast (by decide +kernel)
theorem five_spelling : ExprT o (nI 5) True True "5".toList := (exprT_nat ok 5 (by decide)).cast (by decide +kernel)

/-- `1 - 2 - 3` as a spelling of `(1 - 2) - 3` -/
theorem sub3_spelling : ExprTC o (bin .sub (bin .sub (nI 1) (nI 2)) (nI 3)) "1 - 2 - 3".toList :=
  (exprTC_chain ok ⟨⟨nI 1, _⟩, []⟩ (TermT.ok_unit (one_spelling ok))
    [(.sub, ⟨⟨nI 2, _⟩, []⟩), (.sub, ⟨⟨nI 3, _⟩, []⟩)]
    (AddsOKT.cons rfl (TermT.ok_unit (two_spelling ok))
      (AddsOKT.cons rfl (TermT.ok_unit (three_spelling ok)) AddsOKT.nil))).cast (by decide +kernel)

/-- **`1 - 2 - 3` parses to `(1 - 2) - 3`** — for every oracle instance, in every layout -/
theorem sub3_parse :
    ∃ items, SpellInv o ⟨bin .sub (bin .sub (nI 1) (nI 2)) (nI 3), true, false⟩ "1 - 2 - 3".toList items :=
  spell_cast (layout_exprTC ok (sub3_spelling ok) (by decide) true) (by decide +kernel)

/-- the same with the bytes spelled out, e.g. for the text without blanks or with comments -/
theorem sub3_parse_text (bytes : List UInt8) (hb : decodeAll bytes = "1 - 2 - 3".toList.map Src.ch) :
    parse o bytes = .ok ⟨bin .sub (bin .sub (nI 1) (nI 2)) (nI 3), true, false⟩ := by
  obtain ⟨items, h⟩ := sub3_parse ok
  exact h.self [] Sep.nil bytes (by simpa using hb)

/-- `1 - 2 * 3 % 4 + 5` as a spelling of `(1 - ((2 * 3) % 4)) + 5` -/
theorem mixed_spelling :
    ExprTC o (bin .add (bin .sub (nI 1) (bin .mod (bin .mul (nI 2) (nI 3)) (nI 4))) (nI 5))
      "1 - 2 * 3 % 4 + 5".toList :=
  (exprTC_chain ok ⟨⟨nI 1, _⟩, []⟩ (TermT.ok_unit (one_spelling ok))
    [(.sub, ⟨⟨nI 2, _⟩, [(.mul, ⟨nI 3, _⟩), (.mod, ⟨nI 4, _⟩)]⟩), (.add, ⟨⟨nI 5, _⟩, []⟩)]
    (AddsOKT.cons rfl ⟨two_spelling ok, MulsOKT.cons rfl (three_spelling ok) (MulsOKT.cons rfl (four_spelling ok) MulsOKT.nil)⟩
      (AddsOKT.cons rfl (TermT.ok_unit (five_spelling ok)) AddsOKT.nil))).cast (by decide +kernel)

theorem mixed_parse :
    ∃ items, SpellInv o ⟨bin .add (bin .sub (nI 1) (bin .mod (bin .mul (nI 2) (nI 3)) (nI 4))) (nI 5), true, false⟩
      "1 - 2 * 3 % 4 + 5".toList items :=
  spell_cast (layout_exprTC ok (mixed_spelling ok) (by decide) true) (by decide +kernel)

/-- a chain plugs back as a parenthesised unit: `(1 - 2 - 3) * 4 / 5` -/
theorem nested_parse :
    ∃ items, SpellInv o ⟨bin .div (bin .mul (bin .sub (bin .sub (nI 1) (nI 2)) (nI 3)) (nI 4)) (nI 5), true, false⟩
      "(1 - 2 - 3) * 4 / 5".toList items :=
  spell_cast (layout_exprTC ok
    (exprTC_chain ok ⟨⟨_, _⟩, [(.mul, ⟨nI 4, _⟩), (.div, ⟨nI 5, _⟩)]⟩
      ⟨exprT_paren_of_chain ok (sub3_spelling ok),
        MulsOKT.cons rfl (four_spelling ok) (MulsOKT.cons rfl (five_spelling ok) MulsOKT.nil)⟩ [] AddsOKT.nil)
    (by decide) true) (by decide +kernel)

/-- comparisons between chains, `&&` / `||` chains of them:
    `1 - 2 - 3 == 4 || 1 < 2 && 2 < 3 && 3 < 4 || 4 > 5` is
    `(((1 - 2) - 3 == 4) || (((1 < 2) && (2 < 3)) && (3 < 4))) || (4 > 5)` -/
theorem ex_pred_chain_parse :
    ∃ items, SpellInv o
      ⟨bin .or (bin .or (bin .eq (bin .sub (bin .sub (nI 1) (nI 2)) (nI 3)) (nI 4))
          (bin .and (bin .and (bin .lt (nI 1) (nI 2)) (bin .lt (nI 2) (nI 3))) (bin .lt (nI 3) (nI 4))))
        (bin .gt (nI 4) (nI 5)), true, true⟩
      "1 - 2 - 3 == 4 || 1 < 2 && 2 < 3 && 3 < 4 || 4 > 5".toList items :=
  spell_cast (layout_predTC ok
    (predTC_chain ok
      ⟨⟨_, _⟩, []⟩ (ConjT.ok_atom (predT_cmpC ok .eq rfl (sub3_spelling ok) (exprTC_of_exprT (four_spelling ok))))
      [⟨⟨_, _⟩, [⟨_, _⟩, ⟨_, _⟩]⟩, ⟨⟨_, _⟩, []⟩]
      (OrsOKT.cons
        ⟨predT_cmp ok .lt rfl (one_spelling ok) (two_spelling ok),
          AndsOKT.cons (predT_cmp ok .lt rfl (two_spelling ok) (three_spelling ok))
            (AndsOKT.cons (predT_cmp ok .lt rfl (three_spelling ok) (four_spelling ok)) AndsOKT.nil)⟩
        (OrsOKT.cons (ConjT.ok_atom (predT_cmp ok .gt rfl (four_spelling ok) (five_spelling ok))) OrsOKT.nil)))
    (by decide) true) (by decide +kernel)

/-- a chain of atoms inside a filter, and a chain as a subscript: `$?(@ > 1 && @ < 3 && @ != 2)[1 - 2 - 3]` -/
theorem filter_chain_parse :
    ∃ items, SpellInv o
      ⟨.const .root (some (.unary .filter
          (some (bin .and (bin .and (bin .gt (.const .current none) (nI 1)) (bin .lt (.const .current none) (nI 3)))
            (bin .ne (.const .current none) (nI 2))))
          (some (.arrayIndex [.binary .subscript (some (bin .sub (bin .sub (nI 1) (nI 2)) (nI 3))) none none] none)))),
        true, false⟩
      "$?(@ > 1 && @ < 3 && @ != 2)[1 - 2 - 3]".toList items :=
  spell_cast (layout_exprT ok
    (exprT_root ok (chainT_cons
      (stepT_filterC ok (predTC_chain ok
        ⟨⟨_, _⟩, [⟨_, _⟩, ⟨_, _⟩]⟩
        ⟨predT_cmp ok .gt rfl (exprT_current ok chainT_nil) (one_spelling ok),
          AndsOKT.cons (predT_cmp ok .lt rfl (exprT_current ok chainT_nil) (three_spelling ok))
            (AndsOKT.cons (predT_cmp ok .ne rfl (exprT_current ok chainT_nil) (two_spelling ok)) AndsOKT.nil)⟩
        [] OrsOKT.nil) _)
      (chainT_cons (stepT_index ok (subsT_one (subT_oneC ok (sub3_spelling ok))) none) chainT_nil)))
    (by decide) true) (by decide +kernel)

/-- `1 + 2 == 3 * 4` is `(1 + 2) == (3 * 4)`: comparisons bind looser than arithmetic -/
theorem cmp_chain_parse :
    ∃ items, SpellInv o ⟨bin .eq (bin .add (nI 1) (nI 2)) (bin .mul (nI 3) (nI 4)), true, true⟩
      "1 + 2 == 3 * 4".toList items :=
  spell_cast (layout_predT ok
    (predT_cmpC ok .eq rfl
      (exprTC_chain ok ⟨⟨nI 1, _⟩, []⟩ (TermT.ok_unit (one_spelling ok)) [(.add, ⟨⟨nI 2, _⟩, []⟩)]
        (AddsOKT.cons rfl (TermT.ok_unit (two_spelling ok)) AddsOKT.nil))
      (exprTC_chain ok ⟨⟨nI 3, _⟩, [(.mul, ⟨nI 4, _⟩)]⟩
        ⟨three_spelling ok, MulsOKT.cons rfl (four_spelling ok) MulsOKT.nil⟩ [] AddsOKT.nil))
    (by decide) true) (by decide +kernel)

/-- signs bind tighter than every binary operator: `-$ * -$ - -$` is `((-$) * (-$)) - (-$)` -/
theorem sign_chain_parse :
    ∃ items, SpellInv o
      ⟨bin .sub (bin .mul (.unary .minus (some (.const .root none)) none) (.unary .minus (some (.const .root none)) none))
        (.unary .minus (some (.const .root none)) none), true, false⟩
      "-$ * -$ - -$".toList items :=
  have hneg : ExprT o (.unary .minus (some (.const .root none)) none) True True _ :=
    exprT_sign ok .minus rfl (exprT_root ok chainT_nil) rfl
  spell_cast (layout_exprTC ok
    (exprTC_chain ok ⟨⟨_, _⟩, [(.mul, ⟨_, _⟩)]⟩ ⟨hneg, MulsOKT.cons rfl hneg MulsOKT.nil⟩
      [(.sub, ⟨⟨_, _⟩, []⟩)] (AddsOKT.cons rfl (TermT.ok_unit hneg) AddsOKT.nil))
    (by decide) true) (by decide +kernel)

/-- `1 < 2 < 3` is rejected, for every oracle instance, in every layout -/
theorem lt3_rejected : ∃ items, RejectInv o "1 < 2 < 3".toList items := by
  have := cmp_nonassoc ok .lt .lt rfl rfl (exprTC_of_exprT (one_spelling ok)) (exprTC_of_exprT (two_spelling ok))
    (exprTC_of_exprT (three_spelling ok)) true
  have he : modeTxt true ++ ("1".toList ++ ' ' :: (Print.binStr .lt ++ ' ' :: ("2".toList ++ ' ' ::
      (Print.binStr .lt ++ ' ' :: "3".toList)))) = "1 < 2 < 3".toList := by decide +kernel
  rw [he] at this
  exact this

/-- … e.g. the text itself, or `1<2<3` -/
theorem lt3_rejected_text (bytes : List UInt8) (hb : decodeAll bytes = "1 < 2 < 3".toList.map Src.ch) :
    parse o bytes = .err := by
  obtain ⟨items, h1, h2, _, h4⟩ := lt3_rejected ok
  refine h4 items (canonSeps items) [] (RespL.refl h2) (layoutOK_canon items) Sep.nil bytes ?_
  rw [render_canon, ← h1]
  simpa using hb

end


/-! # C03: the grammar of spellings

"For every abstract path and every concrete spelling of it that the documented syntax permits (whitespace
and comments, keyword case, bare vs quoted vs escaped keys, the escapes …, `!=` vs `<>`, redundant
parentheses), Parse returns that abstract path."

* (1) spelled-token pieces as `Seg2`: `seg2_kw_case` / `seg2_kw_sp`, `seg2_ident`, `seg2_var`, `seg_sp_ltgt`;
* (2) one rule per construct with every token-spelling freedom (keyword texts are parameters `kx` with
  `kx.map lowerAscii = "keyword".toList`; string literals are any `SpellsStr body s`): `predT_*_sp`,
  `exprT_*_sp`, `stepT_*_sp`, `subT_two_sp`, `chainT_cons_kwKey`;
* (3) the rules of §4 of `Layout.lean` and of (2) packaged as ONE inductive relation `Sp o cn : Cat → List Char →
  Prop` over the judgements `Cat` (`cn = true` also admits the four "canonical leaf of the class `RT5`"
  constructors); `Sp.sound` (one induction): `Sp o cn c txt → c.den o txt`, i.e. `ExprT` / `PredT` / `StepT` /
  `ChainT` / `SubT` / `SubsT`;
  `spells_parse`, `spells_parse_pred` (after the printer's mode prefix), `spells_parse_mode`,
  `spells_parse_pred_mode` (mode keyword in any case or absent), `spells_parse_text`, `spells_layout`,
  `spells_layout_pred` (explicit separators): every generated text parses, in every layout, to the tree the
  rules assign it;
  `rt5_generated_core`: the printer's text of every tree of the class `RT5` is generated by the grammar
  proper (`cn = false`);
* (4) worked instances for generic oracles (`exG_parse`, `exU_parse`, `exS_parse`, `exK_parse`), explicit
  layouts derived from the theorem on the ASCII oracles (`exG_layout1`, `exG_layout2`), and kernel evaluations
  of the model (`gram_examples`).

Number literals keep their canonical decimal spelling (the parser calculus fixes `EV.lit`). -/

/-! ## (1) pieces -/

theorem kwAll_ne_nil : ∀ p ∈ kwListAll, p.1 ≠ [] := by decide

section
variable (o : Oracles) (ok : OrOK o) (up : OrUp o)
include ok up

/-- a keyword in any case, with or without a blank before it -/
theorem seg2_kw_case (c : Char) (w kw : List Char) (t : Tok) (hp : (kw, t) ∈ kwListAll) (hci : ciKw t = true)
    (hl : (c :: w).map lowerAscii = kw) (ht : t ≠ .stop) :
    Seg2 o (fun y => isIdentCont o y = false) (c :: w) [(t, c :: w)] := by
  have hw : ∀ x ∈ c :: w, isIdCh x = true := by
    intro x hx
    have : lowerAscii x ∈ kw := by rw [← hl]; exact List.mem_map_of_mem hx
    exact isIdCh_of_0 (isIdCh0_of_lower (kwAll_wordChars (kw, t) hp _ this))
  have hn := noNul_idw (c :: w) hw
  exact seg2_tokAt o ok (tokAt_kw_case o ok up c w kw t hp hci hl) (NoNul.of_cons hn).1 (NoNul.of_cons hn).2 ht
    (isIdCh_plain c (hw c (by simp))).2.2 (fun _ h => tol_identCont o ok h)
    (tolB_idCh0 o ok (by
      have : lowerAscii c ∈ kw := by rw [← hl]; simp
      exact isIdCh0_of_lower (kwAll_wordChars (kw, t) hp _ this)))

/-- the same for a spelling `kx` given as a list: `kx.map lowerAscii = kw` -/
theorem seg2_kw_sp (kx kw : List Char) (t : Tok) (hp : (kw, t) ∈ kwListAll) (hci : ciKw t = true)
    (hl : kx.map lowerAscii = kw) (ht : t ≠ .stop) :
    Seg2 o (fun y => isIdentCont o y = false) kx [(t, kx)] ∧ ∃ c w, kx = c :: w ∧ isIdCh0 c = true := by
  cases kx with
  | nil => exact absurd hl.symm (by simpa using kwAll_ne_nil (kw, t) hp)
  | cons c w =>
    refine ⟨seg2_kw_case o ok up c w kw t hp hci hl ht, c, w, rfl, ?_⟩
    have : lowerAscii c ∈ kw := by rw [← hl]; simp
    exact isIdCh0_of_lower (kwAll_wordChars (kw, t) hp _ this)

/-- a bare identifier -/
theorem seg2_ident (c : Char) (w : List Char) (hc : isIdCh0 c = true) (hw : ∀ x ∈ w, isIdCh x = true)
    (hid : identToken o (c :: w) = .ident) :
    Seg2 o (fun y => isIdentCont o y = false) (c :: w) [(.ident, c :: w)] :=
  seg2_tokAt o ok (tokAt_ident o ok up c w hc hw hid) (isIdCh_plain c (isIdCh_of_0 hc)).1 (noNul_idw w hw)
    (by simp) (isIdCh_plain c (isIdCh_of_0 hc)).2.2 (fun _ h => tol_identCont o ok h) (tolB_idCh0 o ok hc)

/-- a bare variable `$name` -/
theorem seg2_var (n : Char) (ns : List Char) (hw : ∀ c ∈ n :: ns, isAlnum c = true) :
    Seg2 o (fun y => isVariableRune o y = false) ('$' :: n :: ns) [(.variable, n :: ns)] :=
  seg2_tokAt o ok (tokAt_var o ok up n ns hw) (by decide)
    (fun c hc => (isAlnum_cont o ok up c (hw c hc)).2) (by simp) (by decide) (fun _ h => (tol_dollar o ok h).2)
    (tolB_var o ok (by
      intro h
      have := hw n (by simp)
      rw [h] at this
      exact absurd this (by decide)))

omit up in
/-- ` <>` as written between two operands (followed by a blank): the token of `!=` -/
theorem seg_sp_ltgt : Seg o (fun y => y = some ' ') [' ', '<', '>'] [opTok .ne] :=
  (seg_sp_of_tokAt o (tokAt_ltgt o ok) (by decide) (NoNul.cons (by decide) NoNul.nil) (by decide) (by decide)
    (fun _ _ => trivial) tolB_true).mono o (fun _ _ => trivial)

omit up in
theorem seg2_ltgt : Seg2 o CT ['<', '>'] [opTok .ne] :=
  seg2_tokAt o ok (tokAt_ltgt o ok) (by decide) (NoNul.cons (by decide) NoNul.nil) (by decide) (by decide)
    (fun _ _ => trivial) tolB_true

end

/-! ## (2) rules with spelling parameters: predicates -/

section
variable {o : Oracles} (ok : OrOK o) (up : OrUp o)
include ok up

/-- ` KW` : a blank and a keyword in any case -/
theorem seg_sp_kw_sp (kx kw : List Char) (t : Tok) (hp : (kw, t) ∈ kwListAll) (hci : ciKw t = true)
    (hl : kx.map lowerAscii = kw) (ht : t ≠ .stop) :
    Seg o (fun y => isIdentCont o y = false) (' ' :: kx) [(t, kx)] :=
  (seg2_kw_sp o ok up kx kw t hp hci hl ht).1.2

/-- `(p) IS UNKNOWN`, the two keywords in any case -/
theorem predT_isUnknown_sp {p : Node} {a l : Prop} {tp : List Char} (kis kunk : List Char)
    (h1 : kis.map lowerAscii = "is".toList) (h2 : kunk.map lowerAscii = "unknown".toList)
    (hp : PredT o p a l tp) :
    PredT o (.unary .isUnknown (some p) none) True True ('(' :: (tp ++ ')' :: ' ' :: (kis ++ ' ' :: kunk))) := by
  obtain ⟨ptoks, hseg, _, _, _, hl2⟩ := hp
  have hat := isUnknown_atom_any kis kunk (full_of_left (by decide) hl2)
  refine ⟨tLp :: ptoks ++ [tRp, (.is, kis), (.unknown, kunk)], ?_, ⟨tLp, _, rfl, rfl⟩, fun _ => hat,
    fun _ => ⟨left_of_atom hat 1, right_of_atom hat⟩, left_of_atom hat 2⟩
  have h0 := (seg_sp_kw_sp ok up kunk _ .unknown (by decide) (by decide) h2 (by decide)).mono o
    (C' := brk) (fun _ h => brk_identCont ok h)
  have h1 := Seg.app_cons o (seg_sp_kw_sp ok up kis _ .is (by decide) (by decide) h1 (by decide)) h0
    (identCont_punct o ok ' ' (by decide))
  have h2 := Seg.app o (seg_rp o ok) h1 (fun _ _ => trivial)
  have h3 := Seg.app_cons o hseg.1 h2 brk_rp
  have h4 := Seg2.app o (seg2_lp o ok) h3 (fun _ _ => trivial)
  simpa using h4

/-- `EXISTS (x)`, the keyword in any case -/
theorem predT_exists_sp {x : Node} {u m : Prop} {tx : List Char} (kex : List Char)
    (h1 : kex.map lowerAscii = "exists".toList) (hx : ExprT o x u m tx) :
    PredT o (.unary .exists (some x) none) True True (kex ++ ' ' :: '(' :: (tx ++ [')'])) := by
  obtain ⟨tk, ts, hseg, hst, hsp⟩ := hx
  have hat := existsE_atom_any (o := o) kex hsp
  refine ⟨(.exists, kex) :: tLp :: tk :: ts ++ [tRp], ?_, ⟨(.exists, kex), _, rfl, rfl⟩, fun _ => hat,
    fun _ => ⟨left_of_atom hat 1, right_of_atom hat⟩, left_of_atom hat 2⟩
  have h1' := Seg.app_cons o hseg.1 (seg_rp o ok) brk_rp
  have h2 := Seg.app o (seg2_lp o ok).2 h1' (fun _ _ => trivial)
  have h3 := Seg2.app_cons o (seg2_kw_sp o ok up kex _ .exists (by decide) (by decide) h1 (by decide)).1 h2
    (identCont_punct o ok ' ' (by decide))
  have := Seg2.mono o h3 (C' := brk) (fun _ _ => trivial)
  simpa using this

/-- `EXISTS(x)` without the blank: in this form *any* separator, the empty one included, may stand between
    the keyword and the parenthesis (`spells_layout` asks for a non-empty separator only where the text has
    a blank) -/
theorem predT_exists_sp0 {x : Node} {u m : Prop} {tx : List Char} (kex : List Char)
    (h1 : kex.map lowerAscii = "exists".toList) (hx : ExprT o x u m tx) :
    PredT o (.unary .exists (some x) none) True True (kex ++ '(' :: (tx ++ [')'])) := by
  obtain ⟨tk, ts, hseg, hst, hsp⟩ := hx
  have hat := existsE_atom_any (o := o) kex hsp
  refine ⟨(.exists, kex) :: tLp :: tk :: ts ++ [tRp], ?_, ⟨(.exists, kex), _, rfl, rfl⟩, fun _ => hat,
    fun _ => ⟨left_of_atom hat 1, right_of_atom hat⟩, left_of_atom hat 2⟩
  have h1' := Seg.app_cons o hseg.1 (seg_rp o ok) brk_rp
  have h2 := Seg.app o (seg2_lp o ok).1 h1' (fun _ _ => trivial)
  have h3 := Seg2.app_cons o (seg2_kw_sp o ok up kex _ .exists (by decide) (by decide) h1 (by decide)).1 h2
    (identCont_punct o ok '(' (by decide))
  have := Seg2.mono o h3 (C' := brk) (fun _ _ => trivial)
  simpa using this

/-- **a string literal or a variable, in any spelling**: `"body"` (escapes of `SpellsStr`), `$"body"`, or a
    bare `$name` (ASCII letters and digits); `isVar`, the text, the value -/
inductive StrTok : Bool → List Char → List Char → Prop
  | str {body s : List Char} : SpellsStr body s → StrTok false ('"' :: (body ++ ['"'])) s
  | qvar {body s : List Char} : SpellsStr body s → StrTok true ('$' :: '"' :: (body ++ ['"'])) s
  | bvar (n : Char) (ns : List Char) : (∀ c ∈ n :: ns, isAlnum c = true) → StrTok true ('$' :: n :: ns) (n :: ns)

/-- the token of a `StrTok` -/
def strTokT (isVar : Bool) (s : List Char) : TT := if isVar then (.variable, s) else (.string, s)

theorem strTok_seg2 {isVar : Bool} {txt s : List Char} (h : StrTok isVar txt s) :
    Seg2 o brkS txt [strTokT isVar s] := by
  cases h with
  | str h => exact (seg2_string_spelled o ok h).mono o (fun _ _ => trivial)
  | qvar h => exact (seg2_variable_spelled o ok h).mono o (fun _ _ => trivial)
  | bvar n ns h => exact (seg2_var o ok up n ns h).mono o (fun _ h => (brkS_dollar o ok h).2)

theorem strTok_ne_nil {isVar : Bool} {txt s : List Char} (h : StrTok isVar txt s) : ∃ c cs, txt = c :: cs := by
  cases h <;> exact ⟨_, _, rfl⟩

/-- `l STARTS WITH "s"` / `l STARTS WITH $"s"` / `l STARTS WITH $s`: keywords in any case, the string or
    variable in any spelling -/
theorem predT_starts_sp {l : Node} {u m : Prop} {tl : List Char} (kst kwi : List Char)
    (h1 : kst.map lowerAscii = "starts".toList) (h2 : kwi.map lowerAscii = "with".toList)
    {isVar : Bool} {stxt s : List Char} (hs : StrTok isVar stxt s) (hl : ExprT o l u m tl) :
    PredT o (.binary .startsWith (some l) (some (if isVar then .var s none else .str s none)) none) True True
      (tl ++ ' ' :: (kst ++ ' ' :: (kwi ++ ' ' :: stxt))) := by
  obtain ⟨tkl, tsl, hsegl, hstl, hspl⟩ := hl
  have hat := startsE_atom_any (o := o) kst kwi s isVar hspl
  refine ⟨tkl :: tsl ++ [(.starts, kst), (.with_, kwi), if isVar then (.variable, s) else (.string, s)], ?_,
    ⟨tkl, _, rfl, hstl⟩, fun _ => hat, fun _ => ⟨left_of_atom hat 1, right_of_atom hat⟩, left_of_atom hat 2⟩
  have h0 : Seg o brk (' ' :: stxt) [if isVar then (.variable, s) else (.string, s)] :=
    (strTok_seg2 ok up hs).2.mono o (fun _ h => brkS_of_brk h)
  have h1' := Seg.app_cons o (seg_sp_kw_sp ok up kwi _ .with_ (by decide) (by decide) h2 (by decide)) h0
    (identCont_punct o ok ' ' (by decide))
  have h2' := Seg.app_cons o (seg_sp_kw_sp ok up kst _ .starts (by decide) (by decide) h1 (by decide)) h1'
    (identCont_punct o ok ' ' (by decide))
  have h3 := Seg2.app_cons o hsegl h2' brk_sp
  simpa using h3

/-- `x LIKE_REGEX "pat"`: keyword in any case, pattern in any spelling -/
theorem predT_regex_sp {x : Node} {u m : Prop} {tx : List Char} (klike : List Char)
    (h1 : klike.map lowerAscii = "like_regex".toList) {pbody pat : List Char} (hp : SpellsStr pbody pat)
    (hx : ExprT o x u m tx) (hacc : o.regexAccepts pat 0 = true) :
    PredT o (.regex x pat 0 none) True True (tx ++ ' ' :: (klike ++ ' ' :: '"' :: (pbody ++ ['"']))) := by
  obtain ⟨tk, ts, hseg, hst, hsp⟩ := hx
  have hat := regexE_atom_noflag_any (o := o) klike pat hsp hacc
  refine ⟨tk :: ts ++ [(.likeRegex, klike), (.string, pat)], ?_, ⟨tk, _, rfl, hst⟩,
    fun _ => hat, fun _ => ⟨left_of_atom hat 1, right_of_atom hat⟩, left_of_atom hat 2⟩
  have h0 := (seg2_string_spelled o ok hp).2.mono o (C' := brk) (fun _ _ => trivial)
  have h1' := Seg.app_cons o (seg_sp_kw_sp ok up klike _ .likeRegex (by decide) (by decide) h1 (by decide)) h0
    (identCont_punct o ok ' ' (by decide))
  have h2 := Seg2.app_cons o hseg h1' brk_sp
  simpa using h2

/-- `x LIKE_REGEX "pat" FLAG "fs"`: keywords in any case, pattern and flag string in any spelling, the
    flag letters in any order and with repetitions (`regexFlags fs = some fl`) -/
theorem predT_regex_flag_sp {x : Node} {u m : Prop} {tx : List Char} (klike kflag : List Char)
    (h1 : klike.map lowerAscii = "like_regex".toList) (h2 : kflag.map lowerAscii = "flag".toList)
    {pbody pat fbody fs : List Char} (hp : SpellsStr pbody pat) (hf : SpellsStr fbody fs) {fl : Nat}
    (hfs : regexFlags fs = some fl)
    (hx : ExprT o x u m tx) (hacc : o.regexAccepts pat fl = true) :
    PredT o (.regex x pat fl none) True True
      (tx ++ ' ' :: (klike ++ ' ' :: '"' :: (pbody ++ '"' :: ' ' :: (kflag ++ ' ' :: '"' :: (fbody ++ ['"']))))) := by
  obtain ⟨tk, ts, hseg, hst, hsp⟩ := hx
  have hat := regexE_atom_flag_any (o := o) klike kflag pat fs fl hsp hfs hacc
  refine ⟨tk :: ts ++ [(.likeRegex, klike), (.string, pat), (.flag, kflag), (.string, fs)], ?_, ⟨tk, _, rfl, hst⟩,
    fun _ => hat, fun _ => ⟨left_of_atom hat 1, right_of_atom hat⟩, left_of_atom hat 2⟩
  have h0 := (seg2_string_spelled o ok hf).2.mono o (C' := brk) (fun _ _ => trivial)
  have h1' := Seg.app_cons o (seg_sp_kw_sp ok up kflag _ .flag (by decide) (by decide) h2 (by decide)) h0
    (identCont_punct o ok ' ' (by decide))
  have h2' := Seg.app_cons o (seg2_string_spelled o ok hp).2 h1' trivial
  have h3 := Seg.app_cons o (seg_sp_kw_sp ok up klike _ .likeRegex (by decide) (by decide) h1 (by decide)) h2'
    (identCont_punct o ok ' ' (by decide))
  have h4 := Seg2.app_cons o hseg h3 brk_sp
  simpa using h4

omit up in
/-- `l <> r`: the same predicate as `l != r` -/
theorem predT_ne_ltgt {l r : Node} {ul ml ur mr : Prop} {tl tr : List Char}
    (hl : ExprT o l ul ml tl) (hr : ExprT o r ur mr tr) :
    PredT o (.binary .ne (some l) (some r) none) True True (tl ++ ' ' :: '<' :: '>' :: ' ' :: tr) := by
  obtain ⟨tkl, tsl, hsegl, hstl, hspl⟩ := hl
  obtain ⟨tkr, tsr, hsegr, _, hspr⟩ := hr
  have hat := cmpE_atom (o := o) (op := .ne) hspl hspr rfl
  refine ⟨tkl :: tsl ++ opTok .ne :: tkr :: tsr, ?_, ⟨tkl, _, rfl, hstl⟩, fun _ => hat,
    fun _ => ⟨left_of_atom hat 1, right_of_atom hat⟩, left_of_atom hat 2⟩
  have h1 := Seg.app_cons o (seg_sp_ltgt o ok) hsegr.2 rfl
  have h2 := Seg2.app_cons o hsegl h1 brk_sp
  simpa using h2

/-- the spellings of a comparison operator: the printer's, and `<>` for `!=` -/
def cmpSp (op : BinOp) (otxt : List Char) : Prop := otxt = Print.binStr op ∨ (op = .ne ∧ otxt = ['<', '>'])

omit up in
/-- `l op r` with the comparison operator in any spelling -/
theorem predT_cmp_sp (op : BinOp) {l r : Node} {ul ml ur mr : Prop} {tl tr otxt : List Char}
    (hop : isCmp op = true) (ho : cmpSp op otxt)
    (hl : ExprT o l ul ml tl) (hr : ExprT o r ur mr tr) :
    PredT o (.binary op (some l) (some r) none) True True (tl ++ ' ' :: (otxt ++ ' ' :: tr)) := by
  rcases ho with ho | ⟨h1, h2⟩
  · subst ho; exact predT_cmp ok op hop hl hr
  · subst h1; subst h2; exact predT_ne_ltgt ok hl hr

end

/-! ## (2) leaves: a head token in any spelling, followed by any chain of accessors -/

section
variable {o : Oracles}

/-- `exprT_head` with what is used of `isOpdStart` as hypotheses (so that it applies to `last`) -/
theorem exprT_head' (_ok : OrOK o) (tk : TT) (hn : Node) (hh : headOf tk = some hn)
    (hf : tk.1 ≠ .not ∧ tk.1 ≠ .exists ∧ tk.1 ≠ .lparen ∧ tk.1 ≠ .stop) (hps : isPredStart tk.1 = true)
    {htxt : List Char} (hseg : Seg2 o brkS htxt [tk]) {nx : Option Node} {ctxt : List Char}
    (hc : ChainT o nx ctxt) : ExprT o (hn.setNext nx) True True (htxt ++ ctxt) := by
  obtain ⟨toks, L, hcseg, hhead, _, hL, hloop⟩ := hc
  have hopd : OpdSpec o (hn.setNext nx) tk toks := by
    intro f rest hf h1 h2
    obtain ⟨f', rfl⟩ : ∃ f', f = f' + 2 := ⟨f - 2, by omega⟩
    have hev : linkNodes { node := hn } L = evOf (hn.setNext nx) := by
      have h1 := linkNodes_node { node := hn } L (headOf_next hh)
      have h2 := linkNodes_lit { node := hn } L
      rw [hL] at h1
      cases hq : linkNodes { node := hn } L with
      | mk nd lt =>
        rw [hq] at h1 h2
        simp only at h1 h2
        simp only [evOf, h1, headOf_lit hh nx]
        rw [h2]
    rw [parseUnaryT_head f' tk hn hh]
    simp only [List.cons_append]
    lstep (consume_spec _ _)
    have := hloop f' { node := hn } [] rest (by omega) h1 h2
    rw [← hev]
    simpa using this
  refine ⟨tk, toks, ?_, hps, espec_unit hopd (headA_of_opdSpec hopd hf.1 hf.2.1 hf.2.2.1 hf.2.2.2) _ _⟩
  have := Seg2.app o hseg hcseg hhead
  simpa using this

variable (ok : OrOK o) (up : OrUp o)
include ok up

/-- a string literal or a variable in any spelling, followed by accessors -/
theorem exprT_strTok_sp {isVar : Bool} {stxt s : List Char} (hs : StrTok isVar stxt s)
    {nx : Option Node} {ctxt : List Char} (hc : ChainT o nx ctxt) :
    ExprT o (if isVar then .var s nx else .str s nx) True True (stxt ++ ctxt) := by
  have hseg := strTok_seg2 ok up hs
  cases isVar with
  | false => exact exprT_head ok (.string, s) (.str s none) rfl rfl hseg hc
  | true => exact exprT_head ok (.variable, s) (.var s none) rfl rfl hseg hc

/-- `"body"` followed by accessors -/
theorem exprT_str_sp {body s : List Char} (hs : SpellsStr body s)
    {nx : Option Node} {ctxt : List Char} (hc : ChainT o nx ctxt) :
    ExprT o (.str s nx) True True ('"' :: (body ++ '"' :: ctxt)) := by
  have := exprT_strTok_sp ok up (.str hs) hc
  simpa using this

/-- `$"body"` followed by accessors -/
theorem exprT_var_sp {body s : List Char} (hs : SpellsStr body s)
    {nx : Option Node} {ctxt : List Char} (hc : ChainT o nx ctxt) :
    ExprT o (.var s nx) True True ('$' :: '"' :: (body ++ '"' :: ctxt)) := by
  have := exprT_strTok_sp ok up (.qvar hs) hc
  simpa using this

/-- bare `$name` followed by accessors -/
theorem exprT_bvar_sp (n : Char) (ns : List Char) (hw : ∀ c ∈ n :: ns, isAlnum c = true)
    {nx : Option Node} {ctxt : List Char} (hc : ChainT o nx ctxt) :
    ExprT o (.var (n :: ns) nx) True True ('$' :: n :: (ns ++ ctxt)) := by
  have := exprT_strTok_sp ok up (.bvar n ns hw) hc
  simpa using this

/-- `LAST` (any case) followed by accessors -/
theorem exprT_last_sp (kx : List Char) (h1 : kx.map lowerAscii = "last".toList)
    {nx : Option Node} {ctxt : List Char} (hc : ChainT o nx ctxt) :
    ExprT o (.const .last nx) True True (kx ++ ctxt) :=
  exprT_head' ok (.last, kx) (.const .last none) rfl ⟨by simp, by simp, by simp, by simp⟩ rfl
    ((seg2_kw_sp o ok up kx _ .last (by decide) (by decide) h1 (by decide)).1.mono o
      (fun _ h => brkS_identCont o ok h)) hc

omit up in
/-- `null`, `true`, `false` (lower case only) followed by accessors -/
theorem exprT_const (k : Const) (hk : k = .null ∨ k = .true_ ∨ k = .false_)
    {nx : Option Node} {ctxt : List Char} (hc : ChainT o nx ctxt) :
    ExprT o (.const k nx) True True (Print.constStr k ++ ctxt) := by
  have kwc : ∀ (c : Char) (w : List Char) (t : Tok), (c :: w, t) ∈ kwList → t ≠ .stop →
      Seg2 o brkS (c :: w) [(t, c :: w)] := fun c w t hp ht =>
    (seg2_kw o ok c w t hp ht).mono o (fun _ h => brkS_identCont o ok h)
  rcases hk with hk | hk | hk <;> subst hk
  · exact exprT_head ok (.null, ['n', 'u', 'l', 'l']) (.const .null none) rfl rfl
      (kwc 'n' ['u', 'l', 'l'] .null (by decide) (by decide)) hc
  · exact exprT_head ok (.true_, ['t', 'r', 'u', 'e']) (.const .true_ none) rfl rfl
      (kwc 't' ['r', 'u', 'e'] .true_ (by decide) (by decide)) hc
  · exact exprT_head ok (.false_, ['f', 'a', 'l', 's', 'e']) (.const .false_ none) rfl rfl
      (kwc 'f' ['a', 'l', 's', 'e'] .false_ (by decide) (by decide)) hc

end

/-! ## (2) accessors -/

section
variable {o : Oracles}

/-- `.TIME()` and friends, the keyword token with any text -/
theorem accOp_time0_any (f : Nat) (op : UnOp) (hop : isTimeOp op = true) (x : List Char) (rest : List TT) :
    RunsV (StP o (tDot :: (timeKind op, x) :: tLp :: tRp :: rest)) (accessorOp o (f + 1) .dot) (.unary op none none)
      (StE o rest) := by
  have hf := time_facts hop
  rw [accessorOp]
  lstep (consume_spec _ _)
  simp only [reduceCtorEq, ↓reduceIte]
  lstep (peek_cons _ _)
  simp only [hf.2.1, hf.2.2.1, hf.2.2.2.1, hf.2.2.2.2.1, hf.2.2.2.2.2.1, hf.2.2.2.2.2.2.1, hf.2.2.2.2.2.2.2.1,
    hf.1, ↓reduceIte, Bool.false_eq_true]
  lstep (consume_spec _ _)
  lstep (peek_cons _ _)
  simp only [tLp, ↓reduceIte]
  lstep (consume_spec _ _)
  lstep (peek_cons _ _)
  simp only [tRp, reduceCtorEq, ↓reduceIte]
  lstep (expect_spec _ _ _).ofE
  exact RunsV.pure _

/-- `.TIME(p)` and friends -/
theorem accOp_time1_any (f : Nat) (op : UnOp) (hop : isTimeOp op = true) (x : List Char) (p : Int)
    (hp : intOK p = true) (rest : List TT) :
    RunsV (StP o (tDot :: (timeKind op, x) :: tLp :: tInt p.toNat :: tRp :: rest)) (accessorOp o (f + 1) .dot)
      (.unary op (some (.integer p none)) none) (StE o rest) := by
  have hf := time_facts hop
  obtain ⟨h1, h2⟩ := intOK_toNat hp
  rw [accessorOp]
  lstep (consume_spec _ _)
  simp only [reduceCtorEq, ↓reduceIte]
  lstep (peek_cons _ _)
  simp only [hf.2.1, hf.2.2.1, hf.2.2.2.1, hf.2.2.2.2.1, hf.2.2.2.2.2.1, hf.2.2.2.2.2.2.1, hf.2.2.2.2.2.2.2.1,
    hf.1, ↓reduceIte, Bool.false_eq_true]
  lstep (consume_spec _ _)
  lstep (peek_cons _ _)
  simp only [tLp, ↓reduceIte]
  lstep (consume_spec _ _)
  lstep (peek_cons _ _)
  simp only [tInt, ↓reduceIte]
  lstep (consume_spec _ _)
  rw [newInteger_toDigits _ h2]
  lstep (RunsV.pure _)
  lstep (expect_spec _ _ _)
  exact RunsV.pure' (by simp [h1]) (fun _ h => h)

/-- a level of `.**{…}`: a decimal literal below 2³¹, or `LAST` in any case; the level, its text, its token -/
inductive LvlSp : Nat → List Char → TT → Prop
  | int (a : Nat) : a < 2147483648 → LvlSp a (Nat.toDigits 10 a) (tInt a)
  | last (kx : List Char) : kx.map lowerAscii = "last".toList → LvlSp maxU32 kx (.last, kx)

theorem LvlSp.ok {a : Nat} {txt : List Char} {tk : TT} (h : LvlSp a txt tk) : lvlOK a = true := by
  cases h with
  | int a h => simp [lvlOK, h]
  | last kx h => simp [lvlOK]

theorem LvlSp.run {a : Nat} {txt : List Char} {tk : TT} (h : LvlSp a txt tk) (rest : List TT) :
    RunsV (StE o (tk :: rest)) (anyLevel o) (lvlVal a) (StE o rest) := by
  cases h with
  | int a h =>
    have hne : a ≠ maxU32 := by simp [maxU32]; omega
    have := anyLevel_lvl (o := o) a (by simp [lvlOK, h]) rest
    simpa [lvlTok, hne] using this
  | last kx h =>
    have := anyLevel_last_any (o := o) txt rest
    simpa [lvlVal] using this

end

section
variable {o : Oracles} (ok : OrOK o) (up : OrUp o)
include ok up

theorem LvlSp.seg2 {a : Nat} {txt : List Char} {tk : TT} (h : LvlSp a txt tk) : Seg2 o brk txt [tk] := by
  cases h with
  | int a h => exact seg2_nat o ok a
  | last kx h =>
    exact (seg2_kw_sp o ok up txt _ .last (by decide) (by decide) h (by decide)).1.mono o
      (fun _ h => brk_identCont ok h)

omit up in
/-- a key accessor, from its text as a piece: `.` and a token that is nothing but a key name -/
theorem stepT_key_tok {k : Tok} {s ktxt : List Char} (hk : isPlainKeyName k = true)
    (hseg : Seg o brkS ('.' :: ktxt) [tDot, (k, s)]) (nx : Option Node) :
    StepT o (.key s nx) ('.' :: ktxt) := by
  refine ⟨.dot, ['.'], [(k, s)], '.', ktxt, hseg, rfl, Or.inr (Or.inl rfl), rfl, ?_⟩
  intro rest f _ hf
  obtain ⟨f', rfl⟩ : ∃ f', f = f' + 1 := ⟨f - 1, by omega⟩
  exact accOp_plainKey f' k s hk rest

omit up in
/-- `."body"`: a quoted key in any spelling -/
theorem stepT_key_sp {body s : List Char} (hs : SpellsStr body s) (nx : Option Node) :
    StepT o (.key s nx) ('.' :: '"' :: (body ++ ['"'])) := by
  have h1 := Seg.app_cons o (seg_dot o ok) (seg2_string_spelled o ok hs).1 (by decide)
  exact stepT_key_tok ok (k := .string) (by decide) (Seg.weak o ok h1) nx

/-- `.name`: a bare identifier (ASCII letters of either case, `_`, digits; not a keyword) — the key is the
    text as written -/
theorem stepT_key_ident (c : Char) (w : List Char) (hc : isIdCh0 c = true) (hw : ∀ x ∈ w, isIdCh x = true)
    (hid : identToken o (c :: w) = .ident) (nx : Option Node) :
    StepT o (.key (c :: w) nx) ('.' :: c :: w) :=
  stepT_key_tok ok (k := .ident) (by decide)
    ((seg_dot_ident o ok up c w hc hw hid).mono o (fun _ h => brkS_identCont o ok h)) nx

/-- `.KEYWORD` for a keyword (any case) that is nothing but a key name after a `.` (`strict`, `lax`, `last`,
    `to`, `is`, `unknown`, `exists`, `starts`, `with`, `like_regex`, `flag`): the key is the text as written -/
theorem stepT_key_kw (kx kw : List Char) (t : Tok) (hp : (kw, t) ∈ kwListAll) (hci : ciKw t = true)
    (hl : kx.map lowerAscii = kw) (hk : isPlainKeyName t = true) (nx : Option Node) :
    StepT o (.key kx nx) ('.' :: kx) := by
  have ht : t ≠ .stop := by intro h; subst h; simp [isPlainKeyName] at hk
  obtain ⟨hs, c, w, rfl, hc0⟩ := seg2_kw_sp o ok up kx kw t hp hci hl ht
  have h1 := Seg.app_cons o (seg_dot o ok) hs.1 (isIdCh0_notDecimal c hc0)
  exact stepT_key_tok ok hk (h1.mono o (fun _ h => brkS_identCont o ok h)) nx

omit up in
/-- `.null`, `.true`, `.false` (lower case: the keyword tokens): keys -/
theorem stepT_key_lit (k : Const) (hk : k = .null ∨ k = .true_ ∨ k = .false_) (nx : Option Node) :
    StepT o (.key (Print.constStr k) nx) ('.' :: Print.constStr k) := by
  have kwc : ∀ (c : Char) (w : List Char) (t : Tok), (c :: w, t) ∈ kwList → t ≠ .stop →
      isDecimalR (some c) = false → Seg o brkS ('.' :: c :: w) [tDot, (t, c :: w)] := fun c w t hp ht hd =>
    (Seg.app_cons o (seg_dot o ok) (seg_kw o ok c w t hp ht) hd).mono o (fun _ h => brkS_identCont o ok h)
  rcases hk with hk | hk | hk <;> subst hk
  · exact stepT_key_tok ok (k := .null) (by decide) (kwc 'n' ['u', 'l', 'l'] .null (by decide) (by decide) (by decide)) nx
  · exact stepT_key_tok ok (k := .true_) (by decide) (kwc 't' ['r', 'u', 'e'] .true_ (by decide) (by decide) (by decide)) nx
  · exact stepT_key_tok ok (k := .false_) (by decide)
      (kwc 'f' ['a', 'l', 's', 'e'] .false_ (by decide) (by decide) (by decide)) nx

/-- `.KW(` … : the text and tokens of `.`, a keyword in any case, `(` and what follows -/
theorem seg_dot_kw_call_sp (kx kw : List Char) (t : Tok) (hp : (kw, t) ∈ kwListAll) (hci : ciKw t = true)
    (hl : kx.map lowerAscii = kw) (ht : t ≠ .stop) {C : Option Char → Prop} {atxt : List Char} {atoks : List TT}
    (ha : Seg o C ('(' :: atxt) atoks) :
    Seg o C ('.' :: (kx ++ '(' :: atxt)) (tDot :: (t, kx) :: atoks) := by
  obtain ⟨hs, c, w, rfl, hc0⟩ := seg2_kw_sp o ok up kx kw t hp hci hl ht
  have h4 := Seg.app_cons o hs.1 ha (identCont_punct o ok '(' (by decide))
  have h5 := Seg.app_cons o (seg_dot o ok) h4 (isIdCh0_notDecimal c hc0)
  simpa using h5

omit up in
theorem seg_call0 : Seg o CT ['(', ')'] [tLp, tRp] := Seg.app_true o ok (seg_lp o ok) (seg_rp o ok)

/-- `.SIZE()` …: a method keyword in any case -/
theorem stepT_method_sp (m : Method) (kx : List Char) (h1 : kx.map lowerAscii = methodName m) (nx : Option Node) :
    StepT o (.method m nx) ('.' :: (kx ++ ['(', ')'])) := by
  obtain ⟨c, w, e1, hkw, hns⟩ := methodName_kw m
  have hci : ciKw (methodTok m) = true := by cases m <;> rfl
  have hseg := seg_dot_kw_call_sp ok up kx (methodName m) (methodTok m) (by rw [e1]; exact kwList_sub hkw) hci h1 hns
    (seg_call0 ok)
  refine ⟨.dot, ['.'], [(methodTok m, kx), tLp, tRp], '.', _, Seg.weak o ok hseg, rfl, Or.inr (Or.inl rfl), rfl, ?_⟩
  intro rest f _ hf
  obtain ⟨f', rfl⟩ : ∃ f', f = f' + 1 := ⟨f - 1, by omega⟩
  exact accOp_method_any f' m kx rest

/-- `.DATE()` -/
theorem stepT_date_sp (kx : List Char) (h1 : kx.map lowerAscii = "date".toList) (nx : Option Node) :
    StepT o (.unary .date none nx) ('.' :: (kx ++ ['(', ')'])) := by
  have hseg := seg_dot_kw_call_sp ok up kx _ .date (by decide) (by decide) h1 (by decide) (seg_call0 ok)
  refine ⟨.dot, ['.'], [(.date, kx), tLp, tRp], '.', _, Seg.weak o ok hseg, rfl, Or.inr (Or.inl rfl), rfl, ?_⟩
  intro rest f _ hf
  obtain ⟨f', rfl⟩ : ∃ f', f = f' + 1 := ⟨f - 1, by omega⟩
  exact accOp_date_any f' kx rest

/-- `.DATETIME()` -/
theorem stepT_datetime0_sp (kx : List Char) (h1 : kx.map lowerAscii = "datetime".toList) (nx : Option Node) :
    StepT o (.unary .datetime none nx) ('.' :: (kx ++ ['(', ')'])) := by
  have hseg := seg_dot_kw_call_sp ok up kx _ .datetime (by decide) (by decide) h1 (by decide) (seg_call0 ok)
  refine ⟨.dot, ['.'], [(.datetime, kx), tLp, tRp], '.', _, Seg.weak o ok hseg, rfl, Or.inr (Or.inl rfl), rfl, ?_⟩
  intro rest f _ hf
  obtain ⟨f', rfl⟩ : ∃ f', f = f' + 1 := ⟨f - 1, by omega⟩
  exact accOp_datetime0_any f' kx rest

/-- `.DATETIME("template")`, the template string in any spelling -/
theorem stepT_datetime_sp (kx : List Char) (h1 : kx.map lowerAscii = "datetime".toList)
    {body t : List Char} (ht : SpellsStr body t) (nx : Option Node) :
    StepT o (.unary .datetime (some (.str t none)) nx) ('.' :: (kx ++ '(' :: '"' :: (body ++ ['"', ')']))) := by
  have h2 := Seg.app_true o ok (seg2_string_spelled o ok ht).1 (seg_rp o ok)
  have h3 := Seg.app_true o ok (seg_lp o ok) h2
  have hseg := seg_dot_kw_call_sp ok up kx _ .datetime (by decide) (by decide) h1 (by decide)
    (atxt := '"' :: (body ++ ['"', ')'])) (by simpa using h3)
  refine ⟨.dot, ['.'], [(.datetime, kx), tLp, (.string, t), tRp], '.', _, Seg.weak o ok hseg, rfl,
    Or.inr (Or.inl rfl), rfl, ?_⟩
  intro rest f _ hf
  obtain ⟨f', rfl⟩ : ∃ f', f = f' + 1 := ⟨f - 1, by omega⟩
  exact accOp_datetime1_any f' kx t rest

/-- `.TIME()`, `.TIME_TZ()`, `.TIMESTAMP()`, `.TIMESTAMP_TZ()` -/
theorem stepT_time0_sp (op : UnOp) (hop : isTimeOp op = true) (kx : List Char)
    (h1 : kx.map lowerAscii = timeName op) (nx : Option Node) :
    StepT o (.unary op none nx) ('.' :: (kx ++ ['(', ')'])) := by
  have hf := time_facts hop
  obtain ⟨c, w, hcw, hkw⟩ := hf.2.2.2.2.2.2.2.2.2.2
  have hci : ciKw (timeKind op) = true := by cases op <;> simp [isTimeOp] at hop <;> rfl
  have hseg := seg_dot_kw_call_sp ok up kx (timeName op) (timeKind op) (by rw [hcw]; exact kwList_sub hkw) hci h1
    hf.2.2.2.2.2.2.2.2.1 (seg_call0 ok)
  refine ⟨.dot, ['.'], [(timeKind op, kx), tLp, tRp], '.', _, Seg.weak o ok hseg, rfl, Or.inr (Or.inl rfl), rfl, ?_⟩
  intro rest f _ hf'
  obtain ⟨f', rfl⟩ : ∃ f', f = f' + 1 := ⟨f - 1, by omega⟩
  exact accOp_time0_any f' op hop kx rest

/-- `.TIME(p)` … with a precision (canonical decimal) -/
theorem stepT_time1_sp (op : UnOp) (hop : isTimeOp op = true) (kx : List Char)
    (h1 : kx.map lowerAscii = timeName op) (p : Int) (hp : intOK p = true) (nx : Option Node) :
    StepT o (.unary op (some (.integer p none)) nx) ('.' :: (kx ++ '(' :: (Nat.toDigits 10 p.toNat ++ [')']))) := by
  have hf := time_facts hop
  obtain ⟨c, w, hcw, hkw⟩ := hf.2.2.2.2.2.2.2.2.2.2
  have hci : ciKw (timeKind op) = true := by cases op <;> simp [isTimeOp] at hop <;> rfl
  have h3 := Seg.app_cons o (seg_nat o ok p.toNat) (seg_rp o ok) brk_rp
  have h4 := Seg.app o (seg_lp o ok) h3 (fun _ _ => trivial)
  have hseg := seg_dot_kw_call_sp ok up kx (timeName op) (timeKind op) (by rw [hcw]; exact kwList_sub hkw) hci h1
    hf.2.2.2.2.2.2.2.2.1 (atxt := Nat.toDigits 10 p.toNat ++ [')']) (by simpa using h4)
  refine ⟨.dot, ['.'], [(timeKind op, kx), tLp, tInt p.toNat, tRp], '.', _, Seg.weak o ok hseg, rfl,
    Or.inr (Or.inl rfl), rfl, ?_⟩
  intro rest f _ hf'
  obtain ⟨f', rfl⟩ : ∃ f', f = f' + 1 := ⟨f - 1, by omega⟩
  exact accOp_time1_any f' op hop kx p hp rest

/-- `.**{l}`: one level (`LAST` in any case) -/
theorem stepT_any1_sp {a : Nat} {ltxt : List Char} {tk : TT} (hl : LvlSp a ltxt tk) (nx : Option Node) :
    StepT o (.any a a nx) ('.' :: '*' :: '*' :: '{' :: (ltxt ++ ['}'])) := by
  have h1 := Seg.app_cons o (hl.seg2 ok up).1 (seg_rc o ok) (Or.inr (Or.inr (Or.inr (Or.inr (Or.inr rfl)))))
  have h2 := Seg.app_true o ok (seg_lc o ok) h1
  have h3 := Seg.app_true o ok (seg_anyTok o ok) h2
  have h4 := Seg.app_cons o (seg_dot o ok) h3 (by decide)
  refine ⟨.dot, ['.'], [tAny, tLc, tk, tRc], '.', _, Seg.weak o ok (by simpa [tDot] using h4), rfl, Or.inr (Or.inl rfl), rfl, ?_⟩
  intro rest f _ hf
  obtain ⟨f', rfl⟩ : ∃ f', f = f' + 1 := ⟨f - 1, by omega⟩
  have := accOp_anyOne_any (o := o) f' tk (lvlVal a) rest (fun r => hl.run r)
  rw [newAny_lvl a a hl.ok hl.ok] at this
  exact this

/-- `.**{l1 TO l2}`: two levels, `TO` and `LAST` in any case -/
theorem stepT_any2_sp {a b : Nat} {atxt btxt : List Char} {tka tkb : TT} (ha : LvlSp a atxt tka)
    (hb : LvlSp b btxt tkb) (kto : List Char) (h1 : kto.map lowerAscii = "to".toList) (nx : Option Node) :
    StepT o (.any a b nx) ('.' :: '*' :: '*' :: '{' :: (atxt ++ ' ' :: (kto ++ ' ' :: (btxt ++ ['}'])))) := by
  have s1 := Seg.app_cons o (hb.seg2 ok up).2 (seg_rc o ok) (Or.inr (Or.inr (Or.inr (Or.inr (Or.inr rfl)))))
  have s2 := Seg.app_cons o (seg_sp_kw_sp ok up kto _ .to (by decide) (by decide) h1 (by decide)) s1
    (identCont_punct o ok ' ' (by decide))
  have s3 := Seg.app_cons o (ha.seg2 ok up).1 s2 (Or.inr (Or.inl rfl))
  have s4 := Seg.app_true o ok (seg_lc o ok) s3
  have s5 := Seg.app_true o ok (seg_anyTok o ok) s4
  have s6 := Seg.app_cons o (seg_dot o ok) s5 (by decide)
  refine ⟨.dot, ['.'], [tAny, tLc, tka, (.to, kto), tkb, tRc], '.', _, Seg.weak o ok (by simpa [tDot] using s6), rfl,
    Or.inr (Or.inl rfl), rfl, ?_⟩
  intro rest f _ hf
  obtain ⟨f', rfl⟩ : ∃ f', f = f' + 1 := ⟨f - 1, by omega⟩
  have := accOp_anyRange_any (o := o) f' tka tkb (lvlVal a) (lvlVal b) kto rest (fun r => ha.run r) (fun r => hb.run r)
  rw [newAny_lvl a b ha.ok hb.ok] at this
  exact this

/-- a subscript range `l TO r`, `TO` in any case -/
theorem subT_two_sp {l r : Node} {ul ml ur mr : Prop} {tl tr : List Char} (kto : List Char)
    (h1 : kto.map lowerAscii = "to".toList) (hl : ExprT o l ul ml tl) (hr : ExprT o r ur mr tr) :
    SubT o (.binary .subscript (some l) (some r) none) (tl ++ ' ' :: (kto ++ ' ' :: tr)) := by
  obtain ⟨tkl, tsl, hsegl, hstl, hspl⟩ := hl
  obtain ⟨tkr, tsr, hsegr, _, hspr⟩ := hr
  refine ⟨tkl, tsl ++ (.to, kto) :: tkr :: tsr, ?_, hstl, subRun_two_any kto hspl hspr⟩
  have h2 := Seg.app_cons o (seg_sp_kw_sp ok up kto _ .to (by decide) (by decide) h1 (by decide)) hsegr.2
    (identCont_punct o ok ' ' (by decide))
  have h3 := Seg.app_cons o hsegl.1 h2 brk_sp
  simpa using h3

end

/-! ### `.DECIMAL(…)` -/

section
variable {o : Oracles}

/-- `accOp_decimal` with any text for the keyword token -/
theorem accOp_decimal_any (f : Nat) (x : List Char) (l r : Option Node) (h : okDecArgs l r = true) (rest : List TT) :
    RunsV (StP o (tDot :: (.decimal, x) :: tLp :: (decArgsToks l r ++ tRp :: rest))) (accessorOp o (f + 5) .dot)
      (.binary .decimal l r none) (StE o rest) := by
  have pre : ∀ (w : Node) (post : PS → Prop) (ts : List TT),
      RunsV (StE o ts) (do
        let args ← csvList o (f + 4)
        expect o .rparen
        match args with
        | [] => pure (Node.binary .decimal none none none)
        | [a] => pure (.binary .decimal (some a) none none)
        | [a, b] => pure (.binary .decimal (some a) (some b) none)
        | _ => do
          recordError
          pure (.binary .decimal none none none)) w post →
      RunsV (StP o (tDot :: (.decimal, x) :: tLp :: ts)) (accessorOp o (f + 5) .dot) w post := by
    intro w post ts hk
    rw [accessorOp]
    lstep (consume_spec _ _)
    simp only [reduceCtorEq, ↓reduceIte]
    lstep (peek_cons _ _)
    simp only [tDecimal, reduceCtorEq, ↓reduceIte, isPlainKeyName, methodOf, decide_false, Bool.or_self,
      Bool.false_eq_true]
    lstep (consume_spec _ _)
    lstep (peek_cons _ _)
    simp only [tLp, ↓reduceIte]
    lstep (consume_spec _ _)
    exact hk
  apply pre
  unfold okDecArgs at h
  split at h
  · -- no argument
    simp only [decArgsToks, List.nil_append]
    have hc : RunsV (StE o (tRp :: rest)) (csvList o (f + 4)) [] (StA o (tRp :: rest)) := by
      rw [csvList]
      lstep (peek_cons _ _)
      simp only [tRp, reduceCtorEq, decide_false, Bool.or_self, Bool.false_eq_true, ↓reduceIte]
      exact RunsV.pure _
    lstep hc
    lstep (expect_spec _ _ _).ofE
    exact RunsV.pure _
  · -- one argument
    rename_i a
    obtain ⟨tk, ts, htk, hk1, _⟩ := csvToks_head a
    have he := csvElem_spec (o := o) a h (tRp :: rest)
    simp only [decArgsToks]
    rw [htk] at he ⊢
    have hc : RunsV (StE o (tk :: ts ++ tRp :: rest)) (csvList o (f + 4)) [.integer a none] (StA o (tRp :: rest)) := by
      rw [csvList]
      lstep (peek_cons _ _)
      obtain ⟨t, x1⟩ := tk
      simp only at hk1
      have : (decide (t = Tok.int) || decide (t = Tok.plus) || decide (t = Tok.minus)) = true := by
        rcases hk1 with h | h <;> subst h <;> rfl
      simp only [this, ↓reduceIte]
      simp only [hd] at he
      lstep he
      exact (csvMore_nil (f + 2) _ _ (by simp [hd, tRp]))
    lstep hc
    lstep (expect_spec _ _ _).ofE
    exact RunsV.pure _
  · -- two arguments
    rename_i a b
    simp only [Bool.and_eq_true] at h
    obtain ⟨tk, ts, htk, hk1, _⟩ := csvToks_head a
    obtain ⟨tk2, ts2, htk2, hk2, _⟩ := csvToks_head b
    have he := csvElem_spec (o := o) a h.1 (tComma :: csvToks b ++ tRp :: rest)
    have he2 := csvElem_spec (o := o) b h.2 (tRp :: rest)
    simp only [decArgsToks]
    rw [htk] at he ⊢
    rw [htk2] at he he2 ⊢
    have hc : RunsV (StE o (tk :: ts ++ tComma :: tk2 :: ts2 ++ tRp :: rest)) (csvList o (f + 4))
        [.integer a none, .integer b none] (StA o (tRp :: rest)) := by
      rw [csvList]
      simp only [List.cons_append, List.append_assoc]
      lstep (peek_cons _ _)
      obtain ⟨t, x1⟩ := tk
      simp only at hk1
      have : (decide (t = Tok.int) || decide (t = Tok.plus) || decide (t = Tok.minus)) = true := by
        rcases hk1 with h | h <;> subst h <;> rfl
      simp only [this, ↓reduceIte]
      simp only [hd, List.cons_append, List.append_assoc] at he
      lstep he
      rw [csvMore]
      lstep (peek_cons _ _)
      simp only [tComma, ↓reduceIte]
      lstep (consume_spec _ _)
      lstep (peek_cons _ _)
      obtain ⟨t2, x2⟩ := tk2
      simp only at hk2
      have : (decide (t2 = Tok.int) || decide (t2 = Tok.plus) || decide (t2 = Tok.minus)) = true := by
        rcases hk2 with h | h <;> subst h <;> rfl
      simp only [this, ↓reduceIte]
      simp only [hd, List.cons_append] at he2
      lstep he2
      exact (csvMore_nil (f + 1) _ _ (by simp [hd, tRp]))
    simp only [List.cons_append, List.append_assoc] at hc ⊢
    lstep hc
    lstep (expect_spec _ _ _).ofE
    exact RunsV.pure _
  · simp at h


variable (ok : OrOK o) (up : OrUp o)
include ok up

/-- `.DECIMAL()`, `.DECIMAL(p)`, `.DECIMAL(p,s)`: the keyword in any case (arguments canonical) -/
theorem stepT_decimal_sp (kx : List Char) (h1 : kx.map lowerAscii = "decimal".toList) (l r nx : Option Node)
    (h : okDecArgs l r = true) :
    StepT o (.binary .decimal l r nx) ('.' :: (kx ++ '(' :: (decArgsTxt l r ++ [')']))) := by
  have hs := seg_decArgs ok l r h
  have h3 := Seg.app_cons o hs (seg_rp o ok) brk_rp
  have h4 := Seg.app o (seg_lp o ok) h3 (fun _ _ => trivial)
  have hseg := seg_dot_kw_call_sp ok up kx _ .decimal (by decide) (by decide) h1 (by decide)
    (atxt := decArgsTxt l r ++ [')']) (by simpa using h4)
  refine ⟨.dot, ['.'], (.decimal, kx) :: tLp :: (decArgsToks l r ++ [tRp]), '.', _, Seg.weak o ok (by simpa [tDot] using hseg),
    rfl, Or.inr (Or.inl rfl), rfl, ?_⟩
  intro rest f _ hf'
  simp only [List.length_cons, List.length_append, List.length_nil] at hf'
  obtain ⟨f', rfl⟩ : ∃ f', f = f' + 5 := ⟨f - 5, by omega⟩
  have := accOp_decimal_any (o := o) f' kx l r h rest
  simpa [Node.setNext, tDot] using this

end

/-! ### more keys: identifiers with escapes; method keywords as keys (not in the last position) -/

section
variable {o : Oracles} (ok : OrOK o)
include ok

/-- `.name` with a bare identifier spelled with any mixture of identifier characters and escapes
    (`.foo`, `.f\x6fo`): the key `s` it denotes — provided `s` is not a keyword that is a method name
    (an identifier spelled with escapes is still looked up in the keyword table) -/
theorem stepT_key_identSp {c0 : Char} {w s : List Char} (h : SpellsIdent o (c0 :: w) s)
    (hk : isPlainKeyName (identToken o s) = true) (nx : Option Node) :
    StepT o (.key s nx) ('.' :: c0 :: w) := by
  have htok := tokAt_ident_spelled o h
  have hns : (identToken o s, s).1 ≠ .stop := by
    intro hh; simp only at hh; rw [hh] at hk; simp [isPlainKeyName] at hk
  have hfacts : c0.toNat ≠ 0 ∧ NoNul w ∧ isWhitespace c0 = false ∧ isDecimalR (some c0) = false ∧
      c0 ∉ punct := by
    generalize hcw : c0 :: w = cw at h
    cases h with
    | @plain c w' s' a1 a2 h0 hws hw =>
      injection hcw with e1 e2
      subst e1; subst e2
      refine ⟨h0, hw.noNul, hws, ?_, ?_⟩
      · cases hd : isDecimalR (some c0) with
        | false => rfl
        | true =>
          have hd' : isDecimal c0 = true := hd
          rcases a2 with a2 | a2
          · subst a2; exact absurd hd' (by decide)
          · rw [ok.digitS c0 hd'] at a2; exact absurd a2 (by simp)
      · intro hp
        rcases a2 with a2 | a2
        · subst a2; exact absurd hp (by decide)
        · rw [ok.punctS c0 hp] at a2; exact absurd a2 (by simp)
    | @esc es c w' s' he hw =>
      injection hcw with e1 e2
      subst e1; subst e2
      exact ⟨by decide, NoNul.append he.noNul hw.noNul, by decide, by decide, by decide⟩
  have h1 := seg_of_tokAt o htok hfacts.1 hfacts.2.1 hns hfacts.2.2.1 (fun _ h => tol_identCont o ok h)
    (tolB_word o ok hfacts.2.2.2.1 hfacts.2.2.2.2)
  have h2 := Seg.app_cons o (seg_dot o ok) h1 hfacts.2.2.2.1
  exact stepT_key_tok ok hk (h2.mono o (fun _ h => brkS_identCont o ok h)) nx

variable (up : OrUp o)
include up

/-- **a method keyword as a key name** (`.size`, `.type`, `.date`, `.double`, `.time`, `.decimal` … in any
    case, the key is the text as written), *followed by another accessor*: the parser looks one token
    ahead for `(`, and an accessor never starts with `(`.  (In the last position of a chain the
    accessor calculus of `Layout.lean` does not know that `(` cannot follow an expression; see the
    report.) -/
theorem chainT_cons_kwKey (kx kw : List Char) (t0 : Tok) (hp : (kw, t0) ∈ kwListAll) (hci : ciKw t0 = true)
    (hl : kx.map lowerAscii = kw) (hk : isMethodKw t0 = true)
    {n : Node} {stxt ctxt : List Char} (hs : StepT o n stxt) (hc : ChainT o n.next ctxt) :
    ChainT o (some (.key kx (some n))) ('.' :: (kx ++ (stxt ++ ctxt))) := by
  have ht0 : t0 ≠ .stop := by intro h; subst h; simp [isMethodKw, methodOf, precisionOp] at hk
  obtain ⟨hkseg, c0, w0, rfl, hc0⟩ := seg2_kw_sp o ok up kx kw t0 hp hci hl ht0
  obtain ⟨t, x, ts, c, cs, hseg, hcs, hbc, hacc, hop⟩ := hs
  obtain ⟨toks, L, hseg', hhead, hheadT, hL, hloop⟩ := hc
  have hkd := Seg.app_cons o (seg_dot o ok) hkseg.1 (isIdCh0_notDecimal c0 hc0)
  have hkd' : Seg o brkS ('.' :: c0 :: w0) [tDot, (t0, c0 :: w0)] := hkd.mono o (fun _ h => brkS_identCont o ok h)
  have hrest : Seg o brk (stxt ++ ctxt) (((t, x) :: ts) ++ toks) := Seg.app o hseg hseg' hhead
  refine ⟨[tDot, (t0, c0 :: w0)] ++ (((t, x) :: ts) ++ toks), (.key (c0 :: w0) none) :: (n.setNext none :: L), ?_, ?_, ?_,
    ?_, ?_⟩
  · have := Seg.app o hkd' hrest (fun r _ => by rw [hcs]; exact hbc)
    simpa using this
  · intro r _; exact Or.inr (Or.inl rfl)
  · exact Or.inr ⟨.dot, ['.'], _, rfl, rfl⟩
  · simp only [chainOf, hL, setNext_setNext, setNext_next]
    rfl
  · intro f head ops rest hf h1 h2
    obtain ⟨f', rfl⟩ : ∃ f', f = f' + 2 := ⟨f - 2, by simp only [List.length_append, List.length_cons] at hf; omega⟩
    simp only [List.length_append, List.length_cons, List.length_nil] at hf
    have hne : (hd ((t, x) :: (ts ++ (toks ++ rest)))).1 ≠ .lparen := by
      intro hh; simp only [hd] at hh; rw [hh] at hacc; simp [isAccessorStart] at hacc
    rw [accessorLoop]
    simp only [List.cons_append, List.append_assoc, List.nil_append]
    lstep (peek_cons _ _)
    simp only [tDot, isAccessorStart, decide_true, Bool.true_or, ↓reduceIte]
    have hkey := accOp_kwKey (o := o) f' t0 (c0 :: w0) hk ((t, x) :: (ts ++ (toks ++ rest))) hne
    simp only [tDot] at hkey
    lstep hkey.toE
    rw [accessorLoop]
    lstep (peek_cons _ _)
    simp only [hacc, ↓reduceIte]
    have hop' := hop (toks ++ rest) f' (hheadT.lbrace h2) (by omega)
    simp only [List.cons_append, List.append_assoc] at hop'
    lstep hop'
    have := hloop f' head (ops ++ [.key (c0 :: w0) none] ++ [n.setNext none]) rest (by omega) h1 h2
    simpa using this

end

/-! ## (3) the grammar: one inductive relation over the judgements -/

/-- the judgements: `expr e u m` — the text spells the expression `e` (`u`: fit as operand of `* / %` and
    signs, `m`: fit as operand of `+ -`), `pred p a l` — … the predicate `p` (`a`: fit as operand of `&&`,
    `l`: of `||`), `step n` — … the accessor `n` (whatever its `next`), `chain nx` — … the chain of
    accessors `nx`, `sub s` — … the subscript `s`, `subs l` — … the subscript list `l` -/
inductive Cat
  | expr (e : Node) (u m : Bool)
  | pred (p : Node) (a l : Bool)
  | step (n : Node)
  | chain (nx : Option Node)
  | sub (s : Node)
  | subs (l : List Node)

/-- **the documented syntax, with its token-spelling freedoms**: `Sp o c txt` — `txt` is derivable for the
    judgement `c`.  Layout (white space, comments) is not part of the relation: the texts carry the
    printer's blanks and `spells_parse` covers every other layout. -/
inductive Sp (o : Oracles) (cn : Bool) : Cat → List Char → Prop
  /- expressions -/
  | weaken {e : Node} {u m u' m' : Bool} {t : List Char} :
      Sp o cn (.expr e u m) t → (u' = true → u = true) → (m' = true → m = true) → Sp o cn (.expr e u' m') t
  | paren {e : Node} {u m : Bool} {t : List Char} :
      Sp o cn (.expr e u m) t → Sp o cn (.expr e true true) ('(' :: (t ++ [')']))
  | mul (op : BinOp) {l r : Node} {ml mr : Bool} {tl tr : List Char} : isMulOp op = true →
      Sp o cn (.expr l true ml) tl → Sp o cn (.expr r true mr) tr →
      Sp o cn (.expr (.binary op (some l) (some r) none) false true) (tl ++ ' ' :: (Print.binStr op ++ ' ' :: tr))
  | add (op : BinOp) {l r : Node} {ul ur : Bool} {tl tr : List Char} : isAddOp op = true →
      Sp o cn (.expr l ul true) tl → Sp o cn (.expr r ur true) tr →
      Sp o cn (.expr (.binary op (some l) (some r) none) false false) (tl ++ ' ' :: (Print.binStr op ++ ' ' :: tr))
  | sign (op : UnOp) {x : Node} {m : Bool} {tx : List Char} : isSign op = true →
      Sp o cn (.expr x true m) tx → notNumLit x = true →
      Sp o cn (.expr (.unary op (some x) none) true true) ((signTok op).2 ++ tx)
  | negLit {i : Int} {m : Bool} {tx : List Char} : 0 < i → i < 9223372036854775808 →
      Sp o cn (.expr (.integer i none) true m) tx → Sp o cn (.expr (.integer (-i) none) true true) ('-' :: tx)
  | nat (i : Int) : intOK i = true → Sp o cn (.expr (.integer i none) true true) (Nat.toDigits 10 i.toNat)
  | root {nx : Option Node} {c : List Char} : Sp o cn (.chain nx) c → Sp o cn (.expr (.const .root nx) true true) ('$' :: c)
  | current {nx : Option Node} {c : List Char} :
      Sp o cn (.chain nx) c → Sp o cn (.expr (.const .current nx) true true) ('@' :: c)
  | strTok {isVar : Bool} {stxt s : List Char} {nx : Option Node} {c : List Char} : StrTok isVar stxt s →
      Sp o cn (.chain nx) c → Sp o cn (.expr (if isVar then .var s nx else .str s nx) true true) (stxt ++ c)
  | last (kx : List Char) {nx : Option Node} {c : List Char} : kx.map lowerAscii = "last".toList →
      Sp o cn (.chain nx) c → Sp o cn (.expr (.const .last nx) true true) (kx ++ c)
  | const (k : Const) {nx : Option Node} {c : List Char} : (k = .null ∨ k = .true_ ∨ k = .false_) →
      Sp o cn (.chain nx) c → Sp o cn (.expr (.const k nx) true true) (Print.constStr k ++ c)
  | parenChain {e n : Node} {u m : Bool} {te st ct : List Char} :
      Sp o cn (.expr e u m) te → Sp o cn (.step n) st → Sp o cn (.chain n.next) ct →
      Sp o cn (.expr (appendEnd e (some n)) true true) ('(' :: (te ++ ')' :: (st ++ ct)))
  | exprCanon {e : Node} (wp : Bool) {t : List Char} : cn = true → okExpr5 o e = true →
      Print.writeTo o.isPrint e false wp = some t → Sp o cn (.expr e (wp || !isBin e) (wp || !isAddLevel e)) t
  /- predicates -/
  | pweaken {p : Node} {a l a' l' : Bool} {t : List Char} :
      Sp o cn (.pred p a l) t → (a' = true → a = true) → (l' = true → l = true) → Sp o cn (.pred p a' l') t
  | pparen {p : Node} {a l : Bool} {t : List Char} :
      Sp o cn (.pred p a l) t → Sp o cn (.pred p true true) ('(' :: (t ++ [')']))
  | cmp (op : BinOp) {l r : Node} {ul ml ur mr : Bool} {tl tr otxt : List Char} : isCmp op = true →
      cmpSp op otxt → Sp o cn (.expr l ul ml) tl → Sp o cn (.expr r ur mr) tr →
      Sp o cn (.pred (.binary op (some l) (some r) none) true true) (tl ++ ' ' :: (otxt ++ ' ' :: tr))
  | and {l r : Node} {ll lr : Bool} {tl tr : List Char} :
      Sp o cn (.pred l true ll) tl → Sp o cn (.pred r true lr) tr →
      Sp o cn (.pred (.binary .and (some l) (some r) none) false true) (tl ++ ' ' :: (Print.binStr .and ++ ' ' :: tr))
  | or {l r : Node} {al ar : Bool} {tl tr : List Char} :
      Sp o cn (.pred l al true) tl → Sp o cn (.pred r ar true) tr →
      Sp o cn (.pred (.binary .or (some l) (some r) none) false false) (tl ++ ' ' :: (Print.binStr .or ++ ' ' :: tr))
  | not {p : Node} {a l : Bool} {tp : List Char} :
      Sp o cn (.pred p a l) tp → Sp o cn (.pred (.unary .not (some p) none) true true) ('!' :: '(' :: (tp ++ [')']))
  | isUnknown (kis kunk : List Char) {p : Node} {a l : Bool} {tp : List Char} :
      kis.map lowerAscii = "is".toList → kunk.map lowerAscii = "unknown".toList → Sp o cn (.pred p a l) tp →
      Sp o cn (.pred (.unary .isUnknown (some p) none) true true) ('(' :: (tp ++ ')' :: ' ' :: (kis ++ ' ' :: kunk)))
  | exists_ (kex : List Char) {x : Node} {u m : Bool} {tx : List Char} :
      kex.map lowerAscii = "exists".toList → Sp o cn (.expr x u m) tx →
      Sp o cn (.pred (.unary .exists (some x) none) true true) (kex ++ ' ' :: '(' :: (tx ++ [')']))
  | exists0 (kex : List Char) {x : Node} {u m : Bool} {tx : List Char} :
      kex.map lowerAscii = "exists".toList → Sp o cn (.expr x u m) tx →
      Sp o cn (.pred (.unary .exists (some x) none) true true) (kex ++ '(' :: (tx ++ [')']))
  | starts (kst kwi : List Char) {l : Node} {u m : Bool} {tl : List Char} {isVar : Bool} {stxt s : List Char} :
      kst.map lowerAscii = "starts".toList → kwi.map lowerAscii = "with".toList → StrTok isVar stxt s →
      Sp o cn (.expr l u m) tl →
      Sp o cn (.pred (.binary .startsWith (some l) (some (if isVar then .var s none else .str s none)) none) true true)
        (tl ++ ' ' :: (kst ++ ' ' :: (kwi ++ ' ' :: stxt)))
  | regex (klike : List Char) {x : Node} {u m : Bool} {tx pbody pat : List Char} :
      klike.map lowerAscii = "like_regex".toList → SpellsStr pbody pat → Sp o cn (.expr x u m) tx →
      o.regexAccepts pat 0 = true →
      Sp o cn (.pred (.regex x pat 0 none) true true) (tx ++ ' ' :: (klike ++ ' ' :: '"' :: (pbody ++ ['"'])))
  | regexFlag (klike kflag : List Char) {x : Node} {u m : Bool} {tx pbody pat fbody fs : List Char} {fl : Nat} :
      klike.map lowerAscii = "like_regex".toList → kflag.map lowerAscii = "flag".toList →
      SpellsStr pbody pat → SpellsStr fbody fs → regexFlags fs = some fl → Sp o cn (.expr x u m) tx →
      o.regexAccepts pat fl = true →
      Sp o cn (.pred (.regex x pat fl none) true true)
        (tx ++ ' ' :: (klike ++ ' ' :: '"' :: (pbody ++ '"' :: ' ' :: (kflag ++ ' ' :: '"' :: (fbody ++ ['"'])))))
  | predCanon {p : Node} (wp : Bool) {t : List Char} : cn = true → okPred5 o p = true →
      Print.writeTo o.isPrint p false wp = some t → Sp o cn (.pred p (wp || !isAndOr p) (wp || !isOr p)) t
  /- accessors -/
  | filter {p : Node} {a l : Bool} {tp : List Char} (nx : Option Node) :
      Sp o cn (.pred p a l) tp → Sp o cn (.step (.unary .filter (some p) nx)) ('?' :: '(' :: (tp ++ [')']))
  | index {subs : List Node} {t : List Char} (nx : Option Node) :
      Sp o cn (.subs subs) t → Sp o cn (.step (.arrayIndex subs nx)) ('[' :: (t ++ [']']))
  | keyQ {body s : List Char} (nx : Option Node) : SpellsStr body s →
      Sp o cn (.step (.key s nx)) ('.' :: '"' :: (body ++ ['"']))
  | keyIdent (c : Char) (w : List Char) (nx : Option Node) : isIdCh0 c = true → (∀ x ∈ w, isIdCh x = true) →
      identToken o (c :: w) = .ident → Sp o cn (.step (.key (c :: w) nx)) ('.' :: c :: w)
  | keyKw (kx kw : List Char) (t : Tok) (nx : Option Node) : (kw, t) ∈ kwListAll → ciKw t = true →
      kx.map lowerAscii = kw → isPlainKeyName t = true → Sp o cn (.step (.key kx nx)) ('.' :: kx)
  | keyLit (k : Const) (nx : Option Node) : (k = .null ∨ k = .true_ ∨ k = .false_) →
      Sp o cn (.step (.key (Print.constStr k) nx)) ('.' :: Print.constStr k)
  | keyIdentSp {c0 : Char} {w s : List Char} (nx : Option Node) : SpellsIdent o (c0 :: w) s →
      isPlainKeyName (identToken o s) = true → Sp o cn (.step (.key s nx)) ('.' :: c0 :: w)
  | method (m : Method) (kx : List Char) (nx : Option Node) : kx.map lowerAscii = methodName m →
      Sp o cn (.step (.method m nx)) ('.' :: (kx ++ ['(', ')']))
  | date (kx : List Char) (nx : Option Node) : kx.map lowerAscii = "date".toList →
      Sp o cn (.step (.unary .date none nx)) ('.' :: (kx ++ ['(', ')']))
  | datetime0 (kx : List Char) (nx : Option Node) : kx.map lowerAscii = "datetime".toList →
      Sp o cn (.step (.unary .datetime none nx)) ('.' :: (kx ++ ['(', ')']))
  | datetime (kx : List Char) {body t : List Char} (nx : Option Node) : kx.map lowerAscii = "datetime".toList →
      SpellsStr body t →
      Sp o cn (.step (.unary .datetime (some (.str t none)) nx)) ('.' :: (kx ++ '(' :: '"' :: (body ++ ['"', ')'])))
  | time0 (op : UnOp) (kx : List Char) (nx : Option Node) : isTimeOp op = true → kx.map lowerAscii = timeName op →
      Sp o cn (.step (.unary op none nx)) ('.' :: (kx ++ ['(', ')']))
  | time1 (op : UnOp) (kx : List Char) (p : Int) (nx : Option Node) : isTimeOp op = true →
      kx.map lowerAscii = timeName op → intOK p = true →
      Sp o cn (.step (.unary op (some (.integer p none)) nx)) ('.' :: (kx ++ '(' :: (Nat.toDigits 10 p.toNat ++ [')'])))
  | decimal (kx : List Char) (l r nx : Option Node) : kx.map lowerAscii = "decimal".toList → okDecArgs l r = true →
      Sp o cn (.step (.binary .decimal l r nx)) ('.' :: (kx ++ '(' :: (decArgsTxt l r ++ [')'])))
  | any1 {a : Nat} {ltxt : List Char} {tk : TT} (nx : Option Node) : LvlSp a ltxt tk →
      Sp o cn (.step (.any a a nx)) ('.' :: '*' :: '*' :: '{' :: (ltxt ++ ['}']))
  | any2 {a b : Nat} {atxt btxt : List Char} {tka tkb : TT} (kto : List Char) (nx : Option Node) :
      LvlSp a atxt tka → LvlSp b btxt tkb → kto.map lowerAscii = "to".toList →
      Sp o cn (.step (.any a b nx)) ('.' :: '*' :: '*' :: '{' :: (atxt ++ ' ' :: (kto ++ ' ' :: (btxt ++ ['}']))))
  | simple {n : Node} : StepShape n → Sp o cn (.step n) (stepTxt o.isPrint n)
  | stepCanon {n : Node} (wp : Bool) {stxt tl : List Char} : cn = true → okStep5 o n = true →
      Print.writeNext o.isPrint n.next = some tl → Print.writeTo o.isPrint n true wp = some (stxt ++ tl) →
      Sp o cn (.step n) stxt
  /- chains -/
  | nil : Sp o cn (.chain none) []
  | cons {n : Node} {st ct : List Char} : Sp o cn (.step n) st → Sp o cn (.chain n.next) ct → Sp o cn (.chain (some n)) (st ++ ct)
  | consKwKey (kx kw : List Char) (t0 : Tok) {n : Node} {st ct : List Char} : (kw, t0) ∈ kwListAll →
      ciKw t0 = true → kx.map lowerAscii = kw → isMethodKw t0 = true → Sp o cn (.step n) st → Sp o cn (.chain n.next) ct →
      Sp o cn (.chain (some (.key kx (some n)))) ('.' :: (kx ++ (st ++ ct)))
  | chainCanon {nx : Option Node} {t : List Char} : cn = true → okNext5 o nx = true → Print.writeNext o.isPrint nx = some t →
      Sp o cn (.chain nx) t
  /- subscripts -/
  | sub1 {l : Node} {u m : Bool} {tl : List Char} :
      Sp o cn (.expr l u m) tl → Sp o cn (.sub (.binary .subscript (some l) none none)) tl
  | sub2 (kto : List Char) {l r : Node} {ul ml ur mr : Bool} {tl tr : List Char} : kto.map lowerAscii = "to".toList →
      Sp o cn (.expr l ul ml) tl → Sp o cn (.expr r ur mr) tr →
      Sp o cn (.sub (.binary .subscript (some l) (some r) none)) (tl ++ ' ' :: (kto ++ ' ' :: tr))
  | subsOne {s : Node} {t : List Char} : Sp o cn (.sub s) t → Sp o cn (.subs [s]) t
  | subsCons {s : Node} {ss : List Node} {t t2 : List Char} :
      Sp o cn (.sub s) t → Sp o cn (.subs ss) t2 → Sp o cn (.subs (s :: ss)) (t ++ ',' :: t2)

/-- transport along an equality of texts -/
theorem Sp.cast {o : Oracles} {cn : Bool} {c : Cat} {t t' : List Char} (h : Sp o cn c t) (e : t = t') : Sp o cn c t' := e ▸ h

/-- the judgements by sort -/
abbrev SpExpr (o : Oracles) (cn : Bool) (e : Node) (u m : Bool) (txt : List Char) : Prop := Sp o cn (.expr e u m) txt
abbrev SpPred (o : Oracles) (cn : Bool) (p : Node) (a l : Bool) (txt : List Char) : Prop := Sp o cn (.pred p a l) txt
abbrev SpStep (o : Oracles) (cn : Bool) (n : Node) (txt : List Char) : Prop := Sp o cn (.step n) txt
abbrev SpChain (o : Oracles) (cn : Bool) (nx : Option Node) (txt : List Char) : Prop := Sp o cn (.chain nx) txt
abbrev SpSub (o : Oracles) (cn : Bool) (s : Node) (txt : List Char) : Prop := Sp o cn (.sub s) txt
abbrev SpSubs (o : Oracles) (cn : Bool) (l : List Node) (txt : List Char) : Prop := Sp o cn (.subs l) txt

/-- what a judgement means: the relational layer of `Layout.lean` -/
def Cat.den (o : Oracles) : Cat → List Char → Prop
  | .expr e u m, t => ExprT o e (u = true) (m = true) t
  | .pred p a l, t => PredT o p (a = true) (l = true) t
  | .step n, t => StepT o n t
  | .chain nx, t => ChainT o nx t
  | .sub s, t => SubT o s t
  | .subs l, t => SubsT o l t

section
variable {o : Oracles} {cn : Bool} (ok : OrOK o) (up : OrUp o)
include ok up

/-- **Soundness of the grammar**: every derivable text is a spelling in the sense of `ExprT` / `PredT` /
    `StepT` / `ChainT` / `SubT` / `SubsT` (one induction over the derivation). -/
theorem Sp.sound {cn : Bool} {c : Cat} {t : List Char} (h : Sp o cn c t) : c.den o t := by
  induction h with
  | weaken _ hu hm ih => exact exprT_weaken ih hu hm
  | paren _ ih => exact exprT_weaken (exprT_paren ok ih) (fun _ => trivial) (fun _ => trivial)
  | mul op hop _ _ ihl ihr =>
    exact exprT_weaken (exprT_mul ok op hop (exprT_weaken ihl (fun _ => rfl) id) (exprT_weaken ihr (fun _ => rfl) id))
      (fun h => absurd h (by decide)) (fun _ => trivial)
  | add op hop _ _ ihl ihr =>
    exact exprT_weaken (exprT_add ok op hop (exprT_weaken ihl id (fun _ => rfl)) (exprT_weaken ihr id (fun _ => rfl)))
      (fun h => absurd h (by decide)) (fun h => absurd h (by decide))
  | sign op hop _ hn ih =>
    exact exprT_weaken (exprT_sign ok op hop (exprT_weaken ih (fun _ => rfl) id) hn) (fun _ => trivial) (fun _ => trivial)
  | negLit h0 h1 _ ih =>
    exact exprT_weaken (exprT_neg_lit ok h0 h1 (exprT_weaken ih (fun _ => rfl) id)) (fun _ => trivial) (fun _ => trivial)
  | nat i hi => exact exprT_weaken (exprT_nat ok i hi) (fun _ => trivial) (fun _ => trivial)
  | root _ ih => exact exprT_weaken (exprT_root ok ih) (fun _ => trivial) (fun _ => trivial)
  | current _ ih => exact exprT_weaken (exprT_current ok ih) (fun _ => trivial) (fun _ => trivial)
  | strTok hs _ ih => exact exprT_weaken (exprT_strTok_sp ok up hs ih) (fun _ => trivial) (fun _ => trivial)
  | last kx h1 _ ih => exact exprT_weaken (exprT_last_sp ok up kx h1 ih) (fun _ => trivial) (fun _ => trivial)
  | const k hk _ ih => exact exprT_weaken (exprT_const ok k hk ih) (fun _ => trivial) (fun _ => trivial)
  | parenChain _ _ _ ihe ihs ihc =>
    exact exprT_weaken (exprT_paren_chain ok ihe ihs ihc) (fun _ => trivial) (fun _ => trivial)
  | exprCanon wp _ he hpr =>
    obtain ⟨t', hpr', ht⟩ := exprT_stage5 ok he wp
    rw [hpr] at hpr'
    injection hpr' with e1
    subst e1
    refine exprT_weaken ht ?_ ?_
    · intro h; cases wp <;> simp_all
    · intro h; cases wp <;> simp_all
  | pweaken _ ha hl ih => exact predT_weaken ih ha hl
  | pparen _ ih => exact predT_weaken (predT_paren ok ih) (fun _ => trivial) (fun _ => trivial)
  | cmp op hop ho _ _ ihl ihr =>
    exact predT_weaken (predT_cmp_sp ok op hop ho ihl ihr) (fun _ => trivial) (fun _ => trivial)
  | and _ _ ihl ihr =>
    exact predT_weaken (predT_and ok (predT_weaken ihl (fun _ => rfl) id) (predT_weaken ihr (fun _ => rfl) id))
      (fun h => absurd h (by decide)) (fun _ => trivial)
  | or _ _ ihl ihr =>
    exact predT_weaken (predT_or ok (predT_weaken ihl id (fun _ => rfl)) (predT_weaken ihr id (fun _ => rfl)))
      (fun h => absurd h (by decide)) (fun h => absurd h (by decide))
  | not _ ih => exact predT_weaken (predT_not ok ih) (fun _ => trivial) (fun _ => trivial)
  | isUnknown kis kunk h1 h2 _ ih =>
    exact predT_weaken (predT_isUnknown_sp ok up kis kunk h1 h2 ih) (fun _ => trivial) (fun _ => trivial)
  | exists_ kex h1 _ ih => exact predT_weaken (predT_exists_sp ok up kex h1 ih) (fun _ => trivial) (fun _ => trivial)
  | exists0 kex h1 _ ih => exact predT_weaken (predT_exists_sp0 ok up kex h1 ih) (fun _ => trivial) (fun _ => trivial)
  | starts kst kwi h1 h2 hs _ ih =>
    exact predT_weaken (predT_starts_sp ok up kst kwi h1 h2 hs ih) (fun _ => trivial) (fun _ => trivial)
  | regex klike h1 hp _ hacc ih =>
    exact predT_weaken (predT_regex_sp ok up klike h1 hp ih hacc) (fun _ => trivial) (fun _ => trivial)
  | regexFlag klike kflag h1 h2 hp hf hfs _ hacc ih =>
    exact predT_weaken (predT_regex_flag_sp ok up klike kflag h1 h2 hp hf hfs ih hacc) (fun _ => trivial)
      (fun _ => trivial)
  | predCanon wp _ hp hpr =>
    obtain ⟨t', hpr', ht⟩ := predT_stage5 ok hp wp
    rw [hpr] at hpr'
    injection hpr' with e1
    subst e1
    refine predT_weaken ht ?_ ?_
    · intro h; cases wp <;> simp_all
    · intro h; cases wp <;> simp_all
  | filter nx _ ih => exact stepT_filter ok ih nx
  | index nx _ ih => exact stepT_index ok ih nx
  | keyQ nx hs => exact stepT_key_sp ok hs nx
  | keyIdent c w nx hc hw hid => exact stepT_key_ident ok up c w hc hw hid nx
  | keyKw kx kw t nx hp hci hl hk => exact stepT_key_kw ok up kx kw t hp hci hl hk nx
  | keyLit k nx hk => exact stepT_key_lit ok k hk nx
  | keyIdentSp nx hs hk => exact stepT_key_identSp ok hs hk nx
  | method m kx nx h1 => exact stepT_method_sp ok up m kx h1 nx
  | date kx nx h1 => exact stepT_date_sp ok up kx h1 nx
  | datetime0 kx nx h1 => exact stepT_datetime0_sp ok up kx h1 nx
  | datetime kx nx h1 ht => exact stepT_datetime_sp ok up kx h1 ht nx
  | time0 op kx nx hop h1 => exact stepT_time0_sp ok up op hop kx h1 nx
  | time1 op kx p nx hop h1 hp => exact stepT_time1_sp ok up op hop kx h1 p hp nx
  | decimal kx l r nx h1 hd => exact stepT_decimal_sp ok up kx h1 l r nx hd
  | any1 nx hl => exact stepT_any1_sp ok up hl nx
  | any2 kto nx ha hb h1 => exact stepT_any2_sp ok up ha hb kto h1 nx
  | simple hs => exact stepT_simple ok hs
  | stepCanon wp _ hn htl hpr =>
    obtain ⟨stxt', hw, hT⟩ := stepT_stage5 ok hn
    have := hw wp
    rw [hpr, htl] at this
    simp only [Option.bind_some, Option.some.injEq] at this
    have e := List.append_cancel_right this
    subst e
    exact hT
  | nil => exact chainT_nil
  | cons _ _ ihs ihc => exact chainT_cons ihs ihc
  | consKwKey kx kw t0 hp hci hl hk _ _ ihs ihc => exact chainT_cons_kwKey ok up kx kw t0 hp hci hl hk ihs ihc
  | chainCanon _ hn hpr =>
    obtain ⟨t', hpr', ht⟩ := chainT_stage5 ok hn
    rw [hpr] at hpr'
    injection hpr' with e1
    subst e1
    exact ht
  | sub1 _ ih => exact subT_one ih
  | sub2 kto h1 _ _ ihl ihr => exact subT_two_sp ok up kto h1 ihl ihr
  | subsOne _ ih => exact subsT_one ih
  | subsCons _ _ ih1 ih2 => exact subsT_cons ok ih1 ih2

theorem SpExpr.sound {e : Node} {u m : Bool} {txt : List Char} (h : SpExpr o cn e u m txt) :
    ExprT o e (u = true) (m = true) txt := Sp.sound ok up h
theorem SpPred.sound {p : Node} {a l : Bool} {txt : List Char} (h : SpPred o cn p a l txt) :
    PredT o p (a = true) (l = true) txt := Sp.sound ok up h
theorem SpStep.sound {n : Node} {txt : List Char} (h : SpStep o cn n txt) : StepT o n txt := Sp.sound ok up h
theorem SpChain.sound {nx : Option Node} {txt : List Char} (h : SpChain o cn nx txt) : ChainT o nx txt :=
  Sp.sound ok up h
theorem SpSub.sound {s : Node} {txt : List Char} (h : SpSub o cn s txt) : SubT o s txt := Sp.sound ok up h
theorem SpSubs.sound {l : List Node} {txt : List Char} (h : SpSubs o cn l txt) : SubsT o l txt := Sp.sound ok up h

/-- **C03, expressions**: every text the grammar generates for the expression `e` parses — after the mode
    prefix, in every layout, every token respelled — to `e` -/
theorem spells_parse {e : Node} {u m : Bool} {txt : List Char} (h : SpExpr o cn e u m txt)
    (hv : validate e = true) (lax : Bool) :
    ∃ items, SpellInv o ⟨e, lax, false⟩ (modeTxt lax ++ txt) items :=
  layout_exprT ok (SpExpr.sound ok up h) hv lax

/-- **C03, predicates** -/
theorem spells_parse_pred {p : Node} {a l : Bool} {txt : List Char} (h : SpPred o cn p a l txt)
    (hv : validate p = true) (lax : Bool) :
    ∃ items, SpellInv o ⟨p, lax, true⟩ (modeTxt lax ++ txt) items :=
  layout_predT ok (SpPred.sound ok up h) hv lax

end

/-! ## (3b) the mode keyword in any spelling (`STRICT`, `Lax`, …, or none) before any generated text -/

/-- `RootOK` without the print equation, the text being a parameter -/
def RootT (o : Oracles) (root : Node) (isPred : Bool) (txt : List Char) : Prop :=
  ∃ (tk : TT) (ts : List TT), Seg2 o brk txt (tk :: ts) ∧ tk.1 ≠ .strict ∧ tk.1 ≠ .lax ∧
    ∀ (f : Nat) (lax : Bool), 16 * (ts.length + 1) + 8 ≤ f → ∃ ev : EV, ev.node = root ∧
      ∃ a mid, RunsV (StE o (tk :: ts)) (parseAtom o f .top) a (StE o mid) ∧
        RunsV (StE o mid) (match a with
          | .expr v _ => (pure (lax, false, v) : P (Bool × Bool × EV))
          | .pred v0 => do
            let (v, _) ← predLoop o f v0
            pure (lax, true, v)) (lax, isPred, ev) (StE o [])

section
variable {o : Oracles} {cn : Bool}

theorem rootT_of_exprT {e : Node} {u m : Prop} {txt : List Char} (h : ExprT o e u m txt) : RootT o e false txt := by
  obtain ⟨tk, ts, hseg, hst, hsp⟩ := h
  have hm := predStart_mode hst
  refine ⟨tk, ts, hseg, hm.1, hm.2, ?_⟩
  intro f lax hf
  obtain ⟨F, rfl⟩ : ∃ F, f = F + 2 := ⟨f - 2, by omega⟩
  refine ⟨evOf e, rfl, .expr (evOf e) .stop, [], ?_, RunsV.pure _⟩
  have := atom_of_expr hsp F .top [] (.expr (evOf e) .stop) (StE o []) (by omega) ⟨rfl, by decide, rfl, rfl⟩
    (exprK_end F .top (by decide) (evOf e) [] (Or.inr rfl)).toE
  simpa using this

theorem rootT_of_predT {p : Node} {a l : Prop} {txt : List Char} (h : PredT o p a l txt) : RootT o p true txt := by
  obtain ⟨toks, hseg, ⟨tk, ts, htoks, hst⟩, _, _, hl2⟩ := h
  subst htoks
  have hm := predStart_mode hst
  have hfull := full_of_left (by decide) hl2
  refine ⟨tk, ts, hseg, hm.1, hm.2, ?_⟩
  intro f lax hf
  obtain ⟨v0, mid, h1, h2⟩ := hfull f .top [] (by simpa using hf) (Or.inr rfl)
  refine ⟨{ node := p }, rfl, .pred v0, mid, by simpa using h1, ?_⟩
  simp only []
  lstep h2
  exact RunsV.pure' rfl (fun _ h => StE.ofA h)

/-- `layout_mode` for a root given by its text -/
theorem layout_modeT (ok : OrOK o) (up : OrUp o) {root : Node} {isPred : Bool} {txt : List Char}
    (H : RootT o root isPred txt) (hv : validate root = true) {lax : Bool} {md : List Char} {mt : List TT}
    (hm : ModeSp lax md mt) : ∃ items, SpellInv o ⟨root, lax, isPred⟩ (withMode md txt) items := by
  obtain ⟨tk, ts, hseg, h1, h2, hrun⟩ := H
  cases hm with
  | none =>
    have hr : ∀ f, 16 * (tk :: ts).length + 8 ≤ f → ∃ ev : EV, ev.node = root ∧
        RunsV (StE o (tk :: ts)) (parseBody o f) (true, isPred, ev) (StE o []) := by
      intro f hf
      obtain ⟨ev, hev, hatom⟩ := hrun f true (by simpa using hf)
      exact ⟨ev, hev, body_nomode_tok h1 h2 hatom⟩
    obtain ⟨items, e1, _, e3, e4, e5⟩ := parse_layout ok hseg.1 true isPred root hr hv
    exact ⟨items, by simpa [withMode] using e1, e3, e4, e5⟩
  | kw lax c w hl =>
    have hkw : ((if lax then "lax".toList else "strict".toList), (if lax then Tok.lax else Tok.strict)) ∈ kwListAll := by
      cases lax <;> decide
    have hci : ciKw (if lax then Tok.lax else Tok.strict) = true := by cases lax <;> decide
    have hns : (if lax then Tok.lax else Tok.strict) ≠ .stop := by cases lax <;> decide
    have s1 := seg_kw_case o ok up c w _ _ hkw hci hl hns
    have hs := Seg.app_cons o s1 hseg.2 (identCont_punct o (ok : RoundTrip.OrOK o) ' ' (by decide))
    have hr : ∀ f, 16 * ([(if lax then Tok.lax else Tok.strict, c :: w)] ++ tk :: ts).length + 8 ≤ f →
        ∃ ev : EV, ev.node = root ∧
        RunsV (StE o ([(if lax then Tok.lax else Tok.strict, c :: w)] ++ tk :: ts)) (parseBody o f)
          (lax, isPred, ev) (StE o []) := by
      intro f hf
      obtain ⟨ev, hev, hatom⟩ := hrun f lax (by simp at hf; omega)
      exact ⟨ev, hev, body_mode_tok lax (c :: w) hatom⟩
    obtain ⟨items, e1, _, e3, e4, e5⟩ := parse_layout ok hs lax isPred root hr hv
    exact ⟨items, by simpa [withMode] using e1, e3, e4, e5⟩

variable (ok : OrOK o) (up : OrUp o)
include ok up

/-- **C03, expressions, with the mode keyword in any case** (`STRICT`, `Lax`, …) or absent -/
theorem spells_parse_mode {e : Node} {u m : Bool} {txt : List Char} (h : SpExpr o cn e u m txt)
    (hv : validate e = true) {lax : Bool} {md : List Char} {mt : List TT} (hm : ModeSp lax md mt) :
    ∃ items, SpellInv o ⟨e, lax, false⟩ (withMode md txt) items :=
  layout_modeT ok up (rootT_of_exprT (SpExpr.sound ok up h)) hv hm

/-- **C03, predicates, with the mode keyword in any case** -/
theorem spells_parse_pred_mode {p : Node} {a l : Bool} {txt : List Char} (h : SpPred o cn p a l txt)
    (hv : validate p = true) {lax : Bool} {md : List Char} {mt : List TT} (hm : ModeSp lax md mt) :
    ∃ items, SpellInv o ⟨p, lax, true⟩ (withMode md txt) items :=
  layout_modeT ok up (rootT_of_predT (SpPred.sound ok up h)) hv hm

/-- in particular: the text itself (mode keyword in any case, then one blank, then any generated text),
    followed by any separator, parses to the tree -/
theorem spells_parse_text {e : Node} {u m : Bool} {txt : List Char} (h : SpExpr o cn e u m txt)
    (hv : validate e = true) {lax : Bool} {md : List Char} {mt : List TT} (hm : ModeSp lax md mt)
    (fin : List Char) (hfin : Sep fin) (bytes : List UInt8)
    (hb : decodeAll bytes = (withMode md txt ++ fin).map Src.ch) : parse o bytes = .ok ⟨e, lax, false⟩ := by
  obtain ⟨items, hi⟩ := spells_parse_mode ok up h hv hm
  exact hi.self fin hfin bytes hb

theorem spells_parse_pred_text {p : Node} {a l : Bool} {txt : List Char} (h : SpPred o cn p a l txt)
    (hv : validate p = true) {lax : Bool} {md : List Char} {mt : List TT} (hm : ModeSp lax md mt)
    (fin : List Char) (hfin : Sep fin) (bytes : List UInt8)
    (hb : decodeAll bytes = (withMode md txt ++ fin).map Src.ch) : parse o bytes = .ok ⟨p, lax, true⟩ := by
  obtain ⟨items, hi⟩ := spells_parse_pred_mode ok up h hv hm
  exact hi.self fin hfin bytes hb

/-! ## (3c) every tree of the class `RT5` is generated -/

omit up in
/-- the printed text of the root of a tree of the class is derivable (fit for every position) for that root;
    hence (`spells_parse`, `spells_parse_pred`) `layout_stage5` is an instance of the grammar theorem -/
theorem rt5_generated (a : AST) (h : RT5 o a = true) :
    ∃ txt, Print.writeTo o.isPrint a.root false true = some txt ∧
      Print.toString o.isPrint a = some (modeTxt a.lax ++ txt) ∧
      (if a.pred then SpPred o true a.root true true txt else SpExpr o true a.root true true txt) := by
  obtain ⟨root, lax, pred⟩ := a
  simp only [RT5, Bool.and_eq_true] at h
  obtain ⟨hv, hr⟩ := h
  cases pred with
  | true =>
    simp only [if_true] at hr
    obtain ⟨txt, hpr, _⟩ := predT_stage5 ok hr true
    exact ⟨txt, hpr, toString_eq _ _ _ _ _ hpr, Sp.predCanon true rfl hr hpr⟩
  | false =>
    simp only [Bool.false_eq_true, if_false] at hr
    obtain ⟨txt, hpr, _⟩ := exprT_stage5 ok hr true
    exact ⟨txt, hpr, toString_eq _ _ _ _ _ hpr, Sp.exprCanon true rfl hr hpr⟩

end

/-! ## (3e) the grammar proper generates the printer's text of every tree of the class `RT5`

`Sp o false`: derivations that do not use the four "canonical leaf" constructors.  The printer's text of
an expression / predicate / accessor / chain of the class is derivable by the proper rules (keywords in
lower case, strings in the printer's escaping, parentheses where the printer writes them). -/

def GenE (o : Oracles) (e : Node) : Prop :=
  ∀ wp : Bool, ∃ txt, Print.writeTo o.isPrint e false wp = some txt ∧
    Sp o false (.expr e (wp || !isBin e) (wp || !isAddLevel e)) txt

def GenP (o : Oracles) (p : Node) : Prop :=
  ∀ wp : Bool, ∃ txt, Print.writeTo o.isPrint p false wp = some txt ∧
    Sp o false (.pred p (wp || !isAndOr p) (wp || !isOr p)) txt

def GenS (o : Oracles) (n : Node) : Prop :=
  ∃ stxt, (∀ wp, Print.writeTo o.isPrint n true wp
      = (Print.writeNext o.isPrint n.next).bind (fun tl => some (stxt ++ tl))) ∧ Sp o false (.step n) stxt

def GenC (o : Oracles) (nx : Option Node) : Prop :=
  ∃ txt, Print.writeNext o.isPrint nx = some txt ∧ Sp o false (.chain nx) txt

def GenSub (o : Oracles) (s : Node) : Prop :=
  ∃ txt, Print.writeTo o.isPrint s false false = some txt ∧ Sp o false (.sub s) txt

section
variable {o : Oracles}

theorem quote_body (isPrint : Char → Bool) (s : List Char) :
    Print.quote isPrint s = '"' :: (body isPrint s ++ ['"']) := by simp [Print.quote, body]

theorem genC_nil : GenC o none := ⟨[], rfl, Sp.nil⟩

theorem genC_cons {n : Node} (hs : GenS o n) (hc : GenC o n.next) : GenC o (some n) := by
  obtain ⟨stxt, hw, hsp⟩ := hs
  obtain ⟨txt, hw', hcp⟩ := hc
  refine ⟨stxt ++ txt, ?_, Sp.cons hsp hcp⟩
  simp only [Print.writeNext, hw true, hw']
  rfl

theorem genS_simple {n : Node} (h : StepShape n) : GenS o n :=
  ⟨stepTxt o.isPrint n, writeTo_step o.isPrint h, Sp.simple h⟩

theorem genS_filter (p : Node) (nx : Option Node) (hp : GenP o p) : GenS o (.unary .filter (some p) nx) := by
  obtain ⟨ptxt, hpr, hsp⟩ := hp false
  refine ⟨'?' :: '(' :: (ptxt ++ [')']), ?_, Sp.filter nx hsp⟩
  intro wp
  rw [Print.writeTo]
  simp only [Node.next, Print.writeOpd, hpr, unStr_filter]
  generalize Print.writeNext o.isPrint nx = w
  cases w <;> simp

theorem genSub_one (l : Node) (hl : GenE o l) : GenSub o (.binary .subscript (some l) none none) := by
  obtain ⟨txt, hpr, hsp⟩ := hl false
  refine ⟨txt, ?_, Sp.sub1 hsp⟩
  simp [Print.writeTo, Print.writeOpd, Print.writeNext, hpr]

theorem genSub_two (l r : Node) (hl : GenE o l) (hr : GenE o r) :
    GenSub o (.binary .subscript (some l) (some r) none) := by
  obtain ⟨ltxt, hprl, hsl⟩ := hl false
  obtain ⟨rtxt, hprr, hsr⟩ := hr false
  refine ⟨ltxt ++ ' ' :: ("to".toList ++ ' ' :: rtxt), ?_, Sp.sub2 "to".toList (by decide) hsl hsr⟩
  have e : " to ".toList = [' ', 't', 'o', ' '] := by decide
  have e2 : "to".toList = ['t', 'o'] := by decide
  simp [Print.writeTo, Print.writeOpd, Print.writeNext, hprl, hprr, e, e2]

theorem genSubs_of : ∀ (subs : List Node), subs ≠ [] → (∀ s ∈ subs, GenSub o s) →
    ∃ txt, Print.writeSubs o.isPrint subs true = some txt ∧
      Print.writeSubs o.isPrint subs false = some (',' :: txt) ∧ Sp o false (.subs subs) txt := by
  intro subs
  induction subs with
  | nil => intro h; exact absurd rfl h
  | cons s ss ih =>
    intro _ hs
    obtain ⟨txt, hpr, hsp⟩ := hs s (by simp)
    cases ss with
    | nil => exact ⟨txt, by simp [Print.writeSubs, hpr], by simp [Print.writeSubs, hpr], Sp.subsOne hsp⟩
    | cons s2 ss2 =>
      obtain ⟨txt2, hpr2a, hpr2b, hsp2⟩ := ih (by simp) (fun x hx => hs x (by simp at hx ⊢; right; exact hx))
      refine ⟨txt ++ ',' :: txt2, ?_, ?_, Sp.subsCons hsp hsp2⟩
      · rw [Print.writeSubs]; simp [hpr, hpr2b]
      · rw [Print.writeSubs]; simp [hpr, hpr2b]

theorem genS_index (subs : List Node) (nx : Option Node) (hne : subs ≠ []) (hs : ∀ s ∈ subs, GenSub o s) :
    GenS o (.arrayIndex subs nx) := by
  obtain ⟨txt, hpr, _, hsp⟩ := genSubs_of subs hne hs
  refine ⟨'[' :: (txt ++ [']']), ?_, Sp.index nx hsp⟩
  intro wp
  rw [Print.writeTo]; simp only [Node.next, hpr]
  generalize Print.writeNext o.isPrint nx = w
  cases w <;> simp

theorem timeName_lower (op : UnOp) : (timeName op).map lowerAscii = timeName op := by cases op <;> decide

theorem genS_time0 (op : UnOp) (hop : isTimeOp op = true) (nx : Option Node) : GenS o (.unary op none nx) := by
  have hf := time_facts hop
  refine ⟨'.' :: (timeName op ++ ['(', ')']), ?_, Sp.time0 op (timeName op) nx hop (timeName_lower op)⟩
  intro wp
  have hu := hf.2.2.2.2.2.2.2.2.2.1
  cases op <;> simp [isTimeOp] at hop <;>
    (rw [Print.writeTo]; simp only [Node.next, Print.stringOpt, hu, timeName]
     generalize Print.writeNext o.isPrint nx = wn
     cases wn <;> simp)

theorem genS_time1 (op : UnOp) (hop : isTimeOp op = true) (p : Int) (hp : intOK p = true) (nx : Option Node) :
    GenS o (.unary op (some (.integer p none)) nx) := by
  have hf := time_facts hop
  refine ⟨'.' :: (timeName op ++ '(' :: (Nat.toDigits 10 p.toNat ++ [')'])), ?_,
    Sp.time1 op (timeName op) p nx hop (timeName_lower op) hp⟩
  intro wp
  have hu := hf.2.2.2.2.2.2.2.2.2.1
  have hfi := formatInt_nonneg hp
  cases op <;> simp [isTimeOp] at hop <;>
    (rw [Print.writeTo]; simp only [Node.next, Print.stringOpt, Print.simpleString?, hu, hfi, timeName]
     generalize Print.writeNext o.isPrint nx = wn
     cases wn <;> simp)

theorem genS_decimal (l r nx : Option Node) (h : okDecArgs l r = true) : GenS o (.binary .decimal l r nx) := by
  refine ⟨'.' :: ("decimal".toList ++ '(' :: (decArgsTxt l r ++ [')'])), ?_,
    Sp.decimal "decimal".toList l r nx (by decide) h⟩
  intro wp
  have e : ".decimal(".toList = ['.', 'd', 'e', 'c', 'i', 'm', 'a', 'l', '('] := by decide
  have e2 : "decimal".toList = ['d', 'e', 'c', 'i', 'm', 'a', 'l'] := by decide
  unfold okDecArgs at h
  split at h
  · rw [Print.writeTo]; simp only [Node.next, Print.stringOpt, e, e2, decArgsTxt]
    generalize Print.writeNext o.isPrint nx = wn
    cases wn <;> simp
  · rw [Print.writeTo]; simp only [Node.next, Print.stringOpt, Print.simpleString?, e, e2, decArgsTxt, formatInt_csv]
    generalize Print.writeNext o.isPrint nx = wn
    cases wn <;> simp
  · rw [Print.writeTo]; simp only [Node.next, Print.stringOpt, Print.simpleString?, e, e2, decArgsTxt, formatInt_csv]
    generalize Print.writeNext o.isPrint nx = wn
    cases wn <;> simp
  · simp at h

/-! ### expressions -/

/-- a node that is an atom however it is printed -/
theorem genE_atom {e : Node} {txt : List Char} (hb : isBin e = false) (ha : isAddLevel e = false)
    (hpr : ∀ wp, Print.writeTo o.isPrint e false wp = some txt) (hsp : Sp o false (.expr e true true) txt) :
    GenE o e := by
  intro wp
  refine ⟨txt, hpr wp, ?_⟩
  rw [hb, ha]
  cases wp <;> exact hsp

/-- from the unparenthesised form of a node that `parenIf` wraps -/
theorem genE_wrap {e : Node} {txt : List Char}
    (hpr : ∀ wp, Print.writeTo o.isPrint e false wp = some (Print.parenIf wp txt))
    (hsp : Sp o false (.expr e (!isBin e) (!isAddLevel e)) txt) : GenE o e := by
  intro wp
  cases wp with
  | false => exact ⟨txt, by simpa [Print.parenIf] using hpr false, hsp⟩
  | true => exact ⟨'(' :: (txt ++ [')']), by simpa [Print.parenIf] using hpr true, Sp.paren hsp⟩

theorem genE_const (k : Const) (hk : isOpdConst k = true ∨ k = .last) {nx : Option Node} (hc : GenC o nx) :
    GenE o (.const k nx) := by
  obtain ⟨tl, hw, hcp⟩ := hc
  refine genE_atom (txt := Print.constStr k ++ tl) rfl rfl ?_ ?_
  · intro wp; rw [Print.writeTo]; simp [hw]
  · rcases hk with hk | hk
    · cases k <;> simp [isOpdConst] at hk
      · exact (Sp.root hcp).cast (by simp [Print.constStr])
      · exact (Sp.current hcp).cast (by simp [Print.constStr])
      · exact Sp.const .true_ (Or.inr (Or.inl rfl)) hcp
      · exact Sp.const .false_ (Or.inr (Or.inr rfl)) hcp
      · exact Sp.const .null (Or.inl rfl) hcp
    · subst hk
      exact (Sp.last "last".toList (by decide) hcp).cast (by simp [Print.constStr])

theorem genE_str (ok : OrOK o) (s : List Char) (hs : NoNul s) {nx : Option Node} (hc : GenC o nx) :
    GenE o (.str s nx) := by
  obtain ⟨tl, hw, hcp⟩ := hc
  refine genE_atom (txt := Print.quote o.isPrint s ++ tl) rfl rfl ?_ ?_
  · intro wp; rw [Print.writeTo]; simp [hw]
  · have := Sp.strTok (o := o) (cn := false) (isVar := false) (.str (spellsStr_body o.isPrint ok.nl s hs)) hcp
    rw [quote_body]
    exact this

theorem genE_var (ok : OrOK o) (s : List Char) (hs : NoNul s) {nx : Option Node} (hc : GenC o nx) :
    GenE o (.var s nx) := by
  obtain ⟨tl, hw, hcp⟩ := hc
  refine genE_atom (txt := '$' :: (Print.quote o.isPrint s ++ tl)) rfl rfl ?_ ?_
  · intro wp; rw [Print.writeTo]; simp [hw]
  · have := Sp.strTok (o := o) (cn := false) (isVar := true) (.qvar (spellsStr_body o.isPrint ok.nl s hs)) hcp
    rw [quote_body]
    exact this

theorem sp_int (i : Int) (h : litOK i = true) :
    Sp o false (.expr (.integer i none) true true) (Decimal.formatInt i) := by
  simp only [litOK, Bool.and_eq_true, decide_eq_true_eq] at h
  by_cases h0 : 0 ≤ i
  · have hneg : ¬ i < 0 := by omega
    have e : i.natAbs = i.toNat := by omega
    have := Sp.nat (o := o) (cn := false) i (by simp only [intOK, Bool.and_eq_true, decide_eq_true_eq]; omega)
    exact this.cast (by simp [Decimal.formatInt, Decimal.formatNat, hneg, e])
  · have hneg : i < 0 := by omega
    have hpos := Sp.nat (o := o) (cn := false) (-i) (by simp only [intOK, Bool.and_eq_true, decide_eq_true_eq]; omega)
    have := Sp.negLit (o := o) (cn := false) (i := -i) (by omega) (by omega) hpos
    rw [Int.neg_neg] at this
    have e : (-i).toNat = i.natAbs := by omega
    exact this.cast (by simp [Decimal.formatInt, Decimal.formatNat, hneg, e])

theorem genE_int (i : Int) (h : litOK i = true) : GenE o (.integer i none) := by
  refine genE_atom (txt := Decimal.formatInt i) rfl rfl ?_ (sp_int i h)
  intro wp
  simp [Print.writeTo, Print.writeNext, Print.parenIf]

theorem genE_intChain (i : Int) (n : Node) (h : litOK i = true) (hs : GenS o n) (hc : GenC o n.next) :
    GenE o (.integer i (some n)) := by
  obtain ⟨stxt, hw, hsp⟩ := hs
  obtain ⟨ctxt, hw', hcp⟩ := hc
  refine genE_atom (txt := '(' :: (Decimal.formatInt i ++ ')' :: (stxt ++ ctxt))) rfl rfl ?_ ?_
  · intro wp
    rw [Print.writeTo]
    simp [Print.writeNext, hw true, hw', Print.parenIf]
  · have := Sp.parenChain (sp_int (o := o) i h) hsp hcp
    simpa [appendEnd] using this

theorem genE_sign (op : UnOp) (x : Node) (hop : isSign op = true) (hx : GenE o x) (hn : notNumLit x = true)
    (hu : decide (Print.priority x ≤ Print.unPriority op) = true ∨ isBin x = false) :
    GenE o (.unary op (some x) none) := by
  obtain ⟨xtxt, hpr, hsx⟩ := hx (decide (Print.priority x ≤ Print.unPriority op))
  refine genE_wrap (txt := (signTok op).2 ++ xtxt) ?_ ?_
  · intro wp
    cases op <;> simp [isSign] at hop
    · simp [Print.writeTo, Print.writeOpd, Print.writeNext, hpr, unStr_plus, signTok, tPlus]
    · simp [Print.writeTo, Print.writeOpd, Print.writeNext, hpr, unStr_minus, signTok, tMinus]
  · have h1 : Sp o false (.expr x true _) xtxt :=
      Sp.weaken hsx (u' := true) (fun _ => by rcases hu with h | h <;> simp [h]) id
    exact Sp.weaken (Sp.sign op hop h1 hn) (fun _ => rfl) (fun _ => rfl)

theorem genE_mul (op : BinOp) (l r : Node) (hop : isMulOp op = true) (hl : GenE o l) (hr : GenE o r)
    (hul : decide (Print.priority l ≤ Print.binPriority op) = true ∨ isBin l = false)
    (hur : decide (Print.priority r ≤ Print.binPriority op) = true ∨ isBin r = false) :
    GenE o (.binary op (some l) (some r) none) := by
  obtain ⟨ltxt, hprl, hsl⟩ := hl (decide (Print.priority l ≤ Print.binPriority op))
  obtain ⟨rtxt, hprr, hsr⟩ := hr (decide (Print.priority r ≤ Print.binPriority op))
  refine genE_wrap (txt := ltxt ++ ' ' :: (Print.binStr op ++ ' ' :: rtxt)) ?_ ?_
  · intro wp
    cases op <;> simp [isMulOp] at hop <;>
      simp [Print.writeTo, Print.writeOpd, Print.writeNext, hprl, hprr]
  · have h1 : Sp o false (.expr l true _) ltxt :=
      Sp.weaken hsl (u' := true) (fun _ => by rcases hul with h | h <;> simp [h]) id
    have h2 : Sp o false (.expr r true _) rtxt :=
      Sp.weaken hsr (u' := true) (fun _ => by rcases hur with h | h <;> simp [h]) id
    exact Sp.weaken (Sp.mul op hop h1 h2) (fun h => by simp [isBin] at h) (fun _ => rfl)

theorem genE_add (op : BinOp) (l r : Node) (hop : isAddOp op = true) (hl : GenE o l) (hr : GenE o r)
    (hml : decide (Print.priority l ≤ Print.binPriority op) = true ∨ isAddLevel l = false)
    (hmr : decide (Print.priority r ≤ Print.binPriority op) = true ∨ isAddLevel r = false) :
    GenE o (.binary op (some l) (some r) none) := by
  obtain ⟨ltxt, hprl, hsl⟩ := hl (decide (Print.priority l ≤ Print.binPriority op))
  obtain ⟨rtxt, hprr, hsr⟩ := hr (decide (Print.priority r ≤ Print.binPriority op))
  refine genE_wrap (txt := ltxt ++ ' ' :: (Print.binStr op ++ ' ' :: rtxt)) ?_ ?_
  · intro wp
    cases op <;> simp [isAddOp] at hop <;>
      simp [Print.writeTo, Print.writeOpd, Print.writeNext, hprl, hprr]
  · have h1 : Sp o false (.expr l _ true) ltxt :=
      Sp.weaken hsl (m' := true) id (fun _ => by rcases hml with h | h <;> simp [h])
    have h2 : Sp o false (.expr r _ true) rtxt :=
      Sp.weaken hsr (m' := true) id (fun _ => by rcases hmr with h | h <;> simp [h])
    exact Sp.weaken (Sp.add op hop h1 h2) (fun h => by simp [isBin] at h)
      (fun h => by cases op <;> simp [isAddOp] at hop <;> simp [isAddLevel] at h)

/-! ### predicates -/

theorem genP_binary {p : Node} {txt : List Char}
    (hpr : ∀ wp, Print.writeTo o.isPrint p false wp = some (Print.parenIf wp txt))
    (hsp : Sp o false (.pred p (!isAndOr p) (!isOr p)) txt) : GenP o p := by
  intro wp
  cases wp with
  | false => exact ⟨txt, by simpa [Print.parenIf] using hpr false, hsp⟩
  | true => exact ⟨'(' :: (txt ++ [')']), by simpa [Print.parenIf] using hpr true, Sp.pparen hsp⟩

theorem genP_unary {p : Node} {txt : List Char} (ha : isAndOr p = false) (hl : isOr p = false)
    (hpr : ∀ wp, Print.writeTo o.isPrint p false wp = some txt)
    (hsp : Sp o false (.pred p true true) txt) : GenP o p := by
  intro wp
  refine ⟨txt, hpr wp, ?_⟩
  rw [ha, hl]
  cases wp <;> exact hsp

theorem genP_cmp (op : BinOp) (l r : Node) (hop : isCmp op = true) (hl : GenE o l) (hr : GenE o r)
    (hpl : decide (Print.priority l ≤ Print.binPriority op) = false)
    (hpr' : decide (Print.priority r ≤ Print.binPriority op) = false) :
    GenP o (.binary op (some l) (some r) none) := by
  obtain ⟨ltxt, hprl, hsl⟩ := hl false
  obtain ⟨rtxt, hprr, hsr⟩ := hr false
  refine genP_binary (txt := ltxt ++ ' ' :: (Print.binStr op ++ ' ' :: rtxt)) ?_ ?_
  · intro wp
    have e1 : Print.writeOpd o.isPrint (some l) (some (Print.binPriority op)) = some ltxt := by
      simp only [Print.writeOpd, hpl, hprl]
    have e2 : Print.writeOpd o.isPrint (some r) (some (Print.binPriority op)) = some rtxt := by
      simp only [Print.writeOpd, hpr', hprr]
    cases op <;> simp [isCmp] at hop <;> (simp only [Print.writeTo, e1, e2]; simp [Print.writeNext])
  · have := Sp.cmp (o := o) (cn := false) op hop (Or.inl rfl) hsl hsr
    exact Sp.pweaken this (fun _ => rfl) (fun _ => rfl)

theorem genP_logic (op : BinOp) (l r : Node) (hop : isLogic op = true)
    (hsl : decide (Print.priority l ≤ Print.binPriority .and) = isAndOr l ∧
      decide (Print.priority l ≤ Print.binPriority .or) = isOr l)
    (hsr : decide (Print.priority r ≤ Print.binPriority .and) = isAndOr r ∧
      decide (Print.priority r ≤ Print.binPriority .or) = isOr r)
    (hl : GenP o l) (hr : GenP o r) : GenP o (.binary op (some l) (some r) none) := by
  have hop' : op = .and ∨ op = .or := by
    cases op <;> simp [isLogic] at hop <;> simp
  rcases hop' with rfl | rfl
  · obtain ⟨ltxt, hprl, hspl⟩ := hl (isAndOr l)
    obtain ⟨rtxt, hprr, hspr⟩ := hr (isAndOr r)
    refine genP_binary (txt := ltxt ++ ' ' :: (Print.binStr .and ++ ' ' :: rtxt)) ?_ ?_
    · intro wp
      simp only [Print.writeTo, Print.writeOpd, Print.writeNext]
      rw [hsl.1, hsr.1, hprl, hprr]
      simp
    · have h1 : Sp o false (.pred l true _) ltxt :=
        Sp.pweaken hspl (a' := true) (fun _ => by cases isAndOr l <;> simp) id
      have h2 : Sp o false (.pred r true _) rtxt :=
        Sp.pweaken hspr (a' := true) (fun _ => by cases isAndOr r <;> simp) id
      exact Sp.pweaken (Sp.and h1 h2) (fun h => by simp [isAndOr] at h) (fun _ => rfl)
  · obtain ⟨ltxt, hprl, hspl⟩ := hl (isOr l)
    obtain ⟨rtxt, hprr, hspr⟩ := hr (isOr r)
    refine genP_binary (txt := ltxt ++ ' ' :: (Print.binStr .or ++ ' ' :: rtxt)) ?_ ?_
    · intro wp
      simp only [Print.writeTo, Print.writeOpd, Print.writeNext]
      rw [hsl.2, hsr.2, hprl, hprr]
      simp
    · have h1 : Sp o false (.pred l _ true) ltxt :=
        Sp.pweaken hspl (l' := true) id (fun _ => by cases isOr l <;> simp)
      have h2 : Sp o false (.pred r _ true) rtxt :=
        Sp.pweaken hspr (l' := true) id (fun _ => by cases isOr r <;> simp)
      exact Sp.pweaken (Sp.or h1 h2) (fun h => by simp [isAndOr] at h) (fun h => by simp [isOr] at h)

theorem genP_starts (ok : OrOK o) (l : Node) (s : List Char) (isVar : Bool) (hl : GenE o l) (hs : NoNul s)
    (hpl : decide (Print.priority l ≤ Print.binPriority .startsWith) = false) :
    GenP o (.binary .startsWith (some l) (some (if isVar then .var s none else .str s none)) none) := by
  obtain ⟨ltxt, hprl, hsl⟩ := hl false
  have hb := spellsStr_body o.isPrint ok.nl s hs
  refine genP_binary
    (txt := ltxt ++ ' ' :: ("starts".toList ++ ' ' :: ("with".toList ++ ' ' ::
      (if isVar then '$' :: Print.quote o.isPrint s else Print.quote o.isPrint s)))) ?_ ?_
  · intro wp
    have e1 : Print.writeOpd o.isPrint (some l) (some (Print.binPriority .startsWith)) = some ltxt := by
      simp only [Print.writeOpd, hpl, hprl]
    have e3 : "starts".toList = ['s', 't', 'a', 'r', 't', 's'] := by decide
    have e4 : "with".toList = ['w', 'i', 't', 'h'] := by decide
    simp only [Print.writeTo, e1]
    cases isVar <;> simp [Print.writeTo, Print.writeOpd, Print.writeNext, binStr_startsWith, e3, e4]
  · have hst : StrTok isVar (if isVar then '$' :: Print.quote o.isPrint s else Print.quote o.isPrint s) s := by
      cases isVar
      · simp only [Bool.false_eq_true, if_false, quote_body]; exact .str hb
      · simp only [if_true, quote_body]; exact .qvar hb
    have := Sp.starts (o := o) (cn := false) "starts".toList "with".toList (by decide) (by decide) hst hsl
    exact Sp.pweaken this (fun _ => rfl) (fun _ => rfl)

theorem genP_not (p : Node) (hp : GenP o p) : GenP o (.unary .not (some p) none) := by
  obtain ⟨ptxt, hpr, hsp⟩ := hp false
  refine genP_unary (txt := '!' :: '(' :: (ptxt ++ [')'])) rfl rfl ?_ (Sp.not hsp)
  intro wp
  simp [Print.writeTo, Print.writeOpd, Print.writeNext, hpr, unStr_not]

theorem genP_isUnknown (p : Node) (hp : GenP o p) : GenP o (.unary .isUnknown (some p) none) := by
  obtain ⟨ptxt, hpr, hsp⟩ := hp false
  refine genP_unary (txt := '(' :: (ptxt ++ ')' :: ' ' :: ("is".toList ++ ' ' :: "unknown".toList))) rfl rfl ?_
    (Sp.isUnknown "is".toList "unknown".toList (by decide) (by decide) hsp)
  intro wp
  have : ") is unknown".toList = [')', ' ', 'i', 's', ' ', 'u', 'n', 'k', 'n', 'o', 'w', 'n'] := by decide
  have e1 : "is".toList = ['i', 's'] := by decide
  have e2 : "unknown".toList = ['u', 'n', 'k', 'n', 'o', 'w', 'n'] := by decide
  simp [Print.writeTo, Print.writeOpd, Print.writeNext, hpr, this, e1, e2]

theorem genP_exists (x : Node) (hx : GenE o x) : GenP o (.unary .exists (some x) none) := by
  obtain ⟨xtxt, hpr, hsx⟩ := hx false
  refine genP_unary (txt := "exists".toList ++ ' ' :: '(' :: (xtxt ++ [')'])) rfl rfl ?_
    (Sp.exists_ "exists".toList (by decide) hsx)
  intro wp
  have : "exists (".toList = ['e', 'x', 'i', 's', 't', 's', ' ', '('] := by decide
  have e1 : "exists".toList = ['e', 'x', 'i', 's', 't', 's'] := by decide
  simp [Print.writeTo, Print.writeOpd, Print.writeNext, hpr, this, e1]

theorem genP_regex (ok : OrOK o) (x : Node) (pat : List Char) (fl : Nat) (hx : GenE o x) (hp : NoNul pat)
    (hfl : fl < 32) (hok : okFlags fl = true) (hacc : o.regexAccepts pat fl = true)
    (hpx : decide (Print.priority x ≤ 6) = true) : GenP o (.regex x pat fl none) := by
  obtain ⟨xtxt, hpr, hsx⟩ := hx true
  have hb := spellsStr_body o.isPrint ok.nl pat hp
  have e1 : "like_regex".toList = ['l', 'i', 'k', 'e', '_', 'r', 'e', 'g', 'e', 'x'] := by decide
  have hprint : ∀ wp, Print.writeTo o.isPrint (.regex x pat fl none) false wp = some (Print.parenIf wp
      (xtxt ++ ' ' :: ("like_regex".toList ++ ' ' :: (Print.quote o.isPrint pat ++ Print.flagsStr fl)))) := by
    intro wp
    rw [Print.writeTo]
    simp only [hpx]
    simp [hpr, Print.writeNext, likeRegex_txt, e1]
  refine genP_binary hprint ?_
  rw [flagsStr_eq fl hfl, quote_body]
  by_cases h0 : fl = 0
  · subst h0
    have := Sp.regex (o := o) (cn := false) "like_regex".toList (by decide) hb hsx hacc
    simpa using Sp.pweaken this (a' := !isAndOr (.regex x pat 0 none)) (l' := !isOr (.regex x pat 0 none))
      (fun _ => rfl) (fun _ => rfl)
  · have hfb : SpellsStr (flagChars fl) (flagChars fl) := by
      have hn : NoNul (flagChars fl) := fun c hc => (isLow_facts c (flagChars_low fl hfl c hc)).1
      have := spellsStr_body o.isPrint ok.nl (flagChars fl) hn
      have e := quote_flagChars (o := o) ok fl hfl
      rw [quote_body] at e
      have e' : body o.isPrint (flagChars fl) = flagChars fl := by
        have := List.cons.inj e
        exact List.append_cancel_right this.2
      rw [e'] at this
      exact this
    have := Sp.regexFlag (o := o) (cn := false) "like_regex".toList "flag".toList (by decide) (by decide) hb hfb
      (regexFlags_flagChars fl hfl hok) hsx hacc
    have e2 : "flag".toList = ['f', 'l', 'a', 'g'] := by decide
    simp only [h0, if_false]
    simpa [e2] using Sp.pweaken this (a' := !isAndOr (.regex x pat fl none)) (l' := !isOr (.regex x pat fl none))
      (fun _ => rfl) (fun _ => rfl)

end

/-- the induction over the class -/
structure AllGen5 (o : Oracles) (k : Nat) : Prop where
  expr : ∀ n : Node, sizeOf n ≤ k → okExpr5 o n = true → GenE o n
  pred : ∀ p : Node, sizeOf p ≤ k → okPred5 o p = true → GenP o p
  step : ∀ n : Node, sizeOf n ≤ k → okStep5 o n = true → GenS o n
  chain : ∀ nx : Option Node, sizeOf nx ≤ k → okNext5 o nx = true → GenC o nx

section
variable {o : Oracles} (ok : OrOK o)
include ok

theorem allGen5 : ∀ k, AllGen5 o k := by
  intro k
  induction k with
  | zero =>
    refine ⟨?_, ?_, ?_, ?_⟩
    · intro n hk _; have := sizeOf_node_pos n; omega
    · intro n hk _; have := sizeOf_node_pos n; omega
    · intro n hk _; have := sizeOf_node_pos n; omega
    · intro nx hk _
      cases nx with
      | none => exact genC_nil
      | some n => simp at hk
  | succ k ih =>
    refine ⟨?_, ?_, ?_, ?_⟩
    · intro n hk h
      cases okExpr5_cases h with
      | const c nx hc hnx =>
        simp only [Node.const.sizeOf_spec] at hk
        exact genE_const c (Or.inl hc) (ih.chain nx (by omega) hnx)
      | last nx hnx =>
        simp only [Node.const.sizeOf_spec] at hk
        exact genE_const .last (Or.inr rfl) (ih.chain nx (by omega) hnx)
      | str s nx hs hnx =>
        simp only [Node.str.sizeOf_spec] at hk
        exact genE_str ok s hs (ih.chain nx (by omega) hnx)
      | var s nx hs hnx =>
        simp only [Node.var.sizeOf_spec] at hk
        exact genE_var ok s hs (ih.chain nx (by omega) hnx)
      | nat i hi =>
        exact genE_int i (by
          simp only [intOK, Bool.and_eq_true, decide_eq_true_eq] at hi
          simp only [litOK, Bool.and_eq_true, decide_eq_true_eq]; omega)
      | neg i hi =>
        exact genE_int i (by
          simp only [negOK, Bool.and_eq_true, decide_eq_true_eq] at hi
          simp only [litOK, Bool.and_eq_true, decide_eq_true_eq]; omega)
      | intChain i n hi hn =>
        simp only [Node.integer.sizeOf_spec, Option.some.sizeOf_spec] at hk
        have hlt := sizeOf_next_lt n
        exact genE_intChain i n hi (ih.step n (by omega) hn) (ih.chain n.next (by omega) (okStep5_next hn))
      | sign op x hop hx hn =>
        simp only [Node.unary.sizeOf_spec, Option.some.sizeOf_spec] at hk
        have hp := exprPrio5 (okExpr5_cases hx)
        refine genE_sign op x hop (ih.expr x (by omega) hx) hn ?_
        rw [sign_prio hop]
        cases hb : isBin x with
        | false => exact Or.inr rfl
        | true => left; have := hp.2.2.1 hb; simp only [decide_eq_true_eq]; omega
      | arith op l r hop hl hr =>
        simp only [Node.binary.sizeOf_spec, Option.some.sizeOf_spec] at hk
        have hpl := exprPrio5 (okExpr5_cases hl)
        have hpr := exprPrio5 (okExpr5_cases hr)
        rcases arith_split hop with hm | ha
        · refine genE_mul op l r hm (ih.expr l (by omega) hl) (ih.expr r (by omega) hr) ?_ ?_
          · rw [mul_prio hm]
            cases hb : isBin l with
            | false => exact Or.inr rfl
            | true => left; have := hpl.2.2.1 hb; simp only [decide_eq_true_eq]; omega
          · rw [mul_prio hm]
            cases hb : isBin r with
            | false => exact Or.inr rfl
            | true => left; have := hpr.2.2.1 hb; simp only [decide_eq_true_eq]; omega
        · refine genE_add op l r ha (ih.expr l (by omega) hl) (ih.expr r (by omega) hr) ?_ ?_
          · rw [add_prio ha]
            cases hb : isAddLevel l with
            | false => exact Or.inr rfl
            | true => left; have := hpl.2.2.2 hb; simp only [decide_eq_true_eq]; omega
          · rw [add_prio ha]
            cases hb : isAddLevel r with
            | false => exact Or.inr rfl
            | true => left; have := hpr.2.2.2 hb; simp only [decide_eq_true_eq]; omega
    · intro p hk h
      cases okPred5_cases h with
      | cmp op l r hop hl hr =>
        simp only [Node.binary.sizeOf_spec, Option.some.sizeOf_spec] at hk
        have hpl := exprPrio5 (okExpr5_cases hl)
        have hpr := exprPrio5 (okExpr5_cases hr)
        refine genP_cmp op l r hop (ih.expr l (by omega) hl) (ih.expr r (by omega) hr) ?_ ?_
        · rw [cmp_prio hop]; simp only [decide_eq_false_iff_not]; omega
        · rw [cmp_prio hop]; simp only [decide_eq_false_iff_not]; omega
      | logic op l r hop hl hr =>
        simp only [Node.binary.sizeOf_spec, Option.some.sizeOf_spec] at hk
        exact genP_logic op l r hop (prio_facts5 (okPred5_cases hl)) (prio_facts5 (okPred5_cases hr))
          (ih.pred l (by omega) hl) (ih.pred r (by omega) hr)
      | starts l s isVar hl hs =>
        simp only [Node.binary.sizeOf_spec, Option.some.sizeOf_spec] at hk
        have hpl := exprPrio5 (okExpr5_cases hl)
        refine genP_starts ok l s isVar (ih.expr l (by omega) hl) hs ?_
        have : Print.binPriority .startsWith = 2 := rfl
        rw [this]; simp only [decide_eq_false_iff_not]; omega
      | not q hq =>
        simp only [Node.unary.sizeOf_spec, Option.some.sizeOf_spec] at hk
        exact genP_not q (ih.pred q (by omega) hq)
      | exists_ x hx =>
        simp only [Node.unary.sizeOf_spec, Option.some.sizeOf_spec] at hk
        exact genP_exists x (ih.expr x (by omega) hx)
      | isUnknown q hq =>
        simp only [Node.unary.sizeOf_spec, Option.some.sizeOf_spec] at hk
        exact genP_isUnknown q (ih.pred q (by omega) hq)
      | regex x pat fl hx hp hfl hok hacc =>
        simp only [Node.regex.sizeOf_spec] at hk
        have hpx := exprPrio5 (okExpr5_cases hx)
        exact genP_regex ok x pat fl (ih.expr x (by omega) hx) hp hfl hok hacc
          (by simp only [decide_eq_true_eq]; omega)
    · intro n hk h
      cases okStep5_cases h with
      | simple _ hs hnx => exact genS_simple hs
      | filter p nx' hp hnx =>
        simp only [Node.unary.sizeOf_spec, Option.some.sizeOf_spec] at hk
        exact genS_filter p nx' (ih.pred p (by omega) hp)
      | index subs nx' hne hs hnx =>
        simp only [Node.arrayIndex.sizeOf_spec] at hk
        refine genS_index subs nx' hne ?_
        intro s hsm
        have hlt := List.sizeOf_lt_of_mem hsm
        rcases okSub5_cases (okSubs5_mem subs hs s hsm) with ⟨l, rfl, hl⟩ | ⟨l, r, rfl, hl, hr⟩
        · simp only [Node.binary.sizeOf_spec, Option.some.sizeOf_spec] at hlt
          exact genSub_one l (ih.expr l (by omega) hl)
        · simp only [Node.binary.sizeOf_spec, Option.some.sizeOf_spec] at hlt
          exact genSub_two l r (ih.expr l (by omega) hl) (ih.expr r (by omega) hr)
      | time0 op nx' hop hnx => exact genS_time0 op hop nx'
      | time1 op p nx' hop hp hnx => exact genS_time1 op hop p hp nx'
      | decimal l r nx' hd' hnx => exact genS_decimal l r nx' hd'
    · intro nx hk h
      cases nx with
      | none => exact genC_nil
      | some n =>
        simp only [Option.some.sizeOf_spec] at hk
        have hs : okStep5 o n = true := by simpa [okNext5] using h
        have hlt := sizeOf_next_lt n
        exact genC_cons (ih.step n (by omega) hs) (ih.chain n.next (by omega) (okStep5_next hs))

/-- **every tree of the class is generated by the grammar proper**: the printer's text of the root of a tree
    of `RT5` is derivable (fit for every position) without the canonical-leaf constructors -/
theorem rt5_generated_core (a : AST) (h : RT5 o a = true) :
    ∃ txt, Print.writeTo o.isPrint a.root false true = some txt ∧
      Print.toString o.isPrint a = some (modeTxt a.lax ++ txt) ∧
      (if a.pred then SpPred o false a.root true true txt else SpExpr o false a.root true true txt) := by
  obtain ⟨root, lax, pred⟩ := a
  simp only [RT5, Bool.and_eq_true] at h
  obtain ⟨hv, hr⟩ := h
  cases pred with
  | true =>
    simp only [if_true] at hr
    obtain ⟨txt, hpr, hsp⟩ := (allGen5 ok _).pred root (Nat.le_refl _) hr true
    exact ⟨txt, hpr, toString_eq _ _ _ _ _ hpr, hsp⟩
  | false =>
    simp only [Bool.false_eq_true, if_false] at hr
    obtain ⟨txt, hpr, hsp⟩ := (allGen5 ok _).expr root (Nat.le_refl _) hr true
    exact ⟨txt, hpr, toString_eq _ _ _ _ _ hpr, hsp⟩

end

/-! ## (3d) explicit layouts: any separator before each token text -/

section
variable {o : Oracles} {cn : Bool}

/-- from `SpellInv` to the explicit form of `layout_independent`: cut the text into its token texts
    (`tokSplit`), put any separator before each of them (a non-empty one where the text has a blank) and any
    separator at the end -/
theorem SpellInv.pieces (ok : OrOK o) {a : AST} {txt : List Char} {items : List Item} (h : SpellInv o a txt items) :
    ∀ (seps : List (List Char)) (fin : List Char), LayoutOKT (tokSplit o txt) seps → Sep fin →
      parse o (utf8 (renderT ((tokSplit o txt).map (·.2)) seps ++ fin)) = .ok a := by
  obtain ⟨h1, h2, h3, h4⟩ := h
  subst h1
  intro seps fin hl hfin
  rw [tokSplit_canon (ok : RoundTrip.OrOK o) brk_none items h2 h3] at hl ⊢
  rw [renderT_items]
  exact h4 items seps fin (RespL.refl h2) (layoutOKT_items items seps hl) hfin _ (decodeAll_utf8 _)

variable (ok : OrOK o) (up : OrUp o)
include ok up

/-- **C03 with explicit layouts, expressions** -/
theorem spells_layout {e : Node} {u m : Bool} {txt : List Char} (h : SpExpr o cn e u m txt)
    (hv : validate e = true) {lax : Bool} {md : List Char} {mt : List TT} (hm : ModeSp lax md mt)
    (seps : List (List Char)) (fin : List Char) (hl : LayoutOKT (tokSplit o (withMode md txt)) seps) (hfin : Sep fin) :
    parse o (utf8 (renderT ((tokSplit o (withMode md txt)).map (·.2)) seps ++ fin)) = .ok ⟨e, lax, false⟩ := by
  obtain ⟨items, hi⟩ := spells_parse_mode ok up h hv hm
  exact hi.pieces ok seps fin hl hfin

/-- **C03 with explicit layouts, predicates** -/
theorem spells_layout_pred {p : Node} {a l : Bool} {txt : List Char} (h : SpPred o cn p a l txt)
    (hv : validate p = true) {lax : Bool} {md : List Char} {mt : List TT} (hm : ModeSp lax md mt)
    (seps : List (List Char)) (fin : List Char) (hl : LayoutOKT (tokSplit o (withMode md txt)) seps) (hfin : Sep fin) :
    parse o (utf8 (renderT ((tokSplit o (withMode md txt)).map (·.2)) seps ++ fin)) = .ok ⟨p, lax, true⟩ := by
  obtain ⟨items, hi⟩ := spells_parse_pred_mode ok up h hv hm
  exact hi.pieces ok seps fin hl hfin

end

/-! ## (4) worked instances -/

/-- raw characters of a string body -/
def plainCh (c : Char) : Bool := c != '"' && c != '\\' && c != '\n' && c.toNat != 0

theorem spellsStr_plain : ∀ (s : List Char), s.all plainCh = true → SpellsStr s s
  | [], _ => .nil
  | c :: s, h => by
    simp only [List.all_cons, Bool.and_eq_true] at h
    have hc := h.1
    simp only [plainCh, Bool.and_eq_true, bne_iff_ne, ne_eq] at hc
    exact SpellsStr.cons' (.plain c hc.1.1.1 hc.1.1.2 hc.1.2 hc.2) (spellsStr_plain s h.2) rfl

section
variable {o : Oracles} {cn : Bool} (ok : OrOK o) (up : OrUp o)
include ok up

/-- `keyIdent` with the side condition in a form `decide` evaluates on a concrete word -/
theorem Sp.keyIdent' (c : Char) (w : List Char) (nx : Option Node) (hc : isIdCh0 c = true)
    (hw : ∀ x ∈ w, isIdCh x = true) (hid : identToken asciiOracles (c :: w) = .ident) :
    Sp o cn (.step (.key (c :: w) nx)) ('.' :: c :: w) := by
  refine Sp.keyIdent c w nx hc hw ?_
  rw [identToken_ascii o ok up (c :: w) ?_, hid]
  intro x hx
  simp only [List.mem_cons] at hx
  rcases hx with hx | hx
  · subst hx; exact isIdCh_of_0 hc
  · exact hw x hx

end

/-- `$."foo"?(@."bar" != "A" && exists (@."c")).size()` -/
def exG : Node :=
  .const .root (some (.key "foo".toList (some (.unary .filter (some
    (.binary .and
      (some (.binary .ne (some (.const .current (some (.key "bar".toList none)))) (some (.str ['A'] none)) none))
      (some (.unary .exists (some (.const .current (some (.key ['c'] none)))) none)) none))
    (some (.method .size none))))))

/-- `($"X" starts with $"yA") is unknown` -/
def exU : Node :=
  .unary .isUnknown (some (.binary .startsWith (some (.var ['X'] none)) (some (.var ['y', 'A'] none)) none)) none

/-- `$.**{1 to last}[last to 2].datetime("HH24").time_tz(3)."lax"` -/
def exS : Node :=
  .const .root (some (.any 1 maxU32 (some (.arrayIndex
    [.binary .subscript (some (.const .last none)) (some (.integer 2 none)) none]
    (some (.unary .datetime (some (.str "HH24".toList none))
      (some (.unary .timeTZ (some (.integer 3 none)) (some (.key "lax".toList none))))))))))

section
variable {o : Oracles} {cn : Bool} (ok : OrOK o) (up : OrUp o)
include ok up

/-- the derivation: a bare key, a filter, a quoted key, `<>`, an `\x` escape, `EXISTS`, `.SIZE()` -/
theorem exG_sp : SpExpr o false exG true true "$.foo?(@.\"bar\" <> \"\\x41\" && EXISTS (@.c)).SIZE()".toList := by
  have hbar : SpChain o false (some (.key "bar".toList none)) _ :=
    Sp.cons (Sp.keyQ none (spellsStr_plain "bar".toList (by decide))) Sp.nil
  have hc : SpChain o false (some (.key ['c'] none)) _ :=
    Sp.cons (Sp.keyIdent' ok up 'c' [] none (by decide) (by decide) (by decide)) Sp.nil
  have hne := Sp.cmp (o := o) .ne rfl (Or.inr ⟨rfl, rfl⟩) (Sp.current hbar)
    (Sp.strTok (isVar := false) (.str spell_x41) Sp.nil)
  have hex := Sp.exists_ (o := o) "EXISTS".toList (by decide) (Sp.current hc)
  have hand := Sp.and hne hex
  have hsize : SpChain o false (some (.method .size none)) _ :=
    Sp.cons (Sp.method .size "SIZE".toList none (by decide)) Sp.nil
  have hfil := Sp.cons (Sp.filter (some (.method .size none)) hand) hsize
  have hfoo := Sp.cons (Sp.keyIdent' ok up 'f' ['o', 'o'] _ (by decide) (by decide) (by decide)) hfil
  exact (Sp.root hfoo).cast (by decide +kernel)

/-- **worked instance**: `STRICT $.foo?(@."bar" <> "\x41" && EXISTS (@.c)).SIZE()`, every token respelled in
    every layout, parses to the tree the printer writes `strict $."foo"?(@."bar" != "A" && exists (@."c")).size()` -/
theorem exG_parse :
    ∃ items, SpellInv o ⟨exG, false, false⟩
      "STRICT $.foo?(@.\"bar\" <> \"\\x41\" && EXISTS (@.c)).SIZE()".toList items :=
  spell_cast (spells_parse_mode ok up (exG_sp ok up) (by decide) (ModeSp.kw false 'S' "TRICT".toList (by decide)))
    (by decide +kernel)

theorem exU_sp : SpPred o false exU true true "($X STARTS WITH $\"y\\u0041\") Is UNKNOWN".toList := by
  have hx : SpExpr o false (.var ['X'] none) true true _ :=
    Sp.strTok (isVar := true) (.bvar 'X' [] (by decide)) Sp.nil
  have hy : SpellsStr "y\\u0041".toList ['y', 'A'] :=
    SpellsStr.append (spellsStr_plain ['y'] (by decide)) spell_u0041
  have hst := Sp.starts (o := o) "STARTS".toList "WITH".toList (by decide) (by decide) (.qvar hy) hx
  exact (Sp.isUnknown "Is".toList "UNKNOWN".toList (by decide) (by decide) hst).cast (by decide +kernel)

theorem exU_parse : ∃ items, SpellInv o ⟨exU, true, true⟩ "($X STARTS WITH $\"y\\u0041\") Is UNKNOWN".toList items :=
  spell_cast (spells_parse_pred_mode ok up (exU_sp ok up) (by decide) ModeSp.none) (by decide +kernel)

theorem exS_sp : SpExpr o false exS true true
    "$.**{1 TO LAST}[LAST To 2].DATETIME(\"HH\\x324\").Time_TZ(3).lax".toList := by
  have h32 : SpellsStr "\\x32".toList ['2'] :=
    SpellsStr.single (SpellsChar.hex (hexDig_lower '3' 3 (by decide) (by decide))
      (hexDig_lower '2' 2 (by decide) (by decide)) (by decide))
  have htpl : SpellsStr "HH\\x324".toList "HH24".toList :=
    SpellsStr.append (spellsStr_plain "HH".toList (by decide)) (SpellsStr.append h32 (spellsStr_plain ['4'] (by decide)))
  have hlax : SpChain o false (some (.key "lax".toList none)) _ :=
    Sp.cons (Sp.keyKw "lax".toList "lax".toList .lax none (by decide) (by decide) (by decide) (by decide)) Sp.nil
  have htz := Sp.cons (Sp.time1 .timeTZ "Time_TZ".toList 3 _ (by decide) (by decide) (by decide)) hlax
  have hdt := Sp.cons (Sp.datetime "DATETIME".toList _ (by decide) htpl) htz
  have hsub : SpSubs o false [.binary .subscript (some (.const .last none)) (some (.integer 2 none)) none] _ :=
    Sp.subsOne (Sp.sub2 "To".toList (by decide) (Sp.last "LAST".toList (by decide) Sp.nil) (Sp.nat 2 (by decide)))
  have hidx := Sp.cons (Sp.index _ hsub) hdt
  have hany := Sp.cons (Sp.any2 "TO".toList _ (LvlSp.int 1 (by decide)) (LvlSp.last "LAST".toList (by decide))
    (by decide)) hidx
  exact (Sp.root hany).cast (by decide +kernel)

theorem exS_parse : ∃ items, SpellInv o ⟨exS, true, false⟩
    "Lax $.**{1 TO LAST}[LAST To 2].DATETIME(\"HH\\x324\").Time_TZ(3).lax".toList items :=
  spell_cast (spells_parse_mode ok up (exS_sp ok up) (by decide) (ModeSp.kw true 'L' "ax".toList (by decide)))
    (by decide +kernel)

end

/-- `$."Type"."foo"` -/
def exK : Node := .const .root (some (.key "Type".toList (some (.key "foo".toList none))))

section
variable {o : Oracles} (ok : OrOK o) (up : OrUp o)
include ok up

/-- a method keyword as a key (not last), then a bare key written with an escape -/
theorem exK_sp : SpExpr o false exK true true "$.Type.f\\u006fo".toList := by
  have hid : identToken o "foo".toList = .ident := by
    rw [identToken_ascii o ok up _ (by decide)]; decide
  have hfoo : SpStep o false (.key "foo".toList none) _ :=
    Sp.keyIdentSp none (spellsIdent_foo o ok).2.1 (by rw [hid]; rfl)
  have hch := Sp.consKwKey (o := o) (cn := false) "Type".toList "type".toList .type (by decide) (by decide) (by decide)
    (by decide) hfoo Sp.nil
  exact (Sp.root hch).cast (by decide +kernel)

theorem exK_parse : ∃ items, SpellInv o ⟨exK, true, false⟩ "$.Type.f\\u006fo".toList items :=
  spell_cast (spells_parse_mode ok up (exK_sp ok up) (by decide) ModeSp.none) (by decide +kernel)

end

/-! ### the same on the ASCII instance of the oracles: an explicit layout from the theorem, and kernel
    evaluations of the model -/

theorem exG_pieces :
    tokSplit asciiOracles "STRICT $.foo?(@.\"bar\" <> \"\\x41\" && EXISTS (@.c)).SIZE()".toList =
    [(false, "STRICT".toList), (true, "$".toList), (false, ".".toList), (false, "foo".toList), (false, "?".toList),
     (false, "(".toList), (false, "@".toList), (false, ".".toList), (false, "\"bar\"".toList), (true, "<>".toList),
     (true, "\"\\x41\"".toList), (true, "&&".toList), (true, "EXISTS".toList), (true, "(".toList),
     (false, "@".toList), (false, ".".toList), (false, "c".toList), (false, ")".toList), (false, ")".toList),
     (false, ".".toList), (false, "SIZE".toList), (false, "(".toList), (false, ")".toList)] := by decide +kernel

/-- the theorem instantiated (ASCII oracles): blanks around every punctuation mark -/
theorem exG_layout1 :
    parse asciiOracles (utf8 "STRICT $.foo ? ( @.\"bar\" <> \"\\x41\" && EXISTS ( @.c ) ) .SIZE()".toList)
      = .ok ⟨exG, false, false⟩ := by
  have := spells_layout orOK_ascii orUp_ascii (exG_sp orOK_ascii orUp_ascii) (by decide)
    (ModeSp.kw false 'S' "TRICT".toList (by decide))
    [[], " ".toList, [], [], " ".toList, " ".toList, " ".toList, [], [], " ".toList, " ".toList, " ".toList,
     " ".toList, " ".toList, " ".toList, [], [], " ".toList, " ".toList, " ".toList, [], [], []] []
  have e : withMode ('S' :: "TRICT".toList) "$.foo?(@.\"bar\" <> \"\\x41\" && EXISTS (@.c)).SIZE()".toList
      = "STRICT $.foo?(@.\"bar\" <> \"\\x41\" && EXISTS (@.c)).SIZE()".toList := by decide +kernel
  rw [e, exG_pieces] at this
  exact this (layoutOKT_of_B _ _ (by decide)) Sep.nil

/-- … and with comments, tabs and newlines -/
theorem exG_layout2 :
    parse asciiOracles (utf8
      "/* mode */ STRICT\n$ . foo\n\t? (@ . \"bar\"/* ne */<>/**/\"\\x41\"\n\t   && EXISTS\n(@.c))\n. SIZE ( ) /* end */".toList)
      = .ok ⟨exG, false, false⟩ := by
  have := spells_layout orOK_ascii orUp_ascii (exG_sp orOK_ascii orUp_ascii) (by decide)
    (ModeSp.kw false 'S' "TRICT".toList (by decide))
    ["/* mode */ ".toList, "\n".toList, " ".toList, " ".toList, "\n\t".toList, " ".toList, [], " ".toList, " ".toList,
     "/* ne */".toList, "/**/".toList, "\n\t   ".toList,
     " ".toList, "\n".toList, [], [], [], [], [], "\n".toList, " ".toList, " ".toList, " ".toList] " /* end */".toList
  have e : withMode ('S' :: "TRICT".toList) "$.foo?(@.\"bar\" <> \"\\x41\" && EXISTS (@.c)).SIZE()".toList
      = "STRICT $.foo?(@.\"bar\" <> \"\\x41\" && EXISTS (@.c)).SIZE()".toList := by decide +kernel
  rw [e, exG_pieces] at this
  exact this (layoutOKT_of_B _ _ (by decide)) (sep_of_sepB 20 _ (by decide))

/-- the model evaluated on the same texts (`run`: parse, then print) -/
theorem gram_examples :
    run "STRICT $.foo ? ( @.\"bar\" <> \"\\x41\" && EXISTS ( @.c ) ) .SIZE()"
      = "strict $.\"foo\"?(@.\"bar\" != \"A\" && exists (@.\"c\")).size()" ∧
    run "STRICT $.foo?(@.\"bar\" <> \"\\x41\" && EXISTS (@.c)).SIZE()"
      = run "strict $.\"foo\"?(@.\"bar\" != \"A\" && exists (@.\"c\")).size()" ∧
    run "($X STARTS WITH $\"y\\u0041\") Is UNKNOWN" = "($\"X\" starts with $\"yA\") is unknown" ∧
    run "Lax $.**{1 TO LAST}[LAST To 2].DATETIME(\"HH\\x324\").Time_TZ(3).lax"
      = "$.**{1 to last}[last to 2].datetime(\"HH24\").time_tz(3).\"lax\"" ∧
    run "$.a LIKE_REGEX \"^\\x61\" FLAG \"i\\u0069s\"" = "($.\"a\" like_regex \"^a\" flag \"is\")" ∧
    run "$.DECIMAL(1,2).NULL.null.Strict.keyvalue().type ()"
      = "$.decimal(1,2).\"NULL\".\"null\".\"Strict\".keyvalue().type()" ∧
    run "$.Type.f\\u006fo" = "$.\"Type\".\"foo\"" := by
  decide +kernel


/-! # The parser is a function of the token stream: a simulation between two runs -/
/-!
# The parser is a function of the token stream, up to the spelling of tokens whose text it does not use

* `EM`, `allEM`: no parser function clears the error flag.
* `IntEq`, `TokEq`/`TokEqL` (integer literals may be respelled), `TokEqX`/`TokEqLX` (also keywords that do
  not stand after a `.`; and after a `.` a bare, a quoted and a keyword key name with the same text), `EVR` (values up to the literal text).
* `Sim`: the simulation relation between two runs, with `sim_bind`, `sim_bindR`, `sim_ite`, …;
  `SE o TS TS'` / `SA o TS TS' k`: the two states stand at the same position of the streams `TS`, `TS'`.
* `AllSim`, `allSim`: the simulation for each of the 16 functions of the mutual block (and `anyLevel`,
  `csvElem`, the constructors), by induction on the fuel.
* `sim_parseBodyX`, `sim_parseBody_pos`, `sim_parseBody`, `parse_tok_simX`, `parse_tok_sim`.
-/

/-! ## A recorded error is never cleared -/

/-- `m` never clears the error flag -/
structure EM {α : Type} (m : P α) : Prop where
  mono : ∀ s v s1, m s = .ok v s1 → s.lx.err = true → s1.lx.err = true

theorem em_pure {α : Type} (a : α) : EM (pure a : P α) := by
  constructor
  intro s v s1 h he
  rw [pure_apply] at h
  injection h with _ h2
  rw [← h2]; exact he

theorem em_syn {α : Type} : EM (syn : P α) := by constructor; intro s v s1 h; simp [syn] at h
theorem em_panic {α : Type} : EM (Parse.panic : P α) := by constructor; intro s v s1 h; simp [Parse.panic] at h
theorem em_outOfFuel {α : Type} : EM (outOfFuel : P α) := by constructor; intro s v s1 h; simp [outOfFuel] at h

theorem em_bind {α β : Type} {m : P α} {f : α → P β} (hm : EM m) (hf : ∀ a, EM (f a)) : EM (m >>= f) := by
  constructor
  intro s v s1 h he
  rw [bind_apply] at h
  cases hms : m s with
  | ok a s' =>
    rw [hms] at h
    exact (hf a).mono s' v s1 h (hm.mono s a s' hms he)
  | syn => rw [hms] at h; simp at h
  | panic => rw [hms] at h; simp at h
  | fuel => rw [hms] at h; simp at h

theorem em_consume : EM consume := by
  constructor
  intro s v s1 h he
  simp only [consume] at h
  injection h with _ h2
  rw [← h2]; exact he

theorem em_recordError : EM recordError := by
  constructor
  intro s v s1 h _
  simp only [recordError] at h
  injection h with _ h2
  rw [← h2]; rfl

theorem em_hasError : EM hasError := by
  constructor
  intro s v s1 h he
  simp only [hasError] at h
  injection h with _ h2
  rw [← h2]; exact he

theorem em_ite {α : Type} {c : Prop} [Decidable c] {a b : P α} (ha : EM a) (hb : EM b) :
    EM (if c then a else b) := by
  split
  · exact ha
  · exact hb

section
variable (o : Oracles)

theorem em_peek : EM (peek o) := ⟨fun s v s1 h he => peek_err_mono o s he v s1 h⟩

/-- prove `EM m` for a computation built from the primitives -/
syntax "em_more" : tactic
macro_rules | `(tactic| em_more) => `(tactic| exact em_pure _)
macro_rules | `(tactic| em_more) => `(tactic| exact em_syn)
macro_rules | `(tactic| em_more) => `(tactic| exact em_panic)
macro_rules | `(tactic| em_more) => `(tactic| exact em_outOfFuel)
macro_rules | `(tactic| em_more) => `(tactic| exact em_peek _)
macro_rules | `(tactic| em_more) => `(tactic| exact em_consume)
macro_rules | `(tactic| em_more) => `(tactic| exact em_recordError)
macro_rules | `(tactic| em_more) => `(tactic| exact em_hasError)

macro "em" : tactic => `(tactic| repeat' (first | em_more | apply em_bind | apply em_ite | intro _ | split))

theorem em_expect (t : Tok) : EM (expect o t) := by unfold expect; em
theorem em_astNewInteger (l : List Char) : EM (astNewInteger l) := by unfold astNewInteger; em
theorem em_astNewNumeric (l : List Char) : EM (astNewNumeric l) := by unfold astNewNumeric; em
theorem em_newInteger (l : List Char) : EM (newInteger l) := by unfold newInteger; em
theorem em_newNumeric (l : List Char) : EM (newNumeric l) := by unfold newNumeric; em
theorem em_newUnaryOrNumber (op : UnOp) (v : EV) : EM (newUnaryOrNumber op v) := by
  unfold newUnaryOrNumber
  repeat' (first | em_more | exact em_astNewInteger _ | exact em_astNewNumeric _ | split)
theorem em_mkRegex (v : EV) (p f : List Char) : EM (mkRegex o v p f) := by unfold mkRegex; em
theorem em_anyLevelOf (l : List Char) : EM (anyLevelOf l) := by unfold anyLevelOf; em

macro_rules | `(tactic| em_more) => `(tactic| exact em_expect _ _)
macro_rules | `(tactic| em_more) => `(tactic| exact em_newInteger _)
macro_rules | `(tactic| em_more) => `(tactic| exact em_newNumeric _)
macro_rules | `(tactic| em_more) => `(tactic| exact em_newUnaryOrNumber _ _)
macro_rules | `(tactic| em_more) => `(tactic| exact em_mkRegex _ _ _ _)
macro_rules | `(tactic| em_more) => `(tactic| exact em_anyLevelOf _)

theorem em_anyLevel : EM (anyLevel o) := by unfold anyLevel; em
theorem em_csvElem (t : Tok × List Char) : EM (csvElem o t) := by
  obtain ⟨k, txt⟩ := t
  unfold csvElem; em

macro_rules | `(tactic| em_more) => `(tactic| exact em_anyLevel _)
macro_rules | `(tactic| em_more) => `(tactic| exact em_csvElem _ _)

structure AllEM (f : Nat) : Prop where
  unaryT : ∀ t, EM (parseUnaryT o f t)
  unary : EM (parseUnary o f)
  scalar : ∀ t, EM (parseScalar o f t)
  accLoop : ∀ head ops, EM (accessorLoop o f head ops)
  paren : ∀ ctx, EM (parenTail o f ctx)
  atom : ∀ ctx, EM (parseAtom o f ctx)
  exists_ : EM (existsTail o f)
  exprT : ∀ ctx v, EM (exprTail o f ctx v)
  arith : ∀ v, EM (arithLoop o f v)
  mul : ∀ v, EM (mulLoop o f v)
  pred : ∀ v, EM (predLoop o f v)
  or_ : ∀ v, EM (orLoop o f v)
  accOp : ∀ t, EM (accessorOp o f t)
  index : ∀ t acc, EM (indexList o f t acc)
  csv : EM (csvList o f)
  csvM : ∀ acc, EM (csvMore o f acc)

theorem allEM_zero : AllEM o 0 := by
  constructor
  all_goals intros
  all_goals first
    | (simp only [parseUnaryT, parseUnary, parseScalar, accessorLoop, parenTail, parseAtom, existsTail, exprTail,
        arithLoop, mulLoop, predLoop, orLoop, accessorOp, indexList, csvList, csvMore]; exact em_outOfFuel)

section step
variable {f : Nat} (ih : AllEM o f)
include ih

macro "emi" : tactic => `(tactic| repeat' (first | em_more | exact AllEM.unaryT (by assumption) _ | exact AllEM.unary (by assumption) | exact AllEM.scalar (by assumption) _ | exact AllEM.accLoop (by assumption) _ _ | exact AllEM.paren (by assumption) _ | exact AllEM.atom (by assumption) _ | exact AllEM.exists_ (by assumption) | exact AllEM.exprT (by assumption) _ _ | exact AllEM.arith (by assumption) _ | exact AllEM.mul (by assumption) _ | exact AllEM.pred (by assumption) _ | exact AllEM.or_ (by assumption) _ | exact AllEM.accOp (by assumption) _ | exact AllEM.index (by assumption) _ _ | exact AllEM.csv (by assumption) | exact AllEM.csvM (by assumption) _  | apply em_bind | apply em_ite | intro _ | split))

theorem emstep_unaryT (t : Tok × List Char) : EM (parseUnaryT o (f + 1) t) := by
  obtain ⟨k, txt⟩ := t
  rw [parseUnaryT]; emi
theorem emstep_unary : EM (parseUnary o (f + 1)) := by rw [parseUnary]; emi
theorem emstep_scalar (t : Tok × List Char) : EM (parseScalar o (f + 1) t) := by
  obtain ⟨k, txt⟩ := t
  unfold parseScalar
  cases k <;> emi
theorem emstep_accLoop (head : EV) (ops : List Node) : EM (accessorLoop o (f + 1) head ops) := by
  rw [accessorLoop]; emi
theorem emstep_paren (ctx : Ctx) : EM (parenTail o (f + 1) ctx) := by unfold parenTail; emi
theorem emstep_atom (ctx : Ctx) : EM (parseAtom o (f + 1) ctx) := by unfold parseAtom; emi
theorem emstep_exists : EM (existsTail o (f + 1)) := by unfold existsTail; emi
theorem emstep_exprT (ctx : Ctx) (v : EV) : EM (exprTail o (f + 1) ctx v) := by unfold exprTail; emi
theorem emstep_arith (v : EV) : EM (arithLoop o (f + 1) v) := by unfold arithLoop; emi
theorem emstep_mul (v : EV) : EM (mulLoop o (f + 1) v) := by unfold mulLoop; emi
theorem emstep_pred (v : EV) : EM (predLoop o (f + 1) v) := by unfold predLoop; emi
theorem emstep_or (v : EV) : EM (orLoop o (f + 1) v) := by unfold orLoop; emi
theorem emstep_accOp (t : Tok) : EM (accessorOp o (f + 1) t) := by unfold accessorOp; emi
theorem emstep_index (t : Tok × List Char) (acc : List Node) : EM (indexList o (f + 1) t acc) := by
  unfold indexList; emi
theorem emstep_csv : EM (csvList o (f + 1)) := by unfold csvList; emi
theorem emstep_csvM (acc : List Node) : EM (csvMore o (f + 1) acc) := by unfold csvMore; emi

end step

theorem allEM : ∀ f, AllEM o f
  | 0 => allEM_zero o
  | f + 1 =>
    have ih := allEM f
    { unaryT := emstep_unaryT o ih
      unary := emstep_unary o ih
      scalar := emstep_scalar o ih
      accLoop := emstep_accLoop o ih
      paren := emstep_paren o ih
      atom := emstep_atom o ih
      exists_ := emstep_exists o ih
      exprT := emstep_exprT o ih
      arith := emstep_arith o ih
      mul := emstep_mul o ih
      pred := emstep_pred o ih
      or_ := emstep_or o ih
      accOp := emstep_accOp o ih
      index := emstep_index o ih
      csv := emstep_csv o ih
      csvM := emstep_csvM o ih }

end

/-! ## Tokens up to the spelling of integer literals (and of keywords that are no key names) -/

/-- integer literal texts with the same value wherever the parser evaluates them -/
def IntEq (x y : List Char) : Prop :=
  NumHead x ∧ NumHead y ∧ parseInt0 x = parseInt0 y ∧ parseIntBase0 32 x = parseIntBase0 32 y ∧
    parseInt0 (negLit x) = parseInt0 (negLit y)

/-- the keyword tokens: the parser uses their text only when they stand after a `.` (key names) -/
def isKw (t : Tok) : Bool :=
  t = .to || t = .null || t = .true_ || t = .false_ || t = .is || t = .unknown || t = .exists
  || t = .strict || t = .lax || t = .last || t = .starts || t = .with_ || t = .likeRegex || t = .flag
  || (methodOf t).isSome || t = .decimal || t = .date || t = .datetime || (precisionOp t).isSome

/-- the same token up to the spelling of an integer literal -/
def TokEq (t t' : TT) : Prop := t.1 = t'.1 ∧ (t.2 = t'.2 ∨ (t.1 = .int ∧ IntEq t.2 t'.2))

/-- pointwise `TokEq` -/
inductive TokEqL : List TT → List TT → Prop
  | nil : TokEqL [] []
  | cons {t t' : TT} {ts ts' : List TT} : TokEq t t' → TokEqL ts ts' → TokEqL (t :: ts) (t' :: ts')

/-- the same kind of token, up to the spelling of an integer literal and, unless the token stands after
    a `.` (`dot = true`), of a keyword -/
def TokEqC (dot : Bool) (t t' : TT) : Prop :=
  t.1 = t'.1 ∧ (t.2 = t'.2 ∨ (t.1 = .int ∧ IntEq t.2 t'.2) ∨ (dot = false ∧ isKw t.1 = true))

/-- `TokEqC`, or, after a `.`, two plain key names (bare, quoted, or a keyword) with the same text -/
def TokEqX (dot : Bool) (t t' : TT) : Prop :=
  (t.1 = t'.1 ∧ (t.2 = t'.2 ∨ (t.1 = .int ∧ IntEq t.2 t'.2) ∨ (dot = false ∧ isKw t.1 = true))) ∨
  (dot = true ∧ isPlainKeyName t.1 = true ∧ isPlainKeyName t'.1 = true ∧ t.2 = t'.2)

theorem TokEqC.toX {b : Bool} {t t' : TT} (h : TokEqC b t t') : TokEqX b t t' := Or.inl h

/-- where no `.` precedes, the kinds agree -/
theorem TokEqX.core {t t' : TT} (h : TokEqX false t t') : TokEqC false t t' := by
  rcases h with h | h
  · exact h
  · exact absurd h.1 (by simp)

theorem TokEqX.refl (b : Bool) (t : TT) : TokEqX b t t := Or.inl ⟨rfl, Or.inl rfl⟩

/-- the flag that `TokEqLX.cons` hands to the tail is the same whichever side it is read from -/
theorem TokEqX.dot_iff {b : Bool} {t t' : TT} (h : TokEqX b t t') : t.1 = .dot ↔ t'.1 = .dot := by
  rcases h with h | ⟨_, h1, h2, _⟩
  · rw [h.1]
  · constructor <;> intro hh
    · rw [hh] at h1; exact absurd h1 (by decide)
    · rw [hh] at h2; exact absurd h2 (by decide)

/-- pointwise `TokEqX`; `dot`: the token before the streams is a `.` (a token that is a `.` has the same
    kind on both sides, so the flag of the tail may be read from either side) -/
inductive TokEqLX : Bool → List TT → List TT → Prop
  | nil (b : Bool) : TokEqLX b [] []
  | cons {b : Bool} {t t' : TT} {ts ts' : List TT} :
      TokEqX b t t' → TokEqLX (decide (t.1 = .dot)) ts ts' → TokEqLX b (t :: ts) (t' :: ts')

theorem TokEq.toX {t t' : TT} (h : TokEq t t') (b : Bool) : TokEqX b t t' :=
  Or.inl ⟨h.1, h.2.elim Or.inl (fun h => Or.inr (Or.inl h))⟩

theorem TokEqL.toX {ts ts' : List TT} (h : TokEqL ts ts') : ∀ b, TokEqLX b ts ts' := by
  induction h with
  | nil => exact fun b => .nil b
  | cons h1 _ ih => exact fun b => .cons (h1.toX b) (ih _)

theorem TokEqC.weaken {b : Bool} {t t' : TT} (h : TokEqC b t t') : TokEqC false t t' := by
  refine ⟨h.1, ?_⟩
  rcases h.2 with h | h | h
  · exact Or.inl h
  · exact Or.inr (Or.inl h)
  · exact Or.inr (Or.inr ⟨rfl, h.2⟩)

theorem TokEqC.refl (b : Bool) (t : TT) : TokEqC b t t := ⟨rfl, Or.inl rfl⟩

/-- the text of a token that is neither an integer literal nor a keyword -/
theorem TokEqC.txt {b : Bool} {t t' : Tok} {x x' : List Char} (h : TokEqC b (t, x) (t', x'))
    (h1 : t ≠ .int) (h2 : isKw t = false) : x = x' := by
  rcases h.2 with h | h | h
  · exact h
  · exact absurd h.1 h1
  · have := h.2; simp only [h2] at this; exact absurd this (by simp)

/-- the text of a token after a `.` -/
theorem TokEqC.txt_dot {t t' : Tok} {x x' : List Char} (h : TokEqC true (t, x) (t', x'))
    (h1 : t ≠ .int) : x = x' := by
  rcases h.2 with h | h | h
  · exact h
  · exact absurd h.1 h1
  · exact absurd h.1 (by simp)

theorem TokEqC.int {b : Bool} {t' : Tok} {x x' : List Char} (h : TokEqC b (.int, x) (t', x')) :
    x = x' ∨ IntEq x x' := by
  rcases h.2 with h | h | h
  · exact Or.inl h
  · exact Or.inr h.2
  · exact absurd (show isKw Tok.int = true from h.2) (by decide)

/-! ## Values up to the spelling of the literal -/

/-- literals of an integer node that are re-parsed to the same values by `NewUnaryOrNumber` -/
def LitI (x y : List Char) : Prop := IntEq x y ∨ ∃ x0 y0, x = '-' :: x0 ∧ y = '-' :: y0 ∧ IntEq x0 y0

theorem LitI.neg {x y : List Char} (h : LitI x y) : LitI (negLit x) (negLit y) := by
  rcases h with h | ⟨x0, y0, rfl, rfl, h⟩
  · rw [numHead_negLit h.1, numHead_negLit h.2.1]
    exact Or.inr ⟨x, y, rfl, rfl, h⟩
  · exact Or.inl h

theorem LitI.parse_neg {x y : List Char} (h : LitI x y) : parseInt0 (negLit x) = parseInt0 (negLit y) := by
  rcases h with h | ⟨x0, y0, rfl, rfl, h⟩
  · exact h.2.2.2.2
  · exact h.2.2.1

/-- the same value: the same node, and literals that `NewUnaryOrNumber` cannot tell apart -/
def EVR (v v' : EV) : Prop :=
  v.node = v'.node ∧ (v.lit = v'.lit ∨ ((∃ i nx, v.node = .integer i nx) ∧ LitI v.lit v'.lit))

theorem EVR.refl (v : EV) : EVR v v := ⟨rfl, Or.inl rfl⟩

theorem EVR.of_node {n : Node} : EVR { node := n } { node := n } := ⟨rfl, Or.inl rfl⟩

theorem evr_binary (op : BinOp) {l l' r r' : EV} (hl : EVR l l') (hr : EVR r r') :
    EVR (binary op l r) (binary op l' r') := by
  refine ⟨?_, Or.inl rfl⟩
  simp only [binary, hl.1, hr.1]

theorem evr_unary (op : UnOp) {x x' : EV} (hx : EVR x x') : EVR (unary op x) (unary op x') := by
  refine ⟨?_, Or.inl rfl⟩
  simp only [unary, hx.1]

theorem appendEnd_integer (i : Int) (nx : Option Node) (t : Option Node) :
    ∃ nx', appendEnd (.integer i nx) t = .integer i nx' := by
  cases nx with
  | none => exact ⟨t, by simp [appendEnd]⟩
  | some m => exact ⟨some (appendEnd m t), by simp [appendEnd]⟩

theorem evr_linkNodes {h h' : EV} (hh : EVR h h') (ops : List Node) : EVR (linkNodes h ops) (linkNodes h' ops) := by
  unfold linkNodes
  cases ops with
  | nil => exact hh
  | cons op rest =>
    refine ⟨by simp only [hh.1], ?_⟩
    rcases hh.2 with h2 | ⟨⟨i, nx, hi⟩, h2⟩
    · exact Or.inl h2
    · refine Or.inr ⟨?_, h2⟩
      obtain ⟨nx', hnx'⟩ := appendEnd_integer i nx (chainOf (op :: rest))
      exact ⟨i, nx', by simp only [hi, hnx']⟩

/-! ## Two parser states standing before token streams that agree up to spelling -/

theorem drop_succ_of_cons {α : Type} {l r : List α} {t : α} {n : Nat} (h : l.drop n = t :: r) :
    l.drop (n + 1) = r := by
  induction l generalizing n with
  | nil => simp at h
  | cons a l ih =>
    cases n with
    | zero => simp at h; simp [h.2]
    | succ n => simp at h; simpa using ih h

section
variable (o : Oracles) (TS TS' : List TT)

/-- both states stand at the same position `k` of the streams `TS`, `TS'`, whose remainders agree up to
    spelling; `b`: the last token was a `.` -/
def SEb (b : Bool) (s s' : PS) : Prop :=
  ∃ k, TokEqLX b (TS.drop k) (TS'.drop k) ∧ StE o (TS.drop k) s ∧ StE o (TS'.drop k) s'

/-- … and the last token was no `.` (the state of affairs everywhere but inside `accessorOp`) -/
def SE (s s' : PS) : Prop := SEb o TS TS' false s s'

/-- both states have examined the next token, of kind `k` -/
def SAb (b : Bool) (k : Tok) (s s' : PS) : Prop :=
  ∃ n, TokEqLX b (TS.drop n) (TS'.drop n) ∧ StA o (TS.drop n) s ∧ StA o (TS'.drop n) s' ∧ (hd (TS.drop n)).1 = k

def SA (k : Tok) (s s' : PS) : Prop := SAb o TS TS' false k s s'

variable {o} {TS TS'}

theorem SEb.toSE {s s' : PS} (h : SEb o TS TS' false s s') : SE o TS TS' s s' := h
theorem SAb.toSA {k : Tok} {s s' : PS} (h : SAb o TS TS' false k s s') : SA o TS TS' k s s' := h
theorem SAb.toSEb {b : Bool} {k : Tok} {s s' : PS} (h : SAb o TS TS' b k s s') : SEb o TS TS' b s s' := by
  obtain ⟨n, h1, h2, h3, _⟩ := h
  exact ⟨n, h1, StE.ofA h2, StE.ofA h3⟩
theorem SA.toSE {k : Tok} {s s' : PS} (h : SA o TS TS' k s s') : SE o TS TS' s s' := SAb.toSEb h

theorem TokEqLX.hd {b : Bool} {ts ts' : List TT} (h : TokEqLX b ts ts') : TokEqX b (hd ts) (hd ts') := by
  cases h with
  | nil => exact TokEqX.refl _ _
  | cons h1 _ => exact h1

/-- a state stands before at most one token stream, as far as its end is concerned -/
theorem stE_nil_unique {ts : List TT} {s : PS} (h : StE o ts s) (h0 : StE o [] s) : ts = [] := by
  cases ts with
  | nil => rfl
  | cons tk r =>
    exfalso
    rcases h0 with ⟨h01, s0, h02, _⟩ | h0
    · rcases h with ⟨_, hns, s1, h2, _⟩ | ⟨h1, _⟩
      · rw [h02] at h2
        injection h2 with h2 _
        exact hns h2.symm
      · rw [h01] at h1; simp at h1
    · exact absurd h0 (by simp [StP])

theorem SE.nil {s s' : PS} (h : SE o TS TS' s s') (h0 : StE o [] s) : StE o [] s' := by
  obtain ⟨k, h1, h2, h3⟩ := h
  have h4 := stE_nil_unique h2 h0
  rw [h4] at h1
  generalize TS'.drop k = l' at h1 h3
  cases h1
  exact h3

theorem lStr_unique {ts ts2 : List TT} : ∀ {lx : LState}, LStr o ts lx → LStr o ts2 lx → ts = ts2 := by
  induction ts generalizing ts2 with
  | nil =>
    intro lx h h2
    cases ts2 with
    | nil => rfl
    | cons tk r =>
      obtain ⟨s0, e0, _⟩ := h
      obtain ⟨hns, s1, e1, _⟩ := h2
      rw [e0] at e1
      injection e1 with e1 _
      exact absurd e1.symm hns
  | cons tk r ih =>
    intro lx h h2
    obtain ⟨hns, s1, e1, _, hr⟩ := h
    cases ts2 with
    | nil =>
      obtain ⟨s0, e0, _⟩ := h2
      rw [e0] at e1
      injection e1 with e1 _
      exact absurd e1.symm hns
    | cons tk2 r2 =>
      obtain ⟨_, s2, e2, _, hr2⟩ := h2
      rw [e1] at e2
      injection e2 with a b
      injection b with b c
      subst c
      rw [ih hr hr2, Prod.ext a b]

/-- a state stands before exactly one token stream -/
theorem stE_unique {ts ts2 : List TT} {s : PS} (h : StE o ts s) (h2 : StE o ts2 s) : ts = ts2 := by
  rcases h with ⟨a1, a2⟩ | h
  · rcases h2 with ⟨_, b2⟩ | h2
    · exact lStr_unique a2 b2
    · cases ts2 with
      | nil => exact absurd h2 (by simp [StP])
      | cons tk2 r2 => exact absurd (a1.symm.trans h2.1) (by simp)
  · cases ts with
    | nil => exact absurd h (by simp [StP])
    | cons tk r =>
      rcases h2 with ⟨b1, _⟩ | h2
      · exact absurd (b1.symm.trans h.1) (by simp)
      · cases ts2 with
        | nil => exact absurd h2 (by simp [StP])
        | cons tk2 r2 =>
          have e : tk = tk2 := by
            have := h.1.symm.trans h2.1
            injection this
          subst e
          rw [lStr_unique h.2.2 h2.2.2]

/-! ## The simulation calculus -/

/-- whenever `m` runs from `s` to an error-free state, `m'` runs from the related state `s'`, to related
    values and states; and `m` never clears the error flag -/
structure Sim {α : Type} (Pre : PS → PS → Prop) (m m' : P α) (Post : α → α → PS → PS → Prop) : Prop where
  em : EM m
  run : ∀ s s', Pre s s' → ∀ v s1, m s = .ok v s1 → s1.lx.err = false →
    ∃ v' s1', m' s' = .ok v' s1' ∧ Post v v' s1 s1'

theorem sim_bind_core {α β : Type} {Pre : PS → PS → Prop} {Mid : α → α → PS → PS → Prop}
    {Post : β → β → PS → PS → Prop} {m m' : P α} {f f' : α → P β}
    (hm : Sim Pre m m' Mid) (hem : ∀ a, EM (f a))
    (hf : ∀ a a' s s', Mid a a' s s' → ∀ v s1, f a s = .ok v s1 → s1.lx.err = false →
      ∃ v' s1', f' a' s' = .ok v' s1' ∧ Post v v' s1 s1') :
    Sim Pre (m >>= f) (m' >>= f') Post := by
  refine ⟨em_bind hm.em hem, ?_⟩
  intro s s' hpre v s1 hrun herr
  rw [bind_apply] at hrun
  cases hms : m s with
  | ok a sm =>
    rw [hms] at hrun
    have hmid : sm.lx.err = false := by
      cases he : sm.lx.err with
      | false => rfl
      | true => rw [(hem a).mono sm v s1 hrun he] at herr; exact absurd herr (by simp)
    obtain ⟨a', sm', h1, h2⟩ := hm.run s s' hpre a sm hms hmid
    obtain ⟨v', s1', h3, h4⟩ := hf a a' sm sm' h2 v s1 hrun herr
    exact ⟨v', s1', by rw [bind_apply, h1]; exact h3, h4⟩
  | syn => rw [hms] at hrun; simp at hrun
  | panic => rw [hms] at hrun; simp at hrun
  | fuel => rw [hms] at hrun; simp at hrun

/-- a step whose values need not be related -/
theorem sim_bind {α β : Type} {Pre : PS → PS → Prop} {Mid : α → α → PS → PS → Prop}
    {Post : β → β → PS → PS → Prop} {m m' : P α} {f f' : α → P β}
    (hm : Sim Pre m m' Mid) (hf : ∀ a a', Sim (Mid a a') (f a) (f' a') Post) :
    Sim Pre (m >>= f) (m' >>= f') Post :=
  sim_bind_core hm (fun a => (hf a a).em) (fun a a' => (hf a a').run)

/-- a step whose values are related by the (reflexive) relation `R` -/
theorem sim_bindR {α β : Type} {Pre : PS → PS → Prop} {R : α → α → Prop} {Q : α → α → PS → PS → Prop}
    {Post : β → β → PS → PS → Prop} {m m' : P α} {f f' : α → P β}
    (hm : Sim Pre m m' (fun a a' s s' => R a a' ∧ Q a a' s s')) (hr : ∀ a, R a a)
    (hf : ∀ a a', R a a' → Sim (Q a a') (f a) (f' a') Post) :
    Sim Pre (m >>= f) (m' >>= f') Post :=
  sim_bind_core hm (fun a => (hf a a (hr a)).em) (fun a a' s s' h => (hf a a' h.1).run s s' h.2)

theorem sim_pre {α : Type} {Pre Pre' : PS → PS → Prop} {m m' : P α} {Post : α → α → PS → PS → Prop}
    (h : Sim Pre m m' Post) (hp : ∀ s s', Pre' s s' → Pre s s') : Sim Pre' m m' Post :=
  ⟨h.em, fun s s' hpre => h.run s s' (hp s s' hpre)⟩

theorem sim_post {α : Type} {Pre : PS → PS → Prop} {m m' : P α} {Post Post' : α → α → PS → PS → Prop}
    (h : Sim Pre m m' Post) (hp : ∀ a a' s s', Post a a' s s' → Post' a a' s s') : Sim Pre m m' Post' := by
  refine ⟨h.em, ?_⟩
  intro s s' hpre v s1 hrun herr
  obtain ⟨v', s1', h1, h2⟩ := h.run s s' hpre v s1 hrun herr
  exact ⟨v', s1', h1, hp _ _ _ _ h2⟩

theorem sim_pure {α : Type} {Pre : PS → PS → Prop} {a a' : α} {Post : α → α → PS → PS → Prop}
    (h : ∀ s s', Pre s s' → Post a a' s s') : Sim Pre (pure a : P α) (pure a') Post := by
  refine ⟨em_pure _, ?_⟩
  intro s s' hpre v s1 hrun _
  rw [pure_apply] at hrun
  injection hrun with h1 h2
  subst h1; subst h2
  exact ⟨a', s', rfl, h s s' hpre⟩

theorem sim_syn {α : Type} {Pre : PS → PS → Prop} {m' : P α} {Post : α → α → PS → PS → Prop} :
    Sim Pre (syn : P α) m' Post := ⟨em_syn, fun s s' _ v s1 h => by simp [syn] at h⟩

theorem sim_outOfFuel {α : Type} {Pre : PS → PS → Prop} {m' : P α} {Post : α → α → PS → PS → Prop} :
    Sim Pre (outOfFuel : P α) m' Post := ⟨em_outOfFuel, fun s s' _ v s1 h => by simp [outOfFuel] at h⟩

theorem sim_panic {α : Type} {Pre : PS → PS → Prop} {m' : P α} {Post : α → α → PS → PS → Prop} :
    Sim Pre (Parse.panic : P α) m' Post := ⟨em_panic, fun s s' _ v s1 h => by simp [Parse.panic] at h⟩

/-- a computation that records an error has no error-free run -/
theorem sim_recordError {α : Type} {Pre : PS → PS → Prop} {f : Unit → P α} {m' : P α}
    {Post : α → α → PS → PS → Prop} (hem : ∀ a, EM (f a)) : Sim Pre (recordError >>= f) m' Post := by
  refine ⟨em_bind em_recordError hem, ?_⟩
  intro s s' _ v s1 hrun herr
  rw [bind_apply] at hrun
  simp only [recordError] at hrun
  have := (hem ()).mono _ v s1 hrun rfl
  rw [this] at herr
  exact absurd herr (by simp)

theorem sim_ite {α : Type} {c : Prop} [Decidable c] {Pre : PS → PS → Prop} {a b a' b' : P α}
    {Post : α → α → PS → PS → Prop} (h1 : c → Sim Pre a a' Post) (h2 : ¬ c → Sim Pre b b' Post) :
    Sim Pre (if c then a else b) (if c then a' else b') Post := by
  by_cases hc : c
  · simp only [if_pos hc]; exact h1 hc
  · simp only [if_neg hc]; exact h2 hc

/-- both conditions fail (they need not be the same) -/
theorem sim_ite_neg {α : Type} {c c' : Prop} [Decidable c] [Decidable c'] {Pre : PS → PS → Prop}
    {a b a' b' : P α} {Post : α → α → PS → PS → Prop} (hc : ¬ c) (hc' : ¬ c') (h : Sim Pre b b' Post) :
    Sim Pre (if c then a else b) (if c' then a' else b') Post := by
  rw [if_neg hc, if_neg hc']; exact h

/-- both conditions hold (they need not be the same) -/
theorem sim_ite_pos {α : Type} {c c' : Prop} [Decidable c] [Decidable c'] {Pre : PS → PS → Prop}
    {a b a' b' : P α} {Post : α → α → PS → PS → Prop} (hc : c) (hc' : c') (h : Sim Pre a a' Post) :
    Sim Pre (if c then a else b) (if c' then a' else b') Post := by
  rw [if_pos hc, if_pos hc']; exact h

/-- `pure a >>= f` is `f a` -/
theorem sim_pure_bind {α β : Type} {Pre : PS → PS → Prop} {a a' : α} {f f' : α → P β}
    {Post : β → β → PS → PS → Prop} (h : Sim Pre (f a) (f' a') Post) :
    Sim Pre (pure a >>= f) (pure a' >>= f') Post := ⟨⟨h.em.mono⟩, h.run⟩

/-- the examined token, known from the branch we are in, is no `.` -/
macro "sdot" : tactic =>
  `(tactic| first
    | decide
    | (intro hd; subst hd; first
        | contradiction
        | simp_all [compOp, addOp, mulOp, methodOf, precisionOp, isPlainKeyName]))

/-! ### the primitives -/

variable (o) (TS TS')

theorem sim_peekb (b : Bool) : Sim (SEb o TS TS' b) (peek o) (peek o) (fun t t' s s' => TokEqX b t t' ∧ SAb o TS TS' b t.1 s s') := by
  refine ⟨em_peek o, ?_⟩
  intro s s' ⟨k, h1, h2, h3⟩ v s1 hrun _
  obtain ⟨s2, e2, p2⟩ := peek_any (o := o) (TS.drop k) s h2
  obtain ⟨s2', e2', p2'⟩ := peek_any (o := o) (TS'.drop k) s' h3
  rw [e2] at hrun
  injection hrun with hv hs
  subst hv; subst hs
  exact ⟨hd (TS'.drop k), s2', e2', h1.hd, k, h1, p2, p2', rfl⟩

theorem sim_peek : Sim (SE o TS TS') (peek o) (peek o) (fun t t' s s' => TokEqC false t t' ∧ SA o TS TS' t.1 s s') := by
  refine ⟨em_peek o, ?_⟩
  intro s s' hb v s1 hrun herr
  obtain ⟨v', s1', h1, h2, h3⟩ := (sim_peekb o TS TS' false).run s s' hb v s1 hrun herr
  exact ⟨v', s1', h1, h2.core, h3⟩

theorem sim_consumeb (b : Bool) (k : Tok) :
    Sim (SAb o TS TS' b k) consume consume (fun _ _ s s' => SEb o TS TS' (decide (k = .dot)) s s') := by
  refine ⟨em_consume, ?_⟩
  intro s s' ⟨n, h1, h2, h3, h4⟩ v s1 hrun _
  simp only [consume] at hrun
  injection hrun with hv hs
  subst hs
  refine ⟨(), { s' with la := none }, rfl, ?_⟩
  generalize hl : TS.drop n = l at h1 h2 h4
  generalize hl' : TS'.drop n = l' at h1 h3
  cases h1 with
  | nil =>
    refine ⟨n, by rw [hl, hl']; exact .nil _, ?_, ?_⟩
    · rw [hl]
      rcases h2 with ⟨_, h⟩ | h
      · exact Or.inl ⟨rfl, h⟩
      · exact absurd h (by simp [StP])
    · rw [hl']
      rcases h3 with ⟨_, h⟩ | h
      · exact Or.inl ⟨rfl, h⟩
      · exact absurd h (by simp [StP])
  | cons hx hr =>
    rename_i t t' r r'
    simp only [hd] at h4
    subst h4
    have e1 := drop_succ_of_cons hl
    have e2 := drop_succ_of_cons hl'
    exact ⟨n + 1, by rw [e1, e2]; exact hr, by rw [e1]; exact Or.inl ⟨rfl, h2.2.2⟩,
      by rw [e2]; exact Or.inl ⟨rfl, h3.2.2⟩⟩

/-- shifting a token that is no `.` -/
theorem sim_consumeB (b : Bool) (k : Tok) (hk : k ≠ .dot := by sdot) :
    Sim (SAb o TS TS' b k) consume consume (fun _ _ s s' => SE o TS TS' s s') := by
  have h := sim_consumeb o TS TS' b k
  rw [decide_eq_false hk] at h
  exact h

theorem sim_consume (k : Tok) (hk : k ≠ .dot := by sdot) :
    Sim (SA o TS TS' k) consume consume (fun _ _ s s' => SE o TS TS' s s') :=
  sim_consumeB o TS TS' false k hk

/-- shifting the examined token: afterwards it is known whether the last token is a `.` -/
theorem sim_consume' (k : Tok) :
    Sim (SA o TS TS' k) consume consume (fun _ _ s s' => SEb o TS TS' (decide (k = .dot)) s s') :=
  sim_consumeb o TS TS' false k

end

macro "emj" : tactic => `(tactic| repeat' (first | em_more | exact (allEM _ _).unaryT _ | exact (allEM _ _).unary | exact (allEM _ _).scalar _ | exact (allEM _ _).accLoop _ _ | exact (allEM _ _).paren _ | exact (allEM _ _).atom _ | exact (allEM _ _).exists_ | exact (allEM _ _).exprT _ _ | exact (allEM _ _).arith _ | exact (allEM _ _).mul _ | exact (allEM _ _).pred _ | exact (allEM _ _).or_ _ | exact (allEM _ _).accOp _ | exact (allEM _ _).index _ _ | exact (allEM _ _).csv | exact (allEM _ _).csvM _ | apply em_bind | apply em_ite | intro _ | split))

/-- the relation of the values of a step is reflexive -/
macro "srefl" : tactic =>
  `(tactic| (intro _; first | exact TokEqC.refl _ _ | exact TokEqX.refl _ _ | exact EVR.refl _ | rfl | exact ⟨EVR.refl _, rfl⟩))

/-- one step `m >>= f` on both sides, `h` the simulation of `m`; the values are not related -/
macro "sbind0 " h:term : tactic =>
  `(tactic| (first
    | refine sim_bind $h ?_
    | refine sim_bind (sim_pre $h (fun _ _ hh => SA.toSE hh)) ?_
    | refine sim_bind (sim_pre $h (fun _ _ hh => SEb.toSE hh)) ?_
    | refine sim_bind (sim_pre $h (fun _ _ hh => SAb.toSEb hh)) ?_
    | refine sim_bind (sim_pre $h (fun _ _ hh => SAb.toSA hh)) ?_
    | refine sim_bind (sim_pre $h (fun _ _ hh => SA.toSE (SAb.toSA hh))) ?_
    | fail "sbind0: does not fit"))

/-- one step `m >>= f` on both sides, `h` the simulation of `m`; continue with `intro a a' h` -/
macro "sbind " h:term : tactic =>
  `(tactic| (first
    | refine sim_bindR $h (by srefl) ?_
    | refine sim_bindR (sim_pre $h (fun _ _ hh => SA.toSE hh)) (by srefl) ?_
    | refine sim_bindR (sim_pre $h (fun _ _ hh => SEb.toSE hh)) (by srefl) ?_
    | refine sim_bindR (sim_pre $h (fun _ _ hh => SAb.toSEb hh)) (by srefl) ?_
    | refine sim_bindR (sim_pre $h (fun _ _ hh => SAb.toSA hh)) (by srefl) ?_
    | refine sim_bindR (sim_pre $h (fun _ _ hh => SA.toSE (SAb.toSA hh))) (by srefl) ?_
    | fail "sbind: does not fit"))

section
variable (o : Oracles) (TS TS' : List TT)

theorem sim_expect (t : Tok) (ht : t ≠ .dot := by decide) :
    Sim (SE o TS TS') (expect o t) (expect o t) (fun _ _ s s' => SE o TS TS' s s') := by
  unfold expect
  sbind sim_peek o TS TS'
  intro a a' h
  obtain ⟨k, x⟩ := a
  obtain ⟨k', x'⟩ := a'
  have hk : k = k' := h.1
  subst hk
  simp only []
  apply sim_ite
  · intro hk; subst hk; exact sim_consume o TS TS' k ht
  · intro _; exact sim_syn

end

section
variable (o : Oracles) (TS TS' : List TT)

theorem sim_newInteger {Pre : PS → PS → Prop} {x y : List Char} (h : x = y ∨ IntEq x y) :
    Sim Pre (newInteger x) (newInteger y) (fun v v' s s' => EVR v v' ∧ Pre s s') := by
  have hp : parseInt0 x = parseInt0 y := by
    rcases h with h | h
    · rw [h]
    · exact h.2.2.1
  unfold newInteger
  rw [hp]
  cases parseInt0 y with
  | some v =>
    simp only []
    refine sim_pure (fun s s' hs => ⟨⟨rfl, ?_⟩, hs⟩)
    rcases h with h | h
    · exact Or.inl h
    · exact Or.inr ⟨⟨v, none, rfl⟩, Or.inl h⟩
  | none =>
    simp only []
    exact sim_recordError (by emj)

theorem sim_anyLevelOf {Pre : PS → PS → Prop} {x y : List Char} (h : x = y ∨ IntEq x y) :
    Sim Pre (anyLevelOf x) (anyLevelOf y) (fun v v' s s' => v = v' ∧ Pre s s') := by
  have hp : parseIntBase0 32 x = parseIntBase0 32 y := by
    rcases h with h | h
    · rw [h]
    · exact h.2.2.2.1
  unfold anyLevelOf
  rw [hp]
  cases parseIntBase0 32 y with
  | some v =>
    simp only []
    exact sim_pure (fun s s' hs => ⟨rfl, hs⟩)
  | none =>
    simp only []
    exact sim_recordError (by emj)

theorem sim_newNumeric {Pre : PS → PS → Prop} (x : List Char) :
    Sim Pre (newNumeric x) (newNumeric x) (fun v v' s s' => EVR v v' ∧ Pre s s') := by
  unfold newNumeric
  cases parseFloatFinite x with
  | some v =>
    simp only []
    exact sim_pure (fun s s' hs => ⟨EVR.refl _, hs⟩)
  | none =>
    simp only []
    exact sim_recordError (by emj)

theorem sim_astNewNumeric {Pre : PS → PS → Prop} (x : List Char) :
    Sim Pre (astNewNumeric x) (astNewNumeric x) (fun v v' s s' => EVR v v' ∧ Pre s s') := by
  unfold astNewNumeric
  cases parseFloatFinite x with
  | some v =>
    simp only []
    exact sim_pure (fun s s' hs => ⟨EVR.refl _, hs⟩)
  | none =>
    simp only []
    exact sim_panic

theorem sim_astNewInteger {Pre : PS → PS → Prop} {x y : List Char} (h : x = y ∨ LitI x y) :
    Sim Pre (astNewInteger (negLit x)) (astNewInteger (negLit y)) (fun v v' s s' => EVR v v' ∧ Pre s s') := by
  have hp : parseInt0 (negLit x) = parseInt0 (negLit y) := by
    rcases h with h | h
    · rw [h]
    · exact h.parse_neg
  unfold astNewInteger
  rw [hp]
  cases parseInt0 (negLit y) with
  | some v =>
    simp only []
    refine sim_pure (fun s s' hs => ⟨⟨rfl, ?_⟩, hs⟩)
    rcases h with h | h
    · exact Or.inl (by rw [h])
    · exact Or.inr ⟨⟨v, none, rfl⟩, h.neg⟩
  | none =>
    simp only []
    exact sim_panic

theorem sim_newUnaryOrNumber {Pre : PS → PS → Prop} (op : UnOp) {v v' : EV} (h : EVR v v') :
    Sim Pre (newUnaryOrNumber op v) (newUnaryOrNumber op v') (fun v v' s s' => EVR v v' ∧ Pre s s') := by
  obtain ⟨node, lit⟩ := v
  obtain ⟨node', lit'⟩ := v'
  obtain ⟨h1, h2⟩ := h
  simp only at h1 h2
  subst h1
  have hother : Sim Pre (pure { node := .unary op (some node) none } : P EV)
      (pure { node := .unary op (some node) none }) (fun v v' s s' => EVR v v' ∧ Pre s s') :=
    sim_pure (fun s s' hs => ⟨EVR.refl _, hs⟩)
  unfold newUnaryOrNumber
  simp only []
  apply sim_ite
  · intro _
    cases node
    all_goals first
      | exact hother
      | skip
    · -- numeric
      simp only []
      apply sim_ite
      · intro _
        refine sim_pure (fun s s' hs => ⟨⟨rfl, ?_⟩, hs⟩)
        exact h2
      · intro _
        rcases h2 with h2 | ⟨⟨i, nx, hi⟩, _⟩
        · subst h2; exact sim_astNewNumeric _
        · simp at hi
    · -- integer
      simp only []
      apply sim_ite
      · intro _
        refine sim_pure (fun s s' hs => ⟨⟨rfl, ?_⟩, hs⟩)
        exact h2
      · intro _
        apply sim_astNewInteger
        rcases h2 with h2 | ⟨_, h2⟩
        · exact Or.inl h2
        · exact Or.inr h2
  · intro _
    exact hother

theorem sim_mkRegex {Pre : PS → PS → Prop} {v v' : EV} (h : EVR v v') (pat fl : List Char) :
    Sim Pre (mkRegex o v pat fl) (mkRegex o v' pat fl) (fun v v' s s' => EVR v v' ∧ Pre s s') := by
  unfold mkRegex
  simp only []
  split
  · rename_i b hb
    refine sim_pure (fun s s' hs => ⟨⟨?_, Or.inl rfl⟩, hs⟩)
    simp only [h.1]
  · exact sim_recordError (by emj)

/-- split the two tokens of a `peek` step -/
macro "stok " a:ident a':ident h:ident " with " k:ident x:ident x':ident : tactic =>
  `(tactic| (obtain ⟨$k:ident, $x:ident⟩ := $a:ident; obtain ⟨k', $x':ident⟩ := $a':ident
             have hk : $k = k' := (And.left $h); subst hk; simp only []))

theorem sim_anyLevel : Sim (SE o TS TS') (anyLevel o) (anyLevel o) (fun a a' s s' => a = a' ∧ SE o TS TS' s s') := by
  unfold anyLevel
  sbind sim_peek o TS TS'
  intro a a' h
  stok a a' h with t x x'
  apply sim_ite
  · intro ht
    subst ht
    sbind0 sim_consume o TS TS' _
    intro _ _
    sbind sim_anyLevelOf h.int
    intro n n' hn
    subst hn
    exact sim_pure (fun s s' hs => ⟨rfl, hs⟩)
  · intro _
    apply sim_ite
    · intro _
      sbind0 sim_consume o TS TS' _
      intro _ _
      exact sim_pure (fun s s' hs => ⟨rfl, hs⟩)
    · intro _; exact sim_syn

theorem sim_csvElem {t t' : TT} (h : TokEqC false t t') (hnd : t.1 ≠ .dot) :
    Sim (SA o TS TS' t.1) (csvElem o t) (csvElem o t') (fun a a' s s' => a = a' ∧ SE o TS TS' s s') := by
  stok t t' h with k x x'
  unfold csvElem
  simp only []
  apply sim_ite
  · intro ht
    subst ht
    sbind0 sim_consume o TS TS' _
    intro _ _
    sbind sim_newInteger h.int
    intro v v' hv
    exact sim_pure (fun s s' hs => ⟨hv.1, hs⟩)
  · intro _
    sbind0 sim_consume o TS TS' _ hnd
    intro _ _
    sbind sim_peek o TS TS'
    intro a a' h2
    stok a a' h2 with k2 y y'
    apply sim_ite
    · intro _; exact sim_syn
    · intro ht
      have ht : k2 = .int := by simpa using ht
      subst ht
      sbind0 sim_consume o TS TS' _
      intro _ _
      sbind sim_newInteger h2.int
      intro v v' hv
      sbind sim_newUnaryOrNumber _ hv
      intro w w' hw
      exact sim_pure (fun s s' hs => ⟨hw.1, hs⟩)

/-! ## The simulation, function by function -/

abbrev EVS : EV → EV → PS → PS → Prop := fun v v' s s' => EVR v v' ∧ SE o TS TS' s s'
abbrev EVA : EV × Tok → EV × Tok → PS → PS → Prop :=
  fun p p' s s' => (EVR p.1 p'.1 ∧ p.2 = p'.2) ∧ SA o TS TS' p.2 s s'
abbrev EqS {α : Type} : α → α → PS → PS → Prop := fun a a' s s' => a = a' ∧ SE o TS TS' s s'

def AtomRel : AtomR → AtomR → PS → PS → Prop
  | .pred v, .pred v', s, s' => EVR v v' ∧ SE o TS TS' s s'
  | .expr v t, .expr v' t', s, s' => (EVR v v' ∧ t = t') ∧ SA o TS TS' t s s'
  | _, _, _, _ => False

def PrimRel : PrimR → PrimR → PS → PS → Prop
  | .pred v, .pred v', s, s' => EVR v v' ∧ SE o TS TS' s s'
  | .expr v, .expr v', s, s' => EVR v v' ∧ SE o TS TS' s s'
  | _, _, _, _ => False

variable {o TS TS'} in
theorem sim_bind_atom {β : Type} {Pre : PS → PS → Prop} {Post : β → β → PS → PS → Prop}
    {m m' : P AtomR} {f f' : AtomR → P β} (hm : Sim Pre m m' (AtomRel o TS TS'))
    (hp : ∀ v v', EVR v v' → Sim (SE o TS TS') (f (.pred v)) (f' (.pred v')) Post)
    (he : ∀ v v' t, EVR v v' → Sim (SA o TS TS' t) (f (.expr v t)) (f' (.expr v' t)) Post) :
    Sim Pre (m >>= f) (m' >>= f') Post := by
  refine sim_bind_core hm ?_ ?_
  · intro a
    cases a with
    | pred v => exact (hp v v (EVR.refl _)).em
    | expr v t => exact (he v v t (EVR.refl _)).em
  · intro a a' s s' h
    cases a <;> cases a' <;> simp only [AtomRel] at h
    · exact (hp _ _ h.1).run s s' h.2
    · obtain ⟨⟨h1, h2⟩, h3⟩ := h
      subst h2
      exact (he _ _ _ h1).run s s' h3

variable {o TS TS'} in
theorem sim_bind_prim {β : Type} {Pre : PS → PS → Prop} {Post : β → β → PS → PS → Prop}
    {m m' : P PrimR} {f f' : PrimR → P β} (hm : Sim Pre m m' (PrimRel o TS TS'))
    (hp : ∀ v v', EVR v v' → Sim (SE o TS TS') (f (.pred v)) (f' (.pred v')) Post)
    (he : ∀ v v', EVR v v' → Sim (SE o TS TS') (f (.expr v)) (f' (.expr v')) Post) :
    Sim Pre (m >>= f) (m' >>= f') Post := by
  refine sim_bind_core hm ?_ ?_
  · intro a
    cases a with
    | pred v => exact (hp v v (EVR.refl _)).em
    | expr v => exact (he v v (EVR.refl _)).em
  · intro a a' s s' h
    cases a <;> cases a' <;> simp only [PrimRel] at h
    · exact (hp _ _ h.1).run s s' h.2
    · exact (he _ _ h.1).run s s' h.2

structure AllSim (f : Nat) : Prop where
  unaryT : ∀ t t', TokEqC false t t' → Sim (SA o TS TS' t.1) (parseUnaryT o f t) (parseUnaryT o f t') (EVS o TS TS')
  unary : Sim (SE o TS TS') (parseUnary o f) (parseUnary o f) (EVS o TS TS')
  scalar : ∀ t t', TokEqC false t t' → Sim (SA o TS TS' t.1) (parseScalar o f t) (parseScalar o f t') (EVS o TS TS')
  accLoop : ∀ h h' ops, EVR h h' → Sim (SE o TS TS') (accessorLoop o f h ops) (accessorLoop o f h' ops) (EVS o TS TS')
  paren : ∀ ctx, Sim (SE o TS TS') (parenTail o f ctx) (parenTail o f ctx) (PrimRel o TS TS')
  atom : ∀ ctx, Sim (SE o TS TS') (parseAtom o f ctx) (parseAtom o f ctx) (AtomRel o TS TS')
  exists_ : Sim (SE o TS TS') (existsTail o f) (existsTail o f) (EVS o TS TS')
  exprT : ∀ ctx v v', EVR v v' → Sim (SE o TS TS') (exprTail o f ctx v) (exprTail o f ctx v') (AtomRel o TS TS')
  arith : ∀ v v', EVR v v' → Sim (SE o TS TS') (arithLoop o f v) (arithLoop o f v') (EVA o TS TS')
  mul : ∀ v v', EVR v v' → Sim (SE o TS TS') (mulLoop o f v) (mulLoop o f v') (EVS o TS TS')
  pred : ∀ v v', EVR v v' → Sim (SE o TS TS') (predLoop o f v) (predLoop o f v') (EVA o TS TS')
  or_ : ∀ v v', EVR v v' → Sim (SE o TS TS') (orLoop o f v) (orLoop o f v') (EVS o TS TS')
  accOp : ∀ t, isAccessorStart t = true → Sim (SA o TS TS' t) (accessorOp o f t) (accessorOp o f t) (EqS o TS TS')
  index : ∀ t t' acc, TokEqC false t t' → Sim (SA o TS TS' t.1) (indexList o f t acc) (indexList o f t' acc) (EqS o TS TS')
  csv : Sim (SE o TS TS') (csvList o f) (csvList o f) (EqS o TS TS')
  csvM : ∀ acc, Sim (SE o TS TS') (csvMore o f acc) (csvMore o f acc) (EqS o TS TS')

/-- a step that returns an `AtomR`: two goals, `pred` and `expr` -/
macro "satom " h:term : tactic =>
  `(tactic| (first
    | refine sim_bind_atom $h ?_ ?_
    | refine sim_bind_atom (sim_pre $h (fun _ _ hh => SA.toSE hh)) ?_ ?_
    | refine sim_bind_atom (sim_pre $h (fun _ _ hh => SEb.toSE hh)) ?_ ?_
    | fail "satom: does not fit"))

/-- a step that returns a `PrimR`: two goals, `pred` and `expr` -/
macro "sprim " h:term : tactic =>
  `(tactic| (first
    | refine sim_bind_prim $h ?_ ?_
    | refine sim_bind_prim (sim_pre $h (fun _ _ hh => SA.toSE hh)) ?_ ?_
    | refine sim_bind_prim (sim_pre $h (fun _ _ hh => SEb.toSE hh)) ?_ ?_
    | fail "sprim: does not fit"))

theorem allSim_zero : AllSim o TS TS' 0 := by
  constructor
  all_goals intros
  all_goals first
    | (simp only [parseUnaryT, parseUnary, parseScalar, accessorLoop, parenTail, parseAtom, existsTail, exprTail,
        arithLoop, mulLoop, predLoop, orLoop, accessorOp, indexList, csvList, csvMore]; exact sim_outOfFuel)

section step
variable {f : Nat} (ih : AllSim o TS TS' f)
include ih

theorem sstep_unaryT (t t' : TT) (h : TokEqC false t t') :
    Sim (SA o TS TS' t.1) (parseUnaryT o (f + 1) t) (parseUnaryT o (f + 1) t') (EVS o TS TS') := by
  stok t t' h with k x x'
  simp only [parseUnaryT]
  apply sim_ite
  · intro _
    sbind0 sim_consume o TS TS' _
    intro _ _
    sbind ih.unary
    intro v v' hv
    exact sim_newUnaryOrNumber _ hv
  · intro _
    apply sim_ite
    · intro _
      sbind0 sim_consume o TS TS' _
      intro _ _
      sbind ih.unary
      intro v v' hv
      exact sim_newUnaryOrNumber _ hv
    · intro _
      apply sim_ite
      · intro _
        sbind0 sim_consume o TS TS' _
        intro _ _
        sprim ih.paren _
        · intro v v' _; exact sim_syn
        · intro v v' hv; exact sim_pure (fun s s' hs => ⟨hv, hs⟩)
      · intro _
        exact ih.scalar _ _ h

theorem sstep_unary : Sim (SE o TS TS') (parseUnary o (f + 1)) (parseUnary o (f + 1)) (EVS o TS TS') := by
  rw [parseUnary]
  sbind sim_peek o TS TS'
  intro a a' h
  exact ih.unaryT a a' h

theorem sstep_scalar (t t' : TT) (h : TokEqC false t t') :
    Sim (SA o TS TS' t.1) (parseScalar o (f + 1) t) (parseScalar o (f + 1) t') (EVS o TS TS') := by
  stok t t' h with k x x'
  unfold parseScalar
  have other : k ≠ .dot → ∀ (mk mk' : P EV), EM mk →
      Sim (SE o TS TS') mk mk' (fun v v' s s' => EVR v v' ∧ SE o TS TS' s s') →
      Sim (SA o TS TS' k) (do consume; let h ← mk; accessorLoop o f h []) (do consume; let h ← mk'; accessorLoop o f h [])
        (EVS o TS TS') := by
    intro hnd mk mk' hem hmk
    sbind0 sim_consume o TS TS' _ hnd
    intro _ _
    sbind hmk
    intro v v' hv
    exact ih.accLoop v v' [] hv
  have hp : ∀ n : Node, Sim (SE o TS TS') (pure { node := n } : P EV) (pure { node := n })
      (fun v v' s s' => EVR v v' ∧ SE o TS TS' s s') := fun n => sim_pure (fun s s' hs => ⟨EVR.refl _, hs⟩)
  cases k
  all_goals first
    | exact sim_syn
    | exact other (by decide) _ _ (em_pure _) (hp _)
    | skip
  · -- string
    have hx : x = x' := h.txt (by decide) (by decide)
    subst hx
    exact other (by decide) _ _ (em_pure _) (hp _)
  · -- numeric
    have hx : x = x' := h.txt (by decide) (by decide)
    subst hx
    exact other (by decide) _ _ (em_newNumeric _) (sim_newNumeric _)
  · -- int
    exact other (by decide) _ _ (em_newInteger _) (sim_newInteger h.int)
  · -- variable
    have hx : x = x' := h.txt (by decide) (by decide)
    subst hx
    exact other (by decide) _ _ (em_pure _) (hp _)

theorem sstep_accLoop (h h' : EV) (ops : List Node) (hh : EVR h h') :
    Sim (SE o TS TS') (accessorLoop o (f + 1) h ops) (accessorLoop o (f + 1) h' ops) (EVS o TS TS') := by
  rw [accessorLoop, accessorLoop]
  sbind sim_peek o TS TS'
  intro a a' ha
  stok a a' ha with t x x'
  apply sim_ite
  · intro hacc
    sbind ih.accOp t hacc
    intro op op' hop
    subst hop
    exact ih.accLoop h h' _ hh
  · intro _
    exact sim_pure (fun s s' hs => ⟨evr_linkNodes hh ops, hs.toSE⟩)

theorem sstep_paren (ctx : Ctx) : Sim (SE o TS TS') (parenTail o (f + 1) ctx) (parenTail o (f + 1) ctx) (PrimRel o TS TS') := by
  unfold parenTail
  satom ih.atom ctx
  · -- pred
    intro v0 v0' hv0
    simp only []
    sbind ih.pred v0 v0' hv0
    intro p p' hp
    obtain ⟨v, t⟩ := p
    obtain ⟨v', t'⟩ := p'
    obtain ⟨hv, ht⟩ := hp
    simp only at hv ht
    subst ht
    simp only []
    apply sim_ite
    · intro _; exact sim_syn
    · intro _
      sbind0 sim_consume o TS TS' _
      intro _ _
      sbind sim_peek o TS TS'
      intro q q' hq
      stok q q' hq with t2 y y'
      apply sim_ite
      · intro hacc
        sbind ih.accOp t2 hacc
        intro op op' hop
        subst hop
        sbind ih.accLoop v v' _ hv
        intro e e' he
        exact sim_pure (fun s s' hs => ⟨he, hs⟩)
      · intro _
        apply sim_ite
        · intro _; exact sim_syn
        · intro _
          apply sim_ite
          · intro _
            sbind0 sim_consume o TS TS' _
            intro _ _
            sbind0 sim_expect o TS TS' _
            intro _ _
            exact sim_pure (fun s s' hs => ⟨evr_unary _ hv, hs⟩)
          · intro _
            exact sim_pure (fun s s' hs => ⟨hv, hs.toSE⟩)
  · -- expr
    intro v v' t hv
    simp only []
    apply sim_ite
    · intro _; exact sim_syn
    · intro _
      sbind0 sim_consume o TS TS' _
      intro _ _
      sbind sim_peek o TS TS'
      intro q q' hq
      stok q q' hq with t2 y y'
      apply sim_ite
      · intro hacc
        sbind ih.accOp t2 hacc
        intro op op' hop
        subst hop
        sbind ih.accLoop v v' _ hv
        intro e e' he
        exact sim_pure (fun s s' hs => ⟨he, hs⟩)
      · intro _
        exact sim_pure (fun s s' hs => ⟨hv, hs.toSE⟩)

theorem sstep_exists : Sim (SE o TS TS') (existsTail o (f + 1)) (existsTail o (f + 1)) (EVS o TS TS') := by
  unfold existsTail
  sbind0 sim_expect o TS TS' _
  intro _ _
  sbind ih.unary
  intro u u' hu
  sbind ih.arith u u' hu
  intro p p' hp
  obtain ⟨e, t⟩ := p
  obtain ⟨e', t'⟩ := p'
  obtain ⟨he, ht⟩ := hp
  simp only at he ht
  subst ht
  simp only []
  apply sim_ite
  · intro _; exact sim_syn
  · intro _
    sbind0 sim_consume o TS TS' _
    intro _ _
    exact sim_pure (fun s s' hs => ⟨evr_unary _ he, hs⟩)

theorem sstep_atom (ctx : Ctx) : Sim (SE o TS TS') (parseAtom o (f + 1) ctx) (parseAtom o (f + 1) ctx) (AtomRel o TS TS') := by
  unfold parseAtom
  sbind sim_peek o TS TS'
  intro a a' ha
  have ha0 := ha
  stok a a' ha with t x x'
  apply sim_ite
  · intro _
    sbind0 sim_consume o TS TS' _
    intro _ _
    sbind sim_peek o TS TS'
    intro q q' hq
    stok q q' hq with t2 y y'
    apply sim_ite
    · intro _
      sbind0 sim_consume o TS TS' _
      intro _ _
      sbind ih.exists_
      intro v v' hv
      exact sim_pure (fun s s' hs => by simp only [AtomRel]; exact ⟨evr_unary _ hv, hs⟩)
    · intro _
      apply sim_ite
      · intro _
        sbind0 sim_consume o TS TS' _
        intro _ _
        satom ih.atom _
        · intro v0 v0' hv0
          simp only []
          sbind ih.pred v0 v0' hv0
          intro p p' hp
          obtain ⟨v, t3⟩ := p
          obtain ⟨v', t3'⟩ := p'
          obtain ⟨hv, ht⟩ := hp
          simp only at hv ht
          subst ht
          simp only []
          apply sim_ite
          · intro _; exact sim_syn
          · intro _
            sbind0 sim_consume o TS TS' _
            intro _ _
            exact sim_pure (fun s s' hs => by simp only [AtomRel]; exact ⟨evr_unary _ hv, hs⟩)
        · intro _ _ _ _; exact sim_syn
      · intro _; exact sim_syn
  · intro _
    apply sim_ite
    · intro _
      sbind0 sim_consume o TS TS' _
      intro _ _
      sbind ih.exists_
      intro v v' hv
      exact sim_pure (fun s s' hs => by simp only [AtomRel]; exact ⟨hv, hs⟩)
    · intro _
      apply sim_ite
      · intro _
        sbind0 sim_consume o TS TS' _
        intro _ _
        sprim ih.paren _
        · intro v v' hv
          exact sim_pure (fun s s' hs => by simp only [AtomRel]; exact ⟨hv, hs⟩)
        · intro v v' hv
          exact ih.exprT ctx v v' hv
      · intro _
        apply sim_ite
        · intro _; exact sim_syn
        · intro _
          sbind ih.unaryT _ _ ha0
          intro v v' hv
          exact ih.exprT ctx v v' hv

theorem sstep_arith (v v' : EV) (hv : EVR v v') :
    Sim (SE o TS TS') (arithLoop o (f + 1) v) (arithLoop o (f + 1) v') (EVA o TS TS') := by
  unfold arithLoop
  sbind sim_peek o TS TS'
  intro a a' ha
  stok a a' ha with t x x'
  split
  · sbind0 sim_consume o TS TS' _
    intro _ _
    sbind ih.unary
    intro u u' hu
    sbind ih.mul u u' hu
    intro rhs rhs' hr
    exact ih.arith _ _ (evr_binary _ hv hr)
  · split
    · sbind0 sim_consume o TS TS' _
      intro _ _
      sbind ih.unary
      intro u u' hu
      exact ih.arith _ _ (evr_binary _ hv hu)
    · exact sim_pure (fun s s' hs => ⟨⟨hv, rfl⟩, hs⟩)

theorem sstep_mul (v v' : EV) (hv : EVR v v') :
    Sim (SE o TS TS') (mulLoop o (f + 1) v) (mulLoop o (f + 1) v') (EVS o TS TS') := by
  unfold mulLoop
  sbind sim_peek o TS TS'
  intro a a' ha
  stok a a' ha with t x x'
  split
  · sbind0 sim_consume o TS TS' _
    intro _ _
    sbind ih.unary
    intro u u' hu
    exact ih.mul _ _ (evr_binary _ hv hu)
  · exact sim_pure (fun s s' hs => ⟨hv, hs.toSE⟩)

theorem sstep_pred (v v' : EV) (hv : EVR v v') :
    Sim (SE o TS TS') (predLoop o (f + 1) v) (predLoop o (f + 1) v') (EVA o TS TS') := by
  unfold predLoop
  sbind sim_peek o TS TS'
  intro a a' ha
  stok a a' ha with t x x'
  apply sim_ite
  · intro _
    sbind0 sim_consume o TS TS' _
    intro _ _
    satom ih.atom _
    · intro r r' hr
      exact ih.pred _ _ (evr_binary _ hv hr)
    · intro _ _ _ _; exact sim_syn
  · intro _
    apply sim_ite
    · intro _
      sbind0 sim_consume o TS TS' _
      intro _ _
      satom ih.atom _
      · intro r0 r0' hr0
        simp only []
        sbind ih.or_ r0 r0' hr0
        intro r r' hr
        exact ih.pred _ _ (evr_binary _ hv hr)
      · intro _ _ _ _; exact sim_syn
    · intro _
      exact sim_pure (fun s s' hs => ⟨⟨hv, rfl⟩, hs⟩)

theorem sstep_or (v v' : EV) (hv : EVR v v') :
    Sim (SE o TS TS') (orLoop o (f + 1) v) (orLoop o (f + 1) v') (EVS o TS TS') := by
  unfold orLoop
  sbind sim_peek o TS TS'
  intro a a' ha
  stok a a' ha with t x x'
  apply sim_ite
  · intro _
    sbind0 sim_consume o TS TS' _
    intro _ _
    satom ih.atom _
    · intro r r' hr
      exact ih.or_ _ _ (evr_binary _ hv hr)
    · intro _ _ _ _; exact sim_syn
  · intro _
    exact sim_pure (fun s s' hs => ⟨hv, hs.toSE⟩)

theorem sstep_exprT (ctx : Ctx) (v v' : EV) (hv : EVR v v') :
    Sim (SE o TS TS') (exprTail o (f + 1) ctx v) (exprTail o (f + 1) ctx v') (AtomRel o TS TS') := by
  unfold exprTail
  sbind ih.arith v v' hv
  intro p p' hp
  obtain ⟨lhs, t⟩ := p
  obtain ⟨lhs', t'⟩ := p'
  obtain ⟨hl, ht⟩ := hp
  simp only at hl ht
  subst ht
  simp only []
  split
  · sbind0 sim_consume o TS TS' _
    intro _ _
    sbind ih.unary
    intro u u' hu
    sbind ih.arith u u' hu
    intro q q' hq
    exact sim_pure (fun s s' hs => by simp only [AtomRel]; exact ⟨evr_binary _ hl hq.1, hs.toSE⟩)
  · apply sim_ite
    · intro _
      sbind0 sim_consume o TS TS' _
      intro _ _
      sbind0 sim_expect o TS TS' _
      intro _ _
      sbind sim_peek o TS TS'
      intro q q' hq
      stok q q' hq with t2 y y'
      apply sim_ite
      · intro ht2
        subst ht2
        have hy : y = y' := hq.txt (by decide) (by decide)
        subst hy
        sbind0 sim_consume o TS TS' _
        intro _ _
        exact sim_pure (fun s s' hs => by simp only [AtomRel]; exact ⟨evr_binary _ hl (EVR.refl _), hs⟩)
      · intro _
        apply sim_ite
        · intro ht2
          subst ht2
          have hy : y = y' := hq.txt (by decide) (by decide)
          subst hy
          sbind0 sim_consume o TS TS' _
          intro _ _
          exact sim_pure (fun s s' hs => by simp only [AtomRel]; exact ⟨evr_binary _ hl (EVR.refl _), hs⟩)
        · intro _; exact sim_syn
    · intro _
      apply sim_ite
      · intro _
        sbind0 sim_consume o TS TS' _
        intro _ _
        sbind sim_peek o TS TS'
        intro q q' hq
        stok q q' hq with t2 pat pat'
        apply sim_ite
        · intro _; exact sim_syn
        · intro ht2
          have ht2 : t2 = .string := by simpa using ht2
          subst ht2
          have hy : pat = pat' := hq.txt (by decide) (by decide)
          subst hy
          sbind0 sim_consume o TS TS' _
          intro _ _
          sbind sim_peek o TS TS'
          intro q3 q3' hq3
          stok q3 q3' hq3 with t3 z z'
          apply sim_ite
          · intro _
            sbind0 sim_consume o TS TS' _
            intro _ _
            sbind sim_peek o TS TS'
            intro q4 q4' hq4
            stok q4 q4' hq4 with t4 fl fl'
            apply sim_ite
            · intro _; exact sim_syn
            · intro ht4
              have ht4 : t4 = .string := by simpa using ht4
              subst ht4
              have hy : fl = fl' := hq4.txt (by decide) (by decide)
              subst hy
              sbind0 sim_consume o TS TS' _
              intro _ _
              sbind sim_mkRegex o hl pat fl
              intro r r' hr
              exact sim_pure (fun s s' hs => by simp only [AtomRel]; exact ⟨hr, hs⟩)
          · intro _
            sbind sim_mkRegex o hl pat []
            intro r r' hr
            exact sim_pure (fun s s' hs => by simp only [AtomRel]; exact ⟨hr, hs.toSE⟩)
      · intro _
        apply sim_ite
        · intro _; exact sim_syn
        · intro _
          exact sim_pure (fun s s' hs => by simp only [AtomRel]; exact ⟨⟨hl, trivial⟩, hs⟩)

theorem sstep_csvM (acc : List Node) : Sim (SE o TS TS') (csvMore o (f + 1) acc) (csvMore o (f + 1) acc) (EqS o TS TS') := by
  unfold csvMore
  sbind sim_peek o TS TS'
  intro a a' ha
  stok a a' ha with t x x'
  apply sim_ite
  · intro _
    sbind0 sim_consume o TS TS' _
    intro _ _
    sbind sim_peek o TS TS'
    intro q q' hq
    have hq0 := hq
    stok q q' hq with t2 y y'
    apply sim_ite
    · intro hb
      sbind sim_csvElem o TS TS' hq0 (show t2 ≠ .dot by intro hh; subst hh; simp at hb)
      intro e e' he
      subst he
      exact ih.csvM _
    · intro _; exact sim_syn
  · intro _
    exact sim_pure (fun s s' hs => ⟨rfl, hs.toSE⟩)

theorem sstep_csv : Sim (SE o TS TS') (csvList o (f + 1)) (csvList o (f + 1)) (EqS o TS TS') := by
  unfold csvList
  sbind sim_peek o TS TS'
  intro q q' hq
  have hq0 := hq
  stok q q' hq with t2 y y'
  apply sim_ite
  · intro hb
    sbind sim_csvElem o TS TS' hq0 (show t2 ≠ .dot by intro hh; subst hh; simp at hb)
    intro e e' he
    subst he
    exact ih.csvM _
  · intro _
    exact sim_pure (fun s s' hs => ⟨rfl, hs.toSE⟩)


theorem sstep_index (t t' : TT) (acc : List Node) (h : TokEqC false t t') :
    Sim (SA o TS TS' t.1) (indexList o (f + 1) t acc) (indexList o (f + 1) t' acc) (EqS o TS TS') := by
  unfold indexList
  sbind ih.unaryT t t' h
  intro u u' hu
  sbind ih.arith u u' hu
  intro p p' hp
  obtain ⟨e, t2⟩ := p
  obtain ⟨e', t2'⟩ := p'
  obtain ⟨he, ht⟩ := hp
  simp only at he ht
  subst ht
  simp only []
  have hcont : ∀ elem : Node, Sim (SE o TS TS')
      (do let __x ← peek o
          if __x.fst = Tok.comma then do
              consume
              let t4 ← peek o
              if t4.fst = Tok.stop then syn else indexList o f t4 (acc ++ [elem])
            else
              if __x.fst = Tok.rbrack then do
                consume
                pure (acc ++ [elem])
              else syn : P (List Node))
      (do let __x ← peek o
          if __x.fst = Tok.comma then do
              consume
              let t4 ← peek o
              if t4.fst = Tok.stop then syn else indexList o f t4 (acc ++ [elem])
            else
              if __x.fst = Tok.rbrack then do
                consume
                pure (acc ++ [elem])
              else syn : P (List Node)) (EqS o TS TS') := by
    intro elem
    sbind sim_peek o TS TS'
    intro q q' hq
    have hk : q.1 = q'.1 := hq.1
    rw [← hk]
    apply sim_ite
    · intro hc
      sbind0 sim_consume o TS TS' _ (by rw [hc]; decide)
      intro _ _
      sbind sim_peek o TS TS'
      intro t4 t4' h4
      have hk4 : t4.1 = t4'.1 := h4.1
      rw [← hk4]
      apply sim_ite
      · intro _; exact sim_syn
      · intro _
        exact ih.index t4 t4' _ h4
    · intro _
      apply sim_ite
      · intro hc
        sbind0 sim_consume o TS TS' _ (by rw [hc]; decide)
        intro _ _
        exact sim_pure (fun s s' hs => ⟨rfl, hs⟩)
      · intro _; exact sim_syn
  apply sim_ite
  · intro _
    sbind0 sim_consume o TS TS' _
    intro _ _
    sbind ih.unary
    intro u2 u2' hu2
    sbind ih.arith u2 u2' hu2
    intro q q' hq
    have hn : Node.binary BinOp.subscript (some e.node) (some q.fst.node) none
        = Node.binary BinOp.subscript (some e'.node) (some q'.fst.node) none := by
      rw [he.1, hq.1.1]
    rw [hn]
    apply sim_pure_bind
    exact sim_pre (hcont _) (fun _ _ hh => hh.toSE)
  · intro _
    rw [he.1]
    apply sim_pure_bind
    exact sim_pre (hcont _) (fun _ _ hh => hh.toSE)

theorem sstep_accOp (t : Tok) (ht : isAccessorStart t = true) :
    Sim (SA o TS TS' t) (accessorOp o (f + 1) t) (accessorOp o (f + 1) t) (EqS o TS TS') := by
  unfold accessorOp
  sbind0 sim_consume' o TS TS' t
  intro _ _
  apply sim_ite
  · -- filter
    intro hq
    subst hq
    show Sim (SE o TS TS') _ _ _
    sbind0 sim_expect o TS TS' _
    intro _ _
    satom ih.atom _
    · intro v0 v0' hv0
      simp only []
      sbind ih.pred v0 v0' hv0
      intro p p' hp
      obtain ⟨v, t2⟩ := p
      obtain ⟨v', t2'⟩ := p'
      obtain ⟨hv, ht2⟩ := hp
      simp only at hv ht2
      subst ht2
      simp only []
      apply sim_ite
      · intro _; exact sim_syn
      · intro _
        sbind0 sim_consume o TS TS' _
        intro _ _
        exact sim_pure (fun s s' hs => ⟨by rw [hv.1], hs⟩)
    · intro _ _ _ _; exact sim_syn
  · intro hnq
    apply sim_ite
    · -- subscript
      intro hb
      subst hb
      show Sim (SE o TS TS') _ _ _
      sbind sim_peek o TS TS'
      intro a a' ha
      have ha0 := ha
      stok a a' ha with t2 x x'
      apply sim_ite
      · intro _
        sbind0 sim_consume o TS TS' _
        intro _ _
        sbind0 sim_expect o TS TS' _
        intro _ _
        exact sim_pure (fun s s' hs => ⟨rfl, hs⟩)
      · intro _
        apply sim_ite
        · intro _; exact sim_syn
        · intro _
          sbind ih.index _ _ [] ha0
          intro subs subs' hs
          subst hs
          exact sim_pure (fun s s' hs => ⟨rfl, hs⟩)
    · -- after '.'
      intro hnb
      have hdot : t = .dot := by
        simp only [isAccessorStart, Bool.or_eq_true, decide_eq_true_eq] at ht
        rcases ht with (ht | ht) | ht
        · exact ht
        · exact absurd ht hnb
        · exact absurd ht hnq
      subst hdot
      show Sim (SEb o TS TS' true) _ _ _
      sbind sim_peekb o TS TS' true
      intro a a' ha
      rcases ha with ha | ha
      case inr =>
        -- two plain key names (bare, quoted, keyword) with the same text
        obtain ⟨_, hk, hk', hx⟩ := ha
        obtain ⟨k, x⟩ := a
        obtain ⟨k', x'⟩ := a'
        simp only [] at hk hk' hx ⊢
        subst hx
        have e1 : ∀ {k : Tok}, isPlainKeyName k = true → k ≠ .star ∧ k ≠ .any ∧ k ≠ .dot := by
          intro k h
          refine ⟨?_, ?_, ?_⟩ <;> (intro hh; rw [hh] at h; exact absurd h (by decide))
        apply sim_ite_neg (e1 hk).1 (e1 hk').1
        apply sim_ite_neg (e1 hk).2.1 (e1 hk').2.1
        apply sim_ite_pos hk hk'
        sbind0 sim_consumeB o TS TS' true k (e1 hk).2.2
        intro _ _
        exact sim_pure (fun s s' hs => ⟨rfl, hs⟩)
      have hx0 : a.1 ≠ .int → a.2 = a'.2 := by
        obtain ⟨k, x⟩ := a
        obtain ⟨k', x'⟩ := a'
        exact fun h1 => TokEqC.txt_dot ha h1
      stok a a' ha with k x x'
      simp only [] at hx0
      apply sim_ite
      · intro _
        sbind0 sim_consumeB o TS TS' true _
        intro _ _
        exact sim_pure (fun s s' hs => ⟨rfl, hs⟩)
      · intro _
        apply sim_ite
        · -- .**
          intro _
          sbind0 sim_consumeB o TS TS' true _
          intro _ _
          sbind sim_peek o TS TS'
          intro q q' hq
          stok q q' hq with t2 y y'
          apply sim_ite
          · intro _
            sbind0 sim_consume o TS TS' _
            intro _ _
            sbind sim_anyLevel o TS TS'
            intro l1 l1' hl1
            subst hl1
            sbind sim_peek o TS TS'
            intro q3 q3' hq3
            stok q3 q3' hq3 with t3 z z'
            apply sim_ite
            · intro _
              sbind0 sim_consume o TS TS' _
              intro _ _
              exact sim_pure (fun s s' hs => ⟨rfl, hs⟩)
            · intro _
              apply sim_ite
              · intro _
                sbind0 sim_consume o TS TS' _
                intro _ _
                sbind sim_anyLevel o TS TS'
                intro l2 l2' hl2
                subst hl2
                sbind0 sim_expect o TS TS' _
                intro _ _
                exact sim_pure (fun s s' hs => ⟨rfl, hs⟩)
              · intro _; exact sim_syn
          · intro _
            exact sim_pure (fun s s' hs => ⟨rfl, hs.toSE⟩)
        · intro _
          apply sim_ite
          · -- plain key name
            intro hk
            have hx : x = x' := hx0 (by intro hh; rw [hh] at hk; exact absurd hk (by decide))
            subst hx
            sbind0 sim_consumeB o TS TS' true _
            intro _ _
            exact sim_pure (fun s s' hs => ⟨rfl, hs⟩)
          · intro _
            split
            · -- method
              rename_i m hm
              have hx : x = x' := hx0 (by intro hh; rw [hh] at hm; simp [methodOf] at hm)
              subst hx
              sbind0 sim_consumeB o TS TS' true _
              intro _ _
              sbind sim_peek o TS TS'
              intro q q' hq
              stok q q' hq with t2 y y'
              apply sim_ite
              · intro _
                sbind0 sim_consume o TS TS' _
                intro _ _
                sbind0 sim_expect o TS TS' _
                intro _ _
                exact sim_pure (fun s s' hs => ⟨rfl, hs⟩)
              · intro _
                exact sim_pure (fun s s' hs => ⟨rfl, hs.toSE⟩)
            · apply sim_ite
              · -- decimal
                intro hk
                have hx : x = x' := hx0 (by rw [hk]; decide)
                subst hx
                sbind0 sim_consumeB o TS TS' true _
                intro _ _
                sbind sim_peek o TS TS'
                intro q q' hq
                stok q q' hq with t2 y y'
                apply sim_ite
                · intro _
                  sbind0 sim_consume o TS TS' _
                  intro _ _
                  sbind ih.csv
                  intro args args' hargs
                  subst hargs
                  sbind0 sim_expect o TS TS' _
                  intro _ _
                  split
                  · exact sim_pure (fun s s' hs => ⟨rfl, hs⟩)
                  · exact sim_pure (fun s s' hs => ⟨rfl, hs⟩)
                  · exact sim_pure (fun s s' hs => ⟨rfl, hs⟩)
                  · exact sim_recordError (by emj)
                · intro _
                  exact sim_pure (fun s s' hs => ⟨rfl, hs.toSE⟩)
              · intro _
                apply sim_ite
                · -- date
                  intro hk
                  have hx : x = x' := hx0 (by rw [hk]; decide)
                  subst hx
                  sbind0 sim_consumeB o TS TS' true _
                  intro _ _
                  sbind sim_peek o TS TS'
                  intro q q' hq
                  stok q q' hq with t2 y y'
                  apply sim_ite
                  · intro _
                    sbind0 sim_consume o TS TS' _
                    intro _ _
                    sbind0 sim_expect o TS TS' _
                    intro _ _
                    exact sim_pure (fun s s' hs => ⟨rfl, hs⟩)
                  · intro _
                    exact sim_pure (fun s s' hs => ⟨rfl, hs.toSE⟩)
                · intro _
                  apply sim_ite
                  · -- datetime
                    intro hk
                    have hx : x = x' := hx0 (by rw [hk]; decide)
                    subst hx
                    sbind0 sim_consumeB o TS TS' true _
                    intro _ _
                    sbind sim_peek o TS TS'
                    intro q q' hq
                    stok q q' hq with t2 y y'
                    apply sim_ite
                    · intro _
                      sbind0 sim_consume o TS TS' _
                      intro _ _
                      sbind sim_peek o TS TS'
                      intro q3 q3' hq3
                      stok q3 q3' hq3 with t3 tpl tpl'
                      apply sim_ite
                      · intro ht3
                        subst ht3
                        have hy : tpl = tpl' := hq3.txt (by decide) (by decide)
                        subst hy
                        sbind0 sim_consume o TS TS' _
                        intro _ _
                        sbind0 sim_expect o TS TS' _
                        intro _ _
                        exact sim_pure (fun s s' hs => ⟨rfl, hs⟩)
                      · intro _
                        sbind0 sim_expect o TS TS' _
                        intro _ _
                        exact sim_pure (fun s s' hs => ⟨rfl, hs⟩)
                    · intro _
                      exact sim_pure (fun s s' hs => ⟨rfl, hs.toSE⟩)
                  · intro _
                    split
                    · -- time, time_tz, timestamp, timestamp_tz
                      rename_i op hop
                      have hx : x = x' := hx0 (by intro hh; rw [hh] at hop; simp [precisionOp] at hop)
                      subst hx
                      sbind0 sim_consumeB o TS TS' true _
                      intro _ _
                      sbind sim_peek o TS TS'
                      intro q q' hq
                      stok q q' hq with t2 y y'
                      apply sim_ite
                      · intro _
                        sbind0 sim_consume o TS TS' _
                        intro _ _
                        sbind sim_peek o TS TS'
                        intro q3 q3' hq3
                        stok q3 q3' hq3 with t3 digs digs'
                        apply sim_ite
                        · intro ht3
                          subst ht3
                          sbind0 sim_consume o TS TS' _
                          intro _ _
                          sbind sim_newInteger hq3.int
                          intro pn pn' hpn
                          sbind0 sim_expect o TS TS' _
                          intro _ _
                          exact sim_pure (fun s s' hs => ⟨by rw [hpn.1], hs⟩)
                        · intro _
                          sbind0 sim_expect o TS TS' _
                          intro _ _
                          exact sim_pure (fun s s' hs => ⟨rfl, hs⟩)
                      · intro _
                        exact sim_pure (fun s s' hs => ⟨rfl, hs.toSE⟩)
                    · exact sim_syn

end step

theorem allSim : ∀ f, AllSim o TS TS' f
  | 0 => allSim_zero o TS TS'
  | f + 1 =>
    have ih := allSim f
    { unaryT := sstep_unaryT o TS TS' ih
      unary := sstep_unary o TS TS' ih
      scalar := sstep_scalar o TS TS' ih
      accLoop := sstep_accLoop o TS TS' ih
      paren := sstep_paren o TS TS' ih
      atom := sstep_atom o TS TS' ih
      exists_ := sstep_exists o TS TS' ih
      exprT := sstep_exprT o TS TS' ih
      arith := sstep_arith o TS TS' ih
      mul := sstep_mul o TS TS' ih
      pred := sstep_pred o TS TS' ih
      or_ := sstep_or o TS TS' ih
      accOp := sstep_accOp o TS TS' ih
      index := sstep_index o TS TS' ih
      csv := sstep_csv o TS TS' ih
      csvM := sstep_csvM o TS TS' ih }

end

/-! ## From the functions to `parseBody` and `Parse` -/

section
variable {o : Oracles}

theorem sim_parseBody_rel (TS TS' : List TT) (f : Nat) : Sim (SE o TS TS') (parseBody o f) (parseBody o f)
    (fun r r' s s' => (r.1 = r'.1 ∧ r.2.1 = r'.2.1 ∧ EVR r.2.2 r'.2.2) ∧ SE o TS TS' s s') := by
  have ih := allSim o TS TS' f
  unfold parseBody
  sbind sim_peek o TS TS'
  intro a a' ha
  stok a a' ha with t x x'
  have hcont : ∀ lax : Bool, Sim (SE o TS TS')
      (do let a ← parseAtom o f Ctx.top
          match a with
            | AtomR.expr v _ => pure (lax, false, v)
            | AtomR.pred v0 => do
              let __x ← predLoop o f v0
              pure (lax, true, __x.fst) : P (Bool × Bool × EV))
      (do let a ← parseAtom o f Ctx.top
          match a with
            | AtomR.expr v _ => pure (lax, false, v)
            | AtomR.pred v0 => do
              let __x ← predLoop o f v0
              pure (lax, true, __x.fst) : P (Bool × Bool × EV))
      (fun r r' s s' => (r.1 = r'.1 ∧ r.2.1 = r'.2.1 ∧ EVR r.2.2 r'.2.2) ∧ SE o TS TS' s s') := by
    intro lax
    satom ih.atom _
    · intro v0 v0' hv0
      simp only []
      sbind ih.pred v0 v0' hv0
      intro q q' hq
      exact sim_pure (fun s s' hs => ⟨⟨rfl, rfl, hq.1⟩, hs.toSE⟩)
    · intro v v' t hv
      exact sim_pure (fun s s' hs => ⟨⟨rfl, rfl, hv⟩, hs.toSE⟩)
  apply sim_ite
  · intro _
    sbind0 sim_consume o TS TS' _
    intro _ _
    apply sim_pure_bind
    exact hcont _
  · intro _
    apply sim_ite
    · intro _
      sbind0 sim_consume o TS TS' _
      intro _ _
      apply sim_pure_bind
      exact hcont _
    · intro _
      apply sim_pure_bind
      exact sim_pre (hcont _) (fun _ _ hh => hh.toSE)

/-- **Simulation.**  Two states standing before token streams that agree up to the spelling of integer
    literals and of keywords that are no key names: if `parseBody` consumes the first stream without
    error, it consumes the second, with the same mode, the same kind of result and the same tree. -/
theorem sim_parseBodyX {ts ts' : List TT} (h : TokEqLX false ts ts') {s s' : PS} (hs : StE o ts s)
    (hs' : StE o ts' s') {f : Nat} {lax p : Bool} {ev : EV} {s1 : PS}
    (hrun : parseBody o f s = .ok (lax, p, ev) s1) (hend : StE o [] s1) :
    ∃ ev' s1', parseBody o f s' = .ok (lax, p, ev') s1' ∧ ev'.node = ev.node ∧ StE o [] s1' := by
  obtain ⟨⟨lax', p', ev'⟩, s1', h1, ⟨h2, h3, h4⟩, h5⟩ :=
    (sim_parseBody_rel ts ts' f).run s s' ⟨0, h, hs, hs'⟩ _ s1 hrun (stE_nil_err hend)
  simp only at h2 h3 h4
  subst h2; subst h3
  exact ⟨ev', s1', h1, h4.1.symm, h5.nil hend⟩

/-- the same without the assumption that the stream is used up: the two runs end at the same position `k`
    of their streams -/
theorem sim_parseBody_pos {ts ts' : List TT} (h : TokEqLX false ts ts') {s s' : PS} (hs : StE o ts s)
    (hs' : StE o ts' s') {f : Nat} {lax p : Bool} {ev : EV} {s1 : PS}
    (hrun : parseBody o f s = .ok (lax, p, ev) s1) (herr : s1.lx.err = false) :
    ∃ ev' s1' k, parseBody o f s' = .ok (lax, p, ev') s1' ∧ ev'.node = ev.node ∧
      StE o (ts.drop k) s1 ∧ StE o (ts'.drop k) s1' := by
  obtain ⟨⟨lax', p', ev'⟩, s1', h1, ⟨h2, h3, h4⟩, ⟨k, _, h5, h6⟩⟩ :=
    (sim_parseBody_rel ts ts' f).run s s' ⟨0, h, hs, hs'⟩ _ s1 hrun herr
  simp only at h2 h3 h4
  subst h2; subst h3
  exact ⟨ev', s1', k, h1, h4.1.symm, h5, h6⟩

theorem sim_parseBody {ts ts' : List TT} (h : TokEqL ts ts') {s s' : PS} (hs : StE o ts s)
    (hs' : StE o ts' s') {f : Nat} {lax p : Bool} {ev : EV} {s1 : PS}
    (hrun : parseBody o f s = .ok (lax, p, ev) s1) (hend : StE o [] s1) :
    ∃ ev' s1', parseBody o f s' = .ok (lax, p, ev') s1' ∧ ev'.node = ev.node ∧ StE o [] s1' :=
  sim_parseBodyX (h.toX false) hs hs' hrun hend

/-- the initial state of `Parse` on the text `txt` stands before its tokens -/
theorem stE_init {txt : List Char} {ts : List TT} (hl : Lexes o txt ts) :
    StE o ts { lx := LState.init (utf8 txt), la := none } := by
  refine Or.inl ⟨rfl, hl _ ⟨rfl, rfl, Or.inl ⟨rfl, ?_⟩⟩⟩
  simp only [LState.init, decodeAll_utf8]

/-- if `parseBody`, from the initial state of the text `txt`, consumes the tokens and the tree is valid,
    `Parse` returns it -/
theorem parse_of_body_init (txt : List Char) (lax isPred : Bool) (root : EV) (s1 : PS)
    (e1 : parseBody o (fuelFor (utf8 txt)) { lx := LState.init (utf8 txt), la := none } = .ok (lax, isPred, root) s1)
    (p1 : StE o [] s1) (hv : validate root.node = true) :
    parse o (utf8 txt) = .ok ⟨root.node, lax, isPred⟩ := by
  have herr := stE_nil_err p1
  obtain ⟨s2, e2, p2⟩ := peek_nil (o := o) s1 p1
  have hfin : finish o lax isPred root s1 = .ok (some ⟨root.node, lax, isPred⟩) s2 := by
    unfold finish
    simp only [bind_apply, hasError, herr, Bool.false_eq_true, if_false, hv, if_true, pure_apply, e2]
    simp
    rfl
  unfold parse Parse.run parseTop
  simp only [bind_apply, e1, hfin, stE_nil_err p2]
  simp

/-- **`Parse` on a respelled text.**  If the tokens of `txt'` agree with those of `txt` up to spelling and
    `parseBody` makes the tree `root` of the tokens of `txt`, `Parse` returns `root` for `txt'`. -/
theorem parse_tok_simX {txt txt' : List Char} {ts ts' : List TT} (hl : Lexes o txt ts) (hl' : Lexes o txt' ts')
    (h : TokEqLX false ts ts') {lax p : Bool} {root : Node} {F : Nat}
    (hrun : ∀ f, F ≤ f → ∃ ev : EV, ev.node = root ∧ RunsV (StE o ts) (parseBody o f) (lax, p, ev) (StE o []))
    (hF : F ≤ fuelFor (utf8 txt')) (hv : validate root = true) :
    parse o (utf8 txt') = .ok ⟨root, lax, p⟩ := by
  obtain ⟨ev, hev, hr⟩ := hrun _ hF
  obtain ⟨s1, e1, p1⟩ := hr _ (stE_init hl)
  obtain ⟨ev', s1', e1', hn, p1'⟩ := sim_parseBodyX h (stE_init hl) (stE_init hl') e1 p1
  have := parse_of_body_init txt' lax p ev' s1' e1' p1' (by rw [hn, hev]; exact hv)
  rw [hn, hev] at this
  exact this

theorem parse_tok_sim {txt txt' : List Char} {ts ts' : List TT} (hl : Lexes o txt ts) (hl' : Lexes o txt' ts')
    (h : TokEqL ts ts') {lax p : Bool} {root : Node} {F : Nat}
    (hrun : ∀ f, F ≤ f → ∃ ev : EV, ev.node = root ∧ RunsV (StE o ts) (parseBody o f) (lax, p, ev) (StE o []))
    (hF : F ≤ fuelFor (utf8 txt')) (hv : validate root = true) :
    parse o (utf8 txt') = .ok ⟨root, lax, p⟩ :=
  parse_tok_simX hl hl' (h.toX false) hrun hF hv

end

/-! ### building `IntEq` -/

theorem IntEq.refl {x : List Char} (h : NumHead x) : IntEq x x := ⟨h, h, rfl, rfl, rfl⟩

/-- literals that `ParseUint` reads to the same magnitude, with the same verdict on underscores -/
theorem intEq_of_core {x y : List Char} (hx : NumHead x) (hy : NumHead y)
    (h : ∀ bits neg, parseIntCore bits neg x = parseIntCore bits neg y) : IntEq x y := by
  obtain ⟨c, r, hc, h1, h2, _⟩ := numHead_not_sign hx
  obtain ⟨c', r', hc', h1', h2', _⟩ := numHead_not_sign hy
  refine ⟨hx, hy, ?_, ?_, ?_⟩
  · subst hc; subst hc'
    unfold parseInt0
    rw [parseIntBase0_unsigned 64 c r h1 h2, parseIntBase0_unsigned 64 c' r' h1' h2']
    exact h 64 false
  · subst hc; subst hc'
    rw [parseIntBase0_unsigned 32 c r h1 h2, parseIntBase0_unsigned 32 c' r' h1' h2']
    exact h 32 false
  · rw [numHead_negLit hx, numHead_negLit hy]
    exact h 64 true

theorem TokEqL.refl : ∀ ts : List TT, TokEqL ts ts
  | [] => .nil
  | _ :: ts => .cons ⟨rfl, Or.inl rfl⟩ (TokEqL.refl ts)

theorem TokEqLX.refl : ∀ (b : Bool) (ts : List TT), TokEqLX b ts ts
  | b, [] => .nil b
  | b, t :: ts => .cons (TokEqX.refl b t) (TokEqLX.refl _ ts)

/-- sanity check: a hexadecimal and a decimal spelling of the same subscript -/
example : IntEq ['0', 'x', '1', 'F'] ['3', '1'] :=
  ⟨⟨'0', _, rfl, Or.inl (by decide)⟩, ⟨'3', _, rfl, Or.inl (by decide)⟩, by decide +kernel, by decide +kernel,
    by decide +kernel⟩

/-- sanity check: after a `.`, a bare key and a quoted key with the same text -/
example (x : List Char) (ts : List TT) :
    TokEqLX false ((.dot, ['.']) :: (.ident, x) :: ts) ((.dot, ['.']) :: (.string, x) :: ts) :=
  .cons (TokEqX.refl _ _) (.cons (Or.inr ⟨rfl, (by decide : isPlainKeyName Tok.ident = true),
    (by decide : isPlainKeyName Tok.string = true), rfl⟩) (TokEqLX.refl _ ts))

/-! ## Respellings that change the token text: strict layouts -/

/-- a layout in which EVERY empty separator is justified by `tolOf` (the token before tolerates the first
    character of the token after) — no knowledge of the canonical text is used -/
def LayoutStrictP : Option (List Char) → List Item → List (List Char) → Prop
  | _, [], [] => True
  | prev, it :: r, s :: ss =>
    Sep s ∧ (s = [] → prev = none ∨ ∃ p, prev = some p ∧ tolOf p it.c = true) ∧
      LayoutStrictP (some (it.c :: it.w)) r ss
  | _, _, _ => False

def LayoutStrict (items : List Item) (seps : List (List Char)) : Prop := LayoutStrictP none items seps

theorem LayoutStrictP.length {items : List Item} : ∀ {prev : Option (List Char)} {seps : List (List Char)},
    LayoutStrictP prev items seps → seps.length = items.length := by
  induction items with
  | nil => intro prev seps h; cases seps with
    | nil => rfl
    | cons _ _ => exact absurd h (by simp [LayoutStrictP])
  | cons it r ih => intro prev seps h; cases seps with
    | nil => exact absurd h (by simp [LayoutStrictP])
    | cons s ss => simp [ih h.2.2]

theorem LayoutStrictP.sep {items : List Item} : ∀ {prev : Option (List Char)} {seps : List (List Char)},
    LayoutStrictP prev items seps → ∀ s ∈ seps, Sep s := by
  induction items with
  | nil => intro prev seps h; cases seps with
    | nil => intro s hs; simp at hs
    | cons _ _ => exact absurd h (by simp [LayoutStrictP])
  | cons it r ih => intro prev seps h; cases seps with
    | nil => exact absurd h (by simp [LayoutStrictP])
    | cons s ss =>
      intro s' hs'
      simp at hs'
      rcases hs' with hs' | hs'
      · subst hs'; exact h.1
      · exact ih h.2.2 s' hs'

/-- in a strict layout every token is followed by a character it tolerates — from `ItemOK` alone; the last
    token must tolerate the end of the text (`C none`) -/
theorem gapsR_of_strict {o : Oracles} : ∀ {items : List Item}, (∀ it ∈ items, ItemOK o it ∧ it.C none) →
    ∀ {prev : Option (List Char)} {seps : List (List Char)}, LayoutStrictP prev items seps →
    ∀ x : List Char, (x = [] ∨ SepStart x.head?) → GapsR items seps x := by
  intro items
  induction items with
  | nil => intro _ prev seps _ x _; cases seps <;> trivial
  | cons it r ih =>
    intro hok prev seps hl x hx
    cases seps with
    | nil => trivial
    | cons s ss =>
      have hit := hok it (by simp)
      refine ⟨?_, ih (fun it' h' => hok it' (by simp [h'])) hl.2.2 x hx⟩
      cases r with
      | nil =>
        cases ss with
        | nil =>
          simp only [render, List.nil_append]
          rcases hx with hx | hx
          · subst hx; exact hit.2
          · exact hit.1.2.2.2.2.2.1 _ hx
        | cons _ _ => exact absurd hl.2.2 (by simp [LayoutStrictP])
      | cons it2 r2 =>
        cases ss with
        | nil => exact absurd hl.2.2 (by simp [LayoutStrictP])
        | cons s2 ss2 =>
          have hl2 := hl.2.2
          cases s2 with
          | nil =>
            rcases hl2.2.1 rfl with h | ⟨p, hp, htol⟩
            · exact absurd h (by simp)
            · injection hp with hp
              subst hp
              simp only [render, List.nil_append, List.cons_append, List.head?_cons]
              exact hit.1.2.2.2.2.2.2 _ htol
          | cons z zs =>
            have := hl2.1.head (by simp)
            simp only [render, List.cons_append, List.head?_cons] at this ⊢
            exact hit.1.2.2.2.2.2.1 _ this

/-! ## Any text with equivalent tokens parses to the same tree -/

theorem utf8_length (l : List Char) : l.length ≤ (utf8 l).length := by
  have := decodeAll_length (utf8 l)
  rw [decodeAll_utf8] at this
  simpa using this

theorem TokEqLX.length : ∀ {b : Bool} {ts ts' : List TT}, TokEqLX b ts ts' → ts.length = ts'.length := by
  intro b ts ts' h
  induction h with
  | nil _ => rfl
  | cons _ _ ih => simp [ih]

/-- the tokens of a text: run the lexer to `stopTok` -/
def toksOfAux (o : Oracles) : Nat → LState → List TT
  | 0, _ => []
  | f + 1, s => if (Lex.lex o s).1 = .stop then [] else ((Lex.lex o s).1, (Lex.lex o s).2.1) :: toksOfAux o f (Lex.lex o s).2.2

/-- **`toksOf`**: the token stream of `txt` (kind and text of each token) -/
def toksOf (o : Oracles) (txt : List Char) : List TT :=
  toksOfAux o (txt.length + 1) { rest := txt.map Src.ch, ch := none, err := false }

section
variable {o : Oracles}

theorem toksOfAux_lstr : ∀ (ts : List TT) (s : LState) (f : Nat), LStr o ts s → ts.length + 1 ≤ f →
    toksOfAux o f s = ts := by
  intro ts
  induction ts with
  | nil =>
    intro s f h hf
    obtain ⟨f', rfl⟩ : ∃ f', f = f' + 1 := ⟨f - 1, by omega⟩
    obtain ⟨s', h1, _⟩ := h
    simp [toksOfAux, h1]
  | cons tk ts ih =>
    intro s f h hf
    obtain ⟨f', rfl⟩ : ∃ f', f = f' + 1 := ⟨f - 1, by omega⟩
    obtain ⟨hns, s', h1, _, h2⟩ := h
    rw [toksOfAux]
    simp only [h1]
    rw [if_neg hns, ih s' f' h2 (by simp at hf; omega)]

/-- the stream the lexer computes is the stream of the text -/
theorem toksOf_lexes {txt : List Char} {ts : List TT} (h : Lexes o txt ts) (hlen : ts.length ≤ txt.length) :
    toksOf o txt = ts :=
  toksOfAux_lstr ts _ _ (h _ ⟨rfl, rfl, Or.inl ⟨rfl, rfl⟩⟩) (by omega)

/-- **Any text with equivalent tokens.**  If the canonical text `txt` is the tokens `toks` and `parseBody`
    makes `root` of them, then EVERY text that consists of tokens (`ItemOK`, each tolerating the end of the
    text) in a strict layout (`LayoutStrict`: every empty separator justified by `tolOf`) whose token stream is
    equivalent to `toks` (`TokEqLX`: integer literals of equal value, keywords in any case except directly
    after a dot, a bare or quoted key after a dot) parses to the same tree. -/
theorem parse_tokens_equiv (ok : OrOK o) {txt : List Char} {toks : List TT} (hseg : Seg o brk txt toks)
    (lax isPred : Bool) (root : Node)
    (hrun : ∀ f, 16 * toks.length + 8 ≤ f → ∃ ev : EV, ev.node = root ∧
      RunsV (StE o toks) (parseBody o f) (lax, isPred, ev) (StE o []))
    (hv : validate root = true)
    (items' : List Item) (hok : ∀ it ∈ items', ItemOK o it ∧ it.C none)
    (heq : TokEqLX false toks (items'.map (·.tk)))
    (seps : List (List Char)) (fin : List Char) (hl : LayoutStrict items' seps) (hfin : Sep fin) :
    parse o (utf8 (render items' seps ++ fin)) = .ok ⟨root, lax, isPred⟩ := by
  have hl0 : Lexes o txt toks := hseg.lexes o ok brk_none
  have hx : fin = [] ∨ SepStart fin.head? := by
    cases fin with
    | nil => exact Or.inl rfl
    | cons c r => exact Or.inr (hfin.head (by simp))
  have hl' := lexes_render o (ok : RoundTrip.OrOK o) items' (fun it h => (hok it h).1) seps
    (LayoutStrictP.length hl) (LayoutStrictP.sep hl) fin [] hfin.noNul (gapsR_of_strict hok hl fin hx)
    (lexes_sep o ok hfin)
  rw [List.append_nil] at hl'
  refine parse_tok_simX hl0 hl' heq hrun ?_ hv
  have h1 := heq.length
  have h2 := render_length (items := items') (seps := seps) (LayoutStrictP.length hl)
  have h3 := utf8_length (render items' seps ++ fin)
  simp only [List.length_map, List.length_append] at h1 h3
  unfold fuelFor
  omega

/-- the printed text of a tree of the class, its tokens, and the parser on them -/
theorem stage5_tokens (ok : OrOK o) (a : AST) (h : RT5 o a = true) :
    ∃ (txt : List Char) (toks : List TT), Print.toString o.isPrint a = some txt ∧ Seg o brk txt toks ∧
      validate a.root = true ∧
      ∀ f, 16 * toks.length + 8 ≤ f → ∃ ev : EV, ev.node = a.root ∧
        RunsV (StE o toks) (parseBody o f) (a.lax, a.pred, ev) (StE o []) := by
  obtain ⟨hv, txt, tk, ts, hpr, hseg, h1, h2, hrun⟩ := rootOK_stage5 ok a h
  obtain ⟨root, lax, pred⟩ := a
  refine ⟨modeTxt lax ++ txt, modeToks lax ++ tk :: ts, toString_eq _ _ _ _ _ hpr, mode_seg ok lax hseg, hv, ?_⟩
  intro f hf
  obtain ⟨ev, hev, hatom⟩ := hrun f lax (by simp only [List.length_append, List.length_cons] at hf; omega)
  exact ⟨ev, hev, mode_run lax h1 h2 hatom⟩

/-- **Class `RT5`, any equivalent token stream**: let `txt` be the printed text of `a`; every text made of
    tokens in a strict layout whose token stream is equivalent to that of `txt` parses to `a`. -/
theorem tokens_equiv_stage5 (ok : OrOK o) (a : AST) (h : RT5 o a = true) :
    ∃ txt, Print.toString o.isPrint a = some txt ∧
      ∀ (items' : List Item) (seps : List (List Char)) (fin : List Char),
        (∀ it ∈ items', ItemOK o it ∧ it.C none) → TokEqLX false (toksOf o txt) (items'.map (·.tk)) →
        LayoutStrict items' seps → Sep fin →
        parse o (utf8 (render items' seps ++ fin)) = .ok a := by
  obtain ⟨txt, toks, h1, hseg, hv, hrun⟩ := stage5_tokens ok a h
  refine ⟨txt, h1, ?_⟩
  intro items' seps fin hok heq hl hfin
  rw [toksOf_lexes (hseg.lexes o ok brk_none) hseg.2.1] at heq
  exact parse_tokens_equiv ok hseg a.lax a.pred a.root hrun hv items' hok heq seps fin hl hfin

end

/-! ## The token kinds as items (for building texts token by token) -/

/-- an item that is a token and tolerates the end of the text -/
def ItemOK' (o : Oracles) (it : Item) : Prop := ItemOK o it ∧ it.C none

theorem itemOK'_mk {o : Oracles} {C : Option Char → Prop} {c : Char} {w : List Char} {tk : TT} (sp : Bool)
    (h : TokAt o C c w tk) (hc : c.toNat ≠ 0) (hw : NoNul w) (hns : tk.1 ≠ .stop) (hws : isWhitespace c = false)
    (htol : ∀ y, SepStart y → C y) (htb : ∀ d, tolOf (c :: w) d = true → C (some d)) (hnone : C none) :
    ItemOK' o ⟨sp, c, w, tk, C⟩ := ⟨⟨h, hc, hw, hns, hws, htol, htb⟩, hnone⟩

section
variable {o : Oracles} (ok : OrOK o)
include ok

/-- `( ) [ ] { } , ? @ + - %` -/
def itSolo (sp : Bool) (c : Char) : Item := ⟨sp, c, [], T1 c, fun _ => True⟩

theorem itSolo_ok (sp : Bool) (c : Char) (hc : c ∈ solo) : ItemOK' o (itSolo sp c) := by
  have h0 : c.toNat ≠ 0 ∧ (T1 c).1 ≠ .stop ∧ isWhitespace c = false := by
    simp [solo] at hc
    rcases hc with h | h | h | h | h | h | h | h | h | h | h | h <;> subst h <;> decide
  exact itemOK'_mk sp (tokAt_solo o ok c hc) h0.1 NoNul.nil h0.2.1 h0.2.2 (fun _ _ => trivial) (fun _ _ => trivial) trivial

/-- `.` -/
def itDot (sp : Bool) : Item := ⟨sp, '.', [], tDot, fun y => isDecimalR y = false⟩

theorem itDot_ok (sp : Bool) : ItemOK' o (itDot sp) :=
  itemOK'_mk sp (by simpa [T1_dot] using tokAt_dot o ok) (by decide) NoNul.nil (by decide) (by decide)
    (fun _ h => tol_notDigit h) tolB_dot rfl

/-- `$` -/
def itDollar (sp : Bool) : Item := ⟨sp, '$', [], tDollar, fun y => y ≠ some '"' ∧ isVariableRune o y = false⟩

theorem itDollar_ok (sp : Bool) : ItemOK' o (itDollar (o := o) sp) :=
  itemOK'_mk sp (by simpa [T1_dollar] using tokAt_dollar o ok) (by decide) NoNul.nil (by decide) (by decide)
    (fun _ h => tol_dollar o ok h) (tolB_dollar o ok) ⟨by simp, rfl⟩

/-- `*` (the wildcard key or multiplication) -/
def itStar (sp : Bool) : Item := ⟨sp, '*', [], tStar, fun y => y ≠ some '*'⟩

theorem itStar_ok (sp : Bool) : ItemOK' o (itStar sp) :=
  itemOK'_mk sp (by simpa [T1_star] using tokAt_star o ok) (by decide) NoNul.nil (by decide) (by decide)
    (fun _ h => tol_star h) tolB_star (by simp)

/-- `/` -/
def itSlash (sp : Bool) : Item := ⟨sp, '/', [], (.slash, ['/']), fun y => y ≠ some '*'⟩

theorem itSlash_ok (sp : Bool) : ItemOK' o (itSlash sp) :=
  itemOK'_mk sp (tokAt_slash o ok) (by decide) NoNul.nil (by decide) (by decide) (fun _ h => tol_star h) tolB_slash (by simp)

/-- `<` -/
def itLt (sp : Bool) : Item := ⟨sp, '<', [], (.less, ['<']), fun y => y ≠ some '=' ∧ y ≠ some '>'⟩

theorem itLt_ok (sp : Bool) : ItemOK' o (itLt sp) :=
  itemOK'_mk sp (tokAt_lt o ok) (by decide) NoNul.nil (by decide) (by decide) (fun _ h => tol_lt h) tolB_lt (by simp)

/-- `>` -/
def itGt (sp : Bool) : Item := ⟨sp, '>', [], (.greater, ['>']), fun y => y ≠ some '='⟩

theorem itGt_ok (sp : Bool) : ItemOK' o (itGt sp) :=
  itemOK'_mk sp (tokAt_gt o ok) (by decide) NoNul.nil (by decide) (by decide) (fun _ h => tol_eq h) tolB_gt (by simp)

/-- `!` -/
def itBang (sp : Bool) : Item := ⟨sp, '!', [], (.not, ['!']), fun y => y ≠ some '='⟩

theorem itBang_ok (sp : Bool) : ItemOK' o (itBang sp) :=
  itemOK'_mk sp (tokAt_bang o ok) (by decide) NoNul.nil (by decide) (by decide) (fun _ h => tol_eq h) tolB_bang (by simp)

/-- `== != <= >= && || **` -/
def itTwo (sp : Bool) (c d : Char) (t : Tok) : Item := ⟨sp, c, [d], (t, []), fun _ => True⟩

theorem itTwo_ok (sp : Bool) (c d : Char) (t : Tok) (h : (c, d, t) ∈ twoOps) : ItemOK' o (itTwo sp c d t) := by
  have hd0 : d.toNat ≠ 0 ∧ c.toNat ≠ 0 ∧ t ≠ .stop ∧ isWhitespace c = false := by
    simp [twoOps] at h
    rcases h with h | h | h | h | h | h | h <;> obtain ⟨h1, h2, h3⟩ := h <;> subst h1 <;> subst h2 <;> subst h3 <;>
      decide
  exact itemOK'_mk sp (tokAt_two o ok c d t h) hd0.2.1 (NoNul.cons hd0.1 NoNul.nil) hd0.2.2.1 hd0.2.2.2
    (fun _ _ => trivial) (fun _ _ => trivial) trivial

/-- `<>` -/
def itLtGt (sp : Bool) : Item := ⟨sp, '<', ['>'], (.notEq, []), fun _ => True⟩

theorem itLtGt_ok (sp : Bool) : ItemOK' o (itLtGt sp) :=
  itemOK'_mk sp (tokAt_ltgt o ok) (by decide) (NoNul.cons (by decide) NoNul.nil) (by simp) (by decide)
    (fun _ _ => trivial) (fun _ _ => trivial) trivial

/-- a double-quoted string in any spelling -/
def itStr (sp : Bool) (body s : List Char) : Item := ⟨sp, '"', body ++ ['"'], (.string, s), fun _ => True⟩

theorem itStr_ok (sp : Bool) {body s : List Char} (h : SpellsStr body s) : ItemOK' o (itStr sp body s) :=
  itemOK'_mk sp (tokAt_string_spelled o ok h) (by decide) (h.noNul.append (NoNul.cons (by decide) NoNul.nil))
    (by simp) (by decide) (fun _ _ => trivial) (fun _ _ => trivial) trivial

/-- a variable `$"…"` in any spelling -/
def itVarQ (sp : Bool) (body s : List Char) : Item :=
  ⟨sp, '$', '"' :: (body ++ ['"']), (.variable, s), fun _ => True⟩

theorem itVarQ_ok (sp : Bool) {body s : List Char} (h : SpellsStr body s) : ItemOK' o (itVarQ sp body s) :=
  itemOK'_mk sp (tokAt_variable_spelled o ok h) (by decide)
    (NoNul.cons (by decide) (h.noNul.append (NoNul.cons (by decide) NoNul.nil))) (by simp) (by decide)
    (fun _ _ => trivial) (fun _ _ => trivial) trivial

/-- a decimal integer literal -/
def itInt (sp : Bool) (d : Char) (ds : List Char) : Item := ⟨sp, d, ds, (.int, d :: ds), EndsNumber o⟩

theorem itInt_ok (sp : Bool) (d : Char) (ds : List Char) (hd : ∀ c ∈ d :: ds, isDecimal c = true)
    (hz : d = '0' → ds = []) : ItemOK' o (itInt (o := o) sp d ds) := by
  have hdd := isDecimal_facts d (hd d (by simp))
  exact itemOK'_mk sp (tokAt_int o ok d ds hd hz) hdd.1 (fun c hc => (isDecimal_facts c (hd c (by simp [hc]))).1)
    (by simp) hdd.2.2.2.1 (fun _ h => tol_endsNumber o ok h) (tolB_nat o ok (hd d (by simp)))
    (brk_endsNumber o ok brk_none)

/-- `0x… 0o… 0b…` -/
def itIntB (sp : Bool) (p : Char) (ds : List Char) : Item := ⟨sp, '0', p :: ds, (.int, '0' :: p :: ds), EndsNumber o⟩

theorem itIntB_ok (sp : Bool) {p : Char} {base : Nat} (hp : prefixBase p = some base) {ds : List Char} {n : Nat}
    (h : BaseDigits base ds n) : ItemOK' o (itIntB (o := o) sp p ds) := by
  have hp0 : p.toNat ≠ 0 := by
    rcases prefixBase_cases hp with ⟨h1, _⟩ | ⟨h1, _⟩ | ⟨h1, _⟩ | ⟨h1, _⟩ | ⟨h1, _⟩ | ⟨h1, _⟩ <;> subst h1 <;> decide
  exact itemOK'_mk sp (tokAt_based o ok hp h) (by decide) (NoNul.cons hp0 h.noNul) (by simp) (by decide)
    (fun _ h => tol_endsNumber o ok h) (tolB_nat o ok (by decide)) (brk_endsNumber o ok brk_none)

variable (up : OrUp o)
include up

/-- a keyword in any case (not `true`, `false`, `null`) -/
def itKw (sp : Bool) (c : Char) (w : List Char) (t : Tok) : Item :=
  ⟨sp, c, w, (t, c :: w), fun y => isIdentCont o y = false⟩

theorem itKw_ok (sp : Bool) (c : Char) (w kw : List Char) (t : Tok) (hp : (kw, t) ∈ kwListAll)
    (hci : ciKw t = true) (hl : (c :: w).map lowerAscii = kw) (ht : t ≠ .stop) :
    ItemOK' o (itKw (o := o) sp c w t) := by
  have hw : ∀ x ∈ c :: w, isIdCh x = true := by
    intro x hx
    have : lowerAscii x ∈ kw := by rw [← hl]; exact List.mem_map_of_mem hx
    exact isIdCh_of_0 (isIdCh0_of_lower (kwAll_wordChars (kw, t) hp _ this))
  have hc0 : isIdCh0 c = true := by
    have : lowerAscii c ∈ kw := by rw [← hl]; simp
    exact isIdCh0_of_lower (kwAll_wordChars (kw, t) hp _ this)
  have hn := noNul_idw (c :: w) hw
  exact itemOK'_mk sp (tokAt_kw_case o ok up c w kw t hp hci hl) (NoNul.of_cons hn).1 (NoNul.of_cons hn).2 ht
    (isIdCh_plain c (hw c (by simp))).2.2 (fun _ h => tol_identCont o ok h) (tolB_idCh0 o ok hc0) rfl

/-- a bare identifier -/
def itIdent (sp : Bool) (c : Char) (w : List Char) : Item :=
  ⟨sp, c, w, (.ident, c :: w), fun y => isIdentCont o y = false⟩

theorem itIdent_ok (sp : Bool) (c : Char) (w : List Char) (hc : isIdCh0 c = true) (hw : ∀ x ∈ w, isIdCh x = true)
    (hid : identToken asciiOracles (c :: w) = .ident) : ItemOK' o (itIdent (o := o) sp c w) :=
  itemOK'_mk sp (tokAt_ident' o ok up c w hc hw hid) (isIdCh_plain c (isIdCh_of_0 hc)).1 (noNul_idw w hw) (by simp)
    (isIdCh_plain c (isIdCh_of_0 hc)).2.2 (fun _ h => tol_identCont o ok h) (tolB_idCh0 o ok hc) rfl

/-- a bare variable `$name` -/
def itVarB (sp : Bool) (n : Char) (ns : List Char) : Item :=
  ⟨sp, '$', n :: ns, (.variable, n :: ns), fun y => isVariableRune o y = false⟩

theorem itVarB_ok (sp : Bool) (n : Char) (ns : List Char) (hw : ∀ c ∈ n :: ns, isAlnum c = true) :
    ItemOK' o (itVarB (o := o) sp n ns) :=
  itemOK'_mk sp (tokAt_var o ok up n ns hw) (by decide) (fun c hc => (isAlnum_cont o ok up c (hw c hc)).2) (by simp)
    (by decide) (fun _ h => (tol_dollar o ok h).2) (tolB_var o ok (by
      intro h
      have := hw n (by simp)
      rw [h] at this
      exact absurd this (by decide))) rfl

end

/-- is `seps` a strict layout for the items (a checker for concrete instances) -/
def layoutStrictB : Option (List Char) → List Item → List (List Char) → Bool
  | _, [], [] => true
  | prev, it :: r, s :: ss =>
    sepB s.length s &&
      (!s.isEmpty || (match prev with
        | none => true
        | some p => tolOf p it.c)) && layoutStrictB (some (it.c :: it.w)) r ss
  | _, _, _ => false

theorem layoutStrictP_of_B : ∀ (items : List Item) (prev : Option (List Char)) (seps : List (List Char)),
    layoutStrictB prev items seps = true → LayoutStrictP prev items seps := by
  intro items
  induction items with
  | nil => intro prev seps h; cases seps with
    | nil => trivial
    | cons _ _ => simp [layoutStrictB] at h
  | cons it r ih =>
    intro prev seps h
    cases seps with
    | nil => simp [layoutStrictB] at h
    | cons s ss =>
      simp only [layoutStrictB, Bool.and_eq_true, Bool.or_eq_true, Bool.not_eq_true'] at h
      refine ⟨sep_of_sepB _ _ h.1.1, ?_, ih _ ss h.2⟩
      intro hs
      rcases h.1.2 with h' | h'
      · rw [hs] at h'; simp at h'
      · cases prev with
        | none => exact Or.inl rfl
        | some p => exact Or.inr ⟨p, rfl, h'⟩

theorem layoutStrict_of_B (items : List Item) (seps : List (List Char))
    (h : layoutStrictB none items seps = true) : LayoutStrict items seps := layoutStrictP_of_B items none seps h

end Layout
end Sqljson
