import Lean.Elab.Tactic
import Sqljson.Model.Api
/-!
# Fuel monotonicity of the executor model

The three dispatchers `xItem`, `xBool`, `xAny` recurse on an explicit `fuel`; at fuel 0 they set the
sticky flag `St.oof` and fail.  This file proves that a run which finished (`oof = false` in the
final state) returns exactly the same result with any larger fuel:

    n ≤ m → (xItem c n s node v f u).st.oof = false → xItem c m s node v f u = xItem c n s node v f u

and that `oof` is sticky (`oof_sticky`: a result state with `oof = false` implies that the start
state had `oof = false`).

Both facts are carried by one relation `Sim b r₁ r₂` ("`r₁` is the reference run, started with
`oof = b`; if it finished then `b = false` and the other run `r₂` returned the same").  Structure as in
`Good.lean`: one lemma per Go function ("if the recursive calls of the two runs are related, so are
the two instances of this function"), loops by `foldl_sim`, then `sim_all` by induction on the fuel.

The workhorse is `Sim.subst'`: to relate `K (call₁)` and `K (call₂)` it suffices to relate the two
calls and then to relate `K (call₁)` with itself *started from the state `call₁` returned* – which
also yields the stickiness of the rest of the function.  The tactic `fuel_call h` applies it: it finds
the right-hand call of `h : Sim b call₁ call₂` in the right-hand run and replaces it by `call₁`.

Nowhere does the model drop or restore `oof` (all restores are of context fields only), so the
statement holds without exception.
-/

namespace Sqljson
namespace Exec
namespace Fuel

/-! ## the relation -/

/-- the `oof` flag a value carries (a result's state; for a loop accumulator the state of the early
    return if there is one, else the loop state) -/
class HasOof (α : Type) where
  oofOf : α → Bool
export HasOof (oofOf)

/-- the flag of a loop accumulator with early return `ret` and loop state `st` -/
def retOof (ret : Option Res) (st : St) : Bool :=
  match ret with
  | some r => r.st.oof
  | none => st.oof

@[simp] theorem retOof_some (r : Res) (st : St) : retOof (some r) st = r.st.oof := rfl
@[simp] theorem retOof_none (st : St) : retOof none st = st.oof := rfl

instance : HasOof Res := ⟨fun r => r.st.oof⟩
instance : HasOof PRes := ⟨fun r => r.st.oof⟩
instance {β : Type} : HasOof (St × β) := ⟨fun p => p.1.oof⟩
instance : HasOof UAcc := ⟨fun a => retOof a.ret a.st⟩
instance : HasOof KVAcc := ⟨fun a => retOof a.ret a.st⟩
instance : HasOof AAcc := ⟨fun a => retOof a.ret a.st⟩
instance : HasOof IAcc := ⟨fun a => retOof a.ret a.st⟩

@[simp] theorem oofOf_res (r : Res) : oofOf r = r.st.oof := rfl
@[simp] theorem oofOf_pres (r : PRes) : oofOf r = r.st.oof := rfl
@[simp] theorem oofOf_pair {β : Type} (p : St × β) : oofOf p = p.1.oof := rfl
@[simp] theorem oofOf_uacc (a : UAcc) : oofOf a = retOof a.ret a.st := rfl
@[simp] theorem oofOf_kvacc (a : KVAcc) : oofOf a = retOof a.ret a.st := rfl
@[simp] theorem oofOf_aacc (a : AAcc) : oofOf a = retOof a.ret a.st := rfl
@[simp] theorem oofOf_iacc (a : IAcc) : oofOf a = retOof a.ret a.st := rfl

/-- `r₁` is the reference run, started with `oof = b`: if it finished (`oof = false` at the end) then
    it started with `oof = false` and the other run `r₂` returned the same -/
def Sim {α : Type} [HasOof α] (b : Bool) (r₁ r₂ : α) : Prop :=
  oofOf r₁ = false → b = false ∧ r₂ = r₁

theorem Sim.refl {α : Type} [HasOof α] {b : Bool} {r : α} (h : oofOf r = false → b = false) : Sim b r r :=
  fun h' => ⟨h h', rfl⟩

theorem Sim.mono {α : Type} [HasOof α] {b b' : Bool} {r₁ r₂ : α} (h : Sim b r₁ r₂)
    (hb : b = false → b' = false) : Sim b' r₁ r₂ :=
  fun h' => ⟨hb (h h').1, (h h').2⟩

/-- sequencing: the two runs make related calls `a₁`, `a₂` and continue with `K₂`; it suffices to
    relate the continuation of the reference run with the other run's continuation *on the reference
    run's value*, started from that value's flag -/
theorem Sim.subst' {α β : Type} [HasOof α] [HasOof β] {b b' : Bool} {a₁ a₂ : α} {R₁ : β} (K₂ : α → β)
    (hr : Sim b a₁ a₂) (hb : b = false → b' = false) (h : Sim (oofOf a₁) R₁ (K₂ a₁)) :
    Sim b' R₁ (K₂ a₂) := by
  intro h'
  obtain ⟨h1, h2⟩ := h h'
  obtain ⟨h3, h4⟩ := hr h1
  exact ⟨hb h3, by rw [h4]; exact h2⟩

def SimI (i₁ i₂ : ItemK) : Prop := ∀ s n v f u, Sim s.oof (i₁ s n v f u) (i₂ s n v f u)
def SimB (b₁ b₂ : BoolK) : Prop := ∀ s n v b, Sim s.oof (b₁ s n v b) (b₂ s n v b)
def SimA (a₁ a₂ : AnyK) : Prop :=
  ∀ s n vs f l a b i u, Sim s.oof (a₁ s n vs f l a b i u) (a₂ s n vs f l a b i u)

/-! ## tactics -/

open Lean Elab Tactic Meta in
/-- `h : Sim b call₁ call₂` (holes allowed), goal `Sim b' R₁ R₂`.  Abstracts `call₂` in `R₂` and applies
    `Sim.subst'`; new goals: `b = false → b' = false` and `Sim (oofOf call₁) R₁ R₂[call₂ := call₁]`.
    With a name, `call₁` is generalized to a variable of that name in the latter. -/
def simCallCore (h : Syntax) (name? : Option Name) : TacticM Unit := withMainContext do
  let goal ← getMainGoal
  let e ← elabTerm h none
  let t ← whnfR (← instantiateMVars (← inferType e))
  unless t.isAppOfArity ``Sim 5 do throwError "fuel_call: not a `Sim`:{indentExpr t}"
  let tgt ← whnfR (← instantiateMVars (← goal.getType))
  unless tgt.isAppOfArity ``Sim 5 do throwError "fuel_call: the goal is not a `Sim`:{indentExpr tgt}"
  let ta := t.getAppArgs
  let ga := tgt.getAppArgs
  let abs ← kabstract ga[4]! ta[4]!
  unless abs.hasLooseBVars do
    throwError "fuel_call: the call{indentExpr ta[4]!}\ndoes not occur in the right-hand run"
  let K₂ := mkLambda `x .default ta[0]! abs
  let e ← instantiateMVars e
  let a₁ ← instantiateMVars ta[3]!
  let head ← mkAppOptM ``Sim.subst' #[none, none, none, none, none, some ga[2]!, none, none, some ga[3]!,
    some K₂, some e]
  let gs ← goal.apply head
  match gs with
  | [g1, g2] =>
    let ty ← instantiateMVars (← g2.getType)
    let g2 ← g2.replaceTargetDefEq (← Core.betaReduce ty)
    match name? with
    | some name =>
      let (_, g2) ← g2.generalize #[{ expr := a₁, xName? := some name }]
      replaceMainGoal [g1, g2]
    | none => replaceMainGoal [g1, g2]
  | _ => throwError "fuel_call: unexpected goals"

elab "fuel_call_core " h:term : tactic => simCallCore h none
elab "fuel_call_core " h:term " with " x:ident : tactic => simCallCore h (some x.getId)

/-- the side goal `b = false → b' = false` of a call -/
macro "fuel_hb" : tactic =>
  `(tactic| first | exact id | (intro hh; simp_all; done) | (intro hh; split at hh <;> simp_all; done))

/-- synchronize the next call of the two runs -/
macro "fuel_call " h:term : tactic => `(tactic| (fuel_call_core $h; (· fuel_hb)))
macro "fuel_call " h:term " with " x:ident : tactic => `(tactic| (fuel_call_core $h with $x; (· fuel_hb)))

/-- both runs return the same expression; what remains is stickiness of that expression -/
macro "fuel_refl" : tactic => `(tactic| (refine Sim.refl ?_; (repeat' split) <;> (simp_all; done)))

/-- split both runs in lock step until the leaves are equal or the one call `h` away from equal -/
syntax "fuel_auto " term : tactic
macro_rules
  | `(tactic| fuel_auto $h) =>
    `(tactic| first | fuel_refl | (fuel_call $h with r; fuel_refl) | (split <;> fuel_auto $h))

/-- both runs end in related calls -/
macro "fuel_tail " h:term : tactic => `(tactic| (refine Sim.mono $h ?_; fuel_hb))

/-! ## leaves: functions that only pass the state through -/

@[simp] theorem returnVerboseError_st (s : St) (f : Found) : (returnVerboseError s f).st = s := by
  unfold returnVerboseError; split <;> rfl

@[simp] theorem returnError_st (s : St) (f : Found) (e : Err) : (returnError s f e).st = s := by
  unfold returnError; split <;> rfl

@[simp] theorem structural_st (s : St) (f : Found) : (structural s f).st = s := by
  unfold structural; split <;> simp

@[simp] theorem predicateTail_oof (c : Ctx) (s : St) (cb : Item → Item → CbOut) (ls rs : List Item) :
    (predicateTail c s cb ls rs).st.oof = s.oof := by
  unfold predicateTail
  dsimp only
  repeat' split
  all_goals rfl

@[simp] theorem kvEnter_oof (c : Ctx) (st : St) (obj : Item) : (kvEnter c st obj).oof = st.oof := rfl

theorem poll_oof {s s' : St} (h : poll s = some s') : s'.oof = s.oof := by
  unfold poll at h
  split at h
  · simp at h; subst h; rfl
  · simp at h
  · simp at h; subst h; rfl

/-- two loops whose bodies are related -/
theorem foldl_sim {α β : Type} [HasOof β] (step₁ step₂ : β → α → β)
    (h : ∀ b x, Sim (oofOf b) (step₁ b x) (step₂ b x)) (xs : List α) (b : β) :
    Sim (oofOf b) (xs.foldl step₁ b) (xs.foldl step₂ b) := by
  induction xs generalizing b with
  | nil => exact Sim.refl (fun h => h)
  | cons x xs ih =>
    simp only [List.foldl_cons]
    exact Sim.subst' (fun y => xs.foldl step₂ y) (h b x) id (ih (step₁ b x))

/-! ## one lemma per function -/

section
variable (c : Ctx) {i₁ i₂ : ItemK} {b₁ b₂ : BoolK} {a₁ a₂ : AnyK}

theorem executeItem_sim (hI : SimI i₁ i₂) (s : St) (n : Node) (v : Item) (f : Found) :
    Sim s.oof (executeItem c i₁ s n v f) (executeItem c i₂ s n v f) := hI _ _ _ _ _

theorem executeNextItem_sim (hI : SimI i₁ i₂) (s : St) (nx : Option Node) (v : Item) (f : Found) :
    Sim s.oof (executeNextItem c i₁ s nx v f) (executeNextItem c i₂ s nx v f) := by
  unfold executeNextItem
  split
  · exact executeItem_sim c hI _ _ _ _
  · fuel_refl

theorem withBaseObject_sim (s : St) (a : Nat) (i : Int) (k₁ k₂ : St → Res)
    (hk : ∀ s' : St, Sim s'.oof (k₁ s') (k₂ s')) :
    Sim s.oof (withBaseObject s a i k₁) (withBaseObject s a i k₂) := by
  unfold withBaseObject
  dsimp only
  fuel_call (hk { s with baseAddr := a, baseId := i })
  fuel_refl

theorem execLiteral_sim (hI : SimI i₁ i₂) (s : St) (nx : Option Node) (v : Item) (f : Found) :
    Sim s.oof (execLiteral c i₁ s nx v f) (execLiteral c i₂ s nx v f) := by
  unfold execLiteral
  split
  · fuel_refl
  · exact executeNextItem_sim c hI _ _ _ _

theorem execVariable_sim (hI : SimI i₁ i₂) (s : St) (name : List Char) (nx : Option Node) (f : Found) :
    Sim s.oof (execVariable c i₁ s name nx f) (execVariable c i₂ s name nx f) := by
  unfold execVariable
  split
  · exact withBaseObject_sim _ _ _ _ _ (fun s' => executeNextItem_sim c hI s' _ _ _)
  · fuel_refl

theorem unwrapTargetArray_sim (hA : SimA a₁ a₂) (s : St) (n : Node) (xs : List Item) (f : Found) :
    Sim s.oof (unwrapTargetArray a₁ s n xs f) (unwrapTargetArray a₂ s n xs f) := hA _ _ _ _ _ _ _ _ _

theorem execKeyNode_sim (hI : SimI i₁ i₂) (hA : SimA a₁ a₂) (s : St) (n : Node) (key : List Char)
    (nx : Option Node) (v : Item) (f : Found) (unwrap : Bool) :
    Sim s.oof (execKeyNode c i₁ a₁ s n key nx v f unwrap) (execKeyNode c i₂ a₂ s n key nx v f unwrap) := by
  unfold execKeyNode
  split
  · split
    · exact executeNextItem_sim c hI _ _ _ _
    · fuel_refl
  · split
    · exact hA _ _ _ _ _ _ _ _ _
    · fuel_refl
  · fuel_refl

theorem execAnyKey_sim (hA : SimA a₁ a₂) (s : St) (n : Node) (nx : Option Node) (v : Item) (f : Found)
    (unwrap : Bool) :
    Sim s.oof (execAnyKey c a₁ s n nx v f unwrap) (execAnyKey c a₂ s n nx v f unwrap) := by
  unfold execAnyKey
  split
  · exact hA _ _ _ _ _ _ _ _ _
  · split
    · exact unwrapTargetArray_sim hA _ _ _ _
    · fuel_refl
  · fuel_refl

theorem execAnyArray_sim (hI : SimI i₁ i₂) (hA : SimA a₁ a₂) (s : St) (nx : Option Node) (v : Item)
    (f : Found) : Sim s.oof (execAnyArray c i₁ a₁ s nx v f) (execAnyArray c i₂ a₂ s nx v f) := by
  unfold execAnyArray
  split
  · exact hA _ _ _ _ _ _ _ _ _
  · split
    · exact executeNextItem_sim c hI _ _ _ _
    · fuel_refl

theorem execLastConst_sim (hI : SimI i₁ i₂) (s : St) (nx : Option Node) (f : Found) :
    Sim s.oof (execLastConst c i₁ s nx f) (execLastConst c i₂ s nx f) := by
  unfold execLastConst
  split
  · fuel_refl
  · split
    · fuel_refl
    · exact executeNextItem_sim c hI _ _ _ _

theorem execConstNode_sim (hI : SimI i₁ i₂) (hA : SimA a₁ a₂) (s : St) (n : Node) (k : Const)
    (nx : Option Node) (v : Item) (f : Found) (unwrap : Bool) :
    Sim s.oof (execConstNode c i₁ a₁ s n k nx v f unwrap) (execConstNode c i₂ a₂ s n k nx v f unwrap) := by
  unfold execConstNode
  cases k <;> simp only
  all_goals first
    | exact withBaseObject_sim _ _ _ _ _ (fun s' => executeNextItem_sim c hI s' _ _ _)
    | exact executeNextItem_sim c hI _ _ _ _
    | exact execLastConst_sim c hI _ _ _
    | exact execAnyArray_sim c hI hA _ _ _ _
    | exact execAnyKey_sim c hA _ _ _ _ _ _
    | exact execLiteral_sim c hI _ _ _ _

/-! ### operand evaluation -/

theorem optUnwrapResult_sim (hI : SimI i₁ i₂) (s : St) (n : Node) (v : Item) (unwrap : Bool) (l : List Item) :
    Sim s.oof (optUnwrapResult c i₁ s n v unwrap l) (optUnwrapResult c i₂ s n v unwrap l) := by
  unfold optUnwrapResult
  split
  · dsimp only
    fuel_call (executeItem_sim c hI s n v (some [])) with r
    fuel_refl
  · exact executeItem_sim c hI _ _ _ _

theorem optUnwrapResultSilent_sim (hI : SimI i₁ i₂) (s : St) (n : Node) (v : Item) (unwrap : Bool) (f : Found) :
    Sim s.oof (optUnwrapResultSilent c i₁ s n v unwrap f) (optUnwrapResultSilent c i₂ s n v unwrap f) := by
  unfold optUnwrapResultSilent
  cases f with
  | some l =>
    dsimp only
    fuel_call (optUnwrapResult_sim c hI { s with verbose := false } n v unwrap l) with r
    fuel_refl
  | none =>
    dsimp only
    fuel_call (executeItem_sim c hI { s with verbose := false } n v none) with r
    fuel_refl

/-! ### predicates -/

theorem executePredicate_sim (hI : SimI i₁ i₂) (s : St) (left : Node) (right : Option Node) (v : Item)
    (unwrapRight : Bool) (cb : Item → Item → CbOut) :
    Sim s.oof (executePredicate c i₁ s left right v unwrapRight cb)
      (executePredicate c i₂ s left right v unwrapRight cb) := by
  unfold executePredicate
  dsimp only
  fuel_call (optUnwrapResultSilent_sim c hI s left v true (some [])) with rl
  split
  · fuel_refl
  · split
    · fuel_call (optUnwrapResultSilent_sim c hI rl.st _ v unwrapRight (some [])) with rr
      fuel_refl
    · fuel_refl

theorem executeBinaryBoolItem_sim (hI : SimI i₁ i₂) (hB : SimB b₁ b₂) (s : St) (op : BinOp)
    (l r : Option Node) (v : Item) :
    Sim s.oof (executeBinaryBoolItem c i₁ b₁ s op l r v) (executeBinaryBoolItem c i₂ b₂ s op l r v) := by
  unfold executeBinaryBoolItem
  split
  · fuel_refl
  · rename_i ln
    split
    · split
      · fuel_refl
      · rename_i rn
        dsimp only
        fuel_call (hB s ln v false) with a
        split
        · fuel_refl
        · fuel_call (hB a.st rn v false) with b
          fuel_refl
    · split
      · fuel_refl
      · rename_i rn
        dsimp only
        fuel_call (hB s ln v false) with a
        split
        · fuel_refl
        · fuel_call (hB a.st rn v false) with b
          fuel_refl
    · exact executePredicate_sim c hI _ _ _ _ _ _
    · split
      · exact executePredicate_sim c hI _ _ _ _ _ _
      · fuel_refl

theorem executeUnaryBoolItem_sim (hI : SimI i₁ i₂) (hB : SimB b₁ b₂) (s : St) (op : UnOp)
    (x : Option Node) (v : Item) :
    Sim s.oof (executeUnaryBoolItem c i₁ b₁ s op x v) (executeUnaryBoolItem c i₂ b₂ s op x v) := by
  unfold executeUnaryBoolItem
  split
  · rename_i xn
    dsimp only
    fuel_call (hB s xn v false) with a
    fuel_refl
  · rename_i xn
    dsimp only
    fuel_call (hB s xn v false) with a
    fuel_refl
  · rename_i xn
    split
    · dsimp only
      fuel_call (optUnwrapResultSilent_sim c hI s xn v false (some [])) with r
      fuel_refl
    · dsimp only
      fuel_call (optUnwrapResultSilent_sim c hI s xn v false none) with r
      fuel_refl
  · fuel_refl
  · fuel_refl
  · fuel_refl
  · fuel_refl

theorem executeBoolItem_sim (hI : SimI i₁ i₂) (hB : SimB b₁ b₂) (s : St) (n : Node) (v : Item) (chn : Bool) :
    Sim s.oof (executeBoolItem c i₁ b₁ s n v chn) (executeBoolItem c i₂ b₂ s n v chn) := by
  unfold executeBoolItem
  split
  · fuel_refl
  · split
    · exact executeBinaryBoolItem_sim c hI hB _ _ _ _ _
    · exact executeUnaryBoolItem_sim c hI hB _ _ _ _
    · exact executePredicate_sim c hI _ _ _ _ _ _
    · fuel_refl

theorem appendBoolResult_sim (hI : SimI i₁ i₂) (nx : Option Node) (f : Found) (p : PRes) :
    Sim p.st.oof (appendBoolResult c i₁ nx f p) (appendBoolResult c i₂ nx f p) := by
  unfold appendBoolResult
  split
  · fuel_refl
  · split
    · fuel_refl
    · exact executeNextItem_sim c hI _ _ _ _

/-- `appendBoolResult` applied to related predicate runs -/
theorem appendBoolResult_sim' (hI : SimI i₁ i₂) (nx : Option Node) (f : Found) {b : Bool} {p₁ p₂ : PRes}
    (hp : Sim b p₁ p₂) : Sim b (appendBoolResult c i₁ nx f p₁) (appendBoolResult c i₂ nx f p₂) :=
  Sim.subst' (fun p => appendBoolResult c i₂ nx f p) hp id (appendBoolResult_sim c hI nx f p₁)

theorem executeNestedBoolItem_sim (hB : SimB b₁ b₂) (s : St) (n : Node) (v : Item) :
    Sim s.oof (executeNestedBoolItem b₁ s n v) (executeNestedBoolItem b₂ s n v) := by
  unfold executeNestedBoolItem
  dsimp only
  fuel_call (hB { s with current := v } n v false) with r
  fuel_refl

/-! ### arithmetic -/

theorem unaryStep_sim (hI : SimI i₁ i₂) (cb : Num.UCallback) (nx : Option Node) (a : UAcc) (v : Item) :
    Sim (oofOf a) (unaryStep c i₁ cb nx a v) (unaryStep c i₂ cb nx a v) := by
  unfold unaryStep
  split
  · exact Sim.refl (fun h => h)
  · dsimp only
    fuel_auto (executeNextItem_sim c hI a.st nx _ a.found)

theorem execUnaryMathExpr_sim (hI : SimI i₁ i₂) (s : St) (operand nx : Option Node) (v : Item)
    (cb : Num.UCallback) (f : Found) :
    Sim s.oof (execUnaryMathExpr c i₁ s operand nx v cb f) (execUnaryMathExpr c i₂ s operand nx v cb f) := by
  unfold execUnaryMathExpr
  split
  · fuel_refl
  · rename_i x
    dsimp only
    fuel_call (optUnwrapResult_sim c hI s x v true []) with r
    split
    · fuel_refl
    · fuel_call (foldl_sim _ _ (fun a v => unaryStep_sim c hI cb nx a v) (r.found.getD [])
        ⟨r.st, f, .notFound, none⟩) with a
      fuel_refl

theorem execBinaryMathExpr_sim (hI : SimI i₁ i₂) (s : St) (op : BinOp) (l r nx : Option Node) (v : Item)
    (f : Found) :
    Sim s.oof (execBinaryMathExpr c i₁ s op l r nx v f) (execBinaryMathExpr c i₂ s op l r nx v f) := by
  unfold execBinaryMathExpr
  split
  · rename_i ln rn
    dsimp only
    fuel_call (optUnwrapResult_sim c hI s ln v true []) with rl
    split
    · fuel_refl
    · split
      · fuel_call (optUnwrapResult_sim c hI rl.st rn v true []) with rr
        split
        · fuel_refl
        · split
          · split
            · fuel_refl
            · split
              · fuel_refl
              · split
                · fuel_refl
                · fuel_tail (executeNextItem_sim c hI _ _ _ _)
          · fuel_refl
      · fuel_refl
  · fuel_refl

/-! ### item methods -/

theorem execMethodSize_sim (hI : SimI i₁ i₂) (s : St) (nx : Option Node) (v : Item) (f : Found) :
    Sim s.oof (execMethodSize c i₁ s nx v f) (execMethodSize c i₂ s nx v f) := by
  unfold execMethodSize
  split
  · exact executeNextItem_sim c hI _ _ _ _
  · split
    · fuel_refl
    · exact executeNextItem_sim c hI _ _ _ _

theorem execConvMethod_sim (hI : SimI i₁ i₂) (hA : SimA a₁ a₂) (s : St) (n : Node) (nx : Option Node)
    (v : Item) (f : Found) (unwrap : Bool) (conv : Item → Conv) :
    Sim s.oof (execConvMethod c i₁ a₁ s n nx v f unwrap conv) (execConvMethod c i₂ a₂ s n nx v f unwrap conv) := by
  unfold execConvMethod
  split
  · split
    · exact unwrapTargetArray_sim hA _ _ _ _
    · fuel_refl
  · split
    · exact executeNextItem_sim c hI _ _ _ _
    · fuel_refl
    · fuel_refl
    · fuel_refl

theorem executeDateTimeMethod_sim (hI : SimI i₁ i₂) (s : St) (op : UnOp) (arg nx : Option Node) (v : Item)
    (f : Found) :
    Sim s.oof (executeDateTimeMethod c i₁ s op arg nx v f) (executeDateTimeMethod c i₂ s op arg nx v f) := by
  unfold executeDateTimeMethod
  split
  · dsimp only
    split
    · fuel_refl
    · split
      · fuel_refl
      · split
        · fuel_refl
        · exact executeNextItem_sim c hI _ _ _ _
  · fuel_refl

theorem kvStep_sim (hI : SimI i₁ i₂) (nx : Option Node) (id : Int) (a : KVAcc) (kv : List Char × Item) :
    Sim (oofOf a) (kvStep c i₁ nx id a kv) (kvStep c i₂ nx id a kv) := by
  unfold kvStep
  split
  · exact Sim.refl (fun h => h)
  · dsimp only
    fuel_call (executeNextItem_sim c hI (kvEnter c a.st (kvObj id kv)) nx (kvObj id kv) a.found) with r
    fuel_refl

theorem executeKeyValueMethod_sim (hI : SimI i₁ i₂) (hA : SimA a₁ a₂) (s : St) (n : Node) (nx : Option Node)
    (v : Item) (f : Found) (unwrap : Bool) :
    Sim s.oof (executeKeyValueMethod c i₁ a₁ s n nx v f unwrap)
      (executeKeyValueMethod c i₂ a₂ s n nx v f unwrap) := by
  unfold executeKeyValueMethod
  split
  · split
    · exact unwrapTargetArray_sim hA _ _ _ _
    · fuel_refl
  · rename_i kvs
    split
    · fuel_refl
    · split
      · fuel_refl
      · dsimp only
        fuel_call (foldl_sim _ _ (fun a kv => kvStep_sim c hI nx _ a kv) kvs ⟨s, f, .ok, none, false⟩) with a
        fuel_refl
  · fuel_refl

theorem execMethodNode_sim (hI : SimI i₁ i₂) (hA : SimA a₁ a₂) (s : St) (n : Node) (m : Method)
    (nx : Option Node) (v : Item) (f : Found) (unwrap : Bool) :
    Sim s.oof (execMethodNode c i₁ a₁ s n m nx v f unwrap) (execMethodNode c i₂ a₂ s n m nx v f unwrap) := by
  unfold execMethodNode
  cases m <;> simp only
  all_goals first
    | exact execConvMethod_sim c hI hA _ _ _ _ _ _ _
    | exact executeNextItem_sim c hI _ _ _ _
    | exact execMethodSize_sim c hI _ _ _ _
    | exact executeKeyValueMethod_sim c hI hA _ _ _ _ _ _

/-! ### `.**` and the generic element loop -/

theorem anyVisit_sim (hI : SimI i₁ i₂) (node : Option Node) (level first last : Nat)
    (ignore unwrapNext : Bool) (a : AAcc) (v : Item) (hnone : a.ret = none) :
    Sim (oofOf a) (anyVisit i₁ node level first last ignore unwrapNext a v)
      (anyVisit i₂ node level first last ignore unwrapNext a v) := by
  unfold anyVisit
  split
  · split
    · rename_i n
      dsimp only
      fuel_call (hI (if ignore then { a.st with ignoreSE := true } else a.st) n v a.found unwrapNext) with r
      fuel_refl
    · fuel_refl
  · fuel_refl

theorem anyDescend_sim (hA : SimA a₁ a₂) (node : Option Node) (level first last : Nat)
    (ignore unwrapNext : Bool) (a : AAcc) (v : Item) (hnone : a.ret = none) :
    Sim (oofOf a) (anyDescend a₁ node level first last ignore unwrapNext a v)
      (anyDescend a₂ node level first last ignore unwrapNext a v) := by
  unfold anyDescend
  split
  · dsimp only
    fuel_call (hA a.st node ((collection v).getD []) a.found (level + 1) first last ignore unwrapNext) with r
    fuel_refl
  · fuel_refl

theorem anyStep_sim (hI : SimI i₁ i₂) (hA : SimA a₁ a₂) (node : Option Node) (level first last : Nat)
    (ignore unwrapNext : Bool) (a : AAcc) (v : Item) :
    Sim (oofOf a) (anyStep i₁ a₁ node level first last ignore unwrapNext a v)
      (anyStep i₂ a₂ node level first last ignore unwrapNext a v) := by
  unfold anyStep
  split
  · exact Sim.refl (fun h => h)
  · rename_i hnone
    dsimp only
    fuel_call (anyVisit_sim hI node level first last ignore unwrapNext a v hnone) with a1
    split
    · fuel_refl
    · rename_i hnone1
      exact anyDescend_sim hA node level first last ignore unwrapNext a1 v hnone1

theorem executeAnyItem_sim (hI : SimI i₁ i₂) (hA : SimA a₁ a₂) (s : St) (node : Option Node)
    (vs : List Item) (f : Found) (level first last : Nat) (ignore unwrapNext : Bool) :
    Sim s.oof (executeAnyItem i₁ a₁ s node vs f level first last ignore unwrapNext)
      (executeAnyItem i₂ a₂ s node vs f level first last ignore unwrapNext) := by
  unfold executeAnyItem
  split
  · fuel_refl
  · dsimp only
    fuel_call (foldl_sim _ _ (fun a v => anyStep_sim hI hA node level first last ignore unwrapNext a v) vs
      ⟨s, f, .notFound, none, none⟩) with a
    fuel_refl

theorem anyInto_sim (hA : SimA a₁ a₂) (s : St) (first last : Nat) (nx : Option Node) (v : Item) (f : Found) :
    Sim s.oof (anyInto c a₁ s first last nx v f) (anyInto c a₂ s first last nx v f) := by
  unfold anyInto
  split
  · exact hA _ _ _ _ _ _ _ _ _
  · exact hA _ _ _ _ _ _ _ _ _
  · fuel_refl

theorem execAnyNode_sim (hI : SimI i₁ i₂) (hA : SimA a₁ a₂) (s : St) (first last : Nat) (nx : Option Node)
    (v : Item) (f : Found) :
    Sim s.oof (execAnyNode c i₁ a₁ s first last nx v f) (execAnyNode c i₂ a₂ s first last nx v f) := by
  unfold execAnyNode
  split
  · dsimp only
    fuel_call (executeNextItem_sim c hI { s with ignoreSE := true } nx v f) with r
    split
    · fuel_refl
    · fuel_call (anyInto_sim c hA r.st first last nx v r.found) with r2
      fuel_refl
  · exact anyInto_sim c hA _ _ _ _ _ _

/-! ### subscripts -/

theorem getArrayIndex_sim (hI : SimI i₁ i₂) (s : St) (n : Node) (v : Item) :
    Sim s.oof (getArrayIndex c i₁ s n v) (getArrayIndex c i₂ s n v) := by
  unfold getArrayIndex
  dsimp only
  fuel_call (executeItem_sim c hI s n v (some [])) with r
  fuel_refl

theorem execSubscript_sim (hI : SimI i₁ i₂) (s : St) (sub : Node) (v : Item) (size : Int) :
    Sim s.oof (execSubscript c i₁ s sub v size) (execSubscript c i₂ s sub v size) := by
  unfold execSubscript
  split
  · rename_i l r _
    fuel_call (getArrayIndex_sim c hI s l v) with x
    split
    · fuel_refl
    · rename_i s1 from_
      cases r with
      | none => fuel_refl
      | some rn =>
        simp only
        fuel_call (getArrayIndex_sim c hI s1 rn v) with y
        fuel_refl
  · fuel_refl
  · fuel_refl

theorem indexElemStep_sim (hI : SimI i₁ i₂) (nx : Option Node) (a : IAcc) (v : Item) :
    Sim (oofOf a) (indexElemStep c i₁ nx a v) (indexElemStep c i₂ nx a v) := by
  unfold indexElemStep
  split
  · exact Sim.refl (fun h => h)
  · split
    · exact Sim.refl (fun h => h)
    · split
      · fuel_refl
      · dsimp only
        fuel_call (executeNextItem_sim c hI a.st nx v a.found) with r
        fuel_refl

theorem indexSubStep_sim (hI : SimI i₁ i₂) (nx : Option Node) (xs : List Item) (v : Item) (a : IAcc)
    (sub : Node) :
    Sim (oofOf a) (indexSubStep c i₁ nx xs v a sub) (indexSubStep c i₂ nx xs v a sub) := by
  unfold indexSubStep
  split
  · exact Sim.refl (fun h => h)
  · fuel_call (execSubscript_sim c hI a.st sub v xs.length) with x
    split
    · fuel_refl
    · rename_i s1 from_ to_
      fuel_tail (foldl_sim _ _ (fun a' v' => indexElemStep_sim c hI nx a' v') (sliceRange xs from_ to_)
        { a with st := s1 })

theorem execArrayIndex_sim (hI : SimI i₁ i₂) (s : St) (subs : List Node) (nx : Option Node) (v : Item)
    (f : Found) :
    Sim s.oof (execArrayIndex c i₁ s subs nx v f) (execArrayIndex c i₂ s subs nx v f) := by
  unfold execArrayIndex
  split
  · fuel_refl
  · rename_i xs _
    dsimp only
    fuel_call (foldl_sim _ _ (fun a sub => indexSubStep_sim c hI nx xs v a sub) subs
      ⟨{ s with innermost := xs.length }, f, .notFound, none, none⟩) with a
    fuel_refl

/-! ### node dispatch -/

theorem execBinaryNode_sim (hI : SimI i₁ i₂) (hB : SimB b₁ b₂) (hA : SimA a₁ a₂) (s : St) (n : Node)
    (op : BinOp) (l r nx : Option Node) (v : Item) (f : Found) (unwrap : Bool) :
    Sim s.oof (execBinaryNode c i₁ b₁ a₁ s n op l r nx v f unwrap)
      (execBinaryNode c i₂ b₂ a₂ s n op l r nx v f unwrap) := by
  unfold execBinaryNode
  split
  · exact appendBoolResult_sim' c hI nx f (hB _ _ _ _)
  · split
    · exact execBinaryMathExpr_sim c hI _ _ _ _ _ _ _
    · split
      · exact execConvMethod_sim c hI hA _ _ _ _ _ _ _
      · fuel_refl

theorem execUnaryNode_sim (hI : SimI i₁ i₂) (hB : SimB b₁ b₂) (hA : SimA a₁ a₂) (s : St) (n : Node)
    (op : UnOp) (x nx : Option Node) (v : Item) (f : Found) (unwrap : Bool) :
    Sim s.oof (execUnaryNode c i₁ b₁ a₁ s n op x nx v f unwrap)
      (execUnaryNode c i₂ b₂ a₂ s n op x nx v f unwrap) := by
  unfold execUnaryNode
  split
  · exact appendBoolResult_sim' c hI nx f (hB _ _ _ _)
  · exact appendBoolResult_sim' c hI nx f (hB _ _ _ _)
  · exact appendBoolResult_sim' c hI nx f (hB _ _ _ _)
  · split
    · exact unwrapTargetArray_sim hA _ _ _ _
    · split
      · fuel_refl
      · rename_i cond
        dsimp only
        fuel_call (executeNestedBoolItem_sim hB s cond v) with p
        split
        · fuel_refl
        · split
          · fuel_refl
          · exact executeNextItem_sim c hI _ _ _ _
  · exact execUnaryMathExpr_sim c hI _ _ _ _ _ _
  · exact execUnaryMathExpr_sim c hI _ _ _ _ _ _
  · split
    · exact hA _ _ _ _ _ _ _ _ _
    · exact executeDateTimeMethod_sim c hI _ _ _ _ _ _

theorem dispatch_sim (hI : SimI i₁ i₂) (hB : SimB b₁ b₂) (hA : SimA a₁ a₂) (s : St) (n : Node) (v : Item)
    (f : Found) (unwrap : Bool) :
    Sim s.oof (dispatch c i₁ b₁ a₁ s n v f unwrap) (dispatch c i₂ b₂ a₂ s n v f unwrap) := by
  unfold dispatch
  split
  · exact execConstNode_sim c hI hA _ _ _ _ _ _ _
  · exact execLiteral_sim c hI _ _ _ _
  · exact execLiteral_sim c hI _ _ _ _
  · exact execLiteral_sim c hI _ _ _ _
  · exact execVariable_sim c hI _ _ _ _
  · exact execKeyNode_sim c hI hA _ _ _ _ _ _ _
  · exact execBinaryNode_sim c hI hB hA _ _ _ _ _ _ _ _ _
  · exact execUnaryNode_sim c hI hB hA _ _ _ _ _ _ _ _
  · exact appendBoolResult_sim' c hI _ f (hB _ _ _ _)
  · exact execMethodNode_sim c hI hA _ _ _ _ _ _ _
  · exact execAnyNode_sim c hI hA _ _ _ _ _ _
  · exact execArrayIndex_sim c hI _ _ _ _ _

end

/-! ## induction over the fuel -/

/-- **the run with less fuel, if it finished, is the run with more fuel** -/
theorem sim_all (c : Ctx) : ∀ n m : Nat, n ≤ m →
    SimI (xItem c n) (xItem c m) ∧ SimB (xBool c n) (xBool c m) ∧ SimA (xAny c n) (xAny c m) := by
  intro n
  induction n with
  | zero =>
    intro m _
    refine ⟨fun s n v f u h => ?_, fun s n v b h => ?_, fun s n vs f l a b i u h => ?_⟩
    · simp [xItem] at h
    · simp [xBool] at h
    · simp [xAny] at h
  | succ n ih =>
    intro m hm
    cases m with
    | zero => omega
    | succ m =>
      obtain ⟨hI, hB, hA⟩ := ih m (by omega)
      refine ⟨fun s nd v f u => ?_, fun s nd v b => ?_, fun s nd vs f l a b i u => ?_⟩
      · simp only [xItem]
        split
        · fuel_refl
        · rename_i s' hpoll
          exact Sim.mono (dispatch_sim c hI hB hA s' nd v f u) (fun h => by rw [← poll_oof hpoll]; exact h)
      · simp only [xBool]; exact executeBoolItem_sim c hI hB _ _ _ _
      · simp only [xAny]; exact executeAnyItem_sim hI hA _ _ _ _ _ _ _ _ _

/-! ## the statements -/

/-- `oof` is sticky: a run of `xItem` that ends with `oof = false` started with `oof = false` -/
theorem xItem_oof_sticky (c : Ctx) (n : Nat) (s : St) (node : Node) (v : Item) (f : Found) (u : Bool) :
    (xItem c n s node v f u).st.oof = false → s.oof = false :=
  fun h => ((sim_all c n n (Nat.le_refl n)).1 s node v f u h).1

theorem xBool_oof_sticky (c : Ctx) (n : Nat) (s : St) (node : Node) (v : Item) (b : Bool) :
    (xBool c n s node v b).st.oof = false → s.oof = false :=
  fun h => ((sim_all c n n (Nat.le_refl n)).2.1 s node v b h).1

theorem xAny_oof_sticky (c : Ctx) (n : Nat) (s : St) (node : Option Node) (vs : List Item) (f : Found)
    (l a b : Nat) (i u : Bool) :
    (xAny c n s node vs f l a b i u).st.oof = false → s.oof = false :=
  fun h => ((sim_all c n n (Nat.le_refl n)).2.2 s node vs f l a b i u h).1

/-- **fuel monotonicity**: a run that finished returns the same with more fuel.  (The hypothesis
    `s.oof = false` of the informal statement is implied, see `xItem_oof_sticky`.) -/
theorem xItem_mono (c : Ctx) (n m : Nat) (h : n ≤ m) (s : St) (node : Node) (v : Item) (f : Found) (u : Bool) :
    (xItem c n s node v f u).st.oof = false → xItem c m s node v f u = xItem c n s node v f u :=
  fun ho => ((sim_all c n m h).1 s node v f u ho).2

theorem xBool_mono (c : Ctx) (n m : Nat) (h : n ≤ m) (s : St) (node : Node) (v : Item) (b : Bool) :
    (xBool c n s node v b).st.oof = false → xBool c m s node v b = xBool c n s node v b :=
  fun ho => ((sim_all c n m h).2.1 s node v b ho).2

theorem xAny_mono (c : Ctx) (n m : Nat) (h : n ≤ m) (s : St) (node : Option Node) (vs : List Item) (f : Found)
    (l a b : Nat) (i u : Bool) :
    (xAny c n s node vs f l a b i u).st.oof = false →
      xAny c m s node vs f l a b i u = xAny c n s node vs f l a b i u :=
  fun ho => ((sim_all c n m h).2.2 s node vs f l a b i u ho).2

end Fuel
end Exec
end Sqljson

/-! ## `exec.query` and the entry-point runs -/

namespace Sqljson
namespace Api
namespace Fuel
open Exec Exec.Fuel

theorem query_sim (c : Ctx) (n m : Nat) (h : n ≤ m) (s : St) (nd : Node) (v : Item) (f : Found) :
    Sim s.oof (query c n s nd v f) (query c m s nd v f) := by
  unfold query
  split
  · dsimp only
    fuel_call (executeItem_sim c (sim_all c n m h).1 s nd v (some [])) with r
    fuel_refl
  · exact executeItem_sim c (sim_all c n m h).1 _ _ _ _

theorem query_mono (c : Ctx) (n m : Nat) (h : n ≤ m) (s : St) (nd : Node) (v : Item) (f : Found) :
    (query c n s nd v f).st.oof = false → query c m s nd v f = query c n s nd v f :=
  fun ho => (query_sim c n m h s nd v f ho).2

theorem query_oof_sticky (c : Ctx) (n : Nat) (s : St) (nd : Node) (v : Item) (f : Found) :
    (query c n s nd v f).st.oof = false → s.oof = false :=
  fun ho => (query_sim c n n (Nat.le_refl n) s nd v f ho).1

theorem guarded_finished {r : Res} {k : Outcome} (h : guarded r k ≠ .outOfFuel) : r.st.oof = false := by
  unfold guarded at h
  cases ho : r.st.oof with
  | false => rfl
  | true => simp [ho] at h

theorem guarded_outOfFuel_iff {r : Res} {k : Outcome} (hk : k ≠ .outOfFuel) :
    guarded r k = .outOfFuel ↔ r.st.oof = true := by
  unfold guarded
  cases ho : r.st.oof with
  | false => simp; split <;> simp [hk]
  | true => simp

end Fuel
end Api
end Sqljson
