import Lean.Elab.Tactic
import Sqljson.Model.Api
/-!
# Fuel monotonicity of the executor model

The three dispatchers `xItem`, `xBool`, `xAny` recurse on an explicit `fuel`; at fuel 0 they set the
sticky flag `St.oof` and fail.  This file proves that a run which finished (`oof = false` in the
final state) returns exactly the same result with any larger fuel:

    n ≤ m → (xItem c n s node v f u).st.oof = false → xItem c m s node v f u = xItem c n s node v f u

and that `oof` is sticky (`oof_sticky`: a result state with `oof = false` implies that the start
state had `oof = false`).

Both facts are carried by one relation `Sim b r₁ r₂` ("`r₁` is the reference run, started with
`oof = b`; if it finished then `b = false` and the other run `r₂` returned the same").  Structure as in
`Good.lean`: one lemma per Go function ("if the recursive calls of the two runs are related, so are
the two instances of this function"), loops by `foldl_sim`, then `sim_all` by induction on the fuel.

The workhorse is `Sim.subst'`: to relate `K (call₁)` and `K (call₂)` it suffices to relate the two
calls and then to relate `K (call₁)` with itself *started from the state `call₁` returned* – which
also yields the stickiness of the rest of the function.  The tactic `fuel_call h` applies it: it finds
the right-hand call of `h : Sim b call₁ call₂` in the right-hand run and replaces it by `call₁`.

Nowhere does the model drop or restore `oof` (all restores are of context fields only), so the
statement holds without exception.

Part 2 (second half of the file) is fuel *adequacy*: `need D node` is a computable amount of fuel with
which `xItem` does not run out on items of nesting depth at most `D` (`adequate_all`,
`xItem_adequate`); `Api.Fuel.query_adequate` lifts it to `exec.query`.

Everything lives in `Sqljson.Exec.Fuel` / `Sqljson.Api.Fuel`; the tactics are `fuel_call`,
`fuel_refl`, `fuel_tail`, `fuel_auto`, `ok_leaf`.
-/

namespace Sqljson
namespace Exec
namespace Fuel

/-! ## the relation -/

/-- the `oof` flag a value carries (a result's state; for a loop accumulator the state of the early
    return if there is one, else the loop state) -/
class HasOof (α : Type) where
  oofOf : α → Bool
export HasOof (oofOf)

/-- the flag of a loop accumulator with early return `ret` and loop state `st` -/
def retOof (ret : Option Res) (st : St) : Bool :=
  match ret with
  | some r => r.st.oof
  | none => st.oof

@[simp] theorem retOof_some (r : Res) (st : St) : retOof (some r) st = r.st.oof := rfl
@[simp] theorem retOof_none (st : St) : retOof none st = st.oof := rfl

instance : HasOof Res := ⟨fun r => r.st.oof⟩
instance : HasOof PRes := ⟨fun r => r.st.oof⟩
instance {β : Type} : HasOof (St × β) := ⟨fun p => p.1.oof⟩
instance : HasOof UAcc := ⟨fun a => retOof a.ret a.st⟩
instance : HasOof KVAcc := ⟨fun a => retOof a.ret a.st⟩
instance : HasOof AAcc := ⟨fun a => retOof a.ret a.st⟩
instance : HasOof IAcc := ⟨fun a => retOof a.ret a.st⟩

@[simp] theorem oofOf_res (r : Res) : oofOf r = r.st.oof := rfl
@[simp] theorem oofOf_pres (r : PRes) : oofOf r = r.st.oof := rfl
@[simp] theorem oofOf_pair {β : Type} (p : St × β) : oofOf p = p.1.oof := rfl
@[simp] theorem oofOf_uacc (a : UAcc) : oofOf a = retOof a.ret a.st := rfl
@[simp] theorem oofOf_kvacc (a : KVAcc) : oofOf a = retOof a.ret a.st := rfl
@[simp] theorem oofOf_aacc (a : AAcc) : oofOf a = retOof a.ret a.st := rfl
@[simp] theorem oofOf_iacc (a : IAcc) : oofOf a = retOof a.ret a.st := rfl

/-- `r₁` is the reference run, started with `oof = b`: if it finished (`oof = false` at the end) then
    it started with `oof = false` and the other run `r₂` returned the same -/
def Sim {α : Type} [HasOof α] (b : Bool) (r₁ r₂ : α) : Prop :=
  oofOf r₁ = false → b = false ∧ r₂ = r₁

theorem Sim.refl {α : Type} [HasOof α] {b : Bool} {r : α} (h : oofOf r = false → b = false) : Sim b r r :=
  fun h' => ⟨h h', rfl⟩

theorem Sim.mono {α : Type} [HasOof α] {b b' : Bool} {r₁ r₂ : α} (h : Sim b r₁ r₂)
    (hb : b = false → b' = false) : Sim b' r₁ r₂ :=
  fun h' => ⟨hb (h h').1, (h h').2⟩

/-- sequencing: the two runs make related calls `a₁`, `a₂` and continue with `K₂`; it suffices to
    relate the continuation of the reference run with the other run's continuation *on the reference
    run's value*, started from that value's flag -/
theorem Sim.subst' {α β : Type} [HasOof α] [HasOof β] {b b' : Bool} {a₁ a₂ : α} {R₁ : β} (K₂ : α → β)
    (hr : Sim b a₁ a₂) (hb : b = false → b' = false) (h : Sim (oofOf a₁) R₁ (K₂ a₁)) :
    Sim b' R₁ (K₂ a₂) := by
  intro h'
  obtain ⟨h1, h2⟩ := h h'
  obtain ⟨h3, h4⟩ := hr h1
  exact ⟨hb h3, by rw [h4]; exact h2⟩

def SimI (i₁ i₂ : ItemK) : Prop := ∀ s n v f u, Sim s.oof (i₁ s n v f u) (i₂ s n v f u)
def SimB (b₁ b₂ : BoolK) : Prop := ∀ s n v b, Sim s.oof (b₁ s n v b) (b₂ s n v b)
def SimA (a₁ a₂ : AnyK) : Prop :=
  ∀ s n vs f l a b i u, Sim s.oof (a₁ s n vs f l a b i u) (a₂ s n vs f l a b i u)

/-! ## tactics -/

open Lean Elab Tactic Meta in
/-- `h : Sim b call₁ call₂` (holes allowed), goal `Sim b' R₁ R₂`.  Abstracts `call₂` in `R₂` and applies
    `Sim.subst'`; new goals: `b = false → b' = false` and `Sim (oofOf call₁) R₁ R₂[call₂ := call₁]`.
    With a name, `call₁` is generalized to a variable of that name in the latter. -/
def simCallCore (h : Syntax) (name? : Option Name) : TacticM Unit := withMainContext do
  let goal ← getMainGoal
  let e ← elabTerm h none
  let t ← whnfR (← instantiateMVars (← inferType e))
  unless t.isAppOfArity ``Sim 5 do throwError "fuel_call: not a `Sim`:{indentExpr t}"
  let tgt ← whnfR (← instantiateMVars (← goal.getType))
  unless tgt.isAppOfArity ``Sim 5 do throwError "fuel_call: the goal is not a `Sim`:{indentExpr tgt}"
  let ta := t.getAppArgs
  let ga := tgt.getAppArgs
  let abs ← kabstract ga[4]! ta[4]!
  unless abs.hasLooseBVars do
    throwError "fuel_call: the call{indentExpr ta[4]!}\ndoes not occur in the right-hand run"
  let K₂ := mkLambda `x .default ta[0]! abs
  let e ← instantiateMVars e
  let a₁ ← instantiateMVars ta[3]!
  let head ← mkAppOptM ``Sim.subst' #[none, none, none, none, none, some ga[2]!, none, none, some ga[3]!,
    some K₂, some e]
  let gs ← goal.apply head
  match gs with
  | [g1, g2] =>
    let ty ← instantiateMVars (← g2.getType)
    let g2 ← g2.replaceTargetDefEq (← Core.betaReduce ty)
    match name? with
    | some name =>
      let (_, g2) ← g2.generalize #[{ expr := a₁, xName? := some name }]
      replaceMainGoal [g1, g2]
    | none => replaceMainGoal [g1, g2]
  | _ => throwError "fuel_call: unexpected goals"

elab "fuel_call_core " h:term : tactic => simCallCore h none
elab "fuel_call_core " h:term " with " x:ident : tactic => simCallCore h (some x.getId)

/-- the side goal `b = false → b' = false` of a call -/
macro "fuel_hb" : tactic =>
  `(tactic| first | exact id | (intro hh; simp_all; done) | (intro hh; split at hh <;> simp_all; done))

/-- synchronize the next call of the two runs -/
macro "fuel_call " h:term : tactic => `(tactic| (fuel_call_core $h; (· fuel_hb)))
macro "fuel_call " h:term " with " x:ident : tactic => `(tactic| (fuel_call_core $h with $x; (· fuel_hb)))

/-- both runs return the same expression; what remains is stickiness of that expression -/
macro "fuel_refl" : tactic => `(tactic| (refine Sim.refl ?_; (repeat' split) <;> (simp_all; done)))

/-- split both runs in lock step until the leaves are equal or the one call `h` away from equal -/
syntax "fuel_auto " term : tactic
macro_rules
  | `(tactic| fuel_auto $h) =>
    `(tactic| first | fuel_refl | (fuel_call $h with r; fuel_refl) | (split <;> fuel_auto $h))

/-- both runs end in related calls -/
macro "fuel_tail " h:term : tactic => `(tactic| (refine Sim.mono $h ?_; fuel_hb))

/-! ## leaves: functions that only pass the state through -/

@[simp] theorem returnVerboseError_st (s : St) (f : Found) : (returnVerboseError s f).st = s := by
  unfold returnVerboseError; split <;> rfl

@[simp] theorem returnError_st (s : St) (f : Found) (e : Err) : (returnError s f e).st = s := by
  unfold returnError; split <;> rfl

@[simp] theorem structural_st (s : St) (f : Found) : (structural s f).st = s := by
  unfold structural; split <;> simp

@[simp] theorem predicateTail_oof (c : Ctx) (s : St) (cb : Item → Item → CbOut) (ls rs : List Item) :
    (predicateTail c s cb ls rs).st.oof = s.oof := by
  unfold predicateTail
  dsimp only
  repeat' split
  all_goals rfl

@[simp] theorem kvEnter_oof (c : Ctx) (st : St) (obj : Item) : (kvEnter c st obj).oof = st.oof := rfl

theorem poll_oof {s s' : St} (h : poll s = some s') : s'.oof = s.oof := by
  unfold poll at h
  split at h
  · simp at h; subst h; rfl
  · simp at h
  · simp at h; subst h; rfl

/-- two loops whose bodies are related -/
theorem foldl_sim {α β : Type} [HasOof β] (step₁ step₂ : β → α → β)
    (h : ∀ b x, Sim (oofOf b) (step₁ b x) (step₂ b x)) (xs : List α) (b : β) :
    Sim (oofOf b) (xs.foldl step₁ b) (xs.foldl step₂ b) := by
  induction xs generalizing b with
  | nil => exact Sim.refl (fun h => h)
  | cons x xs ih =>
    simp only [List.foldl_cons]
    exact Sim.subst' (fun y => xs.foldl step₂ y) (h b x) id (ih (step₁ b x))

/-! ## one lemma per function -/

section
variable (c : Ctx) {i₁ i₂ : ItemK} {b₁ b₂ : BoolK} {a₁ a₂ : AnyK}

theorem executeItem_sim (hI : SimI i₁ i₂) (s : St) (n : Node) (v : Item) (f : Found) :
    Sim s.oof (executeItem c i₁ s n v f) (executeItem c i₂ s n v f) := hI _ _ _ _ _

theorem executeNextItem_sim (hI : SimI i₁ i₂) (s : St) (nx : Option Node) (v : Item) (f : Found) :
    Sim s.oof (executeNextItem c i₁ s nx v f) (executeNextItem c i₂ s nx v f) := by
  unfold executeNextItem
  split
  · exact executeItem_sim c hI _ _ _ _
  · fuel_refl

theorem withBaseObject_sim (s : St) (a : Nat) (i : Int) (k₁ k₂ : St → Res)
    (hk : ∀ s' : St, Sim s'.oof (k₁ s') (k₂ s')) :
    Sim s.oof (withBaseObject s a i k₁) (withBaseObject s a i k₂) := by
  unfold withBaseObject
  dsimp only
  fuel_call (hk { s with baseAddr := a, baseId := i })
  fuel_refl

theorem execLiteral_sim (hI : SimI i₁ i₂) (s : St) (nx : Option Node) (v : Item) (f : Found) :
    Sim s.oof (execLiteral c i₁ s nx v f) (execLiteral c i₂ s nx v f) := by
  unfold execLiteral
  split
  · fuel_refl
  · exact executeNextItem_sim c hI _ _ _ _

theorem execVariable_sim (hI : SimI i₁ i₂) (s : St) (name : List Char) (nx : Option Node) (f : Found) :
    Sim s.oof (execVariable c i₁ s name nx f) (execVariable c i₂ s name nx f) := by
  unfold execVariable
  split
  · exact withBaseObject_sim _ _ _ _ _ (fun s' => executeNextItem_sim c hI s' _ _ _)
  · fuel_refl

theorem unwrapTargetArray_sim (hA : SimA a₁ a₂) (s : St) (n : Node) (xs : List Item) (f : Found) :
    Sim s.oof (unwrapTargetArray a₁ s n xs f) (unwrapTargetArray a₂ s n xs f) := hA _ _ _ _ _ _ _ _ _

theorem execKeyNode_sim (hI : SimI i₁ i₂) (hA : SimA a₁ a₂) (s : St) (n : Node) (key : List Char)
    (nx : Option Node) (v : Item) (f : Found) (unwrap : Bool) :
    Sim s.oof (execKeyNode c i₁ a₁ s n key nx v f unwrap) (execKeyNode c i₂ a₂ s n key nx v f unwrap) := by
  unfold execKeyNode
  split
  · split
    · exact executeNextItem_sim c hI _ _ _ _
    · fuel_refl
  · split
    · exact hA _ _ _ _ _ _ _ _ _
    · fuel_refl
  · fuel_refl

theorem execAnyKey_sim (hA : SimA a₁ a₂) (s : St) (n : Node) (nx : Option Node) (v : Item) (f : Found)
    (unwrap : Bool) :
    Sim s.oof (execAnyKey c a₁ s n nx v f unwrap) (execAnyKey c a₂ s n nx v f unwrap) := by
  unfold execAnyKey
  split
  · exact hA _ _ _ _ _ _ _ _ _
  · split
    · exact unwrapTargetArray_sim hA _ _ _ _
    · fuel_refl
  · fuel_refl

theorem execAnyArray_sim (hI : SimI i₁ i₂) (hA : SimA a₁ a₂) (s : St) (nx : Option Node) (v : Item)
    (f : Found) : Sim s.oof (execAnyArray c i₁ a₁ s nx v f) (execAnyArray c i₂ a₂ s nx v f) := by
  unfold execAnyArray
  split
  · exact hA _ _ _ _ _ _ _ _ _
  · split
    · exact executeNextItem_sim c hI _ _ _ _
    · fuel_refl

theorem execLastConst_sim (hI : SimI i₁ i₂) (s : St) (nx : Option Node) (f : Found) :
    Sim s.oof (execLastConst c i₁ s nx f) (execLastConst c i₂ s nx f) := by
  unfold execLastConst
  split
  · fuel_refl
  · split
    · fuel_refl
    · exact executeNextItem_sim c hI _ _ _ _

theorem execConstNode_sim (hI : SimI i₁ i₂) (hA : SimA a₁ a₂) (s : St) (n : Node) (k : Const)
    (nx : Option Node) (v : Item) (f : Found) (unwrap : Bool) :
    Sim s.oof (execConstNode c i₁ a₁ s n k nx v f unwrap) (execConstNode c i₂ a₂ s n k nx v f unwrap) := by
  unfold execConstNode
  cases k <;> simp only
  all_goals first
    | exact withBaseObject_sim _ _ _ _ _ (fun s' => executeNextItem_sim c hI s' _ _ _)
    | exact executeNextItem_sim c hI _ _ _ _
    | exact execLastConst_sim c hI _ _ _
    | exact execAnyArray_sim c hI hA _ _ _ _
    | exact execAnyKey_sim c hA _ _ _ _ _ _
    | exact execLiteral_sim c hI _ _ _ _

/-! ### operand evaluation -/

theorem optUnwrapResult_sim (hI : SimI i₁ i₂) (s : St) (n : Node) (v : Item) (unwrap : Bool) (l : List Item) :
    Sim s.oof (optUnwrapResult c i₁ s n v unwrap l) (optUnwrapResult c i₂ s n v unwrap l) := by
  unfold optUnwrapResult
  split
  · dsimp only
    fuel_call (executeItem_sim c hI s n v (some [])) with r
    fuel_refl
  · exact executeItem_sim c hI _ _ _ _

theorem optUnwrapResultSilent_sim (hI : SimI i₁ i₂) (s : St) (n : Node) (v : Item) (unwrap : Bool) (f : Found) :
    Sim s.oof (optUnwrapResultSilent c i₁ s n v unwrap f) (optUnwrapResultSilent c i₂ s n v unwrap f) := by
  unfold optUnwrapResultSilent
  cases f with
  | some l =>
    dsimp only
    fuel_call (optUnwrapResult_sim c hI { s with verbose := false } n v unwrap l) with r
    fuel_refl
  | none =>
    dsimp only
    fuel_call (executeItem_sim c hI { s with verbose := false } n v none) with r
    fuel_refl

/-! ### predicates -/

theorem executePredicate_sim (hI : SimI i₁ i₂) (s : St) (left : Node) (right : Option Node) (v : Item)
    (unwrapRight : Bool) (cb : Item → Item → CbOut) :
    Sim s.oof (executePredicate c i₁ s left right v unwrapRight cb)
      (executePredicate c i₂ s left right v unwrapRight cb) := by
  unfold executePredicate
  dsimp only
  fuel_call (optUnwrapResultSilent_sim c hI s left v true (some [])) with rl
  split
  · fuel_refl
  · split
    · fuel_call (optUnwrapResultSilent_sim c hI rl.st _ v unwrapRight (some [])) with rr
      fuel_refl
    · fuel_refl

theorem executeBinaryBoolItem_sim (hI : SimI i₁ i₂) (hB : SimB b₁ b₂) (s : St) (op : BinOp)
    (l r : Option Node) (v : Item) :
    Sim s.oof (executeBinaryBoolItem c i₁ b₁ s op l r v) (executeBinaryBoolItem c i₂ b₂ s op l r v) := by
  unfold executeBinaryBoolItem
  split
  · fuel_refl
  · rename_i ln
    split
    · split
      · fuel_refl
      · rename_i rn
        dsimp only
        fuel_call (hB s ln v false) with a
        split
        · fuel_refl
        · fuel_call (hB a.st rn v false) with b
          fuel_refl
    · split
      · fuel_refl
      · rename_i rn
        dsimp only
        fuel_call (hB s ln v false) with a
        split
        · fuel_refl
        · fuel_call (hB a.st rn v false) with b
          fuel_refl
    · exact executePredicate_sim c hI _ _ _ _ _ _
    · split
      · exact executePredicate_sim c hI _ _ _ _ _ _
      · fuel_refl

theorem executeUnaryBoolItem_sim (hI : SimI i₁ i₂) (hB : SimB b₁ b₂) (s : St) (op : UnOp)
    (x : Option Node) (v : Item) :
    Sim s.oof (executeUnaryBoolItem c i₁ b₁ s op x v) (executeUnaryBoolItem c i₂ b₂ s op x v) := by
  unfold executeUnaryBoolItem
  split
  · rename_i xn
    dsimp only
    fuel_call (hB s xn v false) with a
    fuel_refl
  · rename_i xn
    dsimp only
    fuel_call (hB s xn v false) with a
    fuel_refl
  · rename_i xn
    split
    · dsimp only
      fuel_call (optUnwrapResultSilent_sim c hI s xn v false (some [])) with r
      fuel_refl
    · dsimp only
      fuel_call (optUnwrapResultSilent_sim c hI s xn v false none) with r
      fuel_refl
  · fuel_refl
  · fuel_refl
  · fuel_refl
  · fuel_refl

theorem executeBoolItem_sim (hI : SimI i₁ i₂) (hB : SimB b₁ b₂) (s : St) (n : Node) (v : Item) (chn : Bool) :
    Sim s.oof (executeBoolItem c i₁ b₁ s n v chn) (executeBoolItem c i₂ b₂ s n v chn) := by
  unfold executeBoolItem
  split
  · fuel_refl
  · split
    · exact executeBinaryBoolItem_sim c hI hB _ _ _ _ _
    · exact executeUnaryBoolItem_sim c hI hB _ _ _ _
    · exact executePredicate_sim c hI _ _ _ _ _ _
    · fuel_refl

theorem appendBoolResult_sim (hI : SimI i₁ i₂) (nx : Option Node) (f : Found) (p : PRes) :
    Sim p.st.oof (appendBoolResult c i₁ nx f p) (appendBoolResult c i₂ nx f p) := by
  unfold appendBoolResult
  split
  · fuel_refl
  · split
    · fuel_refl
    · exact executeNextItem_sim c hI _ _ _ _

/-- `appendBoolResult` applied to related predicate runs -/
theorem appendBoolResult_sim' (hI : SimI i₁ i₂) (nx : Option Node) (f : Found) {b : Bool} {p₁ p₂ : PRes}
    (hp : Sim b p₁ p₂) : Sim b (appendBoolResult c i₁ nx f p₁) (appendBoolResult c i₂ nx f p₂) :=
  Sim.subst' (fun p => appendBoolResult c i₂ nx f p) hp id (appendBoolResult_sim c hI nx f p₁)

theorem executeNestedBoolItem_sim (hB : SimB b₁ b₂) (s : St) (n : Node) (v : Item) :
    Sim s.oof (executeNestedBoolItem b₁ s n v) (executeNestedBoolItem b₂ s n v) := by
  unfold executeNestedBoolItem
  dsimp only
  fuel_call (hB { s with current := v } n v false) with r
  fuel_refl

/-! ### arithmetic -/

theorem unaryStep_sim (hI : SimI i₁ i₂) (cb : Num.UCallback) (nx : Option Node) (a : UAcc) (v : Item) :
    Sim (oofOf a) (unaryStep c i₁ cb nx a v) (unaryStep c i₂ cb nx a v) := by
  unfold unaryStep
  split
  · exact Sim.refl (fun h => h)
  · dsimp only
    fuel_auto (executeNextItem_sim c hI a.st nx _ a.found)

theorem execUnaryMathExpr_sim (hI : SimI i₁ i₂) (s : St) (operand nx : Option Node) (v : Item)
    (cb : Num.UCallback) (f : Found) :
    Sim s.oof (execUnaryMathExpr c i₁ s operand nx v cb f) (execUnaryMathExpr c i₂ s operand nx v cb f) := by
  unfold execUnaryMathExpr
  split
  · fuel_refl
  · rename_i x
    dsimp only
    fuel_call (optUnwrapResult_sim c hI s x v true []) with r
    split
    · fuel_refl
    · fuel_call (foldl_sim _ _ (fun a v => unaryStep_sim c hI cb nx a v) (r.found.getD [])
        ⟨r.st, f, .notFound, none⟩) with a
      fuel_refl

theorem execBinaryMathExpr_sim (hI : SimI i₁ i₂) (s : St) (op : BinOp) (l r nx : Option Node) (v : Item)
    (f : Found) :
    Sim s.oof (execBinaryMathExpr c i₁ s op l r nx v f) (execBinaryMathExpr c i₂ s op l r nx v f) := by
  unfold execBinaryMathExpr
  split
  · rename_i ln rn
    dsimp only
    fuel_call (optUnwrapResult_sim c hI s ln v true []) with rl
    split
    · fuel_refl
    · split
      · fuel_call (optUnwrapResult_sim c hI rl.st rn v true []) with rr
        split
        · fuel_refl
        · split
          · split
            · fuel_refl
            · split
              · fuel_refl
              · split
                · fuel_refl
                · fuel_tail (executeNextItem_sim c hI _ _ _ _)
          · fuel_refl
      · fuel_refl
  · fuel_refl

/-! ### item methods -/

theorem execMethodSize_sim (hI : SimI i₁ i₂) (s : St) (nx : Option Node) (v : Item) (f : Found) :
    Sim s.oof (execMethodSize c i₁ s nx v f) (execMethodSize c i₂ s nx v f) := by
  unfold execMethodSize
  split
  · exact executeNextItem_sim c hI _ _ _ _
  · split
    · fuel_refl
    · exact executeNextItem_sim c hI _ _ _ _

theorem execConvMethod_sim (hI : SimI i₁ i₂) (hA : SimA a₁ a₂) (s : St) (n : Node) (nx : Option Node)
    (v : Item) (f : Found) (unwrap : Bool) (conv : Item → Conv) :
    Sim s.oof (execConvMethod c i₁ a₁ s n nx v f unwrap conv) (execConvMethod c i₂ a₂ s n nx v f unwrap conv) := by
  unfold execConvMethod
  split
  · split
    · exact unwrapTargetArray_sim hA _ _ _ _
    · fuel_refl
  · split
    · exact executeNextItem_sim c hI _ _ _ _
    · fuel_refl
    · fuel_refl
    · fuel_refl

theorem executeDateTimeMethod_sim (hI : SimI i₁ i₂) (s : St) (op : UnOp) (arg nx : Option Node) (v : Item)
    (f : Found) :
    Sim s.oof (executeDateTimeMethod c i₁ s op arg nx v f) (executeDateTimeMethod c i₂ s op arg nx v f) := by
  unfold executeDateTimeMethod
  split
  · dsimp only
    split
    · fuel_refl
    · split
      · fuel_refl
      · split
        · fuel_refl
        · exact executeNextItem_sim c hI _ _ _ _
  · fuel_refl

theorem kvStep_sim (hI : SimI i₁ i₂) (nx : Option Node) (id : Int) (a : KVAcc) (kv : List Char × Item) :
    Sim (oofOf a) (kvStep c i₁ nx id a kv) (kvStep c i₂ nx id a kv) := by
  unfold kvStep
  split
  · exact Sim.refl (fun h => h)
  · dsimp only
    fuel_call (executeNextItem_sim c hI (kvEnter c a.st (kvObj id kv)) nx (kvObj id kv) a.found) with r
    fuel_refl

theorem executeKeyValueMethod_sim (hI : SimI i₁ i₂) (hA : SimA a₁ a₂) (s : St) (n : Node) (nx : Option Node)
    (v : Item) (f : Found) (unwrap : Bool) :
    Sim s.oof (executeKeyValueMethod c i₁ a₁ s n nx v f unwrap)
      (executeKeyValueMethod c i₂ a₂ s n nx v f unwrap) := by
  unfold executeKeyValueMethod
  split
  · split
    · exact unwrapTargetArray_sim hA _ _ _ _
    · fuel_refl
  · rename_i kvs
    split
    · fuel_refl
    · split
      · fuel_refl
      · dsimp only
        fuel_call (foldl_sim _ _ (fun a kv => kvStep_sim c hI nx _ a kv) kvs ⟨s, f, .ok, none, false⟩) with a
        fuel_refl
  · fuel_refl

theorem execMethodNode_sim (hI : SimI i₁ i₂) (hA : SimA a₁ a₂) (s : St) (n : Node) (m : Method)
    (nx : Option Node) (v : Item) (f : Found) (unwrap : Bool) :
    Sim s.oof (execMethodNode c i₁ a₁ s n m nx v f unwrap) (execMethodNode c i₂ a₂ s n m nx v f unwrap) := by
  unfold execMethodNode
  cases m <;> simp only
  all_goals first
    | exact execConvMethod_sim c hI hA _ _ _ _ _ _ _
    | exact executeNextItem_sim c hI _ _ _ _
    | exact execMethodSize_sim c hI _ _ _ _
    | exact executeKeyValueMethod_sim c hI hA _ _ _ _ _ _

/-! ### `.**` and the generic element loop -/

theorem anyVisit_sim (hI : SimI i₁ i₂) (node : Option Node) (level first last : Nat)
    (ignore unwrapNext : Bool) (a : AAcc) (v : Item) (hnone : a.ret = none) :
    Sim (oofOf a) (anyVisit i₁ node level first last ignore unwrapNext a v)
      (anyVisit i₂ node level first last ignore unwrapNext a v) := by
  unfold anyVisit
  split
  · split
    · rename_i n
      dsimp only
      fuel_call (hI (if ignore then { a.st with ignoreSE := true } else a.st) n v a.found unwrapNext) with r
      fuel_refl
    · fuel_refl
  · fuel_refl

theorem anyDescend_sim (hA : SimA a₁ a₂) (node : Option Node) (level first last : Nat)
    (ignore unwrapNext : Bool) (a : AAcc) (v : Item) (hnone : a.ret = none) :
    Sim (oofOf a) (anyDescend a₁ node level first last ignore unwrapNext a v)
      (anyDescend a₂ node level first last ignore unwrapNext a v) := by
  unfold anyDescend
  split
  · dsimp only
    fuel_call (hA a.st node ((collection v).getD []) a.found (level + 1) first last ignore unwrapNext) with r
    fuel_refl
  · fuel_refl

theorem anyStep_sim (hI : SimI i₁ i₂) (hA : SimA a₁ a₂) (node : Option Node) (level first last : Nat)
    (ignore unwrapNext : Bool) (a : AAcc) (v : Item) :
    Sim (oofOf a) (anyStep i₁ a₁ node level first last ignore unwrapNext a v)
      (anyStep i₂ a₂ node level first last ignore unwrapNext a v) := by
  unfold anyStep
  split
  · exact Sim.refl (fun h => h)
  · rename_i hnone
    dsimp only
    fuel_call (anyVisit_sim hI node level first last ignore unwrapNext a v hnone) with a1
    split
    · fuel_refl
    · rename_i hnone1
      exact anyDescend_sim hA node level first last ignore unwrapNext a1 v hnone1

theorem executeAnyItem_sim (hI : SimI i₁ i₂) (hA : SimA a₁ a₂) (s : St) (node : Option Node)
    (vs : List Item) (f : Found) (level first last : Nat) (ignore unwrapNext : Bool) :
    Sim s.oof (executeAnyItem i₁ a₁ s node vs f level first last ignore unwrapNext)
      (executeAnyItem i₂ a₂ s node vs f level first last ignore unwrapNext) := by
  unfold executeAnyItem
  split
  · fuel_refl
  · dsimp only
    fuel_call (foldl_sim _ _ (fun a v => anyStep_sim hI hA node level first last ignore unwrapNext a v) vs
      ⟨s, f, .notFound, none, none⟩) with a
    fuel_refl

theorem anyInto_sim (hA : SimA a₁ a₂) (s : St) (first last : Nat) (nx : Option Node) (v : Item) (f : Found) :
    Sim s.oof (anyInto c a₁ s first last nx v f) (anyInto c a₂ s first last nx v f) := by
  unfold anyInto
  split
  · exact hA _ _ _ _ _ _ _ _ _
  · exact hA _ _ _ _ _ _ _ _ _
  · fuel_refl

theorem execAnyNode_sim (hI : SimI i₁ i₂) (hA : SimA a₁ a₂) (s : St) (first last : Nat) (nx : Option Node)
    (v : Item) (f : Found) :
    Sim s.oof (execAnyNode c i₁ a₁ s first last nx v f) (execAnyNode c i₂ a₂ s first last nx v f) := by
  unfold execAnyNode
  split
  · dsimp only
    fuel_call (executeNextItem_sim c hI { s with ignoreSE := true } nx v f) with r
    split
    · fuel_refl
    · fuel_call (anyInto_sim c hA r.st first last nx v r.found) with r2
      fuel_refl
  · exact anyInto_sim c hA _ _ _ _ _ _

/-! ### subscripts -/

theorem getArrayIndex_sim (hI : SimI i₁ i₂) (s : St) (n : Node) (v : Item) :
    Sim s.oof (getArrayIndex c i₁ s n v) (getArrayIndex c i₂ s n v) := by
  unfold getArrayIndex
  dsimp only
  fuel_call (executeItem_sim c hI s n v (some [])) with r
  fuel_refl

theorem execSubscript_sim (hI : SimI i₁ i₂) (s : St) (sub : Node) (v : Item) (size : Int) :
    Sim s.oof (execSubscript c i₁ s sub v size) (execSubscript c i₂ s sub v size) := by
  unfold execSubscript
  split
  · rename_i l r _
    fuel_call (getArrayIndex_sim c hI s l v) with x
    split
    · fuel_refl
    · rename_i s1 from_
      cases r with
      | none => fuel_refl
      | some rn =>
        simp only
        fuel_call (getArrayIndex_sim c hI s1 rn v) with y
        fuel_refl
  · fuel_refl
  · fuel_refl

theorem indexElemStep_sim (hI : SimI i₁ i₂) (nx : Option Node) (a : IAcc) (v : Item) :
    Sim (oofOf a) (indexElemStep c i₁ nx a v) (indexElemStep c i₂ nx a v) := by
  unfold indexElemStep
  split
  · exact Sim.refl (fun h => h)
  · split
    · exact Sim.refl (fun h => h)
    · split
      · fuel_refl
      · dsimp only
        fuel_call (executeNextItem_sim c hI a.st nx v a.found) with r
        fuel_refl

theorem indexSubStep_sim (hI : SimI i₁ i₂) (nx : Option Node) (xs : List Item) (v : Item) (a : IAcc)
    (sub : Node) :
    Sim (oofOf a) (indexSubStep c i₁ nx xs v a sub) (indexSubStep c i₂ nx xs v a sub) := by
  unfold indexSubStep
  split
  · exact Sim.refl (fun h => h)
  · fuel_call (execSubscript_sim c hI a.st sub v xs.length) with x
    split
    · fuel_refl
    · rename_i s1 from_ to_
      fuel_tail (foldl_sim _ _ (fun a' v' => indexElemStep_sim c hI nx a' v') (sliceRange xs from_ to_)
        { a with st := s1 })

theorem execArrayIndex_sim (hI : SimI i₁ i₂) (s : St) (subs : List Node) (nx : Option Node) (v : Item)
    (f : Found) :
    Sim s.oof (execArrayIndex c i₁ s subs nx v f) (execArrayIndex c i₂ s subs nx v f) := by
  unfold execArrayIndex
  split
  · fuel_refl
  · rename_i xs _
    dsimp only
    fuel_call (foldl_sim _ _ (fun a sub => indexSubStep_sim c hI nx xs v a sub) subs
      ⟨{ s with innermost := xs.length }, f, .notFound, none, none⟩) with a
    fuel_refl

/-! ### node dispatch -/

theorem execBinaryNode_sim (hI : SimI i₁ i₂) (hB : SimB b₁ b₂) (hA : SimA a₁ a₂) (s : St) (n : Node)
    (op : BinOp) (l r nx : Option Node) (v : Item) (f : Found) (unwrap : Bool) :
    Sim s.oof (execBinaryNode c i₁ b₁ a₁ s n op l r nx v f unwrap)
      (execBinaryNode c i₂ b₂ a₂ s n op l r nx v f unwrap) := by
  unfold execBinaryNode
  split
  · exact appendBoolResult_sim' c hI nx f (hB _ _ _ _)
  · split
    · exact execBinaryMathExpr_sim c hI _ _ _ _ _ _ _
    · split
      · exact execConvMethod_sim c hI hA _ _ _ _ _ _ _
      · fuel_refl

theorem execUnaryNode_sim (hI : SimI i₁ i₂) (hB : SimB b₁ b₂) (hA : SimA a₁ a₂) (s : St) (n : Node)
    (op : UnOp) (x nx : Option Node) (v : Item) (f : Found) (unwrap : Bool) :
    Sim s.oof (execUnaryNode c i₁ b₁ a₁ s n op x nx v f unwrap)
      (execUnaryNode c i₂ b₂ a₂ s n op x nx v f unwrap) := by
  unfold execUnaryNode
  split
  · exact appendBoolResult_sim' c hI nx f (hB _ _ _ _)
  · exact appendBoolResult_sim' c hI nx f (hB _ _ _ _)
  · exact appendBoolResult_sim' c hI nx f (hB _ _ _ _)
  · split
    · exact unwrapTargetArray_sim hA _ _ _ _
    · split
      · fuel_refl
      · rename_i cond
        dsimp only
        fuel_call (executeNestedBoolItem_sim hB s cond v) with p
        split
        · fuel_refl
        · split
          · fuel_refl
          · exact executeNextItem_sim c hI _ _ _ _
  · exact execUnaryMathExpr_sim c hI _ _ _ _ _ _
  · exact execUnaryMathExpr_sim c hI _ _ _ _ _ _
  · split
    · exact hA _ _ _ _ _ _ _ _ _
    · exact executeDateTimeMethod_sim c hI _ _ _ _ _ _

theorem dispatch_sim (hI : SimI i₁ i₂) (hB : SimB b₁ b₂) (hA : SimA a₁ a₂) (s : St) (n : Node) (v : Item)
    (f : Found) (unwrap : Bool) :
    Sim s.oof (dispatch c i₁ b₁ a₁ s n v f unwrap) (dispatch c i₂ b₂ a₂ s n v f unwrap) := by
  unfold dispatch
  split
  · exact execConstNode_sim c hI hA _ _ _ _ _ _ _
  · exact execLiteral_sim c hI _ _ _ _
  · exact execLiteral_sim c hI _ _ _ _
  · exact execLiteral_sim c hI _ _ _ _
  · exact execVariable_sim c hI _ _ _ _
  · exact execKeyNode_sim c hI hA _ _ _ _ _ _ _
  · exact execBinaryNode_sim c hI hB hA _ _ _ _ _ _ _ _ _
  · exact execUnaryNode_sim c hI hB hA _ _ _ _ _ _ _ _
  · exact appendBoolResult_sim' c hI _ f (hB _ _ _ _)
  · exact execMethodNode_sim c hI hA _ _ _ _ _ _ _
  · exact execAnyNode_sim c hI hA _ _ _ _ _ _
  · exact execArrayIndex_sim c hI _ _ _ _ _

end

/-! ## induction over the fuel -/

/-- **the run with less fuel, if it finished, is the run with more fuel** -/
theorem sim_all (c : Ctx) : ∀ n m : Nat, n ≤ m →
    SimI (xItem c n) (xItem c m) ∧ SimB (xBool c n) (xBool c m) ∧ SimA (xAny c n) (xAny c m) := by
  intro n
  induction n with
  | zero =>
    intro m _
    refine ⟨fun s n v f u h => ?_, fun s n v b h => ?_, fun s n vs f l a b i u h => ?_⟩
    · simp [xItem] at h
    · simp [xBool] at h
    · simp [xAny] at h
  | succ n ih =>
    intro m hm
    cases m with
    | zero => omega
    | succ m =>
      obtain ⟨hI, hB, hA⟩ := ih m (by omega)
      refine ⟨fun s nd v f u => ?_, fun s nd v b => ?_, fun s nd vs f l a b i u => ?_⟩
      · simp only [xItem]
        split
        · fuel_refl
        · rename_i s' hpoll
          exact Sim.mono (dispatch_sim c hI hB hA s' nd v f u) (fun h => by rw [← poll_oof hpoll]; exact h)
      · simp only [xBool]; exact executeBoolItem_sim c hI hB _ _ _ _
      · simp only [xAny]; exact executeAnyItem_sim hI hA _ _ _ _ _ _ _ _ _

/-! ## the statements -/

/-- `oof` is sticky: a run of `xItem` that ends with `oof = false` started with `oof = false` -/
theorem xItem_oof_sticky (c : Ctx) (n : Nat) (s : St) (node : Node) (v : Item) (f : Found) (u : Bool) :
    (xItem c n s node v f u).st.oof = false → s.oof = false :=
  fun h => ((sim_all c n n (Nat.le_refl n)).1 s node v f u h).1

theorem xBool_oof_sticky (c : Ctx) (n : Nat) (s : St) (node : Node) (v : Item) (b : Bool) :
    (xBool c n s node v b).st.oof = false → s.oof = false :=
  fun h => ((sim_all c n n (Nat.le_refl n)).2.1 s node v b h).1

theorem xAny_oof_sticky (c : Ctx) (n : Nat) (s : St) (node : Option Node) (vs : List Item) (f : Found)
    (l a b : Nat) (i u : Bool) :
    (xAny c n s node vs f l a b i u).st.oof = false → s.oof = false :=
  fun h => ((sim_all c n n (Nat.le_refl n)).2.2 s node vs f l a b i u h).1

/-- **fuel monotonicity**: a run that finished returns the same with more fuel.  (The hypothesis
    `s.oof = false` of the informal statement is implied, see `xItem_oof_sticky`.) -/
theorem xItem_mono (c : Ctx) (n m : Nat) (h : n ≤ m) (s : St) (node : Node) (v : Item) (f : Found) (u : Bool) :
    (xItem c n s node v f u).st.oof = false → xItem c m s node v f u = xItem c n s node v f u :=
  fun ho => ((sim_all c n m h).1 s node v f u ho).2

theorem xBool_mono (c : Ctx) (n m : Nat) (h : n ≤ m) (s : St) (node : Node) (v : Item) (b : Bool) :
    (xBool c n s node v b).st.oof = false → xBool c m s node v b = xBool c n s node v b :=
  fun ho => ((sim_all c n m h).2.1 s node v b ho).2

theorem xAny_mono (c : Ctx) (n m : Nat) (h : n ≤ m) (s : St) (node : Option Node) (vs : List Item) (f : Found)
    (l a b : Nat) (i u : Bool) :
    (xAny c n s node vs f l a b i u).st.oof = false →
      xAny c m s node vs f l a b i u = xAny c n s node vs f l a b i u :=
  fun ho => ((sim_all c n m h).2.2 s node vs f l a b i u ho).2

/-! # Part 2 — fuel adequacy: a computable amount of fuel with which no run sets `oof`

One-sided invariant `OK D s` (no `oof`, current item within the depth bound `D`), preserved by every
function whose node needs at most the available fuel (`need D node`, 4 per nesting level of the path
tree plus `D` per `.**` step; 2 more for the auto-unwrapping of an array target).  Structure as in
`Good.lean`; `adequate_all` by induction on the fuel. -/

/-! ## measures -/

mutual
  /-- nesting depth of an item (scalars 0) -/
  def depth : Item → Nat
    | .arr xs => 1 + depthL xs
    | .obj kvs => 1 + depthM kvs
    | _ => 0
  def depthL : List Item → Nat
    | [] => 0
    | x :: xs => max (depth x) (depthL xs)
  def depthM : List (List Char × Item) → Nat
    | [] => 0
    | (_, v) :: rest => max (depth v) (depthM rest)
end

mutual
  /-- fuel `xItem` needs for a node (not counting the auto-unwrapping of an array target, which costs 2
      more), given that every item has depth at most `D`: 4 per nesting level of the path tree
      (`next` pointers and operands alike), plus `D` for a `.**` step -/
  def need (D : Nat) : Node → Nat
    | .const _ nx | .method _ nx | .str _ nx | .var _ nx | .key _ nx | .numeric _ nx | .integer _ nx =>
      4 + needO D nx
    | .any _ _ nx => D + 4 + needO D nx
    | .binary _ l r nx => 4 + max (needO D l) (max (needO D r) (needO D nx))
    | .unary _ x nx => 4 + max (needO D x) (needO D nx)
    | .regex x _ _ nx => 4 + max (need D x) (needO D nx)
    | .arrayIndex subs nx => 4 + max (needL D subs) (needO D nx)
  def needO (D : Nat) : Option Node → Nat
    | none => 0
    | some n => need D n
  def needL (D : Nat) : List Node → Nat
    | [] => 0
    | n :: ns => max (need D n) (needL D ns)
end

theorem need_pos (D : Nat) (n : Node) : 4 ≤ need D n := by
  cases n <;> simp only [need] <;> omega

theorem needL_mem (D : Nat) {n : Node} {ns : List Node} (h : n ∈ ns) : need D n ≤ needL D ns := by
  induction ns with
  | nil => simp at h
  | cons m ms ih =>
    simp only [needL]
    rcases List.mem_cons.mp h with rfl | h'
    · omega
    · have := ih h'; omega

/-- extra fuel for the auto-unwrapping of an array target -/
def bonus (u : Bool) : Nat := if u then 2 else 0
@[simp] theorem bonus_true : bonus true = 2 := rfl
@[simp] theorem bonus_false : bonus false = 0 := rfl
theorem bonus_le (u : Bool) : bonus u ≤ 2 := by cases u <;> simp

/-- descent allowance of `executeAnyItem` for a list of elements -/
def dl : List Item → Nat
  | [] => 0
  | v :: vs => 1 + depthL (v :: vs)

theorem dl_le (vs : List Item) : dl vs ≤ 1 + depthL vs := by
  cases vs <;> simp [dl]

theorem depthL_mem {v : Item} {xs : List Item} (h : v ∈ xs) : depth v ≤ depthL xs := by
  induction xs with
  | nil => simp at h
  | cons x xs ih =>
    simp only [depthL]
    rcases List.mem_cons.mp h with rfl | h'
    · omega
    · have := ih h'; omega

theorem depthM_mem {kv : List Char × Item} {kvs : List (List Char × Item)} (h : kv ∈ kvs) :
    depth kv.2 ≤ depthM kvs := by
  induction kvs with
  | nil => simp at h
  | cons x xs ih =>
    obtain ⟨k, v⟩ := x
    simp only [depthM]
    rcases List.mem_cons.mp h with rfl | h'
    · simp; omega
    · have := ih h'; omega

theorem depthL_members (kvs : List (List Char × Item)) : depthL (members kvs) = depthM kvs := by
  induction kvs with
  | nil => simp [members, depthL, depthM]
  | cons x xs ih =>
    obtain ⟨k, v⟩ := x
    simp only [members, List.map_cons, depthL, depthM] at *
    rw [ih]

theorem depth_lookup {key : List Char} {kvs : List (List Char × Item)} {val : Item}
    (h : Item.lookup key kvs = some val) : depth val ≤ depthM kvs := by
  induction kvs with
  | nil => simp [Item.lookup] at h
  | cons x xs ih =>
    obtain ⟨k, v⟩ := x
    simp only [Item.lookup] at h
    simp only [depthM]
    split at h
    · simp at h; subst h; omega
    · have := ih h; omega

theorem dl_collection {v : Item} {vs : List Item} (h : v ∈ vs) : dl ((collection v).getD []) + 1 ≤ dl vs := by
  have hv := depthL_mem h
  have hvs : dl vs = 1 + depthL vs := by cases vs <;> simp_all [dl]
  cases v with
  | arr xs => have := dl_le xs; simp only [collection, Option.getD_some, depth] at *; omega
  | obj kvs =>
    have := dl_le (members kvs); rw [depthL_members] at this
    simp only [collection, Option.getD_some, depth] at *; omega
  | _ => rw [hvs]; simp only [collection, Option.getD_none, dl]; omega

theorem mem_sliceRange {v : Item} {xs : List Item} {a b : Int} (h : v ∈ sliceRange xs a b) : v ∈ xs := by
  unfold sliceRange at h
  split at h
  · simp at h
  · exact List.mem_of_mem_drop (List.mem_of_mem_take h)

theorem depthL_arrayOf {c : Ctx} {v : Item} {xs : List Item} (h : arrayOf c v = some xs) :
    depthL xs ≤ depth v := by
  unfold arrayOf at h
  split at h
  · simp at h; subst h; simp [depth]
  · split at h
    · simp at h; subst h; simp [depthL]
    · simp at h

theorem depth_kvObj (id : Int) (kv : List Char × Item) : depth (kvObj id kv) = 1 + depth kv.2 := by
  simp [kvObj, depth, depthM]

theorem depth_predItem (p : Pred) : depth (predItem p) = 0 := by cases p <;> simp [predItem, depth]

/-! ### the values computed by the item methods are scalars -/

theorem depth_castJSONNumber {t : List Char} {cb : Num.UCallback} {val : Item}
    (h : Num.castJSONNumber t cb = some val) : depth val = 0 := by
  unfold Num.castJSONNumber at h
  split at h <;> simp at h <;> subst h <;> simp [depth]

theorem depth_liftI {r : Except Num.MathErr Int} {val : Item} (h : Num.liftI r = .ok val) : depth val = 0 := by
  cases r <;> simp [Num.liftI, Except.map] at h; subst h; simp [depth]

theorem depth_liftF {r : Except Num.MathErr F64} {val : Item} (h : Num.liftF r = .ok val) : depth val = 0 := by
  cases r <;> simp [Num.liftF, Except.map] at h; subst h; simp [depth]

theorem depth_int64Math {a b : Int} {op : BinOp} {val : Item} (h : Num.int64Math a b op = .ok val) :
    depth val = 0 := by
  unfold Num.int64Math at h
  split at h
  · exact depth_liftF h
  · exact depth_liftI h

theorem depth_mathOpI {a : Int} {r : Item} {op : BinOp} {val : Item} (h : Num.mathOpI a r op = .ok val) :
    depth val = 0 := by
  unfold Num.mathOpI at h
  repeat' split at h
  all_goals first | exact depth_int64Math h | exact depth_liftI h | exact depth_liftF h | simp at h

theorem depth_mathOpF {a : F64} {r : Item} {op : BinOp} {val : Item} (h : Num.mathOpF a r op = .ok val) :
    depth val = 0 := by
  unfold Num.mathOpF at h
  repeat' split at h
  all_goals first | exact depth_liftI h | exact depth_liftF h | simp at h

theorem depth_mathOp {l r : Item} {op : BinOp} {val : Item} (h : Num.mathOp l r op = .ok val) : depth val = 0 := by
  unfold Num.mathOp at h
  repeat' split at h
  all_goals first | exact depth_mathOpI h | exact depth_mathOpF h | simp at h

/-- a conversion that only produces scalars -/
def ScalarConv (conv : Item → Conv) : Prop := ∀ v out, conv v = .val out → depth out = 0

theorem int32Check_scalar {i : Int} {out : Item} (h : int32Check i = .val out) : depth out = 0 := by
  unfold int32Check at h; split at h <;> simp at h; subst h; simp [depth]

theorem convDouble_scalar : ScalarConv convDouble := by
  intro v out h
  unfold convDouble at h
  repeat' (first | split at h | dsimp only at h)
  all_goals first | (simp at h; subst h; simp [depth]) | simp at h

theorem convInteger_scalar : ScalarConv convInteger := by
  intro v out h
  unfold convInteger at h
  repeat' split at h
  all_goals first | exact int32Check_scalar h | simp at h

theorem convBigInt_scalar : ScalarConv convBigInt := by
  intro v out h
  unfold convBigInt at h
  repeat' split at h
  all_goals first | (simp at h; subst h; simp [depth]) | simp at h

theorem convString_scalar : ScalarConv convString := by
  intro v out h
  unfold convString at h
  repeat' split at h
  all_goals first | (simp at h; subst h; simp [depth]) | simp at h

theorem convBoolean_scalar : ScalarConv convBoolean := by
  intro v out h
  unfold convBoolean at h
  repeat' split at h
  all_goals first | (simp at h; subst h; simp [depth]) | simp at h

theorem convNumericItem_scalar (cb : Num.UCallback) : ScalarConv (convNumericItem cb) := by
  intro v out h
  unfold convNumericItem at h
  repeat' split at h
  all_goals first | (simp at h; subst h; first | simp [depth] | exact depth_castJSONNumber (by assumption)) | simp at h

theorem convNumber_scalar (dec : Option (Option Node × Option Node)) : ScalarConv (convNumber dec) := by
  intro v out h
  unfold convNumber at h
  dsimp only at h
  repeat' split at h
  all_goals first | (simp at h; subst h; simp [depth]) | simp at h


/-! ## the invariant -/

/-- a state in which fuel has not run out and whose current item is within the depth bound -/
def OK (D : Nat) (s : St) : Prop := s.oof = false ∧ depth s.current ≤ D

/-- the state an accumulator with early return `ret` and loop state `st` stands for -/
def retSt (ret : Option Res) (st : St) : St :=
  match ret with
  | some r => r.st
  | none => st

@[simp] theorem retSt_some (r : Res) (st : St) : retSt (some r) st = r.st := rfl
@[simp] theorem retSt_none (st : St) : retSt none st = st := rfl

/-- the items the context can inject are within the depth bound -/
structure CtxOK (D : Nat) (c : Ctx) : Prop where
  root : depth c.root ≤ D
  vars : ∀ name val, c.vars.bind (Item.lookup name) = some val → depth val ≤ D

/-- `item` (the dispatcher with fuel `k`) does not run out on nodes that need at most `k` -/
def HI (D : Nat) (item : ItemK) (k : Nat) : Prop :=
  ∀ s n v f u, need D n + bonus u ≤ k → depth v ≤ D → OK D s → OK D (item s n v f u).st

/-- `xBool` is entered from `xItem` with the same node: one unit less -/
def HB (D : Nat) (bool : BoolK) (k : Nat) : Prop :=
  ∀ s n v b, need D n ≤ k + 1 → depth v ≤ D → OK D s → OK D (bool s n v b).st

/-- `e` is the descent allowance: needed only if the loop can descend (`level < last`) -/
def HA (D : Nat) (any : AnyK) (k : Nat) : Prop :=
  ∀ s node vs f level first last ign un (e : Nat), needO D node + bonus un + 1 + e ≤ k →
    (level < last → dl vs ≤ e) → depthL vs ≤ D → OK D s → OK D (any s node vs f level first last ign un).st

theorem foldl_inv_mem {α β : Type} (P : β → Prop) (step : β → α → β) (xs : List α) (b : β)
    (h0 : P b) (hstep : ∀ b x, x ∈ xs → P b → P (step b x)) : P (xs.foldl step b) := by
  induction xs generalizing b with
  | nil => exact h0
  | cons x xs ih =>
    exact ih _ (hstep _ _ (List.mem_cons_self ..) h0) (fun b y hy hb => hstep b y (List.mem_cons_of_mem _ hy) hb)

/-- closes the goals where the result state is a known good state up to context fields -/
macro "ok_leaf" : tactic =>
  `(tactic| first | assumption | (simp_all [OK]; done) | ((repeat' split) <;> (simp_all [OK]; done)))

theorem predicateTail_current (c : Ctx) (s : St) (cb : Item → Item → CbOut) (ls rs : List Item) :
    (predicateTail c s cb ls rs).st.current = s.current := by
  unfold predicateTail
  dsimp only
  repeat' split
  all_goals rfl

theorem predicateTail_ok {D : Nat} (c : Ctx) {s : St} (cb : Item → Item → CbOut) (ls rs : List Item)
    (hs : OK D s) : OK D (predicateTail c s cb ls rs).st := by
  simp only [OK, predicateTail_oof, predicateTail_current]; exact hs

/-! ## one lemma per function -/

section
variable {D : Nat} (c : Ctx) {item : ItemK} {bool : BoolK} {any : AnyK} {k : Nat}

theorem executeItem_ok (hI : HI D item k) {s : St} {n : Node} {v : Item} (f : Found)
    (hn : need D n + 2 ≤ k) (hv : depth v ≤ D) (hs : OK D s) : OK D (executeItem c item s n v f).st :=
  hI _ _ _ _ _ (by have := bonus_le c.lax; omega) hv hs

theorem executeNextItem_ok (hI : HI D item k) {s : St} {nx : Option Node} {v : Item} (f : Found)
    (hn : needO D nx + 2 ≤ k) (hv : nx.isSome → depth v ≤ D) (hs : OK D s) :
    OK D (executeNextItem c item s nx v f).st := by
  unfold executeNextItem
  split
  · exact executeItem_ok c hI f (by simpa [needO] using hn) (hv rfl) hs
  · ok_leaf

theorem withBaseObject_ok {s : St} (a : Nat) (i : Int) (k' : St → Res)
    (hk : ∀ s', OK D s' → OK D (k' s').st) (hs : OK D s) : OK D (withBaseObject s a i k').st := by
  unfold withBaseObject
  have := hk { s with baseAddr := a, baseId := i } (by simpa [OK] using hs)
  ok_leaf

theorem execLiteral_ok (hI : HI D item k) {s : St} {nx : Option Node} {v : Item} (f : Found)
    (hn : needO D nx + 2 ≤ k) (hv : depth v ≤ D) (hs : OK D s) : OK D (execLiteral c item s nx v f).st := by
  unfold execLiteral
  split
  · ok_leaf
  · exact executeNextItem_ok c hI f hn (fun _ => hv) hs

theorem execVariable_ok (hc : CtxOK D c) (hI : HI D item k) {s : St} (name : List Char) {nx : Option Node}
    (f : Found) (hn : needO D nx + 2 ≤ k) (hs : OK D s) : OK D (execVariable c item s name nx f).st := by
  unfold execVariable
  split
  · rename_i val hval
    exact withBaseObject_ok _ _ _ (fun s' hs' => executeNextItem_ok c hI f hn (fun _ => hc.vars _ _ hval) hs') hs
  · ok_leaf

theorem unwrapTargetArray_ok (hA : HA D any k) {s : St} {n : Node} {xs : List Item} (f : Found)
    (hn : need D n + 1 ≤ k) (hxs : depthL xs ≤ D) (hs : OK D s) : OK D (unwrapTargetArray any s n xs f).st :=
  hA _ _ _ _ _ _ _ _ _ 0 (by simpa [needO] using hn) (by omega) hxs hs

theorem depthL_of_arr {D : Nat} {xs : List Item} (h : depth (.arr xs) ≤ D) : depthL xs ≤ D := by
  simp only [depth] at h; omega

theorem depthL_of_obj {D : Nat} {kvs : List (List Char × Item)} (h : depth (.obj kvs) ≤ D) :
    depthL (members kvs) ≤ D := by
  rw [depthL_members]; simp only [depth] at h; omega

theorem execKeyNode_ok (hI : HI D item k) (hA : HA D any k) {s : St} {n : Node} (key : List Char)
    {nx : Option Node} {v : Item} (f : Found) {unwrap : Bool} (hnx : needO D nx + 2 ≤ k)
    (hn : unwrap = true → need D n + 1 ≤ k) (hv : depth v ≤ D) (hs : OK D s) :
    OK D (execKeyNode c item any s n key nx v f unwrap).st := by
  unfold execKeyNode
  split
  · split
    · rename_i val hval
      refine executeNextItem_ok c hI f hnx (fun _ => ?_) hs
      have := depth_lookup hval; simp only [depth] at hv; omega
    · ok_leaf
  · split
    · rename_i hu
      exact hA _ _ _ _ _ _ _ _ _ 0 (by have := hn hu; simpa [needO] using this) (by omega) (depthL_of_arr hv) hs
    · ok_leaf
  · ok_leaf

theorem execAnyKey_ok (hA : HA D any k) {s : St} {n : Node} {nx : Option Node} {v : Item} (f : Found)
    {unwrap : Bool} (hnx : needO D nx + 3 ≤ k) (hn : unwrap = true → need D n + 1 ≤ k) (hv : depth v ≤ D)
    (hs : OK D s) : OK D (execAnyKey c any s n nx v f unwrap).st := by
  unfold execAnyKey
  split
  · exact hA _ _ _ _ _ _ _ _ _ 0 (by have := bonus_le c.lax; omega) (by omega) (depthL_of_obj hv) hs
  · split
    · rename_i hu
      exact unwrapTargetArray_ok hA f (hn hu) (depthL_of_arr hv) hs
    · ok_leaf
  · ok_leaf

theorem execAnyArray_ok (hI : HI D item k) (hA : HA D any k) {s : St} {nx : Option Node} {v : Item}
    (f : Found) (hnx : needO D nx + 3 ≤ k) (hv : depth v ≤ D) (hs : OK D s) :
    OK D (execAnyArray c item any s nx v f).st := by
  unfold execAnyArray
  split
  · exact hA _ _ _ _ _ _ _ _ _ 0 (by have := bonus_le c.lax; omega) (by omega) (depthL_of_arr hv) hs
  · split
    · exact executeNextItem_ok c hI f (by omega) (fun _ => hv) hs
    · ok_leaf

theorem execLastConst_ok (hI : HI D item k) {s : St} {nx : Option Node} (f : Found)
    (hnx : needO D nx + 2 ≤ k) (hs : OK D s) : OK D (execLastConst c item s nx f).st := by
  unfold execLastConst
  split
  · ok_leaf
  · split
    · ok_leaf
    · exact executeNextItem_ok c hI f hnx (fun _ => by simp [depth]) hs

theorem execConstNode_ok (hc : CtxOK D c) (hI : HI D item k) (hA : HA D any k) {s : St} {n : Node}
    (kc : Const) {nx : Option Node} {v : Item} (f : Found) {unwrap : Bool} (hnx : needO D nx + 3 ≤ k)
    (hn : unwrap = true → need D n + 1 ≤ k) (hv : depth v ≤ D) (hs : OK D s) :
    OK D (execConstNode c item any s n kc nx v f unwrap).st := by
  unfold execConstNode
  cases kc <;> simp only
  · exact withBaseObject_ok _ _ _ (fun s' hs' => executeNextItem_ok c hI f (by omega) (fun _ => hc.root) hs') hs
  · exact executeNextItem_ok c hI f (by omega) (fun _ => hs.2) hs
  · exact execLastConst_ok c hI f (by omega) hs
  · exact execAnyArray_ok c hI hA f hnx hv hs
  · exact execAnyKey_ok c hA f hnx hn hv hs
  · exact execLiteral_ok c hI f (by omega) (by simp [depth]) hs
  · exact execLiteral_ok c hI f (by omega) (by simp [depth]) hs
  · exact execLiteral_ok c hI f (by omega) (by simp [depth]) hs

/-! ### operand evaluation -/

theorem optUnwrapResult_ok (hI : HI D item k) {s : St} {n : Node} {v : Item} (unwrap : Bool) (l : List Item)
    (hn : need D n + 2 ≤ k) (hv : depth v ≤ D) (hs : OK D s) :
    OK D (optUnwrapResult c item s n v unwrap l).st := by
  unfold optUnwrapResult
  have h1 := executeItem_ok c hI (some []) hn hv hs
  split
  · dsimp only
    ok_leaf
  · exact executeItem_ok c hI _ hn hv hs

theorem optUnwrapResultSilent_ok (hI : HI D item k) {s : St} {n : Node} {v : Item} (unwrap : Bool) (f : Found)
    (hn : need D n + 2 ≤ k) (hv : depth v ≤ D) (hs : OK D s) :
    OK D (optUnwrapResultSilent c item s n v unwrap f).st := by
  unfold optUnwrapResultSilent
  have hs' : OK D { s with verbose := false } := by simpa [OK] using hs
  cases f with
  | some l =>
    have := optUnwrapResult_ok c hI unwrap l hn hv hs'
    dsimp only
    ok_leaf
  | none =>
    have := executeItem_ok c hI none hn hv hs'
    dsimp only
    ok_leaf

/-! ### predicates -/

theorem executePredicate_ok (hI : HI D item k) {s : St} {left : Node} {right : Option Node} {v : Item}
    (unwrapRight : Bool) (cb : Item → Item → CbOut) (hl : need D left + 2 ≤ k) (hr : needO D right + 2 ≤ k)
    (hv : depth v ≤ D) (hs : OK D s) : OK D (executePredicate c item s left right v unwrapRight cb).st := by
  unfold executePredicate
  have h1 := optUnwrapResultSilent_ok c hI true (some []) hl hv hs
  dsimp only
  split
  · ok_leaf
  · split
    · rename_i rn
      have h2 := optUnwrapResultSilent_ok c hI unwrapRight (some []) (n := rn) (by simpa [needO] using hr) hv h1
      split
      · ok_leaf
      · exact predicateTail_ok c cb _ _ h2
    · exact predicateTail_ok c cb _ _ h1

theorem executeBinaryBoolItem_ok (hI : HI D item k) (hB : HB D bool k) {s : St} (op : BinOp)
    {l r : Option Node} {v : Item} (hl : needO D l + 2 ≤ k) (hr : needO D r + 2 ≤ k) (hv : depth v ≤ D)
    (hs : OK D s) : OK D (executeBinaryBoolItem c item bool s op l r v).st := by
  unfold executeBinaryBoolItem
  split
  · ok_leaf
  · rename_i ln
    have hl' : need D ln + 2 ≤ k := by simpa [needO] using hl
    split
    · split
      · ok_leaf
      · rename_i rn
        have hr' : need D rn + 2 ≤ k := by simpa [needO] using hr
        have ha := hB s ln v false (by omega) hv hs
        have hb := hB (bool s ln v false).st rn v false (by omega) hv ha
        dsimp only
        ok_leaf
    · split
      · ok_leaf
      · rename_i rn
        have hr' : need D rn + 2 ≤ k := by simpa [needO] using hr
        have ha := hB s ln v false (by omega) hv hs
        have hb := hB (bool s ln v false).st rn v false (by omega) hv ha
        dsimp only
        ok_leaf
    · exact executePredicate_ok c hI _ _ hl' hr hv hs
    · split
      · exact executePredicate_ok c hI _ _ hl' hr hv hs
      · ok_leaf

theorem executeUnaryBoolItem_ok (hI : HI D item k) (hB : HB D bool k) {s : St} (op : UnOp)
    {x : Option Node} {v : Item} (hx : needO D x + 2 ≤ k) (hv : depth v ≤ D) (hs : OK D s) :
    OK D (executeUnaryBoolItem c item bool s op x v).st := by
  unfold executeUnaryBoolItem
  split
  · rename_i xn
    have ha := hB s xn v false (by simp [needO] at hx; omega) hv hs
    dsimp only
    ok_leaf
  · rename_i xn
    have ha := hB s xn v false (by simp [needO] at hx; omega) hv hs
    dsimp only
    ok_leaf
  · rename_i xn
    have hx' : need D xn + 2 ≤ k := by simpa [needO] using hx
    split
    · have := optUnwrapResultSilent_ok c hI false (some []) hx' hv hs
      dsimp only
      ok_leaf
    · have := optUnwrapResultSilent_ok c hI false none hx' hv hs
      dsimp only
      ok_leaf
  · ok_leaf
  · ok_leaf
  · ok_leaf
  · ok_leaf

theorem executeBoolItem_ok (hI : HI D item k) (hB : HB D bool k) {s : St} {n : Node} {v : Item} (chn : Bool)
    (hn : need D n ≤ k + 2) (hv : depth v ≤ D) (hs : OK D s) : OK D (executeBoolItem c item bool s n v chn).st := by
  unfold executeBoolItem
  split
  · ok_leaf
  · split
    · simp only [need] at hn
      exact executeBinaryBoolItem_ok c hI hB _ (by omega) (by omega) hv hs
    · simp only [need] at hn
      exact executeUnaryBoolItem_ok c hI hB _ (by omega) hv hs
    · rename_i _ x _ _ _ _
      have := need_pos D x
      simp only [need] at hn
      exact executePredicate_ok c hI _ _ (by omega) (by simp only [needO]; omega) hv hs
    · ok_leaf

theorem appendBoolResult_ok (hI : HI D item k) {nx : Option Node} (f : Found) {p : PRes}
    (hnx : needO D nx + 2 ≤ k) (hp : OK D p.st) : OK D (appendBoolResult c item nx f p).st := by
  unfold appendBoolResult
  split
  · ok_leaf
  · split
    · ok_leaf
    · exact executeNextItem_ok c hI f hnx (fun _ => by rw [depth_predItem]; omega) hp

theorem executeNestedBoolItem_ok (hB : HB D bool k) {s : St} {n : Node} {v : Item} (hn : need D n ≤ k + 1)
    (hv : depth v ≤ D) (hs : OK D s) : OK D (executeNestedBoolItem bool s n v).st := by
  unfold executeNestedBoolItem
  have := hB { s with current := v } n v false hn hv ⟨hs.1, hv⟩
  dsimp only
  ok_leaf

/-! ### arithmetic -/

theorem unaryStep_inv (hI : HI D item k) (cb : Num.UCallback) {nx : Option Node} (hnx : needO D nx + 2 ≤ k)
    (a : UAcc) (v : Item) (h : OK D (retSt a.ret a.st)) :
    OK D (retSt (unaryStep c item cb nx a v).ret (unaryStep c item cb nx a v).st) := by
  unfold unaryStep
  split
  · exact h
  · rename_i hnone
    simp only [hnone, retSt_none] at h
    have go : ∀ val : Item, (nx.isSome → depth val ≤ D) → OK D (executeNextItem c item a.st nx val a.found).st :=
      fun val hval => executeNextItem_ok c hI a.found hnx hval h
    have goI : ∀ i : Int, OK D (executeNextItem c item a.st nx (.int i) a.found).st :=
      fun i => go _ (fun _ => by simp [depth])
    have goF : ∀ x : F64, OK D (executeNextItem c item a.st nx (.flt x) a.found).st :=
      fun x => go _ (fun _ => by simp [depth])
    dsimp only
    split
    · split
      · ok_leaf
      · ok_leaf
    · split
      · ok_leaf
      · ok_leaf
    · split
      · ok_leaf
      · split
        · rename_i val hval
          have := go val (fun _ => by rw [depth_castJSONNumber hval]; omega); ok_leaf
        · ok_leaf
    · split
      · rename_i other _ _ _ hprobe
        have := go other (fun hsome => by cases nx <;> simp_all); ok_leaf
      · ok_leaf

theorem execUnaryMathExpr_ok (hI : HI D item k) {s : St} {operand nx : Option Node} {v : Item}
    (cb : Num.UCallback) (f : Found) (hx : needO D operand + 2 ≤ k) (hnx : needO D nx + 2 ≤ k)
    (hv : depth v ≤ D) (hs : OK D s) : OK D (execUnaryMathExpr c item s operand nx v cb f).st := by
  unfold execUnaryMathExpr
  split
  · ok_leaf
  · rename_i x
    have hr := optUnwrapResult_ok c hI true [] (n := x) (by simpa [needO] using hx) hv hs
    generalize optUnwrapResult c item s x v true [] = r at hr
    try dsimp only
    split
    · ok_leaf
    · have hinv := foldl_inv_mem (fun a : UAcc => OK D (retSt a.ret a.st)) (unaryStep c item cb nx)
        (r.found.getD []) ⟨r.st, f, .notFound, none⟩ (by simpa using hr)
        (fun a v _ h => unaryStep_inv c hI cb hnx a v h)
      try dsimp only at hinv
      split <;> ok_leaf

theorem execBinaryMathExpr_ok (hI : HI D item k) {s : St} (op : BinOp) {l r nx : Option Node} {v : Item}
    (f : Found) (hl : needO D l + 2 ≤ k) (hr : needO D r + 2 ≤ k) (hnx : needO D nx + 2 ≤ k)
    (hv : depth v ≤ D) (hs : OK D s) : OK D (execBinaryMathExpr c item s op l r nx v f).st := by
  unfold execBinaryMathExpr
  split
  · rename_i ln rn
    have h1 := optUnwrapResult_ok c hI true [] (n := ln) (by simpa [needO] using hl) hv hs
    generalize optUnwrapResult c item s ln v true [] = rl at h1
    try dsimp only
    split
    · ok_leaf
    · split
      · have h2 := optUnwrapResult_ok c hI true [] (n := rn) (by simpa [needO] using hr) hv h1
        generalize optUnwrapResult c item rl.st rn v true [] = rr at h2
        split
        · ok_leaf
        · split
          · split
            · ok_leaf
            · rename_i val hval
              split
              · ok_leaf
              · split
                · ok_leaf
                · exact executeNextItem_ok c hI f hnx (fun _ => by rw [depth_mathOp hval]; omega) h2
          · ok_leaf
      · ok_leaf
  · ok_leaf

/-! ### item methods -/

theorem execMethodSize_ok (hI : HI D item k) {s : St} {nx : Option Node} (v : Item) (f : Found)
    (hnx : needO D nx + 2 ≤ k) (hs : OK D s) : OK D (execMethodSize c item s nx v f).st := by
  unfold execMethodSize
  split
  · exact executeNextItem_ok c hI f hnx (fun _ => by simp [depth]) hs
  · split
    · ok_leaf
    · exact executeNextItem_ok c hI f hnx (fun _ => by simp [depth]) hs

theorem execConvMethod_ok (hI : HI D item k) (hA : HA D any k) {s : St} {n : Node} {nx : Option Node}
    {v : Item} (f : Found) {unwrap : Bool} {conv : Item → Conv} (hconv : ScalarConv conv)
    (hnx : needO D nx + 2 ≤ k) (hn : unwrap = true → need D n + 1 ≤ k) (hv : depth v ≤ D) (hs : OK D s) :
    OK D (execConvMethod c item any s n nx v f unwrap conv).st := by
  unfold execConvMethod
  split
  · split
    · rename_i hu
      exact unwrapTargetArray_ok hA f (hn hu) (depthL_of_arr hv) hs
    · ok_leaf
  · split
    · rename_i out hout
      exact executeNextItem_ok c hI f hnx (fun _ => by rw [hconv _ _ hout]; omega) hs
    · ok_leaf
    · ok_leaf
    · ok_leaf

theorem executeDateTimeMethod_ok (hI : HI D item k) {s : St} (op : UnOp) (arg : Option Node)
    {nx : Option Node} (v : Item) (f : Found) (hnx : needO D nx + 2 ≤ k) (hs : OK D s) :
    OK D (executeDateTimeMethod c item s op arg nx v f).st := by
  unfold executeDateTimeMethod
  split
  · dsimp only
    split
    · ok_leaf
    · split
      · ok_leaf
      · split
        · ok_leaf
        · exact executeNextItem_ok c hI f hnx (fun _ => by simp [depth]) hs
  · ok_leaf

theorem kvStep_inv (hI : HI D item k) {nx : Option Node} (id : Int) (hnx : needO D nx + 2 ≤ k)
    (a : KVAcc) (kv : List Char × Item) (hkv : depth kv.2 + 1 ≤ D) (h : OK D (retSt a.ret a.st)) :
    OK D (retSt (kvStep c item nx id a kv).ret (kvStep c item nx id a kv).st) := by
  unfold kvStep
  split
  · exact h
  · rename_i hcond
    have hnone : a.ret = none := by cases hr : a.ret <;> simp_all
    simp only [hnone, retSt_none] at h
    have hr := executeNextItem_ok c hI (s := kvEnter c a.st (kvObj id kv)) (v := kvObj id kv) a.found hnx
      (fun _ => by rw [depth_kvObj]; omega) (by simpa [OK, kvEnter] using h)
    dsimp only
    ok_leaf

theorem executeKeyValueMethod_ok (hI : HI D item k) (hA : HA D any k) {s : St} {n : Node}
    {nx : Option Node} {v : Item} (f : Found) {unwrap : Bool} (hnx : needO D nx + 2 ≤ k)
    (hn : unwrap = true → need D n + 1 ≤ k) (hv : depth v ≤ D) (hs : OK D s) :
    OK D (executeKeyValueMethod c item any s n nx v f unwrap).st := by
  unfold executeKeyValueMethod
  split
  · split
    · rename_i hu
      exact unwrapTargetArray_ok hA f (hn hu) (depthL_of_arr hv) hs
    · ok_leaf
  · rename_i kvs
    split
    · ok_leaf
    · split
      · ok_leaf
      · dsimp only
        generalize hid : (_ : Int) + s.baseId * 10000000000 = id
        have hinv := foldl_inv_mem (fun a : KVAcc => OK D (retSt a.ret a.st)) (kvStep c item nx id) kvs
          ⟨s, f, .ok, none, false⟩ (by simpa using hs)
          (fun a kv hmem h => kvStep_inv c hI id hnx a kv
            (by have := depthM_mem hmem; simp only [depth] at hv; omega) h)
        try dsimp only at hinv
        split <;> ok_leaf
  · ok_leaf

theorem execMethodNode_ok (hI : HI D item k) (hA : HA D any k) {s : St} {n : Node} (m : Method)
    {nx : Option Node} {v : Item} (f : Found) {unwrap : Bool} (hnx : needO D nx + 2 ≤ k)
    (hn : unwrap = true → need D n + 1 ≤ k) (hv : depth v ≤ D) (hs : OK D s) :
    OK D (execMethodNode c item any s n m nx v f unwrap).st := by
  unfold execMethodNode
  cases m <;> simp only
  all_goals first
    | exact execConvMethod_ok c hI hA f (convNumber_scalar _) hnx hn hv hs
    | exact execConvMethod_ok c hI hA f (convNumericItem_scalar _) hnx hn hv hs
    | exact execConvMethod_ok c hI hA f convDouble_scalar hnx hn hv hs
    | exact execConvMethod_ok c hI hA f convInteger_scalar hnx hn hv hs
    | exact execConvMethod_ok c hI hA f convBigInt_scalar hnx hn hv hs
    | exact execConvMethod_ok c hI hA f convString_scalar hnx hn hv hs
    | exact execConvMethod_ok c hI hA f convBoolean_scalar hnx hn hv hs
    | exact executeNextItem_ok c hI f hnx (fun _ => by simp [depth]) hs
    | exact execMethodSize_ok c hI v f hnx hs
    | exact executeKeyValueMethod_ok c hI hA f hnx hn hv hs

/-! ### `.**` and the generic element loop -/

theorem depthL_collection (v : Item) : depthL ((collection v).getD []) ≤ depth v := by
  cases v <;> simp [collection, depth, depthL, depthL_members]

theorem anyVisit_inv (hI : HI D item k) {node : Option Node} (level first last : Nat) (ignore : Bool)
    {unwrapNext : Bool} (hreq : needO D node + bonus unwrapNext ≤ k) (a : AAcc) {v : Item} (hv : depth v ≤ D)
    (hnone : a.ret = none) (h : OK D a.st) :
    OK D (retSt (anyVisit item node level first last ignore unwrapNext a v).ret
      (anyVisit item node level first last ignore unwrapNext a v).st) := by
  unfold anyVisit
  split
  · split
    · rename_i n
      have hr := hI (if ignore then { a.st with ignoreSE := true } else a.st) n v a.found unwrapNext
        (by simpa [needO] using hreq) hv (by split <;> simpa [OK] using h)
      dsimp only
      ok_leaf
    · ok_leaf
  · ok_leaf

theorem anyDescend_inv (hA : HA D any k) {node : Option Node} {level : Nat} (first : Nat) {last : Nat}
    (ignore : Bool) {unwrapNext : Bool} {e : Nat} (hreq : needO D node + bonus unwrapNext + 1 + e ≤ k + 1)
    (a : AAcc) {v : Item} (hv : depth v ≤ D) (hdl : level < last → dl ((collection v).getD []) + 1 ≤ e)
    (hnone : a.ret = none) (h : OK D a.st) :
    OK D (retSt (anyDescend any node level first last ignore unwrapNext a v).ret
      (anyDescend any node level first last ignore unwrapNext a v).st) := by
  unfold anyDescend
  split
  · rename_i hlt
    have hr := hA a.st node ((collection v).getD []) a.found (level + 1) first last ignore unwrapNext (e - 1)
      (by have := hdl hlt; omega) (fun _ => by have := hdl hlt; omega)
      (Nat.le_trans (depthL_collection v) hv) h
    dsimp only
    ok_leaf
  · ok_leaf

theorem anyStep_inv (hI : HI D item k) (hA : HA D any k) {node : Option Node} {level : Nat} (first : Nat)
    {last : Nat} (ignore : Bool) {unwrapNext : Bool} {e : Nat}
    (hreq : needO D node + bonus unwrapNext + 1 + e ≤ k + 1) (a : AAcc) {v : Item} (hv : depth v ≤ D)
    (hdl : level < last → dl ((collection v).getD []) + 1 ≤ e) (h : OK D (retSt a.ret a.st)) :
    OK D (retSt (anyStep item any node level first last ignore unwrapNext a v).ret
      (anyStep item any node level first last ignore unwrapNext a v).st) := by
  unfold anyStep
  split
  · exact h
  · rename_i hnone
    simp only [hnone, retSt_none] at h
    have h1 := anyVisit_inv hI (node := node) level first last ignore (unwrapNext := unwrapNext) (by omega) a hv hnone h
    dsimp only
    split
    · exact h1
    · rename_i hnone1
      simp only [hnone1, retSt_none] at h1
      exact anyDescend_inv hA first ignore hreq _ hv hdl hnone1 h1

theorem executeAnyItem_ok (hI : HI D item k) (hA : HA D any k) {s : St} {node : Option Node}
    {vs : List Item} (f : Found) {level : Nat} (first : Nat) {last : Nat} (ignore : Bool) {unwrapNext : Bool}
    {e : Nat} (hreq : needO D node + bonus unwrapNext + 1 + e ≤ k + 1) (hdl : level < last → dl vs ≤ e)
    (hvs : depthL vs ≤ D) (hs : OK D s) :
    OK D (executeAnyItem item any s node vs f level first last ignore unwrapNext).st := by
  unfold executeAnyItem
  split
  · ok_leaf
  · dsimp only
    have hinv := foldl_inv_mem (fun a : AAcc => OK D (retSt a.ret a.st))
      (anyStep item any node level first last ignore unwrapNext) vs ⟨s, f, .notFound, none, none⟩
      (by simpa using hs)
      (fun a v hmem h => anyStep_inv hI hA first ignore hreq a (Nat.le_trans (depthL_mem hmem) hvs)
        (fun hlt => by have := dl_collection hmem; have := hdl hlt; omega) h)
    try dsimp only at hinv
    split <;> ok_leaf

theorem anyInto_ok (hA : HA D any k) {s : St} (first last : Nat) {nx : Option Node} {v : Item} (f : Found)
    (hnx : needO D nx + 3 + D ≤ k) (hv : depth v ≤ D) (hs : OK D s) :
    OK D (anyInto c any s first last nx v f).st := by
  unfold anyInto
  split
  · rename_i kvs
    refine hA _ _ _ _ _ _ _ _ _ (dl (members kvs)) ?_ (fun _ => Nat.le_refl _) (depthL_of_obj hv) hs
    have := dl_le (members kvs); rw [depthL_members] at this
    have := bonus_le c.lax
    simp only [depth] at hv; omega
  · rename_i xs
    refine hA _ _ _ _ _ _ _ _ _ (dl xs) ?_ (fun _ => Nat.le_refl _) (depthL_of_arr hv) hs
    have := dl_le xs
    have := bonus_le c.lax
    simp only [depth] at hv; omega
  · ok_leaf

theorem execAnyNode_ok (hI : HI D item k) (hA : HA D any k) {s : St} (first last : Nat) {nx : Option Node}
    {v : Item} (f : Found) (hnx : needO D nx + 3 + D ≤ k) (hv : depth v ≤ D) (hs : OK D s) :
    OK D (execAnyNode c item any s first last nx v f).st := by
  unfold execAnyNode
  split
  · have hr := executeNextItem_ok c hI (s := { s with ignoreSE := true }) (v := v) f (nx := nx) (by omega)
      (fun _ => hv) (by simpa [OK] using hs)
    generalize executeNextItem c item { s with ignoreSE := true } nx v f = r at hr
    dsimp only
    split
    · ok_leaf
    · have := anyInto_ok c hA first last r.found hnx hv hr
      ok_leaf
  · exact anyInto_ok c hA first last f hnx hv hs

/-! ### subscripts -/

theorem getArrayIndex_ok (hI : HI D item k) {s : St} {n : Node} {v : Item} (hn : need D n + 2 ≤ k)
    (hv : depth v ≤ D) (hs : OK D s) : OK D (getArrayIndex c item s n v).1 := by
  unfold getArrayIndex
  have := executeItem_ok c hI (some []) hn hv hs
  dsimp only
  ok_leaf

theorem execSubscript_ok (hI : HI D item k) {s : St} {sub : Node} {v : Item} (size : Int)
    (hsub : need D sub ≤ k + 2) (hv : depth v ≤ D) (hs : OK D s) : OK D (execSubscript c item s sub v size).1 := by
  unfold execSubscript
  split
  · rename_i l r _
    simp only [need, needO] at hsub
    have h1 := getArrayIndex_ok c hI (n := l) (by omega) hv hs
    split
    · rename_i s1 e heq
      rw [heq] at h1; exact h1
    · rename_i s1 from_ heq
      rw [heq] at h1
      cases r with
      | none => simp only; ok_leaf
      | some rn =>
        simp only [needO] at hsub
        have h2 := getArrayIndex_ok c hI (s := s1) (n := rn) (by omega) hv h1
        simp only
        ok_leaf
  · ok_leaf
  · ok_leaf

theorem indexElemStep_inv (hI : HI D item k) {nx : Option Node} (hnx : needO D nx + 2 ≤ k) (a : IAcc)
    {v : Item} (hv : depth v ≤ D) (h : OK D (retSt a.ret a.st)) :
    OK D (retSt (indexElemStep c item nx a v).ret (indexElemStep c item nx a v).st) := by
  unfold indexElemStep
  split
  · exact h
  · rename_i hsome
    have hnone : a.ret = none := by cases hr : a.ret <;> simp_all
    simp only [hnone, retSt_none] at h
    split
    · simpa [hnone] using h
    · split
      · ok_leaf
      · have hr := executeNextItem_ok c hI a.found hnx (fun _ => hv) h
        dsimp only
        ok_leaf

theorem indexSubStep_inv (hI : HI D item k) {nx : Option Node} (hnx : needO D nx + 2 ≤ k) {xs : List Item}
    (hxs : depthL xs ≤ D) {v : Item} (hv : depth v ≤ D) (a : IAcc) {sub : Node} (hsub : need D sub ≤ k + 2)
    (h : OK D (retSt a.ret a.st)) :
    OK D (retSt (indexSubStep c item nx xs v a sub).ret (indexSubStep c item nx xs v a sub).st) := by
  unfold indexSubStep
  split
  · exact h
  · rename_i hsome
    have hnone : a.ret = none := by cases hr : a.ret <;> simp_all
    simp only [hnone, retSt_none] at h
    have h1 := execSubscript_ok c hI (xs.length : Int) hsub hv h
    split
    · rename_i s1 e heq
      rw [heq] at h1
      ok_leaf
    · rename_i s1 from_ to_ heq
      rw [heq] at h1
      have hinv := foldl_inv_mem (fun a' : IAcc => OK D (retSt a'.ret a'.st)) (indexElemStep c item nx)
        (sliceRange xs from_ to_) { a with st := s1 } (by simpa [hnone] using h1)
        (fun a' v' hmem h' => indexElemStep_inv c hI hnx a'
          (Nat.le_trans (depthL_mem (mem_sliceRange hmem)) hxs) h')
      exact hinv

theorem execArrayIndex_ok (hI : HI D item k) {s : St} {subs : List Node} {nx : Option Node} {v : Item}
    (f : Found) (hsubs : needL D subs ≤ k + 2) (hnx : needO D nx + 2 ≤ k) (hv : depth v ≤ D) (hs : OK D s) :
    OK D (execArrayIndex c item s subs nx v f).st := by
  unfold execArrayIndex
  split
  · ok_leaf
  · rename_i xs hxs
    dsimp only
    have hinv := foldl_inv_mem (fun a : IAcc => OK D (retSt a.ret a.st)) (indexSubStep c item nx xs v) subs
      ⟨{ s with innermost := xs.length }, f, .notFound, none, none⟩ (by simpa [OK] using hs)
      (fun a sub hmem h => indexSubStep_inv c hI hnx (Nat.le_trans (depthL_arrayOf hxs) hv) hv a
        (Nat.le_trans (needL_mem D hmem) hsubs) h)
    try dsimp only at hinv
    split <;> ok_leaf

/-! ### node dispatch -/

theorem execBinaryNode_ok (hI : HI D item k) (hB : HB D bool k) (hA : HA D any k) {s : St} {n : Node}
    (op : BinOp) {l r nx : Option Node} {v : Item} (f : Found) {unwrap : Bool} (hn : need D n ≤ k + 1)
    (hu : unwrap = true → need D n + 1 ≤ k) (hl : needO D l + 2 ≤ k) (hr : needO D r + 2 ≤ k)
    (hnx : needO D nx + 2 ≤ k) (hv : depth v ≤ D) (hs : OK D s) :
    OK D (execBinaryNode c item bool any s n op l r nx v f unwrap).st := by
  unfold execBinaryNode
  split
  · exact appendBoolResult_ok c hI f hnx (hB _ _ _ _ hn hv hs)
  · split
    · exact execBinaryMathExpr_ok c hI op f hl hr hnx hv hs
    · split
      · exact execConvMethod_ok c hI hA f (convNumber_scalar _) hnx hu hv hs
      · ok_leaf

theorem execUnaryNode_ok (hI : HI D item k) (hB : HB D bool k) (hA : HA D any k) {s : St} {n : Node}
    (op : UnOp) {x nx : Option Node} {v : Item} (f : Found) {unwrap : Bool} (hn : need D n ≤ k + 1)
    (hu : unwrap = true → need D n + 1 ≤ k) (hx : needO D x + 2 ≤ k) (hnx : needO D nx + 2 ≤ k)
    (hv : depth v ≤ D) (hs : OK D s) : OK D (execUnaryNode c item bool any s n op x nx v f unwrap).st := by
  unfold execUnaryNode
  split
  · exact appendBoolResult_ok c hI f hnx (hB _ _ _ _ hn hv hs)
  · exact appendBoolResult_ok c hI f hnx (hB _ _ _ _ hn hv hs)
  · exact appendBoolResult_ok c hI f hnx (hB _ _ _ _ hn hv hs)
  · split
    · exact unwrapTargetArray_ok hA f (hu rfl) (depthL_of_arr hv) hs
    · split
      · ok_leaf
      · rename_i cond
        have hp := executeNestedBoolItem_ok (bool := bool) (n := cond) hB (by simp only [needO] at hx; omega) hv hs
        dsimp only
        split
        · ok_leaf
        · split
          · ok_leaf
          · exact executeNextItem_ok c hI f hnx (fun _ => hv) hp
  · exact execUnaryMathExpr_ok c hI _ f hx hnx hv hs
  · exact execUnaryMathExpr_ok c hI _ f hx hnx hv hs
  · split
    · exact hA _ _ _ _ _ _ _ _ _ 0 (by have := hu rfl; simpa [needO] using this) (by omega) (depthL_of_arr hv) hs
    · exact executeDateTimeMethod_ok c hI op x v f hnx hs

theorem dispatch_ok (hc : CtxOK D c) (hI : HI D item k) (hB : HB D bool k) (hA : HA D any k) {s : St}
    {n : Node} {v : Item} (f : Found) {unwrap : Bool} (hn : need D n + bonus unwrap ≤ k + 1)
    (hv : depth v ≤ D) (hs : OK D s) : OK D (dispatch c item bool any s n v f unwrap).st := by
  have hn1 : need D n ≤ k + 1 := by omega
  have hu : unwrap = true → need D n + 1 ≤ k := by intro h; subst h; simp at hn; omega
  clear hn
  unfold dispatch
  split
  · simp only [need] at hn1
    exact execConstNode_ok c hc hI hA _ f (by omega) hu hv hs
  · simp only [need] at hn1
    exact execLiteral_ok c hI f (by omega) (by simp [depth]) hs
  · simp only [need] at hn1
    exact execLiteral_ok c hI f (by omega) (by simp [depth]) hs
  · simp only [need] at hn1
    exact execLiteral_ok c hI f (by omega) (by simp [depth]) hs
  · simp only [need] at hn1
    exact execVariable_ok c hc hI _ f (by omega) hs
  · simp only [need] at hn1
    exact execKeyNode_ok c hI hA _ f (by omega) hu hv hs
  · have hn1' := hn1
    simp only [need] at hn1'
    exact execBinaryNode_ok c hI hB hA _ f hn1 hu (by omega) (by omega) (by omega) hv hs
  · have hn1' := hn1
    simp only [need] at hn1'
    exact execUnaryNode_ok c hI hB hA _ f hn1 hu (by omega) (by omega) hv hs
  · have hn1' := hn1
    simp only [need] at hn1'
    exact appendBoolResult_ok c hI f (by omega) (hB _ _ _ _ hn1 hv hs)
  · simp only [need] at hn1
    exact execMethodNode_ok c hI hA _ f (by omega) hu hv hs
  · simp only [need] at hn1
    exact execAnyNode_ok c hI hA _ _ f (by omega) hv hs
  · simp only [need] at hn1
    exact execArrayIndex_ok c hI f (by omega) (by omega) hv hs

end

/-! ## induction over the fuel -/

theorem adequate_all {D : Nat} (c : Ctx) (hc : CtxOK D c) : ∀ k : Nat,
    HI D (xItem c k) k ∧ HB D (xBool c k) k ∧ HA D (xAny c k) k := by
  intro k
  induction k with
  | zero =>
    refine ⟨fun s n v f u hn => ?_, fun s n v b hn => ?_, fun s node vs f l a b i u e hn => ?_⟩
    · have := need_pos D n; omega
    · have := need_pos D n; omega
    · omega
  | succ k ih =>
    obtain ⟨hI, hB, hA⟩ := ih
    refine ⟨fun s n v f u hn hv hs => ?_, fun s n v b hn hv hs => ?_,
      fun s node vs f l a b i u e hn hdl hvs hs => ?_⟩
    · simp only [xItem]
      split
      · ok_leaf
      · rename_i s' hpoll
        have hs' : OK D s' := by
          unfold poll at hpoll
          split at hpoll
          · simp at hpoll; subst hpoll; exact hs
          · simp at hpoll
          · simp at hpoll; subst hpoll; simpa [OK] using hs
        exact dispatch_ok c hc hI hB hA f hn hv hs'
    · simp only [xBool]; exact executeBoolItem_ok c hI hB b hn hv hs
    · simp only [xAny]; exact executeAnyItem_ok hI hA f a i hn hdl hvs hs

/-- **fuel adequacy of the dispatcher**: with `need D node + 2` units of fuel, a run over items of depth at
    most `D` does not run out -/
theorem xItem_adequate {D : Nat} (c : Ctx) (hc : CtxOK D c) (fuel : Nat) (s : St) (node : Node) (v : Item)
    (f : Found) (u : Bool) (hfuel : need D node + 2 ≤ fuel) (hv : depth v ≤ D) (hcur : depth s.current ≤ D)
    (hs : s.oof = false) : (xItem c fuel s node v f u).st.oof = false :=
  ((adequate_all c hc fuel).1 s node v f u (by have := bonus_le u; omega) hv ⟨hs, hcur⟩).1

end Fuel
end Exec
end Sqljson

/-! ## `exec.query` and the entry-point runs -/

namespace Sqljson
namespace Api
namespace Fuel
open Exec Exec.Fuel

theorem query_sim (c : Ctx) (n m : Nat) (h : n ≤ m) (s : St) (nd : Node) (v : Item) (f : Found) :
    Sim s.oof (query c n s nd v f) (query c m s nd v f) := by
  unfold query
  split
  · dsimp only
    fuel_call (executeItem_sim c (sim_all c n m h).1 s nd v (some [])) with r
    fuel_refl
  · exact executeItem_sim c (sim_all c n m h).1 _ _ _ _

theorem query_mono (c : Ctx) (n m : Nat) (h : n ≤ m) (s : St) (nd : Node) (v : Item) (f : Found) :
    (query c n s nd v f).st.oof = false → query c m s nd v f = query c n s nd v f :=
  fun ho => (query_sim c n m h s nd v f ho).2

theorem query_oof_sticky (c : Ctx) (n : Nat) (s : St) (nd : Node) (v : Item) (f : Found) :
    (query c n s nd v f).st.oof = false → s.oof = false :=
  fun ho => (query_sim c n n (Nat.le_refl n) s nd v f ho).1

theorem guarded_finished {r : Res} {k : Outcome} (h : guarded r k ≠ .outOfFuel) : r.st.oof = false := by
  unfold guarded at h
  cases ho : r.st.oof with
  | false => rfl
  | true => simp [ho] at h

theorem guarded_outOfFuel_iff {r : Res} {k : Outcome} (hk : k ≠ .outOfFuel) :
    guarded r k = .outOfFuel ↔ r.st.oof = true := by
  unfold guarded
  cases ho : r.st.oof with
  | false => simp; split <;> simp [hk]
  | true => simp


/-! ### adequacy at the entry points -/

/-- depth bound of everything a run can see: the document and the variable values -/
def docDepth (doc : Item) (o : Opts) : Nat := max (depth doc) (depthM (o.vars.getD []))

theorem mkCtx_ok (a : AST) (doc : Item) (o : Opts) : CtxOK (docDepth doc o) (mkCtx a doc o) := by
  refine ⟨?_, fun name val h => ?_⟩
  · simp only [mkCtx, docDepth]; omega
  · simp only [mkCtx] at h
    cases hv : o.vars with
    | none => simp [hv] at h
    | some kvs =>
      simp only [hv, Option.bind_some] at h
      have := depth_lookup h
      simp only [docDepth, hv, Option.getD_some]; omega

theorem initSt_ok (a : AST) (doc : Item) (o : Opts) : OK (docDepth doc o) (initSt a doc o) := by
  refine ⟨rfl, ?_⟩
  simp only [initSt, docDepth]; omega

theorem query_adequate {D : Nat} (c : Ctx) (hc : CtxOK D c) (fuel : Nat) {s : St} {nd : Node} {v : Item}
    (f : Found) (hfuel : need D nd + 2 ≤ fuel) (hv : depth v ≤ D) (hs : OK D s) :
    OK D (query c fuel s nd v f).st := by
  unfold query
  have hI := (adequate_all c hc fuel).1
  split
  · have := executeItem_ok c hI (some []) hfuel hv hs
    dsimp only
    ok_leaf
  · exact executeItem_ok c hI f hfuel hv hs

end Fuel
end Api
end Sqljson
